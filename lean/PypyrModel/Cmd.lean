/-
  Model of pypyr's command steps (C17).

  Mirrors, as the code is now:
    * `pypyr.steps.dsl.cmd.CmdStep.__init__ / create_command`, `pypyr.steps.dsl.cmdasync.AsyncCmdStep.
      __init__ / create_command`, `pypyr.subproc.Command.__init__`, `pypyr.aio.subproc.Command.__init__`:
      the map from the step's configuration (str | map | list | nested list; `run`, `save`, `cwd`, `bytes`,
      `encoding`, `stdout`, `stderr`, `append`, `shell`) to the list of `Command` objects, incl. the
      `ContextError` branches — §0 `parseCmdConfig`.
    * `pypyr.subproc.Command.run/_run/output_handles`, `CmdStep.run_step` (steps `cmd`, `shell`): the
      serial loop — §1.
    * `pypyr.aio.subproc.Command.run/_run/_spawn/parse_results/output_handles`,
      `pypyr.aio.subproc.Commands.run/_run`, `AsyncCmdStep.run_step` (steps `cmds`, `shells`): concurrent
      lanes, serial sub-lists, aggregation — §2.

  A command is *scripted*: it has an identity and one of these kinds of outcome:
    * it cannot be started at all (`spawn = some k`): `shlex.split` / `subprocess.run` /
      `asyncio.create_subprocess_*` raises (`FileNotFoundError`: no such executable or no such `cwd`;
      `PermissionError`: file not executable; `ValueError`: the instruction cannot be split into
      arguments) — no process exists, nothing is written;
    * it runs and exits with status `code : Int`: `0`, a positive exit code, or a **negative** one
      (`-N`: killed by signal `N`), having written the bytes `out` / `err` (shown as text: one character
      per byte, latin-1);
    * it runs and exits with status `code`, but what it wrote **cannot be decoded** under the encoding of
      the command it belongs to (`decodeFails`): where the code decodes captured output (`save` in text
      mode) the decoding raises `UnicodeDecodeError` *after* the process has run and *before* a result
      exists — neither an exit status nor a spawn error.
  The output handles of a command (`stdout:` / `stderr:` files) are scripted too: opening them works, or
  raises (`openErr`: the path is a directory / its parent is a file).
  The operating system's scheduling of the concurrent steps is an explicit input: a *schedule*
  (a list of lane indices; entry `i` means "the process lane `i` is currently running exits now").

  **Identity.** `Proc.id` names the *content* of an instruction (its instruction string), not a position:
  the configuration may hold one instruction any number of times — the same string as two top-level
  entries, the same serial sub-list twice, the same map twice (a yaml alias), the same string several
  times inside one `run` list — and `World.proc` gives every occurrence one and the same scripted
  outcome. Nothing in this file (parser, runs, `flattenSpec` / `lanesSpec`) looks at equality between
  commands: a declared occurrence is a *position* of a list, and every list here is mapped / flat-mapped,
  never de-duplicated. Observations are therefore lists with repetitions (`started`, `errors`, `trace`: an
  id occurs once per process); no definition or theorem assumes distinct ids, with one exception that the
  driver enforces instead: `filesAsync` resolves a finished process by its id (`writerOf`).

  Not modelled: *where* a spawn error comes from (executable, cwd, quoting) is the harness's business —
  the model only needs its kind; `\r` in text output (universal-newline translation of `subprocess`).

  No imports beyond `Val`: the driver must link.
-/
import PypyrModel.Val

namespace Pypyr.Cmd

/-- Why a command could not be started (the exception type raised by the spawn call). -/
inductive SpawnKind where
  | notFound      -- FileNotFoundError (executable or cwd missing)
  | permission    -- PermissionError (not executable)
  | badArgs       -- ValueError out of shlex.split (no closing quotation)
  deriving Repr, DecidableEq, Inhabited

/-- Why an output file could not be opened (`output_handles`). -/
inductive OpenKind where
  | isDir         -- IsADirectoryError out of `open(path, 'wb')`
  | parentFile    -- FileExistsError out of `Path(path).parent.mkdir(parents=True, exist_ok=True)`
  deriving Repr, DecidableEq, Inhabited

/-- One scripted instruction (one `subprocess.run` / `create_subprocess_*`).
    `code`, `out`, `err`, `decodeFails` mean something only when `spawn = none`.
    `decodeFails`: the bytes written are not valid text under the encoding of the command this
    instruction belongs to. -/
structure Proc where
  id    : Nat
  spawn : Option SpawnKind
  code  : Int
  out   : String
  err   : String
  decodeFails : Bool
  deriving Repr, DecidableEq, Inhabited

/-- A process existed. -/
def Proc.ran (p : Proc) : Bool := p.spawn.isNone

/-- The process ran, and the loop it belongs to does not go on after it: its exit status is non-zero
    (`if result.returncode:` / `check_returncode()` — positive **or negative**), or — where the
    command decodes what it captured (`dec`) — its output cannot be decoded (the exception leaves
    the loop). -/
def Proc.halts (dec : Bool) (p : Proc) : Bool := p.code != 0 || (dec && p.decodeFails)

/-- The serial loop this instruction belongs to does not go on after it: it could not be started,
    or it `halts`. `dec`: the command it belongs to decodes captured output. -/
def Proc.stops (dec : Bool) (p : Proc) : Bool := p.spawn.isSome || p.halts dec

/-- What `SubprocessResult.stdout` / `.stderr` can hold. -/
inductive Out where
  | none
  | text (s : String)
  | bytes (s : String)
  deriving Repr, DecidableEq, Inhabited

/-- `pypyr.subproc.SubprocessResult` (the `cmd` it carries is identified by `id`). -/
structure Result where
  id     : Nat
  code   : Int
  stdout : Out
  stderr : Out
  deriving Repr, DecidableEq, Inhabited

/-- The error a failed command gives rise to.
    `exit`: `subprocess.CalledProcessError` (serial steps) or `pypyr.errors.SubprocessError` (inside the
    `MultiError` of the concurrent steps); both carry the command and its return code.
    `spawn`: the `OSError` / `ValueError` of a command that could not be started, as raised.
    `decode`: the `UnicodeDecodeError` raised when the captured output of a command that *ran* is decoded
    (it carries neither the command nor its return code).
    `openOut`: the `OSError` of an output file that cannot be opened. -/
inductive CmdErr where
  | exit (id : Nat) (code : Int)
  | spawn (id : Nat) (kind : SpawnKind)
  | decode (id : Nat)
  | openOut (path : String) (kind : OpenKind)
  deriving Repr, DecidableEq, Inhabited

/-- The error of an instruction that `stops`: the spawn error; else the decode error (it is raised
    before the return code is looked at); else the exit status. -/
def Proc.error (dec : Bool) (p : Proc) : CmdErr :=
  match p.spawn with
  | some k => .spawn p.id k
  | none => if dec && p.decodeFails then .decode p.id else .exit p.id p.code

def isWs (c : Char) : Bool :=
  c == ' ' || c == '\n' || c == '\t' || c == '\r' || c == '\x0b' || c == '\x0c'

/-- `str.rstrip()` on text without the non-ASCII white space characters. -/
def rstrip (s : String) : String :=
  String.ofList (s.toList.reverse.dropWhile isWs).reverse

/-! ## Output handles -/

/-- What `stdout:` / `stderr:` of a command says (after `output_handles` has looked at it). -/
inductive Target where
  | inherit                 -- `None` / falsy: the parent's handle
  | devnull                 -- '/dev/null' → `subprocess.DEVNULL`
  | toStdout                -- stderr only: '/dev/stdout' → `subprocess.STDOUT`
  | file (path : String)    -- by elimination a path: opened 'wb' / 'ab'
  deriving Repr, DecidableEq, Inhabited

/-- The output settings of one `Command`, and the scripted outcome of opening them:
    `openErr = some (isStderr, k)`: opening that handle raises. -/
structure Redirect where
  stdout  : Target := .inherit
  stderr  : Target := .inherit
  append  : Bool := false
  openErr : Option (Bool × OpenKind) := none
  deriving Repr, DecidableEq, Inhabited

/-- The exception out of `with self.output_handles()`, if any (only a file can fail to open). -/
def Redirect.openError (r : Redirect) : Option CmdErr :=
  match r.openErr with
  | none => none
  | some (false, k) => match r.stdout with
    | .file p => some (.openOut p k)
    | _ => none
  | some (true, k) => match r.stderr with
    | .file p => some (.openOut p k)
    | _ => none

/-- File contents by path (absent: no such file). -/
abbrev Fs := List (String × String)

def Fs.get (fs : Fs) (p : String) : Option String :=
  match fs with
  | [] => none
  | (q, s) :: rest => if q = p then some s else Fs.get rest p

def Fs.set (fs : Fs) (p s : String) : Fs :=
  match fs with
  | [] => [(p, s)]
  | (q, t) :: rest => if q = p then (p, s) :: rest else (q, t) :: Fs.set rest p s

/-- `open(path, 'ab' if append else 'wb')`: created if missing, emptied unless appending. -/
def Fs.openW (fs : Fs) (append : Bool) (p : String) : Fs :=
  if append then (match fs.get p with | some _ => fs | none => fs.set p "") else fs.set p ""

def Fs.write (fs : Fs) (p s : String) : Fs := fs.set p ((fs.get p).getD "" ++ s)

/-- What entering `output_handles` does to the files: stdout is opened first, then stderr; when
    stdout cannot be opened nothing has happened, when stderr cannot be opened stdout *has* been
    opened (created / emptied) and is closed again. -/
def Redirect.openFs (r : Redirect) (fs : Fs) : Fs :=
  match r.openErr with
  | some (false, _) => fs
  | oe =>
    let fs1 := match r.stdout with
      | .file p => fs.openW r.append p
      | _ => fs
    match oe with
    | some _ => fs1
    | none => match r.stderr with
      | .file p => fs1.openW r.append p
      | _ => fs1

/-- A process that ran writes `out`, then `err`, to its handles. -/
def Redirect.writeProc (r : Redirect) (p : Proc) (fs : Fs) : Fs :=
  let fs1 := match r.stdout with
    | .file q => fs.write q p.out
    | _ => fs
  match r.stderr, r.stdout with
  | .file q, _ => fs1.write q p.err
  | .toStdout, .file q => fs1.write q p.err
  | _, _ => fs1

/-! ## 1. Serial steps: `cmd`, `shell` -/

/-- `pypyr.subproc.Command`: `cmd` is one instruction or a list of them; `save`/`text`
    as computed by `CmdStep.create_command` (`is_text = not bytes if save else False`); `enc`: an
    encoding is in force (`encoding:` truthy, or `config.default_cmd_encoding` set) — `subprocess.run(
    encoding=…)` then works in text mode **even when `text=False`** (`bytes: True`); `redir`: its
    output handles (`Command.__init__` refuses them together with `save`). -/
structure SCommand where
  run   : List Proc
  save  : Bool
  text  : Bool
  enc   : Bool := false
  redir : Redirect := {}
  deriving Repr, DecidableEq, Inhabited

/-- Does `subprocess.run` decode what it captured? (`Popen.text_mode = encoding or errors or text`). -/
def syncDec (save text enc : Bool) : Bool := save && (text || enc)

def SCommand.dec (c : SCommand) : Bool := syncDec c.save c.text c.enc

/-- The `SubprocessResult` built in `pypyr.subproc.Command._run` (save branch):
    `capture_output=True`; in text mode a non-empty stream is `rstrip`ped, an empty one stays `''`;
    in bytes mode with an encoding the decoded text as it is; in bytes mode the raw bytes. -/
def mkResultSync (text enc : Bool) (p : Proc) : Result :=
  if text then
    ⟨p.id, p.code, .text (if p.out = "" then "" else rstrip p.out),
                   .text (if p.err = "" then "" else rstrip p.err)⟩
  else if enc then ⟨p.id, p.code, .text p.out, .text p.err⟩
  else ⟨p.id, p.code, .bytes p.out, .bytes p.err⟩

/-- Accumulated effect of running some instructions serially. -/
structure Acc where
  started : List Nat := []
  results : List Result := []
  err     : Option CmdErr := none
  deriving Repr, DecidableEq, Inhabited

/-- `for c in cmd: self._run(c)` of `pypyr.subproc.Command.run`, with `_run` inlined:
    `shlex.split` / `subprocess.run` raises when the instruction cannot be started (nothing started,
    nothing appended, the exception leaves the loop); otherwise the process *starts* and runs to its
    end; with `save`, `subprocess.run` decodes what it captured when in text mode — **that raises
    `UnicodeDecodeError` for undecodable output: the process ran, nothing is appended, the exception
    leaves the loop** —, the result is appended **before** `check_returncode()`, which raises on a
    non-zero status — positive or negative — (and leaves the loop). -/
def runProcs (save text enc : Bool) : List Proc → Acc
  | [] => {}
  | p :: ps =>
    match p.spawn with
    | some k => { started := [], results := [], err := some (.spawn p.id k) }
    | none =>
      if syncDec save text enc && p.decodeFails then
        { started := [p.id], results := [], err := some (.decode p.id) }
      else
        let r := if save then [mkResultSync text enc p] else []
        if p.code ≠ 0 then { started := [p.id], results := r, err := some (.exit p.id p.code) }
        else
          let rest := runProcs save text enc ps
          { started := p.id :: rest.started, results := r ++ rest.results, err := rest.err }

/-- `Command.run`: `with self.output_handles() as (stdout, stderr):` — an output file that cannot be
    opened raises before anything is started — then the loop. -/
def SCommand.exec (c : SCommand) : Acc :=
  match c.redir.openError with
  | some e => { started := [], results := [], err := some e }
  | none => runProcs c.save c.text c.enc c.run

/-- The loop of `CmdStep.run_step`: `for cmd in self.commands: try: cmd.run()
    finally: results.extend(cmd.results)` — *any* exception leaves the loop after the `finally`. -/
def runCommands : List SCommand → Acc
  | [] => {}
  | c :: cs =>
    let a := c.exec
    match a.err with
    | some _ => a
    | none =>
      let rest := runCommands cs
      { started := a.started ++ rest.started, results := a.results ++ rest.results, err := rest.err }

/-- What the outer `finally` of `CmdStep.run_step` writes to `context['cmdOut']`:
    **nothing** when there are no results (`if results:`), the object itself for one result, else
    the list. -/
inductive CmdOut where
  | unset
  | single (r : Result)
  | many (rs : List Result)
  deriving Repr, DecidableEq, Inhabited

def cmdOutOf : List Result → CmdOut
  | [] => .unset
  | [r] => .single r
  | rs => .many rs

structure SerialObs where
  started : List Nat
  err     : Option CmdErr
  results : List Result
  cmdOut  : CmdOut
  deriving Repr, DecidableEq, Inhabited

/-- `CmdStep.run_step`. -/
def runSerial (cs : List SCommand) : SerialObs :=
  let a := runCommands cs
  { started := a.started, err := a.err, results := a.results, cmdOut := cmdOutOf a.results }

/-- `context['cmdOut']` once the step is over. -/
inductive CtxCmdOut where
  | prior (v : Option Val)      -- what the context held before the step (`none`: no such key): not written
  | single (r : Result)
  | many (rs : List Result)
  deriving Repr, DecidableEq, Inhabited

/-- `context['cmdOut']` after `CmdStep.run_step` on a context whose `cmdOut` was `prev`: the step writes
    only `if results` — otherwise **what an earlier step left there survives**. -/
def cmdOutAfter (prev : Option Val) (cs : List SCommand) : CtxCmdOut :=
  match (runSerial cs).cmdOut with
  | .unset => .prior prev
  | .single r => .single r
  | .many rs => .many rs

/-! ### Declarative vocabulary for the serial theorems -/

/-- An instruction together with the settings of the command it belongs to. -/
structure Decl where
  proc : Proc
  save : Bool
  text : Bool
  enc  : Bool
  deriving Repr, DecidableEq, Inhabited

/-- The command of this instruction decodes what it captures. -/
def Decl.dec (d : Decl) : Bool := syncDec d.save d.text d.enc

/-- The output of this instruction is captured, decoded, and cannot be. -/
def Decl.undec (d : Decl) : Bool := d.dec && d.proc.decodeFails

def Decl.stops (d : Decl) : Bool := d.proc.stops d.dec

def Decl.error (d : Decl) : CmdErr := d.proc.error d.dec

/-- All instructions of the step in declaration order. -/
def declsOf : List SCommand → List Decl
  | [] => []
  | c :: cs => c.run.map (fun p => ⟨p, c.save, c.text, c.enc⟩) ++ declsOf cs

/-- The instructions *attempted*: declaration prefix up to **and including** the first one that
    `stops` (non-zero exit status, undecodable captured output, or cannot be started). -/
def takeThrough (dec : Bool) : List Proc → List Proc
  | [] => []
  | p :: ps => if p.stops dec then [p] else p :: takeThrough dec ps

/-- The same on declarations. -/
def takeThroughD : List Decl → List Decl
  | [] => []
  | d :: ds => if d.stops then [d] else d :: takeThroughD ds

/-- The declarations whose process existed: the attempted ones that could be started
    (only the last attempted one can be unstartable). -/
def ranD (ds : List Decl) : List Decl := (takeThroughD ds).filter (·.proc.ran)

/-- The instructions of a lane whose process existed. -/
def ranP (dec : Bool) (ps : List Proc) : List Proc := (takeThrough dec ps).filter Proc.ran

/-- The error of the first instruction that `stops`. -/
def firstFail (dec : Bool) : List Proc → Option CmdErr
  | [] => none
  | p :: ps => if p.stops dec then some (p.error dec) else firstFail dec ps

/-- The first command whose output handles cannot be opened, with the commands before it. -/
def splitAtOpenFail : List SCommand → List SCommand × Option (CmdErr × List SCommand)
  | [] => ([], none)
  | c :: cs =>
    match c.redir.openError with
    | some e => ([], some (e, cs))
    | none => let r := splitAtOpenFail cs; (c :: r.1, r.2)

/-- The files once the serial step is over: every command opens its handles (in turn), the processes
    that existed write to them; the loop ends with the first command that fails. -/
def filesSerial : List SCommand → Fs → Fs
  | [], fs => fs
  | c :: cs, fs =>
    match c.redir.openError with
    | some _ => c.redir.openFs fs
    | none =>
      let fs1 := (ranP c.dec c.run).foldl (fun f p => c.redir.writeProc p f) (c.redir.openFs fs)
      match c.exec.err with
      | some _ => fs1
      | none => filesSerial cs fs1

/-! ## 2. Concurrent steps: `cmds`, `shells` -/

/-- One element of a `run:` list of `pypyr.aio.subproc.Command`: an instruction, or a
    sub-list that `_run` executes serially (breaking at the first non-zero status; an exception out
    of `_spawn` — the command cannot be started, **or its output cannot be decoded** — is appended to
    the sub-list's results and ends it). -/
inductive Entry where
  | one (p : Proc)
  | serial (ps : List Proc)
  deriving Repr, DecidableEq, Inhabited

/-- `Command.cmd`: a single instruction (`_results.append(result)`) or a list whose
    elements are gathered concurrently (`_results.extend(results)`). -/
inductive ARun where
  | single (p : Proc)
  | many (es : List Entry)
  deriving Repr, DecidableEq, Inhabited

structure ACommand where
  run   : ARun
  save  : Bool
  text  : Bool
  redir : Redirect := {}
  deriving Repr, DecidableEq, Inhabited

/-- `_spawn` decodes only `if self.is_save: if self.is_text:` (an `encoding` alone does not). -/
def ACommand.dec (c : ACommand) : Bool := c.save && c.text

/-- The `SubprocessResult` built in `pypyr.aio.subproc.Command._spawn`: streams are piped only
    with `save` (otherwise `communicate()` gives `None`); with `save` and text a **non-empty**
    stream is decoded and `rstrip`ped, an empty one stays the empty *bytes* object. -/
def mkResultAsync (save text : Bool) (p : Proc) : Result :=
  if save then
    if text then
      ⟨p.id, p.code, (if p.out = "" then .bytes "" else .text (rstrip p.out)),
                     (if p.err = "" then .bytes "" else .text (rstrip p.err))⟩
    else ⟨p.id, p.code, .bytes p.out, .bytes p.err⟩
  else ⟨p.id, p.code, .none, .none⟩

/-- A lane: one unit of concurrency (a coroutine `Command._run(c)`): the instructions dealt with
    (the processes that finished and, last, the one that could not be started), the process running,
    the instructions not reached; `dec`: its command decodes captured output.
    Invariant of every reachable lane: the running one is startable (`Lane.wf`). -/
structure Lane where
  done : List Proc
  cur  : Option Proc
  todo : List Proc
  dec  : Bool
  deriving Repr, DecidableEq, Inhabited

/-- `await self._spawn(next instruction)`: when it cannot be started the exception ends the coroutine
    (`results.append(ex)` in a sub-list; `return_exceptions=True` / `result = ex` otherwise) —
    recorded in `done`, nothing after it is reached; otherwise it is now running. -/
def launch (dec : Bool) (done : List Proc) : List Proc → Lane
  | [] => ⟨done, none, [], dec⟩
  | q :: qs =>
    match q.spawn with
    | some _ => ⟨done ++ [q], none, qs, dec⟩
    | none => ⟨done, some q, qs, dec⟩

/-- A coroutine at its first suspension point: the first process is running (if it could be started). -/
def Lane.start (dec : Bool) (ps : List Proc) : Lane := launch dec [] ps

inductive Event where
  | start (id : Nat)
  | fin (id : Nat)
  deriving Repr, DecidableEq, Inhabited

/-- The running process of the lane exits: `_spawn` decodes its output (**raising** when it cannot be
    decoded: the coroutine / sub-list ends with that exception), `results.append(result)`, then
    `if result.returncode: break` (any non-zero status, negative included), else the next
    instruction of the sub-list is spawned. -/
def Lane.complete (l : Lane) : Lane :=
  match l.cur with
  | none => l
  | some p =>
    if p.halts l.dec then ⟨l.done ++ [p], none, l.todo, l.dec⟩
    else launch l.dec (l.done ++ [p]) l.todo

/-- Start event of the next instruction, if it can be started (an unstartable one leaves no trace). -/
def launchEvents : List Proc → List Event
  | [] => []
  | q :: _ => if q.spawn.isSome then [] else [.start q.id]

/-- Events caused by that exit. -/
def Lane.completeEvents (l : Lane) : List Event :=
  match l.cur with
  | none => []
  | some p =>
    if p.halts l.dec then [.fin p.id]
    else .fin p.id :: launchEvents l.todo

/-- Let the lane run to its end (every running process exits as soon as it is running). -/
def drainFrom (dec : Bool) (done : List Proc) : Option Proc → List Proc → Lane
  | none, todo => ⟨done, none, todo, dec⟩
  | some p, [] => ⟨done ++ [p], none, [], dec⟩
  | some p, q :: qs =>
    if p.halts dec then ⟨done ++ [p], none, q :: qs, dec⟩
    else match q.spawn with
      | some _ => ⟨done ++ [p] ++ [q], none, qs, dec⟩
      | none => drainFrom dec (done ++ [p]) (some q) qs

def Lane.drain (l : Lane) : Lane := drainFrom l.dec l.done l.cur l.todo

def drainEventsFrom (dec : Bool) : Option Proc → List Proc → List Event
  | none, _ => []
  | some p, [] => [.fin p.id]
  | some p, q :: qs =>
    if p.halts dec then [.fin p.id]
    else match q.spawn with
      | some _ => [.fin p.id]
      | none => .fin p.id :: .start q.id :: drainEventsFrom dec (some q) qs

def Lane.drainEvents (l : Lane) : List Event := drainEventsFrom l.dec l.cur l.todo

/-- A lane as declared: its instructions and the settings of the command it belongs to. -/
structure ALane where
  procs : List Proc
  save  : Bool
  text  : Bool
  deriving Repr, DecidableEq, Inhabited

def ALane.dec (l : ALane) : Bool := l.save && l.text

/-- The lanes of one entry / one command / the whole step, in declaration order. -/
def Entry.procs : Entry → List Proc
  | .one p => [p]
  | .serial ps => ps

def ARun.lanes : ARun → List (List Proc)
  | .single p => [[p]]
  | .many es => es.map Entry.procs

/-- `Command.run`: when `with self.output_handles()` raises, the exception is appended to the command's
    results — **none of its instructions is started**. -/
def ACommand.lanes (c : ACommand) : List ALane :=
  match c.redir.openError with
  | some _ => []
  | none => c.run.lanes.map (fun ps => ⟨ps, c.save, c.text⟩)

def lanesOf : List ACommand → List ALane
  | [] => []
  | c :: cs => c.lanes ++ lanesOf cs

/-- `List.modify`-like update at an index (results are *stored by index*: this is what
    `asyncio.gather` does with each task's outcome). -/
def modifyAt (f : Lane → Lane) : List Lane → Nat → List Lane
  | [], _ => []
  | l :: ls, 0 => f l :: ls
  | l :: ls, i + 1 => l :: modifyAt f ls i

def eventsAt : List Lane → Nat → List Event
  | [], _ => []
  | l :: _, 0 => l.completeEvents
  | _ :: ls, i + 1 => eventsAt ls i

/-- Process the schedule: each entry is the index of the lane whose running process exits next.
    Entries naming a lane with nothing running are ignored. -/
def runSched : List Lane → List Nat → List Lane × List Event
  | ls, [] => (ls, [])
  | ls, i :: rest =>
    let ev := eventsAt ls i
    let r := runSched (modifyAt Lane.complete ls i) rest
    (r.1, ev ++ r.2)

/-- `asyncio.gather` waits for *all* tasks: whatever the schedule left running runs to its end. -/
def drainAll (ls : List Lane) : List Lane := ls.map Lane.drain

def drainAllEvents : List Lane → List Event
  | [] => []
  | l :: ls => l.drainEvents ++ drainAllEvents ls

def startEvents : List ALane → List Event
  | [] => []
  | l :: ls => launchEvents l.procs ++ startEvents ls

/-- What the coroutine of an instruction leaves behind: a `SubprocessResult`, or the exception
    raised when it could not be started / its output could not be decoded / the output handles of its
    command could not be opened. -/
inductive Item where
  | res (r : Result)
  | exc (e : CmdErr)
  deriving Repr, DecidableEq, Inhabited

def mkItem (save text : Bool) (p : Proc) : Item :=
  match p.spawn with
  | some k => .exc (.spawn p.id k)
  | none => if save && text && p.decodeFails then .exc (.decode p.id) else .res (mkResultAsync save text p)

/-- A slot of `Command._results`: one item, or the list a serial sub-list returns. -/
inductive Slot where
  | one (i : Item)
  | sub (is : List Item)
  deriving Repr, DecidableEq, Inhabited

/-- Re-assemble `Command._results` of one command from its finished lanes (consumes as many
    lanes as the command has). Returns the slots and the remaining lanes. -/
def entrySlots (save text : Bool) : List Entry → List Lane → List Slot × List Lane
  | [], ls => ([], ls)
  | _ :: _, [] => ([], [])
  | .one _ :: es, l :: ls =>
    let r := entrySlots save text es ls
    ((l.done.map (fun p => Slot.one (mkItem save text p))) ++ r.1, r.2)
  | .serial _ :: es, l :: ls =>
    let r := entrySlots save text es ls
    (Slot.sub (l.done.map (mkItem save text)) :: r.1, r.2)

def commandSlots (c : ACommand) (ls : List Lane) : List Slot × List Lane :=
  match c.redir.openError with
  | some e => ([.one (.exc e)], ls)
  | none =>
    match c.run with
    | .single p => entrySlots c.save c.text [.one p] ls
    | .many es => entrySlots c.save c.text es ls

/-- `_parse_result` on one item: an exception is yielded as it is, a result yields a
    `SubprocessError` when `returncode` is truthy (non-zero). -/
def itemErrors : Item → List CmdErr
  | .exc e => [e]
  | .res r => if r.code ≠ 0 then [.exit r.id r.code] else []

/-- `Command.parse_results` / `_parse_result`: flattened errors, in the order of the slots. -/
def slotErrors : List Slot → List CmdErr
  | [] => []
  | .one i :: ss => itemErrors i ++ slotErrors ss
  | .sub is :: ss => is.flatMap itemErrors ++ slotErrors ss

/-- The loop of `Commands.run` after `asyncio.run`: `_results.extend(cmd._results)` for the
    `save` commands, `errors.extend(cmd.parse_results())` for all of them. -/
def collect : List ACommand → List Lane → List Slot × List CmdErr
  | [], _ => ([], [])
  | c :: cs, ls =>
    let s := commandSlots c ls
    let r := collect cs s.2
    ((if c.save then s.1 else []) ++ r.1, slotErrors s.1 ++ r.2)

structure AsyncObs where
  trace   : List Event
  started : List Nat               -- every process that was started, lane by lane
  errors  : List CmdErr            -- `MultiError.errors`; the step succeeds iff this is empty
  cmdOut  : Option (List Slot)     -- `context['cmdOut']` (set iff some command has `save`)
  running : List Nat := []         -- processes started and not yet finished when the step returns
  deriving Repr, DecidableEq, Inhabited

/-- The processes of a lane that existed: the ones dealt with that could be started, and the running one. -/
def laneStarted (l : Lane) : List Nat :=
  (l.done.filter Proc.ran).map (·.id) ++ (match l.cur with | some p => [p.id] | none => [])

/-- `AsyncCmdStep.run_step` under the given completion schedule. -/
def runAsync (cs : List ACommand) (sched : List Nat) : AsyncObs :=
  let ls0 := (lanesOf cs).map (fun l => Lane.start l.dec l.procs)
  let r := runSched ls0 sched
  let fin := drainAll r.1
  let c := collect cs fin
  { trace := startEvents (lanesOf cs) ++ r.2 ++ drainAllEvents r.1,
    started := (fin.map laneStarted).flatten,
    errors := c.2,
    cmdOut := if cs.any (·.save) then some c.1 else none,
    running := (fin.filterMap (·.cur)).map (·.id) }

/-- The schedule-free specification of the final state of a lane. -/
def finalLane (dec : Bool) (ps : List Proc) : Lane :=
  ⟨takeThrough dec ps, none, ps.drop (takeThrough dec ps).length, dec⟩

/-- The command (its handles) and the instruction behind a process id. -/
def writerOf : List ACommand → Nat → Option (Redirect × Proc)
  | [], _ => none
  | c :: cs, i =>
    match (c.lanes.flatMap (·.procs)).find? (·.id = i) with
    | some p => some (c.redir, p)
    | none => writerOf cs i

/-- The files once the concurrent step is over: every command's coroutine opens its handles before
    any process has run (declaration order); each process writes when it runs to its end, i.e. in the
    order of the `fin` events of the trace. (An instruction of a command that writes to a file is assumed
    to occur in that command only — equal ids inside one command share its handles; the driver rejects the
    rest as outside the modelled domain.) -/
def filesAsync (cs : List ACommand) (trace : List Event) (fs : Fs) : Fs :=
  trace.foldl (fun f ev => match ev with
      | .fin i => (match writerOf cs i with
        | some (r, p) => r.writeProc p f
        | none => f)
      | .start _ => f)
    (cs.foldl (fun f c => c.redir.openFs f) fs)

/-! ## 0. From the step's configuration to the commands

`CmdStep.__init__` / `AsyncCmdStep.__init__` look at `context.get_formatted('cmd' | 'cmds')`; what they
build is a list of `Command`s whose `cmd` still holds the *instruction strings*. `RawCommand` is that;
`resolve` replaces every instruction string by its scripted outcome. -/

/-- The settings of one `Command` object as the constructors compute them. -/
structure Settings where
  shell  : Bool
  cwd    : Option String
  save   : Bool
  text   : Bool
  enc    : Option String
  stdout : Target
  stderr : Target
  append : Bool
  deriving Repr, DecidableEq, Inhabited

inductive RawEntry where
  | one (s : String)
  | sub (ss : List String)
  deriving Repr, DecidableEq, Inhabited

/-- `Command.cmd`: one instruction, or a list (serial step: of instructions; concurrent step: of
    instructions and serial sub-lists). -/
inductive RawRun where
  | single (s : String)
  | many (es : List RawEntry)
  deriving Repr, DecidableEq, Inhabited

structure RawCommand where
  run : RawRun
  set : Settings
  deriving Repr, DecidableEq, Inhabited

/-- `Command(cmd, is_shell=is_shell)`: everything else at its default. -/
def simpleSettings (shell : Bool) : Settings :=
  { shell := shell, cwd := none, save := false, text := false, enc := none,
    stdout := .inherit, stderr := .inherit, append := false }

def dget (kvs : List (Val × Val)) (k : String) : Option Val := dictGet? kvs (.str k)

def truthyO : Option Val → Bool
  | none => false
  | some v => v.truthy

/-- A list all of whose elements are `str`. -/
def strs? : List Val → Option (List String)
  | [] => some []
  | .str s :: xs => (strs? xs).map (s :: ·)
  | _ :: _ => none

/-- `collections.abc.Sequence` that is not `str`/`bytes`: list or tuple. -/
def seq? : Val → Option (List Val)
  | .list xs => some xs
  | .tuple xs => some xs
  | _ => none

/-- The elements of a `run:` list. A serial step runs each element with `shlex.split` — only `str`
    elements are in the domain; a concurrent step also accepts a list/tuple of `str` (a serial
    sub-list). `none`: outside the modelled domain (the code fails only when the element is run). -/
def entries? (async : Bool) : List Val → Option (List RawEntry)
  | [] => some []
  | .str s :: xs => (entries? async xs).map (.one s :: ·)
  | v :: xs =>
    if async then
      match seq? v with
      | some ys =>
        match strs? ys, entries? async xs with
        | some ss, some es => some (.sub ss :: es)
        | _, _ => none
      | none => none
    else none

/-- The value of `run`. -/
def runOf? (async : Bool) : Val → Option RawRun
  | .str s => some (.single s)
  | .list xs => (entries? async xs).map .many
  | .tuple xs => (entries? async xs).map .many
  | _ => none

/-- `stdout:` / `stderr:` as `output_handles` reads it. -/
def targetOf (isErr : Bool) : Option Val → Option Target
  | none => some .inherit
  | some v =>
    if !v.truthy then some .inherit
    else match v with
      | .str s =>
        if s = "/dev/null" then some .devnull
        else if isErr && s = "/dev/stdout" then some .toStdout
        else some (.file s)
      | _ => none

/-- `cwd:`: `None` or a string. -/
def cwdOf : Option Val → Option (Option String)
  | none => some none
  | some .none => some none
  | some (.str s) => some (some s)
  | some _ => none

/-- `encoding if encoding else config.default_cmd_encoding` (the latter `None` here). -/
def encOf : Option Val → Option (Option String)
  | none => some none
  | some v =>
    if !v.truthy then some none
    else match v with
      | .str s => some (some s)
      | _ => none

/-- `is_shell_override = cmd_input.get('shell', None)`; `self.is_shell if override is None else override`. -/
def shellOf (dflt : Bool) : Option Val → Bool
  | none => dflt
  | some .none => dflt
  | some v => v.truthy

def excRunMissing : Exc := ⟨"KeyNotInContextError", "run-missing"⟩
def excRunEmpty : Exc := ⟨"KeyInContextHasNoValueError", "run-empty"⟩
def excSaveRedirect : Exc := ⟨"ContextError", "save-with-redirect"⟩
def excBadItem : Exc := ⟨"ContextError", "bad-item"⟩
def excBadConfig : Exc := ⟨"ContextError", "bad-config"⟩
def excNoValue : Exc := ⟨"KeyInContextHasNoValueError", "config-none"⟩
def excNoKey : Exc := ⟨"KeyNotInContextError", "config-missing"⟩

/-- `create_command` followed by `Command.__init__` (both steps; the messages are abbreviated to a
    tag). Outer `none`: the command can be constructed but is outside the modelled domain (a `run`
    value / output path / cwd / encoding of a type the code only trips over when the command runs). -/
def createCommand (async dflt : Bool) (kvs : List (Val × Val)) : Option (Except Exc RawCommand) :=
  match dget kvs "run" with
  | none => some (.error excRunMissing)
  | some r =>
    if !r.truthy then some (.error excRunEmpty)
    else
      let save := castToBool ((dget kvs "save").getD (.bool false))
      let isBytes := truthyO (dget kvs "bytes")
      let text := if save then !isBytes else false
      if save && (truthyO (dget kvs "stdout") || truthyO (dget kvs "stderr")) then
        some (.error excSaveRedirect)
      else
        match runOf? async r, targetOf false (dget kvs "stdout"), targetOf true (dget kvs "stderr"),
              cwdOf (dget kvs "cwd"), encOf (dget kvs "encoding") with
        | some run, some o, some e, some cwd, some enc =>
          some (.ok ⟨run, { shell := shellOf dflt (dget kvs "shell"), cwd := cwd, save := save,
                            text := text, enc := enc, stdout := o, stderr := e,
                            append := truthyO (dget kvs "append") }⟩)
        | _, _, _, _, _ => none

/-- One element of a top-level list. -/
def parseItem (async dflt : Bool) : Val → Option (Except Exc RawCommand)
  | .str s => some (.ok ⟨.single s, simpleSettings dflt⟩)
  | .dict kvs => createCommand async dflt kvs
  | .list xs =>
    if async then (strs? xs).map (fun ss => .ok ⟨.many [.sub ss], simpleSettings dflt⟩)
    else some (.error excBadItem)
  | .tuple xs =>
    if async then (strs? xs).map (fun ss => .ok ⟨.many [.sub ss], simpleSettings dflt⟩)
    else some (.error excBadItem)
  | .bytes _ => none
  | .sic _ => none
  | .py _ => none
  | .jsonify _ => none
  | .obj _ => none
  | _ => some (.error excBadItem)

/-- `for cmd in cmd_config:` — the first item that raises ends the constructor. -/
def parseItems (async dflt : Bool) : List Val → Option (Except Exc (List RawCommand))
  | [] => some (.ok [])
  | v :: vs =>
    match parseItem async dflt v with
    | none => none
    | some (.error e) => some (.error e)
    | some (.ok c) =>
      match parseItems async dflt vs with
      | none => none
      | some (.error e) => some (.error e)
      | some (.ok cs) => some (.ok (c :: cs))

/-- `CmdStep.__init__` (`async = false`) / `AsyncCmdStep.__init__` (`async = true`) on the formatted
    value of `context['cmd' | 'cmds']` (`none`: no such key); `dflt`: the step's `is_shell`. -/
def parseCmdConfig (async dflt : Bool) : Option Val → Option (Except Exc (List RawCommand))
  | none => some (.error excNoKey)
  | some .none => some (.error excNoValue)
  | some (.str s) => some (.ok [⟨.single s, simpleSettings dflt⟩])
  | some (.dict kvs) =>
    match createCommand async dflt kvs with
    | none => none
    | some (.error e) => some (.error e)
    | some (.ok c) => some (.ok [c])
  | some (.list xs) => parseItems async dflt xs
  | some (.tuple xs) => parseItems async dflt xs
  | some (.bytes _) => none
  | some (.sic _) => none
  | some (.py _) => none
  | some (.jsonify _) => none
  | some (.obj _) => none
  | some _ => some (.error excBadConfig)

/-- The instruction strings of a command, in declaration order. -/
def RawEntry.strings : RawEntry → List String
  | .one s => [s]
  | .sub ss => ss

def RawRun.strings : RawRun → List String
  | .single s => [s]
  | .many es => es.flatMap RawEntry.strings

/-- All instruction strings of the step with the `save`/`text` of their command. -/
def rawDecls (cs : List RawCommand) : List (String × Bool × Bool) :=
  cs.flatMap (fun c => c.run.strings.map (fun s => (s, c.set.save, c.set.text)))

/-! ### The short specification of the declaration order -/

/-- The items of the configuration: itself, or the elements of the list. -/
def specItems : Val → List Val
  | .list xs => xs
  | .tuple xs => xs
  | v => [v]

def strOf? : Val → Option String
  | .str s => some s
  | _ => none

/-- The strings of one element of a `run:` list: itself, or the strings of the sub-list. -/
def specInner : Val → List String
  | .str s => [s]
  | .list ys => ys.filterMap strOf?
  | .tuple ys => ys.filterMap strOf?
  | _ => []

/-- All strings in a value of `run`, left to right, one level of nesting. -/
def specStrings : Val → List String
  | .str s => [s]
  | .list xs => xs.flatMap specInner
  | .tuple xs => xs.flatMap specInner
  | _ => []

/-- The instructions of one item with their `save` / `text`. -/
def specItem : Val → List (String × Bool × Bool)
  | .str s => [(s, false, false)]
  | .dict kvs =>
    let save := castToBool ((dget kvs "save").getD (.bool false))
    let text := save && !truthyO (dget kvs "bytes")
    (specStrings ((dget kvs "run").getD .none)).map (fun s => (s, save, text))
  | .list xs => (xs.filterMap strOf?).map (fun s => (s, false, false))
  | .tuple xs => (xs.filterMap strOf?).map (fun s => (s, false, false))
  | _ => []

/-- Declaration order, written directly on the configuration value. -/
def flattenSpec (cfg : Val) : List (String × Bool × Bool) := (specItems cfg).flatMap specItem

/-! ### The short specification of the units of concurrency ("top-level entries")

A *lane* is what the concurrent steps start side by side: a top-level instruction, a top-level serial
sub-list, and — for a map — every element of its `run` (one when `run` is a string). One lane per
declared occurrence: equal entries are separate lanes. -/

/-- The lanes of a command as built: one per element of its `run` list. -/
def RawRun.lanes : RawRun → List (List String)
  | .single s => [[s]]
  | .many es => es.map RawEntry.strings

/-- The lanes of the step as built by the constructor, in declaration order. -/
def rawLanes (cs : List RawCommand) : List (List String) := cs.flatMap (fun c => c.run.lanes)

/-- The lanes in a value of `run`. -/
def specRunLanes : Val → List (List String)
  | .str s => [[s]]
  | .list xs => xs.map specInner
  | .tuple xs => xs.map specInner
  | _ => []

/-- The lanes of one item of the configuration. -/
def specItemLanes : Val → List (List String)
  | .str s => [[s]]
  | .dict kvs => specRunLanes ((dget kvs "run").getD .none)
  | .list xs => [xs.filterMap strOf?]
  | .tuple xs => [xs.filterMap strOf?]
  | _ => []

/-- The lanes, written directly on the configuration value (no de-duplication anywhere). -/
def lanesSpec (cfg : Val) : List (List String) := (specItems cfg).flatMap specItemLanes

/-! ### Resolution: instruction strings ↦ scripted outcomes -/

/-- What the world does with each instruction string and each output path. -/
structure World where
  proc    : String → Proc
  openErr : String → Option OpenKind

def World.redirect (w : World) (s : Settings) : Redirect :=
  let eo := match s.stdout with
    | .file p => (w.openErr p).map (fun k => (false, k))
    | _ => none
  let ee := match s.stderr with
    | .file p => (w.openErr p).map (fun k => (true, k))
    | _ => none
  { stdout := s.stdout, stderr := s.stderr, append := s.append,
    openErr := match eo with | some x => some x | none => ee }

/-- A `Command` of the serial steps (sub-lists do not occur: `entries? false`). -/
def RawCommand.toS (w : World) (c : RawCommand) : SCommand :=
  { run := c.run.strings.map w.proc, save := c.set.save, text := c.set.text,
    enc := c.set.enc.isSome, redir := w.redirect c.set }

def RawEntry.toEntry (w : World) : RawEntry → Entry
  | .one s => .one (w.proc s)
  | .sub ss => .serial (ss.map w.proc)

def RawCommand.toA (w : World) (c : RawCommand) : ACommand :=
  { run := match c.run with
      | .single s => .single (w.proc s)
      | .many es => .many (es.map (RawEntry.toEntry w)),
    save := c.set.save, text := c.set.text, redir := w.redirect c.set }

/-- The serial step from its configuration. Outer `none`: outside the modelled domain;
    `error`: the constructor raises — nothing is started, `cmdOut` is not touched. -/
def runSerialCfg (dflt : Bool) (w : World) (cfg : Option Val) : Option (Except Exc SerialObs) :=
  match parseCmdConfig false dflt cfg with
  | none => none
  | some (.error e) => some (.error e)
  | some (.ok cs) => some (.ok (runSerial (cs.map (RawCommand.toS w))))

def runAsyncCfg (dflt : Bool) (w : World) (cfg : Option Val) (sched : List Nat) :
    Option (Except Exc AsyncObs) :=
  match parseCmdConfig true dflt cfg with
  | none => none
  | some (.error e) => some (.error e)
  | some (.ok cs) => some (.ok (runAsync (cs.map (RawCommand.toA w)) sched))

/-! ## Histories in one process: modules imported, configuration set, steps run

The encoding a saving command's output is decoded with is `encoding if encoding else
config.default_cmd_encoding`, read WHEN THE COMMAND OBJECT IS BUILT — i.e. when the step runs — not when a module
of the command steps was imported. A process's life, as far as this is concerned, is a list of `HOp`s. -/

/-- The two encoding settings of the configuration object (`None` = the system's default). -/
structure EncCfg where
  cmdEnc : Option String       -- config.default_cmd_encoding: output of command steps
  fileEnc : Option String      -- config.default_encoding: files; never used for command output
  deriving Repr, DecidableEq

inductive HOp where
  /-- `import pypyr.subproc` / `pypyr.steps.cmd` / `pypyr.steps.shell` / …: reads nothing that sticks. -/
  | imp (mod : String)
  /-- `config.default_cmd_encoding := v` — by `config.init()` finding the key in a config file, or by assignment. -/
  | setCmdEnc (v : Option String)
  /-- `config.default_encoding := v` (same two ways). -/
  | setFileEnc (v : Option String)
  /-- A cmd / shell step runs commands whose maps carry these `encoding` values (`none`: no such key). -/
  | run (own : List (Option String))
  deriving Repr, DecidableEq

def HOp.isImp : HOp → Bool
  | .imp _ => true
  | _ => false

def HOp.setsCmdEnc : HOp → Bool
  | .setCmdEnc _ => true
  | _ => false

/-- `encoding if encoding else config.default_cmd_encoding` (an empty string is falsy). -/
def encInForce (cfg : EncCfg) (own : Option String) : Option String :=
  match own with
  | some e => if e = "" then cfg.cmdEnc else some e
  | none => cfg.cmdEnc

def HOp.apply (cfg : EncCfg) : HOp → EncCfg
  | .setCmdEnc v => { cfg with cmdEnc := v }
  | .setFileEnc v => { cfg with fileEnc := v }
  | _ => cfg

/-- The configuration after a history. -/
def cfgAfter (cfg : EncCfg) (ops : List HOp) : EncCfg := ops.foldl HOp.apply cfg

/-- For every `run` of the history, in order: the encoding each of its commands' output is decoded with. -/
def runHist (cfg : EncCfg) : List HOp → List (List (Option String))
  | [] => []
  | .run own :: ops => own.map (encInForce cfg) :: runHist cfg ops
  | op :: ops => runHist (op.apply cfg) ops

/-- A saving text-mode command of a history run: whether what its process writes is text depends on the encoding it
    is read with — `isText enc id`, the codec library's verdict — and that is the encoding in force when the step runs. -/
def histCommand (isText : Option String → Nat → Bool) (cfg : EncCfg) (x : Option String × Proc) : SCommand :=
  { run := [{ x.2 with decodeFails := !isText (encInForce cfg x.1) x.2.id }], save := true, text := true,
    enc := (encInForce cfg x.1).isSome }

/-- The step run after the history `pre`. -/
def histStep (isText : Option String → Nat → Bool) (cfg : EncCfg) (pre : List HOp)
    (cmds : List (Option String × Proc)) : SerialObs :=
  runSerial (cmds.map (histCommand isText (cfgAfter cfg pre)))

end Pypyr.Cmd
