/-
  Model of pypyr's command steps (C17).

  Mirrors, as the code is now:
    * `pypyr.subproc.Command.run/_run`, `pypyr.steps.dsl.cmd.CmdStep.run_step`
      (steps `cmd`, `shell`): the serial loop.
    * `pypyr.aio.subproc.Command.run/_run/_spawn/parse_results`,
      `pypyr.aio.subproc.Commands.run/_run`, `pypyr.steps.dsl.cmdasync.AsyncCmdStep.run_step`
      (steps `cmds`, `shells`): concurrent lanes, serial sub-lists, aggregation.

  A spawned process is *scripted*: it has an identity, an exit code and the text
  it writes to stdout / stderr. The operating system's scheduling of the
  concurrent steps is an explicit input: a *schedule* (a list of lane indices;
  entry `i` means "the process lane `i` is currently running exits now").

  Not modelled: signals / negative return codes, executables that cannot be
  spawned, `cwd`, output redirection to files, encodings other than ASCII text.

  No imports beyond `Val`: the driver must link.
-/
import PypyrModel.Val

namespace Pypyr.Cmd

/-- One scripted process (one `subprocess.run` / `create_subprocess_*`). -/
structure Proc where
  id   : Nat
  code : Nat
  out  : String
  err  : String
  deriving Repr, DecidableEq, Inhabited

/-- What `SubprocessResult.stdout` / `.stderr` can hold. -/
inductive Out where
  | none
  | text (s : String)
  | bytes (s : String)
  deriving Repr, DecidableEq, Inhabited

/-- `pypyr.subproc.SubprocessResult` (the `cmd` it carries is identified by `id`). -/
structure Result where
  id     : Nat
  code   : Nat
  stdout : Out
  stderr : Out
  deriving Repr, DecidableEq, Inhabited

/-- The error a failed command gives rise to: `subprocess.CalledProcessError`
    (serial steps) or `pypyr.errors.SubprocessError` (inside the `MultiError` of the
    concurrent steps). Both carry the command and its return code. -/
structure CmdErr where
  id   : Nat
  code : Nat
  deriving Repr, DecidableEq, Inhabited

def isWs (c : Char) : Bool :=
  c == ' ' || c == '\n' || c == '\t' || c == '\r' || c == '\x0b' || c == '\x0c'

/-- `str.rstrip()` on ASCII text. -/
def rstrip (s : String) : String :=
  String.ofList (s.toList.reverse.dropWhile isWs).reverse

/-! ## Serial steps: `cmd`, `shell` -/

/-- `pypyr.subproc.Command`: `cmd` is one instruction or a list of them; `save`/`text`
    as computed by `CmdStep.create_command` (`is_text = not bytes if save else False`). -/
structure SCommand where
  run  : List Proc
  save : Bool
  text : Bool
  deriving Repr, DecidableEq, Inhabited

/-- The `SubprocessResult` built in `pypyr.subproc.Command._run` (save branch):
    `capture_output=True`; in text mode a non-empty stream is `rstrip`ped, an empty one stays `''`;
    in bytes mode the raw bytes. -/
def mkResultSync (text : Bool) (p : Proc) : Result :=
  if text then
    ⟨p.id, p.code, .text (if p.out = "" then "" else rstrip p.out),
                   .text (if p.err = "" then "" else rstrip p.err)⟩
  else ⟨p.id, p.code, .bytes p.out, .bytes p.err⟩

/-- Accumulated effect of running some instructions serially. -/
structure Acc where
  started : List Nat := []
  results : List Result := []
  err     : Option CmdErr := none
  deriving Repr, DecidableEq, Inhabited

/-- `for c in cmd: self._run(c)` of `pypyr.subproc.Command.run`, with `_run` inlined:
    spawn (the process *starts*), with `save` append the result **before**
    `check_returncode()`, raise on a non-zero code (which leaves the loop). -/
def runProcs (save text : Bool) : List Proc → Acc
  | [] => {}
  | p :: ps =>
    let r := if save then [mkResultSync text p] else []
    if p.code ≠ 0 then { started := [p.id], results := r, err := some ⟨p.id, p.code⟩ }
    else
      let rest := runProcs save text ps
      { started := p.id :: rest.started, results := r ++ rest.results, err := rest.err }

def SCommand.exec (c : SCommand) : Acc := runProcs c.save c.text c.run

/-- The loop of `CmdStep.run_step`: `for cmd in self.commands: try: cmd.run()
    finally: results.extend(cmd.results)` — an exception leaves the loop after the `finally`. -/
def runCommands : List SCommand → Acc
  | [] => {}
  | c :: cs =>
    let a := c.exec
    match a.err with
    | some _ => a
    | none =>
      let rest := runCommands cs
      { started := a.started ++ rest.started, results := a.results ++ rest.results, err := rest.err }

/-- What `context['cmdOut']` is set to by the outer `finally` of `CmdStep.run_step`:
    nothing when there are no results, the object itself for one result, else the list. -/
inductive CmdOut where
  | unset
  | single (r : Result)
  | many (rs : List Result)
  deriving Repr, DecidableEq, Inhabited

def cmdOutOf : List Result → CmdOut
  | [] => .unset
  | [r] => .single r
  | rs => .many rs

structure SerialObs where
  started : List Nat
  err     : Option CmdErr
  results : List Result
  cmdOut  : CmdOut
  deriving Repr, DecidableEq, Inhabited

/-- `CmdStep.run_step`. -/
def runSerial (cs : List SCommand) : SerialObs :=
  let a := runCommands cs
  { started := a.started, err := a.err, results := a.results, cmdOut := cmdOutOf a.results }

/-! ### Declarative vocabulary for the serial theorems -/

/-- A process together with the `save`/`text` setting of the command it belongs to. -/
structure Decl where
  proc : Proc
  save : Bool
  text : Bool
  deriving Repr, DecidableEq, Inhabited

/-- All processes of the step in declaration order. -/
def declsOf : List SCommand → List Decl
  | [] => []
  | c :: cs => c.run.map (fun p => ⟨p, c.save, c.text⟩) ++ declsOf cs

/-- Declaration prefix up to **and including** the first process with a non-zero exit code. -/
def takeThrough : List Proc → List Proc
  | [] => []
  | p :: ps => if p.code ≠ 0 then [p] else p :: takeThrough ps

/-- The same on declarations. -/
def takeThroughD : List Decl → List Decl
  | [] => []
  | d :: ds => if d.proc.code ≠ 0 then [d] else d :: takeThroughD ds

/-- First process with a non-zero exit code. -/
def firstFail : List Proc → Option CmdErr
  | [] => none
  | p :: ps => if p.code ≠ 0 then some ⟨p.id, p.code⟩ else firstFail ps

/-! ## Concurrent steps: `cmds`, `shells` -/

/-- One element of a `run:` list of `pypyr.aio.subproc.Command`: an instruction, or a
    sub-list that `_run` executes serially (breaking at the first non-zero code). -/
inductive Entry where
  | one (p : Proc)
  | serial (ps : List Proc)
  deriving Repr, DecidableEq, Inhabited

/-- `Command.cmd`: a single instruction (`_results.append(result)`) or a list whose
    elements are gathered concurrently (`_results.extend(results)`). -/
inductive ARun where
  | single (p : Proc)
  | many (es : List Entry)
  deriving Repr, DecidableEq, Inhabited

structure ACommand where
  run  : ARun
  save : Bool
  text : Bool
  deriving Repr, DecidableEq, Inhabited

/-- The `SubprocessResult` built in `pypyr.aio.subproc.Command._spawn`: streams are piped only
    with `save` (otherwise `communicate()` gives `None`); with `save` and text a **non-empty**
    stream is decoded and `rstrip`ped, an empty one stays the empty *bytes* object. -/
def mkResultAsync (save text : Bool) (p : Proc) : Result :=
  if save then
    if text then
      ⟨p.id, p.code, (if p.out = "" then .bytes "" else .text (rstrip p.out)),
                     (if p.err = "" then .bytes "" else .text (rstrip p.err))⟩
    else ⟨p.id, p.code, .bytes p.out, .bytes p.err⟩
  else ⟨p.id, p.code, .none, .none⟩

/-- A lane: one unit of concurrency (a coroutine `Command._run(c)`): the processes
    already finished, the one running, the ones not started. -/
structure Lane where
  done : List Proc
  cur  : Option Proc
  todo : List Proc
  deriving Repr, DecidableEq, Inhabited

/-- A coroutine at its first suspension point: the first process is running. -/
def Lane.start : List Proc → Lane
  | [] => ⟨[], none, []⟩
  | p :: ps => ⟨[], some p, ps⟩

inductive Event where
  | start (id : Nat)
  | fin (id : Nat)
  deriving Repr, DecidableEq, Inhabited

/-- The running process of the lane exits: `results.append(result)`, then
    `if result.returncode: break`, else the next process of the sub-list is spawned. -/
def Lane.complete (l : Lane) : Lane :=
  match l.cur with
  | none => l
  | some p =>
    if p.code ≠ 0 then ⟨l.done ++ [p], none, l.todo⟩
    else match l.todo with
      | [] => ⟨l.done ++ [p], none, []⟩
      | q :: qs => ⟨l.done ++ [p], some q, qs⟩

/-- Events caused by that exit. -/
def Lane.completeEvents (l : Lane) : List Event :=
  match l.cur with
  | none => []
  | some p =>
    if p.code ≠ 0 then [.fin p.id]
    else match l.todo with
      | [] => [.fin p.id]
      | q :: _ => [.fin p.id, .start q.id]

/-- Let the lane run to its end (every running process exits as soon as it is running). -/
def drainFrom (done : List Proc) : Option Proc → List Proc → Lane
  | none, todo => ⟨done, none, todo⟩
  | some p, [] => ⟨done ++ [p], none, []⟩
  | some p, q :: qs =>
    if p.code ≠ 0 then ⟨done ++ [p], none, q :: qs⟩
    else drainFrom (done ++ [p]) (some q) qs

def Lane.drain (l : Lane) : Lane := drainFrom l.done l.cur l.todo

def drainEventsFrom : Option Proc → List Proc → List Event
  | none, _ => []
  | some p, [] => [.fin p.id]
  | some p, q :: qs =>
    if p.code ≠ 0 then [.fin p.id]
    else .fin p.id :: .start q.id :: drainEventsFrom (some q) qs

def Lane.drainEvents (l : Lane) : List Event := drainEventsFrom l.cur l.todo

/-- The lanes of one entry / one command / the whole step, in declaration order. -/
def Entry.procs : Entry → List Proc
  | .one p => [p]
  | .serial ps => ps

def ARun.lanes : ARun → List (List Proc)
  | .single p => [[p]]
  | .many es => es.map Entry.procs

def lanesOf : List ACommand → List (List Proc)
  | [] => []
  | c :: cs => c.run.lanes ++ lanesOf cs

/-- `List.modify`-like update at an index (results are *stored by index*: this is what
    `asyncio.gather` does with each task's outcome). -/
def modifyAt (f : Lane → Lane) : List Lane → Nat → List Lane
  | [], _ => []
  | l :: ls, 0 => f l :: ls
  | l :: ls, i + 1 => l :: modifyAt f ls i

def eventsAt : List Lane → Nat → List Event
  | [], _ => []
  | l :: _, 0 => l.completeEvents
  | _ :: ls, i + 1 => eventsAt ls i

/-- Process the schedule: each entry is the index of the lane whose running process exits next.
    Entries naming a lane with nothing running are ignored. -/
def runSched : List Lane → List Nat → List Lane × List Event
  | ls, [] => (ls, [])
  | ls, i :: rest =>
    let ev := eventsAt ls i
    let r := runSched (modifyAt Lane.complete ls i) rest
    (r.1, ev ++ r.2)

/-- `asyncio.gather` waits for *all* tasks: whatever the schedule left running runs to its end. -/
def drainAll (ls : List Lane) : List Lane := ls.map Lane.drain

def drainAllEvents : List Lane → List Event
  | [] => []
  | l :: ls => l.drainEvents ++ drainAllEvents ls

def startEvents : List (List Proc) → List Event
  | [] => []
  | [] :: ls => startEvents ls
  | (p :: _) :: ls => .start p.id :: startEvents ls

/-- A result slot of `Command._results`: a result, or the list a serial sub-list returns. -/
inductive Slot where
  | res (r : Result)
  | sub (rs : List Result)
  deriving Repr, DecidableEq, Inhabited

/-- Re-assemble `Command._results` of one command from its finished lanes (consumes as many
    lanes as the command has). Returns the slots and the remaining lanes. -/
def entrySlots (save text : Bool) : List Entry → List Lane → List Slot × List Lane
  | [], ls => ([], ls)
  | _ :: _, [] => ([], [])
  | .one _ :: es, l :: ls =>
    let r := entrySlots save text es ls
    ((l.done.map (fun p => Slot.res (mkResultAsync save text p))) ++ r.1, r.2)
  | .serial _ :: es, l :: ls =>
    let r := entrySlots save text es ls
    (Slot.sub (l.done.map (mkResultAsync save text)) :: r.1, r.2)

def commandSlots (c : ACommand) (ls : List Lane) : List Slot × List Lane :=
  match c.run with
  | .single p => entrySlots c.save c.text [.one p] ls
  | .many es => entrySlots c.save c.text es ls

/-- `Command.parse_results` / `_parse_result`: flattened errors of the non-zero results. -/
def slotErrors : List Slot → List CmdErr
  | [] => []
  | .res r :: ss => (if r.code ≠ 0 then [⟨r.id, r.code⟩] else []) ++ slotErrors ss
  | .sub rs :: ss =>
    (rs.filter (fun r => r.code ≠ 0)).map (fun r => (⟨r.id, r.code⟩ : CmdErr)) ++ slotErrors ss

/-- The loop of `Commands.run` after `asyncio.run`: `_results.extend(cmd._results)` for the
    `save` commands, `errors.extend(cmd.parse_results())` for all of them. -/
def collect : List ACommand → List Lane → List Slot × List CmdErr
  | [], _ => ([], [])
  | c :: cs, ls =>
    let s := commandSlots c ls
    let r := collect cs s.2
    ((if c.save then s.1 else []) ++ r.1, slotErrors s.1 ++ r.2)

structure AsyncObs where
  trace   : List Event
  started : List Nat               -- every process that was started, lane by lane
  errors  : List CmdErr            -- `MultiError.errors`; the step succeeds iff this is empty
  cmdOut  : Option (List Slot)     -- `context['cmdOut']` (set iff some command has `save`)
  deriving Repr, DecidableEq, Inhabited

def laneStarted (l : Lane) : List Nat :=
  l.done.map (·.id) ++ (match l.cur with | some p => [p.id] | none => [])

/-- `AsyncCmdStep.run_step` under the given completion schedule. -/
def runAsync (cs : List ACommand) (sched : List Nat) : AsyncObs :=
  let ls0 := (lanesOf cs).map Lane.start
  let r := runSched ls0 sched
  let fin := drainAll r.1
  let c := collect cs fin
  { trace := startEvents (lanesOf cs) ++ r.2 ++ drainAllEvents r.1,
    started := (fin.map laneStarted).flatten,
    errors := c.2,
    cmdOut := if cs.any (·.save) then some c.1 else none }

/-- The schedule-free specification of the final state of a lane. -/
def finalLane (ps : List Proc) : Lane :=
  ⟨takeThrough ps, none, ps.drop (takeThrough ps).length⟩

end Pypyr.Cmd
