/-
  Model of pypyr's command steps (C17).

  Mirrors, as the code is now:
    * `pypyr.subproc.Command.run/_run`, `pypyr.steps.dsl.cmd.CmdStep.run_step`
      (steps `cmd`, `shell`): the serial loop.
    * `pypyr.aio.subproc.Command.run/_run/_spawn/parse_results`,
      `pypyr.aio.subproc.Commands.run/_run`, `pypyr.steps.dsl.cmdasync.AsyncCmdStep.run_step`
      (steps `cmds`, `shells`): concurrent lanes, serial sub-lists, aggregation.

  A command is *scripted*: it has an identity and one of three kinds of outcome:
    * it cannot be started at all (`spawn = some k`): `shlex.split` / `subprocess.run` /
      `asyncio.create_subprocess_*` raises (`FileNotFoundError`: no such executable or no such `cwd`;
      `PermissionError`: file not executable; `ValueError`: the instruction cannot be split into
      arguments) — no process exists, nothing is written;
    * it runs and exits with status `code : Int`: `0`, a positive exit code, or a **negative** one
      (`-N`: killed by signal `N`), having written `out` / `err`.
  The operating system's scheduling of the concurrent steps is an explicit input: a *schedule*
  (a list of lane indices; entry `i` means "the process lane `i` is currently running exits now").

  Not modelled: output redirection to files, encodings other than ASCII text; *where* a spawn error
  comes from (executable, cwd, quoting) is the harness's business — the model only needs its kind.

  No imports beyond `Val`: the driver must link.
-/
import PypyrModel.Val

namespace Pypyr.Cmd

/-- Why a command could not be started (the exception type raised by the spawn call). -/
inductive SpawnKind where
  | notFound      -- FileNotFoundError (executable or cwd missing)
  | permission    -- PermissionError (not executable)
  | badArgs       -- ValueError out of shlex.split (no closing quotation)
  deriving Repr, DecidableEq, Inhabited

/-- One scripted instruction (one `subprocess.run` / `create_subprocess_*`).
    `code`, `out`, `err` mean something only when `spawn = none`. -/
structure Proc where
  id    : Nat
  spawn : Option SpawnKind
  code  : Int
  out   : String
  err   : String
  deriving Repr, DecidableEq, Inhabited

/-- The serial loop this instruction belongs to does not go on after it: it could not be started,
    or its exit status is non-zero (`if result.returncode:` / `check_returncode()` — positive **or
    negative**). -/
def Proc.stops (p : Proc) : Bool := p.spawn.isSome || p.code != 0

/-- A process existed. -/
def Proc.ran (p : Proc) : Bool := p.spawn.isNone

/-- What `SubprocessResult.stdout` / `.stderr` can hold. -/
inductive Out where
  | none
  | text (s : String)
  | bytes (s : String)
  deriving Repr, DecidableEq, Inhabited

/-- `pypyr.subproc.SubprocessResult` (the `cmd` it carries is identified by `id`). -/
structure Result where
  id     : Nat
  code   : Int
  stdout : Out
  stderr : Out
  deriving Repr, DecidableEq, Inhabited

/-- The error a failed command gives rise to.
    `exit`: `subprocess.CalledProcessError` (serial steps) or `pypyr.errors.SubprocessError` (inside the
    `MultiError` of the concurrent steps); both carry the command and its return code.
    `spawn`: the `OSError` / `ValueError` of a command that could not be started, as raised. -/
inductive CmdErr where
  | exit (id : Nat) (code : Int)
  | spawn (id : Nat) (kind : SpawnKind)
  deriving Repr, DecidableEq, Inhabited

/-- The error of an instruction that `stops`. -/
def Proc.error (p : Proc) : CmdErr :=
  match p.spawn with
  | some k => .spawn p.id k
  | none => .exit p.id p.code

def isWs (c : Char) : Bool :=
  c == ' ' || c == '\n' || c == '\t' || c == '\r' || c == '\x0b' || c == '\x0c'

/-- `str.rstrip()` on ASCII text. -/
def rstrip (s : String) : String :=
  String.ofList (s.toList.reverse.dropWhile isWs).reverse

/-! ## Serial steps: `cmd`, `shell` -/

/-- `pypyr.subproc.Command`: `cmd` is one instruction or a list of them; `save`/`text`
    as computed by `CmdStep.create_command` (`is_text = not bytes if save else False`). -/
structure SCommand where
  run  : List Proc
  save : Bool
  text : Bool
  deriving Repr, DecidableEq, Inhabited

/-- The `SubprocessResult` built in `pypyr.subproc.Command._run` (save branch):
    `capture_output=True`; in text mode a non-empty stream is `rstrip`ped, an empty one stays `''`;
    in bytes mode the raw bytes. -/
def mkResultSync (text : Bool) (p : Proc) : Result :=
  if text then
    ⟨p.id, p.code, .text (if p.out = "" then "" else rstrip p.out),
                   .text (if p.err = "" then "" else rstrip p.err)⟩
  else ⟨p.id, p.code, .bytes p.out, .bytes p.err⟩

/-- Accumulated effect of running some instructions serially. -/
structure Acc where
  started : List Nat := []
  results : List Result := []
  err     : Option CmdErr := none
  deriving Repr, DecidableEq, Inhabited

/-- `for c in cmd: self._run(c)` of `pypyr.subproc.Command.run`, with `_run` inlined:
    `shlex.split` / `subprocess.run` raises when the instruction cannot be started (nothing started,
    nothing appended, the exception leaves the loop); otherwise the process *starts* and runs to its
    end, with `save` the result is appended **before** `check_returncode()`, which raises on a
    non-zero status — positive or negative — (and leaves the loop). -/
def runProcs (save text : Bool) : List Proc → Acc
  | [] => {}
  | p :: ps =>
    match p.spawn with
    | some k => { started := [], results := [], err := some (.spawn p.id k) }
    | none =>
      let r := if save then [mkResultSync text p] else []
      if p.code ≠ 0 then { started := [p.id], results := r, err := some (.exit p.id p.code) }
      else
        let rest := runProcs save text ps
        { started := p.id :: rest.started, results := r ++ rest.results, err := rest.err }

def SCommand.exec (c : SCommand) : Acc := runProcs c.save c.text c.run

/-- The loop of `CmdStep.run_step`: `for cmd in self.commands: try: cmd.run()
    finally: results.extend(cmd.results)` — *any* exception leaves the loop after the `finally`. -/
def runCommands : List SCommand → Acc
  | [] => {}
  | c :: cs =>
    let a := c.exec
    match a.err with
    | some _ => a
    | none =>
      let rest := runCommands cs
      { started := a.started ++ rest.started, results := a.results ++ rest.results, err := rest.err }

/-- What `context['cmdOut']` is set to by the outer `finally` of `CmdStep.run_step`:
    nothing when there are no results, the object itself for one result, else the list. -/
inductive CmdOut where
  | unset
  | single (r : Result)
  | many (rs : List Result)
  deriving Repr, DecidableEq, Inhabited

def cmdOutOf : List Result → CmdOut
  | [] => .unset
  | [r] => .single r
  | rs => .many rs

structure SerialObs where
  started : List Nat
  err     : Option CmdErr
  results : List Result
  cmdOut  : CmdOut
  deriving Repr, DecidableEq, Inhabited

/-- `CmdStep.run_step`. -/
def runSerial (cs : List SCommand) : SerialObs :=
  let a := runCommands cs
  { started := a.started, err := a.err, results := a.results, cmdOut := cmdOutOf a.results }

/-! ### Declarative vocabulary for the serial theorems -/

/-- An instruction together with the `save`/`text` setting of the command it belongs to. -/
structure Decl where
  proc : Proc
  save : Bool
  text : Bool
  deriving Repr, DecidableEq, Inhabited

/-- All instructions of the step in declaration order. -/
def declsOf : List SCommand → List Decl
  | [] => []
  | c :: cs => c.run.map (fun p => ⟨p, c.save, c.text⟩) ++ declsOf cs

/-- The instructions *attempted*: declaration prefix up to **and including** the first one that
    `stops` (non-zero exit status, or cannot be started). -/
def takeThrough : List Proc → List Proc
  | [] => []
  | p :: ps => if p.stops then [p] else p :: takeThrough ps

/-- The same on declarations. -/
def takeThroughD : List Decl → List Decl
  | [] => []
  | d :: ds => if d.proc.stops then [d] else d :: takeThroughD ds

/-- The declarations whose process existed: the attempted ones that could be started
    (only the last attempted one can be unstartable). -/
def ranD (ds : List Decl) : List Decl := (takeThroughD ds).filter (·.proc.ran)

/-- The instructions of a lane whose process existed. -/
def ranP (ps : List Proc) : List Proc := (takeThrough ps).filter Proc.ran

/-- The error of the first instruction that `stops`. -/
def firstFail : List Proc → Option CmdErr
  | [] => none
  | p :: ps => if p.stops then some p.error else firstFail ps

/-! ## Concurrent steps: `cmds`, `shells` -/

/-- One element of a `run:` list of `pypyr.aio.subproc.Command`: an instruction, or a
    sub-list that `_run` executes serially (breaking at the first non-zero status; an exception out
    of `_spawn` is appended to the sub-list's results and ends it). -/
inductive Entry where
  | one (p : Proc)
  | serial (ps : List Proc)
  deriving Repr, DecidableEq, Inhabited

/-- `Command.cmd`: a single instruction (`_results.append(result)`) or a list whose
    elements are gathered concurrently (`_results.extend(results)`). -/
inductive ARun where
  | single (p : Proc)
  | many (es : List Entry)
  deriving Repr, DecidableEq, Inhabited

structure ACommand where
  run  : ARun
  save : Bool
  text : Bool
  deriving Repr, DecidableEq, Inhabited

/-- The `SubprocessResult` built in `pypyr.aio.subproc.Command._spawn`: streams are piped only
    with `save` (otherwise `communicate()` gives `None`); with `save` and text a **non-empty**
    stream is decoded and `rstrip`ped, an empty one stays the empty *bytes* object. -/
def mkResultAsync (save text : Bool) (p : Proc) : Result :=
  if save then
    if text then
      ⟨p.id, p.code, (if p.out = "" then .bytes "" else .text (rstrip p.out)),
                     (if p.err = "" then .bytes "" else .text (rstrip p.err))⟩
    else ⟨p.id, p.code, .bytes p.out, .bytes p.err⟩
  else ⟨p.id, p.code, .none, .none⟩

/-- A lane: one unit of concurrency (a coroutine `Command._run(c)`): the instructions dealt with
    (the processes that finished and, last, the one that could not be started), the process running,
    the instructions not reached. Invariant of every reachable lane: the running one is startable. -/
structure Lane where
  done : List Proc
  cur  : Option Proc
  todo : List Proc
  deriving Repr, DecidableEq, Inhabited

/-- `await self._spawn(next instruction)`: when it cannot be started the exception ends the coroutine
    (`results.append(ex)` in a sub-list; `return_exceptions=True` / `result = ex` otherwise) —
    recorded in `done`, nothing after it is reached; otherwise it is now running. -/
def launch (done : List Proc) : List Proc → Lane
  | [] => ⟨done, none, []⟩
  | q :: qs =>
    match q.spawn with
    | some _ => ⟨done ++ [q], none, qs⟩
    | none => ⟨done, some q, qs⟩

/-- A coroutine at its first suspension point: the first process is running (if it could be started). -/
def Lane.start (ps : List Proc) : Lane := launch [] ps

inductive Event where
  | start (id : Nat)
  | fin (id : Nat)
  deriving Repr, DecidableEq, Inhabited

/-- The running process of the lane exits: `results.append(result)`, then
    `if result.returncode: break` (any non-zero status, negative included), else the next
    instruction of the sub-list is spawned. -/
def Lane.complete (l : Lane) : Lane :=
  match l.cur with
  | none => l
  | some p =>
    if p.code ≠ 0 then ⟨l.done ++ [p], none, l.todo⟩
    else launch (l.done ++ [p]) l.todo

/-- Start event of the next instruction, if it can be started (an unstartable one leaves no trace). -/
def launchEvents : List Proc → List Event
  | [] => []
  | q :: _ => if q.spawn.isSome then [] else [.start q.id]

/-- Events caused by that exit. -/
def Lane.completeEvents (l : Lane) : List Event :=
  match l.cur with
  | none => []
  | some p =>
    if p.code ≠ 0 then [.fin p.id]
    else .fin p.id :: launchEvents l.todo

/-- Let the lane run to its end (every running process exits as soon as it is running). -/
def drainFrom (done : List Proc) : Option Proc → List Proc → Lane
  | none, todo => ⟨done, none, todo⟩
  | some p, [] => ⟨done ++ [p], none, []⟩
  | some p, q :: qs =>
    if p.code ≠ 0 then ⟨done ++ [p], none, q :: qs⟩
    else match q.spawn with
      | some _ => ⟨done ++ [p] ++ [q], none, qs⟩
      | none => drainFrom (done ++ [p]) (some q) qs

def Lane.drain (l : Lane) : Lane := drainFrom l.done l.cur l.todo

def drainEventsFrom : Option Proc → List Proc → List Event
  | none, _ => []
  | some p, [] => [.fin p.id]
  | some p, q :: qs =>
    if p.code ≠ 0 then [.fin p.id]
    else match q.spawn with
      | some _ => [.fin p.id]
      | none => .fin p.id :: .start q.id :: drainEventsFrom (some q) qs

def Lane.drainEvents (l : Lane) : List Event := drainEventsFrom l.cur l.todo

/-- The lanes of one entry / one command / the whole step, in declaration order. -/
def Entry.procs : Entry → List Proc
  | .one p => [p]
  | .serial ps => ps

def ARun.lanes : ARun → List (List Proc)
  | .single p => [[p]]
  | .many es => es.map Entry.procs

def lanesOf : List ACommand → List (List Proc)
  | [] => []
  | c :: cs => c.run.lanes ++ lanesOf cs

/-- `List.modify`-like update at an index (results are *stored by index*: this is what
    `asyncio.gather` does with each task's outcome). -/
def modifyAt (f : Lane → Lane) : List Lane → Nat → List Lane
  | [], _ => []
  | l :: ls, 0 => f l :: ls
  | l :: ls, i + 1 => l :: modifyAt f ls i

def eventsAt : List Lane → Nat → List Event
  | [], _ => []
  | l :: _, 0 => l.completeEvents
  | _ :: ls, i + 1 => eventsAt ls i

/-- Process the schedule: each entry is the index of the lane whose running process exits next.
    Entries naming a lane with nothing running are ignored. -/
def runSched : List Lane → List Nat → List Lane × List Event
  | ls, [] => (ls, [])
  | ls, i :: rest =>
    let ev := eventsAt ls i
    let r := runSched (modifyAt Lane.complete ls i) rest
    (r.1, ev ++ r.2)

/-- `asyncio.gather` waits for *all* tasks: whatever the schedule left running runs to its end. -/
def drainAll (ls : List Lane) : List Lane := ls.map Lane.drain

def drainAllEvents : List Lane → List Event
  | [] => []
  | l :: ls => l.drainEvents ++ drainAllEvents ls

def startEvents : List (List Proc) → List Event
  | [] => []
  | ps :: ls => launchEvents ps ++ startEvents ls

/-- What the coroutine of an instruction leaves behind: a `SubprocessResult`, or the exception
    raised when it could not be started. -/
inductive Item where
  | res (r : Result)
  | exc (id : Nat) (kind : SpawnKind)
  deriving Repr, DecidableEq, Inhabited

def mkItem (save text : Bool) (p : Proc) : Item :=
  match p.spawn with
  | some k => .exc p.id k
  | none => .res (mkResultAsync save text p)

/-- A slot of `Command._results`: one item, or the list a serial sub-list returns. -/
inductive Slot where
  | one (i : Item)
  | sub (is : List Item)
  deriving Repr, DecidableEq, Inhabited

/-- Re-assemble `Command._results` of one command from its finished lanes (consumes as many
    lanes as the command has). Returns the slots and the remaining lanes. -/
def entrySlots (save text : Bool) : List Entry → List Lane → List Slot × List Lane
  | [], ls => ([], ls)
  | _ :: _, [] => ([], [])
  | .one _ :: es, l :: ls =>
    let r := entrySlots save text es ls
    ((l.done.map (fun p => Slot.one (mkItem save text p))) ++ r.1, r.2)
  | .serial _ :: es, l :: ls =>
    let r := entrySlots save text es ls
    (Slot.sub (l.done.map (mkItem save text)) :: r.1, r.2)

def commandSlots (c : ACommand) (ls : List Lane) : List Slot × List Lane :=
  match c.run with
  | .single p => entrySlots c.save c.text [.one p] ls
  | .many es => entrySlots c.save c.text es ls

/-- `_parse_result` on one item: an exception is yielded as it is, a result yields a
    `SubprocessError` when `returncode` is truthy (non-zero). -/
def itemErrors : Item → List CmdErr
  | .exc i k => [.spawn i k]
  | .res r => if r.code ≠ 0 then [.exit r.id r.code] else []

/-- `Command.parse_results` / `_parse_result`: flattened errors, in the order of the slots. -/
def slotErrors : List Slot → List CmdErr
  | [] => []
  | .one i :: ss => itemErrors i ++ slotErrors ss
  | .sub is :: ss => is.flatMap itemErrors ++ slotErrors ss

/-- The loop of `Commands.run` after `asyncio.run`: `_results.extend(cmd._results)` for the
    `save` commands, `errors.extend(cmd.parse_results())` for all of them. -/
def collect : List ACommand → List Lane → List Slot × List CmdErr
  | [], _ => ([], [])
  | c :: cs, ls =>
    let s := commandSlots c ls
    let r := collect cs s.2
    ((if c.save then s.1 else []) ++ r.1, slotErrors s.1 ++ r.2)

structure AsyncObs where
  trace   : List Event
  started : List Nat               -- every process that was started, lane by lane
  errors  : List CmdErr            -- `MultiError.errors`; the step succeeds iff this is empty
  cmdOut  : Option (List Slot)     -- `context['cmdOut']` (set iff some command has `save`)
  running : List Nat := []         -- processes started and not yet finished when the step returns
  deriving Repr, DecidableEq, Inhabited

/-- The processes of a lane that existed: the ones dealt with that could be started, and the running one. -/
def laneStarted (l : Lane) : List Nat :=
  (l.done.filter Proc.ran).map (·.id) ++ (match l.cur with | some p => [p.id] | none => [])

/-- `AsyncCmdStep.run_step` under the given completion schedule. -/
def runAsync (cs : List ACommand) (sched : List Nat) : AsyncObs :=
  let ls0 := (lanesOf cs).map Lane.start
  let r := runSched ls0 sched
  let fin := drainAll r.1
  let c := collect cs fin
  { trace := startEvents (lanesOf cs) ++ r.2 ++ drainAllEvents r.1,
    started := (fin.map laneStarted).flatten,
    errors := c.2,
    cmdOut := if cs.any (·.save) then some c.1 else none,
    running := (fin.filterMap (·.cur)).map (·.id) }

/-- The schedule-free specification of the final state of a lane. -/
def finalLane (ps : List Proc) : Lane :=
  ⟨takeThrough ps, none, ps.drop (takeThrough ps).length⟩

end Pypyr.Cmd
