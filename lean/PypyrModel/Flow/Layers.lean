/-
  The decorator layers of `pypyr.dsl.Step`, each a combinator over an arbitrary
  inner body, mirroring the code's own layering
  (`while_loop(step_method)`, `foreach_loop`, `run_conditional_decorators`,
  `retry_loop(step_method)`, `invoke_step`).
-/
import PypyrModel.Flow.Types

namespace Pypyr.Flow
open Pypyr

def FMT_FUEL : Nat := 100

def fmtV (s : St) (v : Val) : Except Exc Val := fmtVal FMT_FUEL s.ctx v
def fmtB (s : St) (v : Val) : Except Exc Bool := fmtAsBool FMT_FUEL s.ctx v

/-- `int(x)` for the modelled kinds (`~` message: text not claimed). -/
def pyInt (v : Val) : Except Exc Int :=
  match v with
  | .int i => .ok i
  | .bool b => .ok (if b then 1 else 0)
  | .flt n k => .ok (Int.tdiv n (2 ^ k))
  | .str s => match s.trimAscii.toString.toInt? with
      | some i => .ok i
      | none => .error ⟨"ValueError", "~invalid literal for int()"⟩
  | _ => .error ⟨"TypeError", "~int() argument must be a string, a bytes-like object or a real number"⟩

/-- `[+-]digits[.digits]` (at least one digit): the mantissa as an integer and the number of fractional digits. -/
def decimalText? (cs : List Char) : Option (Int × Nat) :=
  let (neg, cs) : Bool × List Char := match cs with
    | '-' :: r => (true, r)
    | '+' :: r => (false, r)
    | r => (false, r)
  let ip := cs.takeWhile Char.isDigit
  let fp : Option (List Char) := match cs.dropWhile Char.isDigit with
    | '.' :: r => some r
    | [] => some []
    | _ => none
  match fp with
  | none => none
  | some fr =>
    if fr.all Char.isDigit && decide (ip.length + fr.length > 0) then
      let m : Nat := (ip ++ fr).foldl (fun acc c => acc * 10 + (c.toNat - '0'.toNat)) 0
      some (if neg then -(m : Int) else (m : Int), fr.length)
    else none

/-- `float(text)`: an integer text, or a decimal text whose value is a binary fraction that fits a double's
    mantissa (`'7.5'`, `'0.25'`, `'2.0'`) - exactly that number; blanks around it are stripped. A text that
    `float()` does accept in a way not modelled here (a decimal that needs rounding such as `'0.1'`, an exponent,
    digits grouped by `_`, `inf`, `nan`) leaves the domain (`OutOfDomain`: the driver rejects the case); every
    other text is the ValueError of `float()`. -/
def floatOfText (s : String) : Except Exc Num :=
  let t := ((s.toList.dropWhile Char.isWhitespace).reverse.dropWhile Char.isWhitespace).reverse
  match decimalText? t with
  | some (m, d) =>
    if m % (5 ^ d : Nat) == 0 && decide ((m / (5 ^ d : Nat)).natAbs < 2 ^ 53) then .ok ⟨m / (5 ^ d : Nat), d, true⟩
    else .error ⟨"OutOfDomain", "float() of a decimal text that needs rounding"⟩
  | none =>
    let low := (t.filter fun c => c != '+' && c != '-').map Char.toLower
    if t.any Char.isDigit || low == "inf".toList || low == "infinity".toList || low == "nan".toList then
      .error ⟨"OutOfDomain", "float() of a text in a form not modelled"⟩
    else .error ⟨"ValueError", "~could not convert string to float"⟩

/-- `float(x)` for the modelled kinds. -/
def pyFloat (v : Val) : Except Exc Num :=
  match v with
  | .int i => .ok ⟨i, 0, true⟩
  | .bool b => .ok ⟨if b then 1 else 0, 0, true⟩
  | .flt n k => .ok ⟨n, k, true⟩
  | .str s => floatOfText s
  | _ => .error ⟨"TypeError", "~float() argument must be a string or a real number"⟩

/-- `get_formatted_as_type(v, out_type=int)`. -/
def fmtInt (s : St) (v : Val) : Except Exc Int :=
  if isSpecialTag v then (fmtV s v).bind pyInt
  else match v with
    | .str _ => (fmtV s v).bind pyInt
    | other => pyInt other

/-- `get_formatted_as_type(v, out_type=float)`. -/
def fmtFloat (s : St) (v : Val) : Except Exc Num :=
  if isSpecialTag v then (fmtV s v).bind pyFloat
  else match v with
    | .str _ => (fmtV s v).bind pyFloat
    | other => pyFloat other

def optInt (o : Option Int) : Val := match o with | some i => .int i | none => .none

/-! ### save_error -/

/-- `Step.save_error`: append the failure record to `runErrors`. -/
def saveError (d : StepDef) (s : St) (e : ExcV) (swallowed : Bool) : St × Res :=
  let custom : Except Exc Val := match d.onError with
    | some oe => if oe.truthy then fmtV s oe else .ok (.dict [])
    | none => .ok (.dict [])
  match custom with
  | .error x => raiseExc s x
  | .ok ce =>
    let failure : Val := .dict [
      (.str "name", .str e.name), (.str "description", .str e.msg), (.str "customError", ce),
      (.str "line", match d.line with | some n => .int n | none => .none),
      (.str "col", match d.col with | some n => .int n | none => .none),
      (.str "step", match d.name with | some n => .str n | none => .none),
      (.str "exception", .obj e.id), (.str "swallowed", .bool swallowed)]
    match Ctx.get? s.ctx "runErrors" with
    | none => ({ s with ctx := Ctx.set s.ctx "runErrors" (.list [failure]) }, .ok)
    | some (.list xs) => ({ s with ctx := Ctx.set s.ctx "runErrors" (.list (xs ++ [failure])) }, .ok)
    | some _ => raiseNew s "AttributeError" "~object has no attribute 'append'"

/-! ### invoke_step -/

/-- `Step.reset_context_counters` (after fix c431c3f: unconditional write-back). -/
def resetCounters (fr : Frame) (c : CofCfg) (s : St) : St :=
  let ctx := s.ctx
  let ctx := match fr.whileC with | some w => Ctx.set ctx "whileCounter" (.int w) | none => ctx
  let ctx := match fr.forI with | some x => Ctx.set ctx "i" x | none => ctx
  let ctx := match fr.retryC with | some r => Ctx.set ctx "retryCounter" (.int r) | none => ctx
  let ctx := if Ctx.get? ctx c.key = some c.original then ctx else Ctx.set ctx c.key c.original
  { s with ctx := ctx }

/-- the loop-counter part of `Step.reset_context_counters` (everything before its `assert`). -/
def resetLoopCounters (fr : Frame) (s : St) : St :=
  let ctx := s.ctx
  let ctx := match fr.whileC with | some w => Ctx.set ctx "whileCounter" (.int w) | none => ctx
  let ctx := match fr.forI with | some x => Ctx.set ctx "i" x | none => ctx
  let ctx := match fr.retryC with | some r => Ctx.set ctx "retryCounter" (.int r) | none => ctx
  { s with ctx := ctx }

/-- `Step.invoke_step`: run the step module's body; a `Call` runs the called groups through the
    current pipeline's runner (`callee`), restores the counters (always: `finally`), and maps the outcome:
    an error is wrapped in `HandledError` (`handled = true`); control-of-flow instructions and
    Stop pass unchanged (fix e55e305). `reset_context_counters` asserts `call.original_config[1]`
    after it wrote the loop counters back: for a falsy raw configuration (`call: ''`, `call: []`)
    that AssertionError, raised inside the `finally`, replaces whatever the called groups ended
    with - it leaves the step as a plain (not yet recorded) error, the `call` key not restored. -/
def invokeStep (fr : Frame) (body : Body) (callee : CofCfg → Body) : Body := fun s =>
  match body s with
  | (s1, .call c) =>
    let (s2, r) := callee c s1
    if c.original.truthy then
      let s3 := resetCounters fr c s2
      match r with
      | .err e _ => (s3, .err e true)
      | other => (s3, other)
    else
      match r with
      | .outOfFuel => (s2, .outOfFuel)
      | _ => raiseNew (resetLoopCounters fr s2) "AssertionError" ""
  | other => other

/-! ### retry -/

/-- `error_name in formatted_list` (a list: membership; a string: substring - Python's `in`). -/
def nameIn (name : String) (lst : Val) : Except Exc Bool := pyIn (.str name) lst

/-- The stopOn / retryOn decision of `exec_iteration` for error name `n`:
    `ok true` = propagate now, `ok false` = try again. -/
def retryFilters (cfg : RetryCfg) (s : St) (n : String) : Except Exc Bool :=
  let stopOn := cfg.stopOn.filter Val.truthy
  let retryOn := cfg.retryOn.filter Val.truthy
  match stopOn with
  | some so =>
    match fmtV s so with
    | .error x => .error x
    | .ok l => match nameIn n l with
      | .error x => .error x
      | .ok true => .ok true
      | .ok false =>
        match retryOn with
        | some ro => match fmtV s ro with
          | .error x => .error x
          | .ok l2 => (nameIn n l2).map (!·)
        | none => .ok false
  | none =>
    match retryOn with
    | some ro => match fmtV s ro with
      | .error x => .error x
      | .ok l2 => (nameIn n l2).map (!·)
    | none => .ok false

def numToVal (x : Num) : Val := x.toVal

/-- `poll.while_until_true(interval=backoff, max_attempts=max)(exec_iteration)` followed by
    `assert is_retry_ok` of `retry_loop`: attempt `k`; an error of the `max`-th attempt (`max` truthy)
    and an error the filters stop propagate; otherwise the result is False: the interval is computed
    (always - the callable is called before `max_attempts` is looked at), then either
    `time.sleep(interval)` and the next attempt (`max_attempts` falsy, or `k < max_attempts`), or the
    loop breaks with False and the `assert` fails (only reachable for a negative `max`).
    `time.sleep` of a negative duration raises ValueError. -/
def retryIter (cfg : RetryCfg) (fr : Frame) (inner : Frame → Body) (max : Option Int) :
    Nat → Nat → BackoffState → Body
  | 0, _, _ => fun s => (s, .outOfFuel)
  | fuel + 1, k, bo => fun s =>
    -- exec_iteration(counter = k)
    let s0 := { s with ctx := Ctx.set s.ctx "retryCounter" (.int k) }
    let (s1, r) := inner { fr with retryC := some k } s0
    match r with
    | .err e handled =>
      let atMax := match max with | some m => m != 0 && (k : Int) == m | none => false
      if atMax then (s1, .err e handled)
      else
        match retryFilters cfg s1 e.name with
        | .error x => raiseExc s1 x
        | .ok true => (s1, .err e handled)
        | .ok false =>
          -- result False: compute the interval; sleep and go on, or break
          let (d, bo', rnd') := interval bo k s1.rnd
          let goOn := match max with | some m => m == 0 || (k : Int) < m | none => true
          if goOn then
            if d.n < 0 then raiseNew { s1 with rnd := rnd' } "ValueError" "sleep length must be non-negative"
            else
              let s2 := { s1 with rnd := rnd', sleeps := s1.sleeps ++ [numToVal d] }
              retryIter cfg fr inner max fuel (k + 1) bo' s2
          else raiseNew { s1 with rnd := rnd' } "AssertionError" ""
    | other => (s1, other)

/-- The same loop around a back-off callable whose every call goes wrong (a list `sleep` with a
    strategy that multiplies it, a `base` that is no number): the first failed attempt that would be
    retried ends the loop. `yields = true`: the call returns a non-number (no exception yet): then
    `time.sleep` raises TypeError - unless `while_until_true` breaks first (negative `max`), and the
    `assert` fails; `yields = false`: the call itself raises TypeError. -/
def retryFaulty (cfg : RetryCfg) (fr : Frame) (inner : Frame → Body) (max : Option Int) (yields : Bool) : Body :=
  fun s =>
    let s0 := { s with ctx := Ctx.set s.ctx "retryCounter" (.int 1) }
    let (s1, r) := inner { fr with retryC := some 1 } s0
    match r with
    | .err e handled =>
      let atMax := match max with | some m => m != 0 && (1 : Int) == m | none => false
      if atMax then (s1, .err e handled)
      else
        match retryFilters cfg s1 e.name with
        | .error x => raiseExc s1 x
        | .ok true => (s1, .err e handled)
        | .ok false =>
          let goOn := match max with | some m => m == 0 || (1 : Int) < m | none => true
          if yields && !goOn then raiseNew s1 "AssertionError" ""
          else raiseNew s1 "TypeError" "~the back-off interval is not a number"
    | other => (s1, other)

/-- values → numbers for the back-off constructor; `none` = outside the modelled domain. -/
def sleepNums (v : Val) : Option (Num × Option (List Num)) :=
  match v with
  | .list xs =>
    let ns := xs.filterMap Val.num?
    if ns.length == xs.length then some (numZero, some ns) else none
  | other => (other.num?).map fun n => (n, none)

/-- `backoff_cache.get_backoff(name)`. -/
inductive BackoffLookup where
  | kind (k : BackoffKind)
  | fail (name msg : String)
  | outside                       -- a dotted name the model does not resolve (a custom callable)
  deriving Repr, DecidableEq

/-- names of module `vprobe` (harness/probe/vprobe.py) that exist - none of them a back-off class. -/
def vprobeAttrs : List String := ["TRACE", "MISSING", "ProbeError", "OtherError", "_cls", "run_step", "builtins"]

/-- `BackoffCache.get_backoff` / `load_backoff_callable`: the six built-ins by bare name; another bare
    name is a ValueError; a dotted name `module.attr` is imported (`nomodule…` does not exist,
    `vprobe` has the attributes listed); a name that is no string fails at the cache's dict look-up
    (unhashable) or at `name.rpartition`. -/
def lookupBackoff (nameV : Val) : BackoffLookup :=
  match nameV with
  | .str n =>
    match BackoffKind.ofName? n with
    | some k => .kind k
    | none =>
      let parts := n.splitOn "."
      if parts.length < 2 then .fail "ValueError" "~unknown back-off strategy"
      else
        let attr := parts.getLast!
        let modParts := parts.dropLast
        if modParts.head! == "nomodule" then .fail "pypyr.errors.PyModuleNotFoundError" "~module not found"
        else if modParts == ["vprobe"] && !(vprobeAttrs.contains attr) && !(attr.startsWith "__") && attr != ""
        then .fail "AttributeError" "~module has no such attribute"
        else .outside
  | .list _ | .dict _ | .set _ => .fail "TypeError" "~unhashable type"
  | _ => .fail "AttributeError" "~object has no attribute 'rpartition'"

/-- what `backoff_callable = <class>(sleep=…, max_sleep=…, jrc=…, kwargs=…)` gives. -/
inductive BackoffBuild where
  | good (bo : BackoffState)
  | fail (name msg : String)       -- the constructor raises
  | faulty (yields : Bool)         -- every call goes wrong, see `retryFaulty`
  | outside

/-- `exponential.__init__`: `self.base = kwargs.get('base', 2) if kwargs else 2`.
    `ok none` = a base that is no number. -/
def expBase (argsV : Val) : Except (String × String) (Option Num) :=
  if !argsV.truthy then .ok (some ⟨2, 0, false⟩)
  else match argsV with
    | .dict kvs => match dictGet? kvs (.str "base") with
      | some b => .ok b.num?
      | none => .ok (some ⟨2, 0, false⟩)
    | _ => .error ("AttributeError", "~object has no attribute 'get'")

def maxSleepFalsy (ms : Option Num) : Bool :=
  match ms with | some m => m.isZero | none => true

/-- The constructors of `pypyr.retries` on the values `retry_loop` hands them.
    `fixed` / `jitter`: a list sleep becomes the deque (`[]`: `self.queue[-1]` is an IndexError);
    the other strategies keep the sleep as it is - a list there makes every call go wrong
    (`n * [..]` is a list: `min(list, max_sleep)`, `list - list` in `random.uniform`, `float * list`
    raise TypeError; else the list comes back and `time.sleep` rejects it). -/
def buildBackoff (kind : BackoffKind) (sleepV : Val) (maxSleep : Option Num) (jrcV argsV : Val) : BackoffBuild :=
  match jrcV.num? with
  | none => .outside
  | some jrc =>
    match kind with
    | .fixed | .jitter =>
      match sleepV with
      | .list [] => .fail "IndexError" "~deque index out of range"
      | _ => match sleepNums sleepV with
        | some (sl, lst) => .good (mkBackoff kind sl lst maxSleep jrc ⟨2, 0, false⟩)
        | none => .outside
    | .linear | .linearjitter =>
      match sleepV with
      | .list _ => .faulty (kind == .linear && maxSleepFalsy maxSleep)
      | _ => match sleepV.num? with
        | some sl => .good (mkBackoff kind sl none maxSleep jrc ⟨2, 0, false⟩)
        | none => .outside
    | .exponential | .exponentialjitter =>
      match expBase argsV with
      | .error (n, m) => .fail n m
      | .ok none => (match sleepV with
        | .list _ => .faulty false
        | _ => if sleepV.num?.isSome then .faulty false else .outside)
      | .ok (some base) =>
        match sleepV with
        | .list _ => .faulty (kind == .exponential && maxSleepFalsy maxSleep && !base.isFloat)
        | _ => match sleepV.num? with
          | some sl => .good (mkBackoff kind sl none maxSleep jrc base)
          | none => .outside

/-- `RetryDecorator.retry_loop`. -/
def retryLoop (cfg : RetryCfg) (fr : Frame) (inner : Frame → Body) (fuel : Nat) : Body := fun s =>
  let s := { s with ctx := Ctx.set s.ctx "retryCounter" (.int 0) }
  match fmtV s cfg.sleep with
  | .error x => raiseExc s x
  | .ok sleepV =>
  -- `context.get_formatted_value(self.backoff) if self.backoff else config.default_backoff`: the configured
  -- default is looked up HERE, when the loop starts - not when the module was loaded, not when the step was parsed
  let nameR : Except Exc Val := match cfg.backoff with
    | some b => if b.truthy then fmtV s b else .ok (.str s.defaultBackoff)
    | none => .ok (.str s.defaultBackoff)
  match nameR with
  | .error x => raiseExc s x
  | .ok nameV =>
  let maxSleepR : Except Exc (Option Num) := match cfg.sleepMax with
    | some m => if m.truthy then (fmtFloat s m).map some else .ok none
    | none => .ok none
  match maxSleepR with
  | .error x => raiseExc s x
  | .ok maxSleep =>
  match fmtV s cfg.jrc with
  | .error x => raiseExc s x
  | .ok jrcV =>
  let argsR : Except Exc Val := match cfg.backoffArgs with
    | some a => fmtV s a
    | none => .ok .none
  match argsR with
  | .error x => raiseExc s x
  | .ok argsV =>
  match lookupBackoff nameV with
  | .fail n m => raiseNew s n m
  | .outside => raiseNew s "OutOfDomain" "custom back-off callable"
  | .kind kind =>
  match buildBackoff kind sleepV maxSleep jrcV argsV with
  | .fail n m => raiseNew s n m
  | .outside => raiseNew s "OutOfDomain" "retry sleep/jrc not numeric"
  | built =>
    -- `if self.max: max = context.get_formatted_as_type(self.max, out_type=int) else: max = None`
    let maxR : Except Exc (Option Int) := match cfg.max with
      | some m => if m.truthy then (fmtInt s m).map some else .ok none
      | none => .ok none
    match maxR with
    | .error x => raiseExc s x
    | .ok max =>
      match built with
      | .good bo => retryIter cfg fr inner max fuel 1 bo s
      | .faulty y => retryFaulty cfg fr inner max y s
      | _ => (s, .ok)     -- not reached

/-! ### run / skip / swallow -/

/-- ghost: log the event "error `e` escaped the body of step `d` and `d` is the one to record it"
    (`handled`: it came out of called groups and was recorded there). No effect on anything observable. -/
def logEscape (d : StepDef) (s1 : St) (e : ExcV) (handled : Bool) : St :=
  if handled then s1 else { s1 with escapes := s1.escapes ++ [⟨d, e, s1.ctx⟩] }

/-- `Step.run_conditional_decorators`. `inner` is the retry loop or the bare invoke. -/
def runConditional (d : StepDef) (inner : Body) : Body := fun s =>
  match fmtB s d.run with
  | .error x => raiseExc s x
  | .ok false => (s, .ok)
  | .ok true =>
    match fmtB s d.skip with
    | .error x => raiseExc s x
    | .ok true => (s, .ok)
    | .ok false =>
      let (s1, r) := inner s
      match r with
      | .err e handled =>
        -- ghost: the event "an error escaped the body and this step is the one to record it"
        let s1 : St := logEscape d s1 e handled
        match fmtB s1 d.swallow with
        | .error x => raiseExc s1 x
        | .ok sw =>
          let saved : St × Res := if handled then (s1, .ok) else saveError d s1 e sw
          match saved with
          | (s2, .ok) => if sw then (s2, .ok) else (s2, .err e false)
          | other => other
      | other => (s1, other)

/-! ### foreach -/

/-- Items of `for i in foreach`. -/
def iterItems (v : Val) : Except Exc (List Val) :=
  match v with
  | .list xs => .ok xs
  | .tuple xs => .ok xs
  | .set xs => .ok xs
  | .dict kvs => .ok (kvs.map (·.1))
  | .str s => .ok (s.toList.map fun c => .str (String.singleton c))
  | _ => .error ⟨"TypeError", "~object is not iterable"⟩

/-- The `for i in foreach:` loop of `Step.foreach_loop`, once the iterable is evaluated. -/
def foreachItems (fr : Frame) (inner : Frame → Body) : List Val → Body
  | [] => fun s => (s, .ok)
  | x :: rest => fun s =>
    let s0 := { s with ctx := Ctx.set s.ctx "i" x }
    match inner { fr with forI := some x } s0 with
    | (s1, .ok) => foreachItems fr inner rest s1
    | other => other

/-- `Step.foreach_loop`. -/
def foreachLoop (raw : Val) (fr : Frame) (inner : Frame → Body) : Body := fun s =>
  match fmtV s raw with
  | .error x => raiseExc s x
  | .ok v => match iterItems v with
    | .error x => raiseExc s x
    | .ok items => foreachItems fr inner items s

/-- `Step.run_foreach_or_conditional`: a falsy raw `foreach` means "not declared". -/
def foreachOrConditional (d : StepDef) (fr : Frame) (inner : Frame → Body) : Body :=
  match d.foreach with
  | some raw => if raw.truthy then foreachLoop raw fr inner else inner fr
  | none => inner fr

/-! ### while -/

/-- `poll.while_until_true(interval=sleep, max_attempts=max)(WhileDecorator.exec_iteration)`. -/
def whileIter (cfg : WhileCfg) (fr : Frame) (inner : Frame → Body) (max : Option Nat) (sleep : Num)
    (errorOnMax : Bool) : Nat → Nat → Body
  | 0, _ => fun s => (s, .outOfFuel)
  | fuel + 1, k => fun s =>
    let s0 := { s with ctx := Ctx.set s.ctx "whileCounter" (.int k) }
    match inner { fr with whileC := some k } s0 with
    | (s1, .ok) =>
      let stopR : Except Exc Bool := match cfg.stop with
        | some st => if st.truthy then fmtB s1 st else .ok false
        | none => .ok false
      match stopR with
      | .error x => raiseExc s1 x
      | .ok true => (s1, .ok)
      | .ok false =>
        let bounded := match max with | some m => m != 0 | none => false
        if bounded then
          if (k : Nat) < max.getD 0 then
            -- time.sleep(sleep): a negative duration is a ValueError
            if sleep.n < 0 then raiseNew s1 "ValueError" "sleep length must be non-negative"
            else
              whileIter cfg fr inner max sleep errorOnMax fuel (k + 1)
                { s1 with sleeps := s1.sleeps ++ [numToVal sleep] }
          else if errorOnMax then
            raiseNew s1 "pypyr.errors.LoopMaxExhaustedError" "~while loop reached max"
          else (s1, .ok)
        else
          if sleep.n < 0 then raiseNew s1 "ValueError" "sleep length must be non-negative"
          else
            whileIter cfg fr inner max sleep errorOnMax fuel (k + 1)
              { s1 with sleeps := s1.sleeps ++ [numToVal sleep] }
    | other => other

/-- `WhileDecorator.while_loop`. -/
def whileLoop (cfg : WhileCfg) (fr : Frame) (inner : Frame → Body) (fuel : Nat) : Body := fun s =>
  let s := { s with ctx := Ctx.set s.ctx "whileCounter" (.int 0) }
  if cfg.stop.isNone && cfg.max.isNone then
    raiseNew s "pypyr.errors.PipelineDefinitionError" "~the while decorator must have either max or stop"
  else
  match fmtB s cfg.errorOnMax with
  | .error x => raiseExc s x
  | .ok eom =>
  match fmtFloat s cfg.sleep with
  | .error x => raiseExc s x
  | .ok sleep =>
  match cfg.max with
  | none => whileIter cfg fr inner none sleep eom fuel 1 s
  | some m =>
    match fmtInt s m with
    | .error x => raiseExc s x
    | .ok mi =>
      if mi < 1 then (s, .ok)
      else whileIter cfg fr inner (some mi.toNat) sleep eom fuel 1 s

/-! ### in-parameters -/

/-- `Step.set_step_input_context` (after fix 1ff9d65 the values are copies; on trees that is invisible). -/
def setIn (d : StepDef) (s : St) : St :=
  match d.inArgs with
  | some kvs => { s with ctx := Ctx.update s.ctx kvs }
  | none => s

/-- `Step.unset_step_input_context`. -/
def unsetIn (d : StepDef) (s : St) : St :=
  match d.inArgs with
  | some kvs => { s with ctx := kvs.foldl (fun c kv => Ctx.erase c kv.1) s.ctx }
  | none => s

/-- `Step.run_step` from the point where the (optional) `description` has been dealt with, given the
    bare module body and the callee runner: `in` arguments set, the nesting
    `while > foreach > run/skip/swallow > retry > invoke`, `in` arguments unset on normal completion.
    For a step without `description` this is all of `run_step`; see `runStepDescribed`. -/
def runStepWith (d : StepDef) (body : Body) (callee : CofCfg → Body) (fuel : Nat) : Body := fun s =>
  let s0 := setIn d s
  let invoke : Frame → Body := fun fr => invokeStep fr body callee
  let retried : Frame → Body := fun fr =>
    match d.retry with
    | some rc => retryLoop rc { fr with retryC := some 0 } invoke fuel
    | none => invoke fr
  let conditional : Frame → Body := fun fr => runConditional d (retried fr)
  let looped : Frame → Body := fun fr => foreachOrConditional d fr conditional
  let r := match d.while_ with
    | some wc => whileLoop wc { whileC := some 0 } looped fuel s0
    | none => looped {} s0
  match r with
  | (s1, .ok) => (unsetIn d s1, .ok)
  | other => other

/-- the up-front part of `Step.run_step` for a step with a (truthy) `description`: the text of the
    notification is formatted right after the `in` arguments are set - an error of that formatting
    propagates (outside every decorator: not recorded in `runErrors`, not swallowed, not retried, `in`
    arguments left in the context). The preview of `run`/`skip` that only words the notification
    ("(skipping): …") ignores its own errors since c7066aa and formatting has no effect on the
    context, so it leaves no trace here. `none` = nothing raised. -/
def describe (d : StepDef) (s : St) : Option Exc :=
  match d.description with
  | some v =>
    if v.truthy then
      match fmtV s v with
      | .error x => some x
      | .ok _ => none
    else none
  | none => none

/-- `set_step_input_context` on an `in` that is no mapping: `len(5)` raises TypeError,
    `context.update('ab')` ValueError (its elements have length 1, not 2). `none` = nothing raised. -/
def inFault (d : StepDef) : Option Exc :=
  match d.inBad with
  | some (.str _) => some ⟨"ValueError", "~dictionary update sequence element #0 has length 1; 2 is required"⟩
  | some _ => some ⟨"TypeError", "~object of this type has no len()"⟩
  | none => none

/-- `Step.run_step`: `in` arguments, the `description` notification, then the decorator stack.
    A failure of `set_step_input_context` itself (`in` is no mapping) is raised before anything else,
    outside every decorator: not recorded in `runErrors`, not swallowed, not retried. -/
def runStepDescribed (d : StepDef) (body : Body) (callee : CofCfg → Body) (fuel : Nat) : Body := fun s =>
  match inFault d with
  | some x => raiseExc s x
  | none =>
  match describe d (setIn d s) with
  | some x => raiseExc (setIn d s) x
  | none => runStepWith d body callee fuel s

end Pypyr.Flow
