/-
  Bodies of the step modules the flow model knows: the harness probe `vprobe`
  and the pypyr built-ins the properties talk about, each mirrored from its
  source (`pypyr/steps/<name>.py`, `pypyr/steps/dsl/cof.py`).
-/
import PypyrModel.Flow.Layers

namespace Pypyr.Flow
open Pypyr

def keyNotIn (k who : String) : String × String :=
  ("pypyr.errors.KeyNotInContextError", "~context['" ++ k ++ "'] doesn't exist. It must exist for " ++ who ++ ".")

/-- `Context.assert_key_has_value`. -/
def assertKeyHasValue (s : St) (k who : String) : Except (String × String) Val :=
  match Ctx.get? s.ctx k with
  | none => .error (keyNotIn k who)
  | some .none => .error ("pypyr.errors.KeyInContextHasNoValueError", "~context['" ++ k ++ "'] must have a value for " ++ who ++ ".")
  | some v => .ok v

def strList? (v : Val) : Option (List String) :=
  match v with
  | .list xs =>
    let ss := xs.filterMap fun x => match x with | .str s => some s | _ => none
    if ss.length == xs.length then some ss else none
  | _ => none

def optStr? (v : Option Val) : Except Unit (Option String) :=
  match v with
  | none => .ok none
  | some .none => .ok none
  | some (.str s) => .ok (some s)
  | some _ => .error ()

/-- the `groups` value of the MAP form of a call / jump / switch-case configuration, as `instruction_from_dict`
    hands it on: `if isinstance(groups, str): groups = [groups]`, anything else goes to
    `run_step_groups(groups=…)` as it is, which only iterates it (`for step_group in groups`) - so a list
    and a TUPLE of names (what `groups: !py ('a', 'b' + i)` or `groups: '{names}'` evaluate to) name the same
    groups, in order. (Only in the map form: a tuple given as the whole configuration is a ContextError.) -/
def groupNames? (g : Val) : Option (List String) :=
  match g with
  | .str x => some [x]
  | .tuple xs => strList? (.list xs)
  | other => strList? other

/-- `cof.instruction_from_dict`: build the instruction from the *formatted* config. -/
def instructionFromVal (cfg : Val) (key : String) (original : Val) : Except (String × String) CofCfg :=
  match cfg with
  | .str g => .ok { groups := [g], success := none, failure := none, key, original }
  | .list xs => match strList? (.list xs) with
    | some gs => .ok { groups := gs, success := none, failure := none, key, original }
    | none => .error ("OutOfDomain", "group names must be strings")
  | .dict kvs =>
    match dictGet? kvs (.str "groups") with
    | none => .error ("pypyr.errors.KeyNotInContextError", "~" ++ key ++ " needs a child key 'groups'")
    | some g =>
      if !g.truthy then .error ("pypyr.errors.KeyInContextHasNoValueError", "~" ++ key ++ ".groups must have a value")
      else
        match groupNames? g with
        | none => .error ("OutOfDomain", "group names must be strings")
        | some gs =>
          match optStr? (dictGet? kvs (.str "success")) with
          | .error _ => .error ("pypyr.errors.ContextError", "~" ++ key ++ ".success must be a string")
          | .ok su =>
            match optStr? (dictGet? kvs (.str "failure")) with
            | .error _ => .error ("pypyr.errors.ContextError", "~" ++ key ++ ".failure must be a string")
            | .ok fa => .ok { groups := gs, success := su, failure := fa, key, original }
  | _ => .error ("pypyr.errors.ContextError", "~" ++ key ++ " needs a child key 'groups'")

/-- `Context.get_formatted(key)`: a KeyNotInContextError is re-raised with a longer text. -/
def fmtAtKey (s : St) (v : Val) : Except Exc Val :=
  match fmtV s v with
  | .error x => if x.name == "pypyr.errors.KeyNotInContextError"
      then .error ⟨x.name, "~Unable to format … because " ++ x.msg⟩ else .error x
  | .ok r => .ok r

/-- `cof.control_of_flow_instruction` for `pypyr.steps.call` / `pypyr.steps.jump`. Its
    `assert context, (...)` fails on an EMPTY context (a dict without keys is falsy). -/
def cofStep (key : String) (isCall : Bool) : Body := fun s =>
  if s.ctx.isEmpty then raiseNew s "AssertionError" "context param must exist for ControlOfFlowStep." else
  match assertKeyHasValue s key ("pypyr.steps." ++ key) with
  | .error (n, m) => raiseNew s n m
  | .ok original =>
    match fmtAtKey s original with
    | .error x => raiseExc s x
    | .ok cfg =>
      match instructionFromVal cfg key original with
      | .error (n, m) => raiseNew s n m
      | .ok c => (s, if isCall then .call c else .jump c)

/-- One entry of the `switch` list, as `cof.switch` reads it. -/
inductive SwitchStep where
  | take (rawCall : Val)             -- case true or trailing default: format & call this
  | next                             -- case false
  | fail (name msg : String)

def switchCase (s : St) (case : Val) (isLast : Bool) (idx : Nat) : SwitchStep :=
  match case with
  | .dict kvs =>
    let dflt := if isLast then dictGet? kvs (.str "default") else none
    match dflt with
    | some d => if d != .none then .take d else
        -- `default: null` is "not a default": falls to the case branch
        match dictGet? kvs (.str "case") with
        | none => .fail "pypyr.errors.KeyNotInContextError" ("~'case' not found in `switch` index " ++ toString idx)
        | some raw =>
          match dictGet? kvs (.str "call") with
          | none => .fail "pypyr.errors.KeyNotInContextError" ("~'call' not found in `switch` index " ++ toString idx)
          | some rc =>
            if !rc.truthy then .fail "pypyr.errors.KeyInContextHasNoValueError" "~'call' does not have a value"
            else match (if raw = .none then Except.ok false else fmtB s raw) with
              | .error x => .fail x.name x.msg
              | .ok true => .take rc
              | .ok false => .next
    | none =>
      match dictGet? kvs (.str "case") with
      | none => .fail "pypyr.errors.KeyNotInContextError" ("~'case' not found in `switch` index " ++ toString idx)
      | some raw =>
        match dictGet? kvs (.str "call") with
        | none => .fail "pypyr.errors.KeyNotInContextError" ("~'call' not found in `switch` index " ++ toString idx)
        | some rc =>
          if !rc.truthy then .fail "pypyr.errors.KeyInContextHasNoValueError" "~'call' does not have a value"
          else match (if raw = .none then Except.ok false else fmtB s raw) with
            | .error x => .fail x.name x.msg
            | .ok true => .take rc
            | .ok false => .next
  | _ => .fail "OutOfDomain" "switch case must be a mapping"

/-- The `for i, case in enumerate(switch_config)` loop: first true case (or trailing default) wins. -/
def switchScan (s : St) (original : Val) : List Val → Nat → St × Res
  | [], _ => (s, .ok)
  | case :: rest, idx =>
    match switchCase s case rest.isEmpty idx with
    | .fail n m => raiseNew s n m
    | .next => switchScan s original rest (idx + 1)
    | .take rawCall =>
      match fmtV s rawCall with
      | .error x => raiseExc s x
      | .ok cfg =>
        match instructionFromVal cfg "switch" original with
        | .error (n, m) => raiseNew s n m
        | .ok c => (s, .call c)

/-- `cof.switch` (`pypyr.steps.switch`). -/
def switchStep : Body := fun s =>
  match assertKeyHasValue s "switch" "pypyr.steps.switch" with
  | .error (n, m) => raiseNew s n m
  | .ok original =>
    match original with
    | .list cases => switchScan s original cases 0
    | _ => raiseNew s "OutOfDomain" "switch must be a list"

/-- `pypyr.steps.set`. -/
def setFold (s : St) : List (Val × Val) → St × Res
  | [] => (s, .ok)
  | (k, v) :: rest =>
    -- `context[fmt(k)] = fmt(v)`: Python evaluates the right-hand side first
    match fmtV s v with
    | .error x => raiseExc s x
    | .ok fv =>
      match fmtV s k with
      | .error x => raiseExc s x
      | .ok (.str ks) => setFold { s with ctx := Ctx.set s.ctx ks fv } rest
      | .ok _ => raiseNew s "OutOfDomain" "context keys must be strings"

def setStep : Body := fun s =>
  match assertKeyHasValue s "set" "pypyr.steps.set" with
  | .error (n, m) => raiseNew s n m
  | .ok (.dict kvs) => setFold { s with ctx := Ctx.erase s.ctx "set" } kvs
  | .ok _ => raiseNew { s with ctx := Ctx.erase s.ctx "set" } "AttributeError" "~object has no attribute 'items'"

/-- `pypyr.steps.contextclear`. -/
def contextClearStep : Body := fun s =>
  match assertKeyHasValue s "contextClear" "pypyr.steps.contextclear" with
  | .error (n, m) => raiseNew s n m
  | .ok (.list ks) =>
    match strList? (.list ks) with
    | some names => ({ s with ctx := names.foldl Ctx.erase s.ctx }, .ok)
    | none => raiseNew s "OutOfDomain" "contextClear entries must be strings"
  | .ok _ => raiseNew s "OutOfDomain" "contextClear must be a list"

/-- `pypyr.steps.contextclearall`. -/
def contextClearAllStep : Body := fun s => ({ s with ctx := [] }, .ok)

/-! ### the probe -/

def valNat? : Val → Option Nat
  | .int i => if i < 0 then none else some i.toNat
  | _ => none

def nerrOf (ctx : Ctx) : Nat :=
  match Ctx.get? ctx "runErrors" with
  | some (.list xs) => xs.length
  | _ => 0

def applySets (ctx : Ctx) : List (Val × Val) → Ctx
  | [] => ctx
  | (.str k, v) :: rest => applySets (Ctx.set ctx k v) rest
  | _ :: rest => applySets ctx rest

/-- `str(cls(msg))` for the exception classes the probe raises: `KeyError.__str__` is the repr of its
    single argument, every other class gives the argument itself. -/
def excStr (name msg : String) : String :=
  if name == "KeyError" then strRepr msg else msg

/-- The harness probe step `vprobe` (harness/probe/vprobe.py), statement by statement:
    count the execution, record an event, apply raw `set`/`del`/`clearAll`, then fail as scripted. -/
def probeStep : Body := fun s =>
  match Ctx.get? s.ctx "p" with
  | some (.dict cfg) =>
    let tag := match dictGet? cfg (.str "tag") with | some (.str t) => t | _ => "?"
    let cntKey := "_n_" ++ tag
    let cnt : Nat := (match Ctx.get? s.ctx cntKey with | some v => (valNat? v).getD 0 | none => 0) + 1
    let ctx1 := Ctx.set s.ctx cntKey (.int cnt)
    let keys : List String := match dictGet? cfg (.str "keys") with
      | some v => (strList? v).getD []
      | none => []
    let ev : Event := {
      tag, i := Ctx.get? ctx1 "i", w := Ctx.get? ctx1 "whileCounter", r := Ctx.get? ctx1 "retryCounter",
      nerr := nerrOf ctx1, pipe := s.stack.head?.getD "", depth := s.stack.length,
      keys := keys.map fun k => (k, Ctx.get? ctx1 k) }
    let ctx2 := match dictGet? cfg (.str "set") with
      | some (.dict kvs) => applySets ctx1 kvs
      | _ => ctx1
    let ctx3 := match dictGet? cfg (.str "del") with
      | some v => ((strList? v).getD []).foldl Ctx.erase ctx2
      | none => ctx2
    let ctx4 := match dictGet? cfg (.str "clearAll") with
      | some (.bool true) => []
      | _ => ctx3
    let s1 := { s with ctx := ctx4, trace := s.trace ++ [ev] }
    let msg := match dictGet? cfg (.str "msg") with | some (.str m) => m | _ => "boom " ++ tag
    let failIfR : Except Exc Bool := match dictGet? cfg (.str "failIf") with
      | some e => fmtB s1 e
      | none => .ok false
    match failIfR with
    | .error x => raiseExc s1 x
    | .ok true => raiseNew s1 "vprobe.ProbeError" msg
    | .ok false =>
      let script : List Val := match dictGet? cfg (.str "fails") with
        | some (.list xs) => xs
        | _ => []
      let scripted : Val := match script[cnt - 1]? with
        | some v => v
        | none => (dictGet? cfg (.str "failRest")).getD .none
      match scripted with
      | .str name => raiseNew s1 name (excStr name msg)
      | _ => (s1, .ok)
  | _ => raiseNew s "pypyr.errors.KeyNotInContextError" "~p not found in the pypyr context."

/-- Which modelled body a step name denotes; `none` = module cannot be loaded. -/
inductive StepKind where
  | probe | stop | stopPipeline | stopGroup | call | jump | switch | set | contextClear
  | contextClearAll | pype
  deriving Repr, DecidableEq, Inhabited

def stepKind? : String → Option StepKind
  | "vprobe" => some .probe
  | "pypyr.steps.stop" => some .stop
  | "pypyr.steps.stoppipeline" => some .stopPipeline
  | "pypyr.steps.stopstepgroup" => some .stopGroup
  | "pypyr.steps.call" => some .call
  | "pypyr.steps.jump" => some .jump
  | "pypyr.steps.switch" => some .switch
  | "pypyr.steps.set" => some .set
  | "pypyr.steps.contextclear" => some .contextClear
  | "pypyr.steps.contextclearall" => some .contextClearAll
  | "pypyr.steps.pype" => some .pype
  | _ => none

end Pypyr.Flow
