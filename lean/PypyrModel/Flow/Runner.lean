/-
  The interpreter proper: `StepsRunner` (`run_pipeline_steps`, `run_step_group`,
  `run_failure_step_group`, `run_step_groups`), `Pipeline` (`_run_pipeline`,
  `load_and_run_pipeline`, `run`), `pypyr.steps.pype` and `pipelinerunner.run`,
  as one fuel-indexed mutual recursion over the layers of `Layers.lean`.
-/
import PypyrModel.Flow.Steps

namespace Pypyr.Flow
open Pypyr

/-- How a pipeline instance is to be run (`Pipeline.__init__` arguments). -/
structure PipeInst where
  name : String
  groups : Option (List String) := none
  success : Option String := none
  failure : Option String := none
  parseInput : Bool := true
  contextArgs : Option (List String) := none
  groupsBad : Bool := false        -- `groups` is a truthy value that cannot be iterated (`groups: 5`)
  deriving Repr, DecidableEq, Inhabited

/-- `step_cache.get_step(name)` (`Cache.get` then `moduleloader.get_module` → `importlib.import_module`)
    for a name that is not a string: an unhashable value fails at the cache's dict look-up, anything
    else at `name.startswith('.')`. -/
def loadNonString (v : Val) : String × String :=
  match v with
  | .list _ | .dict _ | .set _ | .sic _ | .py _ | .jsonify _ => ("TypeError", "~unhashable type")
  | _ => ("AttributeError", "~object has no attribute 'startswith'")

/-- the decorator part of `Step._init_from_dict` (`RetryDecorator(...)`, `WhileDecorator(...)`). -/
def decoratorInit (d : StepDef) : Except (String × String) Unit :=
  if d.retryBad then .error ("pypyr.errors.PipelineDefinitionError", "~retry decorator must be a dict (i.e a map) type.")
  else if d.whileBad then .error ("pypyr.errors.PipelineDefinitionError", "~while decorator must be a dict (i.e a map) type.")
  else
    let whileMissing := match d.while_ with
      | some w => w.stop.isNone && w.max.isNone
      | none => false
    if whileMissing then .error ("pypyr.errors.PipelineDefinitionError", "~the while decorator must have either max or stop")
    else .ok ()

/-- `Step.__init__`: definition errors, then loading the module. A step given as anything but a
    mapping is taken as the module name itself (`self.name = step`), whatever it is. -/
def stepInit (d : StepDef) : Except (String × String) StepKind :=
  match d.rawName with
  | some v =>
    -- the name is not a string
    if d.simple then .error (loadNonString v)
    else if !v.truthy then .error ("pypyr.errors.PipelineDefinitionError", "step must have a name.")
    else match decoratorInit d with
      | .error e => .error e
      | .ok _ => .error (loadNonString v)
  | none =>
  match d.name with
  | none => .error ("pypyr.errors.PipelineDefinitionError", "step must have a name.")
  | some n =>
    if d.simple then
      -- `- ""`: importlib's own complaint
      if n == "" then .error ("ValueError", "Empty module name")
      else match stepKind? n with
        | some k => .ok k
        | none => .error ("pypyr.errors.PyModuleNotFoundError", "~module not found")
    else
    if n == "" then .error ("pypyr.errors.PipelineDefinitionError", "step must have a name.")
    else match decoratorInit d with
      | .error e => .error e
      | .ok _ => match stepKind? n with
        | some k => .ok k
        | none => .error ("pypyr.errors.PyModuleNotFoundError", "~module not found")

/-- `StepsRunner.get_pipeline_steps(step_group)` followed by the `for step in steps` of
    `run_pipeline_steps`: the items the group denotes. An absent group and a null body give no steps;
    `steps_count = len(steps)` raises for a body without a length. -/
def GroupBody.items : GroupBody → Except (String × String) (List StepDef)
  | .null => .ok []
  | .steps ss => .ok ss
  | .str s => .ok (s.toList.map fun c => itemStep (.str (String.singleton c)))
  | .mapping ks => .ok (ks.map itemStep)
  | .unsized => .error ("TypeError", "~object of this type has no len()")

def getPipelineSteps (prog : Program) (pipe g : String) : Except (String × String) (List StepDef) :=
  match prog.find? pipe with
  | some pd => match pd.group? g with
    | some b => b.items
    | none => .ok []
  | none => .ok []

/-- The effective `(groups, success, failure)` of `Pipeline._run_pipeline`. (`groupsBad`: `groups` is
    truthy, so nothing is defaulted; there is no list of names then.) -/
def effectiveGroups (pi : PipeInst) : List String × Option String × Option String :=
  if pi.groupsBad then ([], pi.success, pi.failure) else
  let given := match pi.groups with | some (g :: gs) => some (g :: gs) | _ => none
  let truthyS (o : Option String) : Bool := match o with | some s => s != "" | none => false
  match given with
  | some gs => (gs, pi.success, pi.failure)
  | none =>
    if !truthyS pi.success && !truthyS pi.failure then (["steps"], some "on_success", some "on_failure")
    else (["steps"], pi.success, pi.failure)

/-- The modelled context parsers: `pypyr.parser.keyvaluepairs` and the harness's `vparser`. -/
def runParser (name : String) (args : Option (List String)) : Except (String × String) (Option (List (String × Val))) :=
  match name with
  | "pypyr.parser.keyvaluepairs" =>
    match args with
    | none | some [] => .ok none
    | some as =>
      .ok (some (as.foldl (fun acc a =>
        let cs := a.toList
        let k := String.ofList (cs.takeWhile (· != '='))
        let v := String.ofList ((cs.dropWhile (· != '=')).drop 1)
        Ctx.set acc k (.str v)) []))
  | "vparser" =>
    let as := args.getD []
    if as.contains "FAIL" then .error ("ValueError", "vparser told to fail")
    else .ok (some [("parsed", .list (as.map .str))])
  | _ => .error ("pypyr.errors.PyModuleNotFoundError", "~parser module not found")

/-- `Pipeline._prepare_context`. -/
def prepareContext (pd : PipeDef) (pi : PipeInst) (s : St) : St × Res :=
  if pi.parseInput then
    match pd.parser with
    | some p =>
      if p == "" then (s, .ok) else
      match runParser p pi.contextArgs with
      | .error (n, m) => raiseNew s n m
      | .ok none => (s, .ok)
      | .ok (some kvs) => if kvs.isEmpty then (s, .ok) else ({ s with ctx := Ctx.update s.ctx kvs }, .ok)
    | none => (s, .ok)
  else (s, .ok)

/-- `pype.get_arguments` result. -/
structure PypeArgs where
  name : String
  args : Option (List (String × Val))
  out : Option Val
  useParent : Bool
  pipeArg : Option (List String)
  skipParse : Bool
  raiseError : Bool
  groups : Option (List String)
  groupsBad : Bool
  success : Option String
  failure : Option String
  deriving Repr, Inhabited

def dictToCtx? (kvs : List (Val × Val)) : Option (List (String × Val)) :=
  let ks := kvs.filterMap fun kv => match kv.1 with | .str s => some (s, kv.2) | _ => none
  if ks.length == kvs.length then some ks else none

/-- `pype.get_arguments` on the modelled keys (loader / pyDir / parent: see the Resolve model, C19). -/
def getPypeArgs (s : St) : Except (String × String) PypeArgs :=
  match assertKeyHasValue s "pype" "pypyr.steps.pype" with
  | .error e => .error e
  | .ok raw =>
    match fmtAtKey s raw with
    | .error x => .error (x.name, x.msg)
    | .ok (.dict kvs) =>
      match dictGet? kvs (.str "name") with
      | none => .error ("pypyr.errors.KeyNotInContextError", "~pypyr.steps.pype missing 'name' in the 'pype' context item.")
      | some .none => .error ("pypyr.errors.KeyInContextHasNoValueError", "~pypyr.steps.pype ['pype']['name'] exists but is empty.")
      | some (.str name) =>
        let argsV := dictGet? kvs (.str "args")
        let argsR : Except (String × String) (Option (List (String × Val))) := match argsV with
          | none | some .none => .ok none
          | some (.dict a) => match dictToCtx? a with
            | some c => .ok (some c)
            | none => .error ("OutOfDomain", "pype args keys must be strings")
          | some _ => .error ("pypyr.errors.ContextError", "~pypyr.steps.pype 'args' in the 'pype' context item must be a dict.")
        match argsR with
        | .error e => .error e
        | .ok args =>
          let pipeArgV := dictGet? kvs (.str "pipeArg")
          let pipeArgStr : Option String := match pipeArgV with
            | some (.str t) => if t == "" then none else some t
            | _ => none
          let pipeArg := pipeArgStr.map fun t => (t.splitOn " ").filter (· != "")
          let has (k : String) : Bool := (dictGet? kvs (.str k)).isSome
          let skipParse : Bool :=
            if pipeArgStr.isSome && !has "skipParse" then false
            else match dictGet? kvs (.str "skipParse") with | some v => v.truthy | none => true
          let argsTruthy := match args with | some (_ :: _) => true | _ => false
          let useParent : Bool :=
            if (argsTruthy || pipeArgStr.isSome) && !has "useParentContext" then false
            else match dictGet? kvs (.str "useParentContext") with | some v => v.truthy | none => true
          let out := (dictGet? kvs (.str "out")).filter Val.truthy
          if out.isSome && useParent then
            .error ("pypyr.errors.ContextError", "~pypyr.steps.pype pype.out is only relevant if useParentContext = False.")
          else
            let raiseError := match dictGet? kvs (.str "raiseError") with | some v => v.truthy | none => true
            -- `groups = pype.get('groups'); if isinstance(groups, str): groups = [groups]`; whatever it is
            -- goes to `Pipeline(groups=…)`: a mapping iterates its keys, a number cannot be iterated
            let groupsR : Except (String × String) (Option (List String) × Bool) :=
              match dictGet? kvs (.str "groups") with
              | none | some .none => .ok (none, false)
              | some (.str g) => .ok (some [g], false)
              | some (.list xs) | some (.tuple xs) => match strList? (.list xs) with
                | some gs => .ok (some gs, false)
                | none => .error ("OutOfDomain", "group names must be strings")
              | some (.dict gkvs) => match strList? (.list (gkvs.map (·.1))) with
                | some gs => .ok (some gs, false)
                | none => .error ("OutOfDomain", "group names must be strings")
              | some (.int i) => .ok (none, i != 0)
              | some (.bool b) => .ok (none, b)
              | some (.flt n _) => .ok (none, n != 0)
              | some _ => .error ("OutOfDomain", "pype groups outside the modelled shapes")
            let optS (k : String) : Except (String × String) (Option String) := match dictGet? kvs (.str k) with
              | some (.str t) => .ok (some t)
              | none | some .none => .ok none
              | some _ => .error ("OutOfDomain", "pype success/failure must be a string")
            match groupsR, optS "success", optS "failure" with
            | .error e, _, _ | _, .error e, _ | _, _, .error e => .error e
            | .ok (groups, groupsBad), .ok success, .ok failure =>
              .ok { name, args, out, useParent, pipeArg, skipParse, raiseError, groups, groupsBad,
                    success, failure }
      | some _ => .error ("OutOfDomain", "pype name must be a string")
    | .ok _ => .error ("TypeError", "~pype must be a mapping")

/-- `pype.write_child_context_to_parent`: `parent[pk] = child.get_formatted(ck)`. -/
def writeOut (out : Val) (parent : St) (child : St) : St × Res :=
  let pairs : Except (String × String) (List (String × String)) := match out with
    | .str k => .ok [(k, k)]
    | .list xs => match strList? (.list xs) with
      | some ks => .ok (ks.map fun k => (k, k))
      | none => .error ("OutOfDomain", "out keys must be strings")
    | .dict kvs =>
      let ps := kvs.filterMap fun kv => match kv.1, kv.2 with | .str a, .str b => some (a, b) | _, _ => none
      if ps.length == kvs.length then .ok ps else .error ("OutOfDomain", "out keys must be strings")
    | _ => .error ("pypyr.errors.ContextError", "~pypyr.steps.pype pype.out should be a string, or a list or a dict.")
  match pairs with
  | .error (n, m) => raiseNew parent n m
  | .ok ps =>
    ps.foldl (fun (acc : St × Res) (pk, ck) =>
      match acc with
      | (p, .ok) =>
        match Ctx.get? child.ctx ck with
        | none => raiseNew p "pypyr.errors.KeyNotInContextError" (ck ++ " not found in the pypyr context.")
        | some v =>
          -- `child_context.get_formatted(ck)`: a KeyNotInContextError is re-raised with a longer text
          match fmtAtKey child v with
          | .error x => raiseExc p x
          | .ok fv => ({ p with ctx := Ctx.set p.ctx pk fv }, .ok)
      | other => other) (parent, .ok)

mutual

/-- `Step(step)` then `step.run_step(context)`. -/
def runStep : Nat → Program → String → StepDef → Body
  | 0, _, _, _ => fun s => (s, .outOfFuel)
  | fuel + 1, prog, pipe, d => fun s =>
    match stepInit d with
    | .error (n, m) => raiseNew s n m
    | .ok kind =>
      let body : Body := match kind with
        | .probe => probeStep
        | .stop => fun s => (s, .stop)
        | .stopPipeline => fun s => (s, .stopPipeline)
        | .stopGroup => fun s => (s, .stopGroup)
        | .call => cofStep "call" true
        | .jump => cofStep "jump" false
        | .switch => switchStep
        | .set => setStep
        | .contextClear => contextClearStep
        | .contextClearAll => contextClearAllStep
        | .pype => pypeBody fuel prog
      -- `context.current_pipeline.steps_runner.run_step_groups(...)`
      let callee : CofCfg → Body := fun c s' =>
        runGroups fuel prog (s'.stack.head?.getD pipe) c.groups c.success c.failure s'
      runStepDescribed d body callee fuel s

/-- `StepsRunner.run_pipeline_steps`. -/
def runSteps : Nat → Program → String → List StepDef → Body
  | 0, _, _, _ => fun s => (s, .outOfFuel)
  | _ + 1, _, _, [] => fun s => (s, .ok)
  | fuel + 1, prog, pipe, d :: rest => fun s =>
    match runStep fuel prog pipe d s with
    | (s1, .ok) => runSteps fuel prog pipe rest s1
    | other => other

/-- `StepsRunner.run_step_group(name, raise_stop)`. -/
def runStepGroup : Nat → Program → String → String → Bool → Body
  | 0, _, _, _, _ => fun s => (s, .outOfFuel)
  | fuel + 1, prog, pipe, g, raiseStop => fun s =>
    -- `assert step_group_name`
    if g == "" then raiseNew s "AssertionError" "" else
    -- `steps = self.get_pipeline_steps(...)` stands before the `try`
    match getPipelineSteps prog pipe g with
    | .error (n, m) => raiseNew s n m
    | .ok steps =>
      match runSteps fuel prog pipe steps s with
      | (s1, .jump c) => runGroups fuel prog pipe c.groups c.success c.failure s1
      | (s1, .stopGroup) => if raiseStop then (s1, .stopGroup) else (s1, .ok)
      | other => other

/-- the `for step_group in groups: self.run_step_group(step_group)` loop. -/
def runGroupList : Nat → Program → String → List String → Body
  | 0, _, _, _ => fun s => (s, .outOfFuel)
  | _ + 1, _, _, [] => fun s => (s, .ok)
  | fuel + 1, prog, pipe, g :: rest => fun s =>
    match runStepGroup fuel prog pipe g false s with
    | (s1, .ok) => runGroupList fuel prog pipe rest s1
    | other => other

/-- `StepsRunner.run_failure_step_group`: swallow everything except Stop-family. -/
def runFailureGroup : Nat → Program → String → Option String → Body
  | 0, _, _, _ => fun s => (s, .outOfFuel)
  | fuel + 1, prog, pipe, g => fun s =>
    match g with
    | none => (s, .ok)                 -- `assert step_group_name` fails inside the try: swallowed
    | some name =>
      if name == "" then (s, .ok) else
      match runStepGroup fuel prog pipe name true s with
      | (s1, .stop) => (s1, .stop)
      | (s1, .stopPipeline) => (s1, .stopPipeline)
      | (s1, .stopGroup) => (s1, .stopGroup)
      | (s1, .outOfFuel) => (s1, .outOfFuel)
      | (s1, _) => (s1, .ok)

/-- `StepsRunner.run_step_groups(groups, success_group, failure_group)`. -/
def runGroups : Nat → Program → String → List String → Option String → Option String → Body
  | 0, _, _, _, _, _ => fun s => (s, .outOfFuel)
  | fuel + 1, prog, pipe, groups, success, failure => fun s =>
    if groups.isEmpty then
      raiseNew s "ValueError" "you must specify which step-groups you want to run. groups is None."
    else
      let main : St × Res :=
        match runGroupList fuel prog pipe groups s with
        | (s1, .ok) =>
          match success with
          | some sg => if sg == "" then (s1, .ok) else runStepGroup fuel prog pipe sg false s1
          | none => (s1, .ok)
        | other => other
      match main with
      | (s1, .err e h) =>
        let hasFailure := match failure with | some f => f != "" | none => false
        if hasFailure then
          match runFailureGroup fuel prog pipe failure s1 with
          | (s2, .stopGroup) => (s2, .ok)                 -- do_raise = False
          | (s2, .ok) => (s2, .err e h)                   -- raise the original
          | other => other                                 -- Stop / StopPipeline replace it
        else (s1, .err e h)
      | other => other

/-- `Pipeline.load_and_run_pipeline` + `_run_pipeline`. -/
def runPipeline : Nat → Program → PipeInst → Body
  | 0, _, _ => fun s => (s, .outOfFuel)
  | fuel + 1, prog, pi => fun s =>
    match prog.find? pi.name with
    | none => raiseNew s "pypyr.errors.PipelineNotFoundError" "~pipeline not found"
    | some pd =>
      -- with context.pipeline_scope(self):
      let s0 := { s with stack := pi.name :: s.stack }
      let (groups, success, failure) := effectiveGroups pi
      let inner : St × Res :=
        match prepareContext pd pi s0 with
        | (s1, .err e h) =>
          match runFailureGroup fuel prog pi.name failure s1 with
          | (s2, .stopGroup) => (s2, .err e h)            -- `except StopStepGroup: pass`, then raise
          | (s2, .stopPipeline) => (s2, .ok)              -- fix 89ea24a
          | (s2, .ok) => (s2, .err e h)
          | other => other                                 -- Stop
        | (s1, .ok) =>
          let ran : St × Res :=
            if pi.groupsBad then
              -- `for step_group in groups` raises TypeError inside the `try` of `run_step_groups`
              match raiseNew s1 "TypeError" "~object is not iterable" with
              | (s1', .err e h) =>
                let hasFailure := match failure with | some f => f != "" | none => false
                if hasFailure then
                  match runFailureGroup fuel prog pi.name failure s1' with
                  | (s2, .stopGroup) => (s2, .ok)
                  | (s2, .ok) => (s2, .err e h)
                  | other => other
                else (s1', .err e h)
              | other => other
            else runGroups fuel prog pi.name groups success failure s1
          match ran with
          | (s2, .stopPipeline) => (s2, .ok)
          | other => other
        | other => other
      -- finally: stack.pop()
      ({ inner.1 with stack := inner.1.stack.drop 1 }, inner.2)

/-- `pypyr.steps.pype.run_step`. -/
def pypeBody : Nat → Program → Body
  | 0, _ => fun s => (s, .outOfFuel)
  | fuel + 1, prog => fun s =>
    match getPypeArgs s with
    | .error (n, m) => raiseNew s n m
    | .ok a =>
      let pi : PipeInst := { name := a.name, groups := a.groups, success := a.success, failure := a.failure,
                             parseInput := !a.skipParse, contextArgs := a.pipeArg, groupsBad := a.groupsBad }
      let r : St × Res :=
        if a.useParent then
          let s1 := match a.args with
            | some kvs => if kvs.isEmpty then s else { s with ctx := Ctx.update s.ctx kvs }
            | none => s
          runPipeline fuel prog pi s1
        else
          -- child_context = Context(args) if args else Context(): its own data and its own stack
          let child0 : St := { s with ctx := a.args.getD [], stack := [] }
          let (c1, r1) := runPipeline fuel prog pi child0
          -- back in the parent: its own context object again; globals of the run carried over
          let back : St := { c1 with ctx := s.ctx, stack := s.stack }
          match r1 with
          | .ok =>
            match a.out with
            | some o => writeOut o back c1
            | none => (back, .ok)
          | other => (back, other)
      match r with
      | (s2, .err e h) => if a.raiseError then (s2, .err e h) else (s2, .ok)
      | other => other

end

/-- `Pipeline.run`: Stop-family ends the run quietly. -/
def runRoot (fuel : Nat) (prog : Program) (pi : PipeInst) : Body := fun s =>
  match runPipeline fuel prog pi s with
  | (s1, .stop) => (s1, .ok)
  | (s1, .stopPipeline) => (s1, .ok)
  | (s1, .stopGroup) => (s1, .ok)
  | other => other

end Pypyr.Flow
