/-
  Types of the flow interpreter model (DESIGN.md §3.3): results of running
  something (`Res` — normal completion, an error, or one of pypyr's
  control-of-flow signals), the interpreter state `St`, step and pipeline
  definitions as the yaml gives them (raw, unformatted decorator values).
-/
import PypyrModel.Val
import PypyrModel.PyEval
import PypyrModel.Fmt
import PypyrModel.Backoff

namespace Pypyr.Flow
open Pypyr

/-- An exception *object*: `id` is its identity, `name` is `get_error_name`,
    `msg` is `str(exception)` (a leading `~` marks a message text the model
    does not claim to reproduce exactly). -/
structure ExcV where
  id : Nat
  name : String
  msg : String
  deriving Repr, DecidableEq, Inhabited

/-- A `Call` / `Jump` instruction (`pypyr.errors.ControlOfFlowInstruction`). -/
structure CofCfg where
  groups : List String
  success : Option String
  failure : Option String
  key : String            -- original_config[0]: "call" | "jump" | "switch"
  original : Val          -- original_config[1]
  deriving Repr, DecidableEq, Inhabited

/-- How a piece of pipeline execution ended. `err e handled`: exception `e`
    propagates; `handled` = it is wrapped in `HandledError` (came out of the
    groups of a call step and was already recorded there). -/
inductive Res where
  | ok
  | err (e : ExcV) (handled : Bool)
  | stop
  | stopPipeline
  | stopGroup
  | jump (c : CofCfg)
  | call (c : CofCfg)
  | outOfFuel
  deriving Repr, DecidableEq, Inhabited

/-- The signals of C02 as they travel through a *step* (`call` is consumed by `invoke_step`). -/
def Res.isSignal : Res → Bool
  | .stop | .stopPipeline | .stopGroup | .jump _ => true
  | _ => false

def Res.isStopFamily : Res → Bool
  | .stop | .stopPipeline | .stopGroup => true
  | _ => false

def Res.isErr : Res → Bool
  | .err _ _ => true
  | _ => false

/-- What the probe step observes when it executes. -/
structure Event where
  tag : String
  i : Option Val
  w : Option Val
  r : Option Val
  nerr : Nat               -- len(context['runErrors']) (0 when absent or not a list)
  pipe : String            -- context.current_pipeline.name
  depth : Nat              -- context.get_stack_depth()
  keys : List (String × Option Val)
  deriving Repr, DecidableEq, Inhabited

/-- The counters the `Step` object holds (`for_counter`, `while_decorator.while_counter`,
    `retry_decorator.retry_counter`); `some` iff the step has that decorator (and, for the
    loops, is inside an iteration). -/
structure Frame where
  whileC : Option Int := none
  forI : Option Val := none
  retryC : Option Int := none
  deriving Repr, DecidableEq, Inhabited

structure WhileCfg where
  max : Option Val := none
  stop : Option Val := none
  sleep : Val := .int 0
  errorOnMax : Val := .bool false
  deriving Repr, DecidableEq, Inhabited

structure RetryCfg where
  max : Option Val := none
  sleep : Val := .int 0
  backoff : Option Val := none
  sleepMax : Option Val := none
  jrc : Val := .int 0
  backoffArgs : Option Val := none
  stopOn : Option Val := none
  retryOn : Option Val := none
  deriving Repr, DecidableEq, Inhabited

/-- A step as it stands in the yaml. `simple` = a sequence item that is not a mapping (normally a
    bare string: no line/col, no decorators). `whileBad`/`retryBad` keep a non-dict, truthy decorator
    value (a definition error). `rawName`: what stands where the step name is expected when that is
    neither a string nor null - the sequence item itself (`simple`, e.g. `- 42`, `- [a, b]`) or the
    value of the `name` key (`name: 5`); `Step.__init__` takes it as it is (duck typing). `lc` is the
    position ruamel's round-trip parser recorded for the step mapping (`step.lc.line`, `step.lc.col`:
    0-based; the first key of a block mapping, the opening brace of a flow mapping). `inBad`: what
    stands under `in` when that is neither a mapping nor null nor empty (`in: ab`, `in: 5`);
    `set_step_input_context` fails on it (`inArgs` is `none` then). -/
structure StepDef where
  name : Option String              -- `name` key (module to load)
  rawName : Option Val := none
  simple : Bool := false
  inArgs : Option (List (String × Val)) := none
  inBad : Option Val := none        -- `in:` given as something that is no mapping (a non-empty string, a number)
  run : Val := .bool true
  skip : Val := .bool false
  swallow : Val := .bool false
  foreach : Option Val := none
  while_ : Option WhileCfg := none
  whileBad : Bool := false          -- `while:` given, truthy, but not a mapping
  retry : Option RetryCfg := none
  retryBad : Bool := false
  onError : Option Val := none
  description : Option Val := none  -- `description` key
  lc : Option (Nat × Nat) := none
  deriving Repr, DecidableEq, Inhabited

/-- `Step.line_no`: `step.lc.line + 1` whenever the step mapping has an `lc` (so also for `lc.line = 0`,
    a step on the first line of the file), else `None`. -/
def StepDef.line (d : StepDef) : Option Nat := d.lc.map (·.1 + 1)

/-- `Step.line_col`: `step.lc.col + 1`. -/
def StepDef.col (d : StepDef) : Option Nat := d.lc.map (·.2 + 1)

/-- Ghost record of one event "an error escaped a step's body (after its retries) and the step is the
    one to record it": which step, which exception object, in which context. Written by
    `runConditional`, read by nothing in the model (C07 relates `runErrors` to this log). -/
structure Escape where
  step : StepDef
  exc : ExcV
  ctx : Ctx
  deriving Repr, Inhabited

/-- Interpreter state. `ctx` + `stack` model the `Context` *object* (the stack
    lives on it); `trace`, `sleeps`, `nextExc`, `rnd` are global to the run. -/
structure St where
  ctx : Ctx := []
  stack : List String := []        -- pipeline names, innermost first
  trace : List Event := []
  sleeps : List Val := []
  nextExc : Nat := 0
  rnd : List Num := []             -- scripted `random.uniform` fractions
  ood : Bool := false              -- the run left the modelled domain (driver rejects)
  escapes : List Escape := []      -- ghost log (see `Escape`); never read by the interpreter
  defaultBackoff : String := "fixed"   -- `config.default_backoff` (global configuration): read when a retry loop STARTS
  deriving Repr, Inhabited

abbrev Body := St → St × Res

/-- Raise a fresh exception object. The two names the model itself invents - `OutOfDomain` (a value outside
    the modelled shapes) and `OutOfFuel` (the formatter's own recursion budget `FMT_FUEL` ran out: a
    context value nested deeper than the model follows) - mark the run as having left the modelled
    domain: the driver rejects it, whatever became of that error afterwards (swallowed, recorded, cleared). -/
def raiseNew (s : St) (name msg : String) : St × Res :=
  ({ s with nextExc := s.nextExc + 1, ood := s.ood || name == "OutOfDomain" || name == "OutOfFuel" },
   .err ⟨s.nextExc, name, msg⟩ false)

def raiseExc (s : St) (e : Exc) : St × Res := raiseNew s e.name e.msg

/-- What stands under a step-group's name in the pipeline yaml. Only a sequence (or null) is a well
    formed group; the other shapes are yaml slips that `StepsRunner.get_pipeline_steps` /
    `run_pipeline_steps` nevertheless process (duck typing). -/
inductive GroupBody where
  | null                          -- `g:` / `g: null`
  | steps (ss : List StepDef)     -- a sequence
  | str (s : String)              -- a string: `len` works, `for step in steps` yields its characters
  | mapping (keys : List Val)     -- a mapping: `len` works, iteration yields its keys
  | unsized                       -- int / float / bool / a `!py`, `!sic`, `!jsonify` scalar: no `len()`
  deriving Repr, Inhabited

/-- a sequence item / mapping key / character as `Step.__init__` receives it when it is not a mapping -/
def itemStep (v : Val) : StepDef :=
  match v with
  | .str n => { name := some n, simple := true }
  | other => { name := none, rawName := some other, simple := true }

structure PipeDef where
  name : String
  parser : Option String := none
  groups : List (String × GroupBody)   -- group name ↦ what stands under it
  deriving Repr, Inhabited

structure Program where
  pipes : List PipeDef
  deriving Repr, Inhabited

def Program.find? (p : Program) (name : String) : Option PipeDef :=
  p.pipes.find? (·.name == name)

def PipeDef.group? (p : PipeDef) (g : String) : Option GroupBody :=
  (p.groups.find? (·.1 == g)).map (·.2)

end Pypyr.Flow
