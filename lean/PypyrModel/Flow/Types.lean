/-
  Types of the flow interpreter model (DESIGN.md §3.3): results of running
  something (`Res` — normal completion, an error, or one of pypyr's
  control-of-flow signals), the interpreter state `St`, step and pipeline
  definitions as the yaml gives them (raw, unformatted decorator values).
-/
import PypyrModel.Val
import PypyrModel.PyEval
import PypyrModel.Fmt
import PypyrModel.Backoff

namespace Pypyr.Flow
open Pypyr

/-- An exception *object*: `id` is its identity, `name` is `get_error_name`,
    `msg` is `str(exception)` (a leading `~` marks a message text the model
    does not claim to reproduce exactly). -/
structure ExcV where
  id : Nat
  name : String
  msg : String
  deriving Repr, DecidableEq, Inhabited

/-- A `Call` / `Jump` instruction (`pypyr.errors.ControlOfFlowInstruction`). -/
structure CofCfg where
  groups : List String
  success : Option String
  failure : Option String
  key : String            -- original_config[0]: "call" | "jump" | "switch"
  original : Val          -- original_config[1]
  deriving Repr, DecidableEq, Inhabited

/-- How a piece of pipeline execution ended. `err e handled`: exception `e`
    propagates; `handled` = it is wrapped in `HandledError` (came out of the
    groups of a call step and was already recorded there). -/
inductive Res where
  | ok
  | err (e : ExcV) (handled : Bool)
  | stop
  | stopPipeline
  | stopGroup
  | jump (c : CofCfg)
  | call (c : CofCfg)
  | outOfFuel
  deriving Repr, DecidableEq, Inhabited

/-- The signals of C02 as they travel through a *step* (`call` is consumed by `invoke_step`). -/
def Res.isSignal : Res → Bool
  | .stop | .stopPipeline | .stopGroup | .jump _ => true
  | _ => false

def Res.isStopFamily : Res → Bool
  | .stop | .stopPipeline | .stopGroup => true
  | _ => false

def Res.isErr : Res → Bool
  | .err _ _ => true
  | _ => false

/-- What the probe step observes when it executes. -/
structure Event where
  tag : String
  i : Option Val
  w : Option Val
  r : Option Val
  nerr : Nat               -- len(context['runErrors']) (0 when absent or not a list)
  pipe : String            -- context.current_pipeline.name
  depth : Nat              -- context.get_stack_depth()
  keys : List (String × Option Val)
  deriving Repr, DecidableEq, Inhabited

/-- Interpreter state. `ctx` + `stack` model the `Context` *object* (the stack
    lives on it); `trace`, `sleeps`, `nextExc`, `rnd` are global to the run. -/
structure St where
  ctx : Ctx := []
  stack : List String := []        -- pipeline names, innermost first
  trace : List Event := []
  sleeps : List Val := []
  nextExc : Nat := 0
  rnd : List Num := []             -- scripted `random.uniform` fractions
  ood : Bool := false              -- the run left the modelled domain (driver rejects)
  deriving Repr, Inhabited

abbrev Body := St → St × Res

/-- Raise a fresh exception object. -/
def raiseNew (s : St) (name msg : String) : St × Res :=
  ({ s with nextExc := s.nextExc + 1, ood := s.ood || name == "OutOfDomain" },
   .err ⟨s.nextExc, name, msg⟩ false)

def raiseExc (s : St) (e : Exc) : St × Res := raiseNew s e.name e.msg

/-- The counters the `Step` object holds (`for_counter`, `while_decorator.while_counter`,
    `retry_decorator.retry_counter`); `some` iff the step has that decorator (and, for the
    loops, is inside an iteration). -/
structure Frame where
  whileC : Option Int := none
  forI : Option Val := none
  retryC : Option Int := none
  deriving Repr, DecidableEq, Inhabited

structure WhileCfg where
  max : Option Val := none
  stop : Option Val := none
  sleep : Val := .int 0
  errorOnMax : Val := .bool false
  deriving Repr, DecidableEq, Inhabited

structure RetryCfg where
  max : Option Val := none
  sleep : Val := .int 0
  backoff : Option Val := none
  sleepMax : Option Val := none
  jrc : Val := .int 0
  backoffArgs : Option Val := none
  stopOn : Option Val := none
  retryOn : Option Val := none
  deriving Repr, DecidableEq, Inhabited

/-- A step as it stands in the yaml. `simple` = a bare string step (no line/col, no decorators).
    `whileRaw`/`retryRaw` keep a non-dict, truthy decorator value (a definition error). -/
structure StepDef where
  name : Option String              -- `name` key (module to load)
  simple : Bool := false
  inArgs : Option (List (String × Val)) := none
  run : Val := .bool true
  skip : Val := .bool false
  swallow : Val := .bool false
  foreach : Option Val := none
  while_ : Option WhileCfg := none
  whileBad : Bool := false          -- `while:` given, truthy, but not a mapping
  retry : Option RetryCfg := none
  retryBad : Bool := false
  onError : Option Val := none
  line : Option Nat := none
  col : Option Nat := none
  deriving Repr, DecidableEq, Inhabited

structure PipeDef where
  name : String
  parser : Option String := none
  groups : List (String × Option (List StepDef))   -- group name ↦ steps (`none`: null sequence)
  deriving Repr, Inhabited

structure Program where
  pipes : List PipeDef
  deriving Repr, Inhabited

def Program.find? (p : Program) (name : String) : Option PipeDef :=
  p.pipes.find? (·.name == name)

def PipeDef.group? (p : PipeDef) (g : String) : Option (Option (List StepDef)) :=
  (p.groups.find? (·.1 == g)).map (·.2)

end Pypyr.Flow
