/-
  Evaluation of the `!py` sub-language (`PyExpr`) against a context, mirroring
  what CPython's `eval(src, namespace)` yields for the rendered source on the
  modelled value kinds. Operators outside the stated table give `TypeError`
  here; the generators never emit such combinations.
-/
import PypyrModel.Val

namespace Pypyr

/-- numeric view: value = n / 2^k, `isFloat` remembers the Python type. -/
structure Num where
  n : Int
  k : Nat
  isFloat : Bool
  deriving Repr, DecidableEq

def Val.num? : Val → Option Num
  | .bool b => some ⟨if b then 1 else 0, 0, false⟩
  | .int i => some ⟨i, 0, false⟩
  | .flt n k => some ⟨n, k, true⟩
  | _ => Option.none

/-- normalise a dyadic: odd numerator or k = 0. -/
def normDyadic : Nat → Int → Nat → Int × Nat
  | 0, n, k => (n, k)
  | fuel + 1, n, k => if k = 0 then (n, 0) else if n % 2 = 0 then normDyadic fuel (n / 2) (k - 1) else (n, k)

def Num.toVal (x : Num) : Val :=
  if x.isFloat then
    let (n, k) := normDyadic x.k x.n x.k
    .flt n k
  else .int x.n

def Num.cmp (a b : Num) : Ordering :=
  compare (a.n * 2 ^ b.k) (b.n * 2 ^ a.k)

def Num.add (a b : Num) : Num :=
  let k := max a.k b.k
  ⟨a.n * 2 ^ (k - a.k) + b.n * 2 ^ (k - b.k), k, a.isFloat || b.isFloat⟩

def Num.sub (a b : Num) : Num :=
  let k := max a.k b.k
  ⟨a.n * 2 ^ (k - a.k) - b.n * 2 ^ (k - b.k), k, a.isFloat || b.isFloat⟩

def Num.mul (a b : Num) : Num := ⟨a.n * b.n, a.k + b.k, a.isFloat || b.isFloat⟩

mutual
/-- Python `==` on the modelled kinds (numbers compare across int/bool/float). -/
def pyEq : Val → Val → Bool
  | .list a, .list b => pyEqList a b
  | .tuple a, .tuple b => pyEqList a b
  | .dict a, .dict b => a.length == b.length && pyEqDictSub a b
  | a, b =>
    match a.num?, b.num? with
    | some x, some y => x.cmp y == .eq
    | _, _ => a == b
def pyEqList : List Val → List Val → Bool
  | [], [] => true
  | x :: xs, y :: ys => pyEq x y && pyEqList xs ys
  | _, _ => false
/-- every pair of `a` has an equal-valued entry in `b` (keys structurally). -/
def pyEqDictSub : List (Val × Val) → List (Val × Val) → Bool
  | [], _ => true
  | (k, v) :: rest, b =>
    (match dictGet? b k with
     | some w => pyEq v w
     | none => false) && pyEqDictSub rest b
end

def typeError (msg : String) : Exc := ⟨"TypeError", msg⟩

def strLt (a b : String) : Bool := a < b

def cmpVals (a b : Val) : Except Exc Ordering :=
  match a.num?, b.num? with
  | some x, some y => .ok (x.cmp y)
  | _, _ =>
    match a, b with
    | .str s, .str t => .ok (compare s t)
    | _, _ => .error (typeError "'<' not supported between instances")

def pyLen : Val → Except Exc Val
  | .str s => .ok (.int s.length)
  | .list xs => .ok (.int xs.length)
  | .tuple xs => .ok (.int xs.length)
  | .set xs => .ok (.int xs.length)
  | .dict kvs => .ok (.int kvs.length)
  | _ => .error (typeError "object has no len()")

def listIdx (xs : List Val) (i : Int) (what : String) : Except Exc Val :=
  let n : Int := xs.length
  let j := if i < 0 then i + n else i
  if j < 0 || j ≥ n then .error ⟨"IndexError", what ++ " index out of range"⟩
  else match xs[j.toNat]? with
    | some v => .ok v
    | none => .error ⟨"IndexError", what ++ " index out of range"⟩

def pyIdx (a i : Val) : Except Exc Val :=
  match a with
  | .list xs => match i with
      | .int j => listIdx xs j "list"
      | .bool b => listIdx xs (if b then 1 else 0) "list"
      | _ => .error (typeError "list indices must be integers or slices")
  | .tuple xs => match i with
      | .int j => listIdx xs j "tuple"
      | .bool b => listIdx xs (if b then 1 else 0) "tuple"
      | _ => .error (typeError "tuple indices must be integers or slices")
  | .dict kvs => match dictGet? kvs i with
      | some v => .ok v
      | none => .error ⟨"KeyError", ""⟩
  | _ => .error (typeError "object is not subscriptable")

def pyIn (a b : Val) : Except Exc Bool :=
  match b with
  | .list xs => .ok (xs.any (pyEq a))
  | .tuple xs => .ok (xs.any (pyEq a))
  | .set xs => .ok (xs.any (pyEq a))
  | .dict kvs => .ok (kvs.any fun kv => pyEq a kv.1)
  | .str t => match a with
      | .str s => .ok ((t.splitOn s).length > 1 || s == "")
      | _ => .error (typeError "'in <string>' requires string as left operand")
  | _ => .error (typeError "argument is not iterable")

def pyAdd (a b : Val) : Except Exc Val :=
  match a.num?, b.num? with
  | some x, some y => .ok (x.add y).toVal
  | _, _ =>
    match a, b with
    | .str s, .str t => .ok (.str (s ++ t))
    | .list s, .list t => .ok (.list (s ++ t))
    | .tuple s, .tuple t => .ok (.tuple (s ++ t))
    | _, _ => .error (typeError "unsupported operand type(s) for +")

def PyConst.toVal : PyConst → Val
  | .none => .none
  | .bool b => .bool b
  | .int i => .int i
  | .str s => .str s

/-- `eval(e.src, namespace-with-context)`. Context keys win over builtins. -/
def evalPy (ctx : Ctx) : PyExpr → Except Exc Val
  | .name n => match Ctx.get? ctx n with
      | some v => .ok v
      | none => .error ⟨"NameError", "name '" ++ n ++ "' is not defined"⟩
  | .const c => .ok c.toVal
  | .not a => do
      let v ← evalPy ctx a
      pure (.bool (!v.truthy))
  | .len a => do
      let v ← evalPy ctx a
      pyLen v
  | .idx a i => do
      let v ← evalPy ctx a
      let j ← evalPy ctx i
      pyIdx v j
  | .binop op a b =>
      match op with
      | .and => do
          let v ← evalPy ctx a
          if v.truthy then evalPy ctx b else pure v
      | .or => do
          let v ← evalPy ctx a
          if v.truthy then pure v else evalPy ctx b
      | .eq => do let v ← evalPy ctx a; let w ← evalPy ctx b; pure (.bool (pyEq v w))
      | .ne => do let v ← evalPy ctx a; let w ← evalPy ctx b; pure (.bool (!pyEq v w))
      | .lt => do let v ← evalPy ctx a; let w ← evalPy ctx b; let o ← cmpVals v w; pure (.bool (o == .lt))
      | .le => do let v ← evalPy ctx a; let w ← evalPy ctx b; let o ← cmpVals v w; pure (.bool (o != .gt))
      | .gt => do let v ← evalPy ctx a; let w ← evalPy ctx b; let o ← cmpVals v w; pure (.bool (o == .gt))
      | .ge => do let v ← evalPy ctx a; let w ← evalPy ctx b; let o ← cmpVals v w; pure (.bool (o != .lt))
      | .add => do let v ← evalPy ctx a; let w ← evalPy ctx b; pyAdd v w
      | .sub => do
          let v ← evalPy ctx a; let w ← evalPy ctx b
          match v.num?, w.num? with
          | some x, some y => pure (x.sub y).toVal
          | _, _ => throw (typeError "unsupported operand type(s) for -")
      | .mul => do
          let v ← evalPy ctx a; let w ← evalPy ctx b
          match v.num?, w.num? with
          | some x, some y => pure (x.mul y).toVal
          | _, _ => throw (typeError "unsupported operand type(s) for *")
      | .isIn => do let v ← evalPy ctx a; let w ← evalPy ctx b; pure (.bool (← pyIn v w))

end Pypyr
