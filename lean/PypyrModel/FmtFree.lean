/-
  Counter-model for the id-keyed memo of `RecursiveFormatter._get_formatted_iterable`: a heap in which
  an object can DIE and its address be RE-USED while the memo survives.

  `PypyrModel/FmtHeap.lean` gives every object a permanent address (`id(obj)` = index of its cell), so a
  memo keyed by address can never confuse two objects there. CPython gives no such guarantee: `id()` is
  unique only among objects that are alive at the same time. The case in which that matters is a
  container that CREATES its members while it is iterated (a `Sequence` whose `__iter__` builds each
  str):

      new = obj.__class__(self._get_formatted_iterable(v, …, memo, is_recursive) for v in obj)

  the generator holds the member `v` only until it asks for the next one; after that the only
  references to `v` are the result (when `v` came back as the same object) and — since /repo 2cfa9de —
  the memo itself (`memo.setdefault(id(memo), []).append(obj)` whenever `memo[id(obj)] = new` is
  executed). Before that commit a formatted member died at once, the next member could be created at
  the same address, `memo.get(id(v))` answered for it, and it received the PREVIOUS member's result.

  This file models exactly that: `FSt.free` is the list of addresses whose object has died; a new
  temporary is created at a freed address when there is one (`allocTemp`, LIFO like CPython's free
  lists), else at the end of the heap. `fmtLazy keepAlive` formats the members of such a sequence with
  the real `FmtHeap.fmtH`; `keepAlive = false` is the code before 2cfa9de, `keepAlive = true` the
  repaired code. Objects that `fmtH` allocates (formatted strings, rebuilt containers) always get new
  addresses: the counter-model re-uses only the addresses of the temporaries, which is all it takes.

  Props/Lemmas/C09_Memo.lean: with `keepAlive = true` no address is ever freed (`fmtLazy_keep_no_free`),
  so the run IS a run of the permanent-address model and `MemoSound` is an invariant
  (`fmtLazy_keep_sound`); with `keepAlive = false` soundness fails (`memo_unsound_after_reuse`, a
  `decide`d witness: the second member gets the first one's result).
-/
import PypyrModel.FmtHeap

namespace Pypyr.FmtFree
open Pypyr Pypyr.FmtHeap

structure FSt where
  heap : Heap
  memo : Memo
  /-- addresses whose object has died and that the allocator hands out again -/
  free : List Ref
  deriving Repr, Inhabited

/-- The state as the permanent-address model sees it. -/
def FSt.st (s : FSt) : St := { heap := s.heap, memo := s.memo }

/-- `__iter__` creates the next member: a new str object, at a freed address when there is one. -/
def allocTemp (s : FSt) (text : String) : FSt × Ref :=
  match s.free with
  | a :: fs => ({ s with heap := s.heap.set a (.str text), free := fs }, a)
  | [] => ({ s with heap := s.heap ++ [.str text] }, s.heap.length)

/-- After the member at `a` was formatted to `r` the generator drops it. It stays alive iff something
    else refers to it: the result (`r = a`: the member came back as the same object and the new
    container holds it) or — `keepAlive` — the memo, which keeps every object it has an entry for. -/
def staysAlive (keepAlive : Bool) (memo : Memo) (a r : Ref) : Bool :=
  r == a || (keepAlive && (memoGet memo a).isSome)

/-- `self._get_formatted_iterable(v, …, memo, is_recursive) for v in obj` for a sequence `obj` whose
    `__iter__` creates one fresh str per member (`texts`). Returns the formatted members' references
    in order. -/
def fmtLazy (keepAlive : Bool) (fuel : Nat) (ctx : HCtx) (isRec : Bool) :
    List String → FSt → Except Exc (List Ref × FSt)
  | [], s => .ok ([], s)
  | text :: rest, s =>
    match fmtH fuel ctx isRec (allocTemp s text).2
        { heap := (allocTemp s text).1.heap, memo := (allocTemp s text).1.memo } with
    | .error e => .error e
    | .ok (r, st) =>
      let a := (allocTemp s text).2
      let free1 := (allocTemp s text).1.free
      let s2 : FSt := { heap := st.heap, memo := st.memo,
                        free := if staysAlive keepAlive st.memo a r then free1 else a :: free1 }
      match fmtLazy keepAlive fuel ctx isRec rest s2 with
      | .error e => .error e
      | .ok (rs, s3) => .ok (r :: rs, s3)

/-- `Context.get_formatted_value(obj)` for such a sequence of class tag `tag`: a fresh memo, the members,
    then `obj.__class__(…)` builds the new container. -/
def fmtLazySeq (keepAlive : Bool) (fuel : Nat) (ctx : HCtx) (tag : Nat) (texts : List String) (h : Heap) :
    Except Exc (Ref × Heap) :=
  match fmtLazy keepAlive fuel ctx false texts { heap := h, memo := [], free := [] } with
  | .error e => .error e
  | .ok (rs, s) => .ok (s.heap.length, s.heap ++ [.list tag rs])

end Pypyr.FmtFree
