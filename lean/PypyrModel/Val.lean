/-
  Values of the pypyr context as the models see them.

  `Val` mirrors the Python object kinds the properties distinguish: None, bool,
  int, float (dyadic rationals n / 2^k only — exactly representable in binary64),
  str, bytes, list, tuple, dict (insertion ordered association list), set
  (duplicate-free list, order = canonical order fixed by the harness), the three
  special tags `!sic`, `!py`, `!jsonify`, and opaque objects with an identity.

  No imports: every model file must stay Mathlib-free so the driver links.
-/

namespace Pypyr

/-- Literals that can occur inside a `!py` expression of the modelled sub-language. -/
inductive PyConst where
  | none
  | bool (b : Bool)
  | int (i : Int)
  | str (s : String)
  deriving Repr, BEq, DecidableEq, Inhabited

inductive PyOp where
  | eq | ne | lt | le | gt | ge | and | or | add | sub | mul | isIn
  deriving Repr, BEq, DecidableEq, Inhabited

/-- The `!py` sub-language in which generated pipelines write dynamic conditions.
    It is not a model of Python; `PyNs` (C14) models name binding separately. -/
inductive PyExpr where
  | name (n : String)
  | const (c : PyConst)
  | not (a : PyExpr)
  | binop (op : PyOp) (a b : PyExpr)
  | len (a : PyExpr)
  | idx (a i : PyExpr)
  deriving Repr, BEq, DecidableEq, Inhabited

inductive Val where
  | none
  | bool (b : Bool)
  | int (i : Int)
  | flt (n : Int) (k : Nat)            -- n / 2^k
  | str (s : String)
  | bytes (s : String)                 -- hex text of the bytes
  | list (xs : List Val)
  | tuple (xs : List Val)
  | dict (kvs : List (Val × Val))
  | set (xs : List Val)
  | sic (s : String)
  | py (e : PyExpr)
  | jsonify (v : Val)
  | obj (id : Nat)
  deriving Repr, Inhabited

mutual
def Val.decEq : (a b : Val) → Decidable (a = b)
  | .none, .none => isTrue rfl
  | .bool a, .bool b => if h : a = b then isTrue (by rw [h]) else isFalse (by intro h'; cases h'; exact h rfl)
  | .int a, .int b => if h : a = b then isTrue (by rw [h]) else isFalse (by intro h'; cases h'; exact h rfl)
  | .flt a b, .flt c d => if h : a = c ∧ b = d then isTrue (by rw [h.1, h.2]) else isFalse (by intro h'; cases h'; exact h ⟨rfl, rfl⟩)
  | .str a, .str b => if h : a = b then isTrue (by rw [h]) else isFalse (by intro h'; cases h'; exact h rfl)
  | .bytes a, .bytes b => if h : a = b then isTrue (by rw [h]) else isFalse (by intro h'; cases h'; exact h rfl)
  | .sic a, .sic b => if h : a = b then isTrue (by rw [h]) else isFalse (by intro h'; cases h'; exact h rfl)
  | .py a, .py b => if h : a = b then isTrue (by rw [h]) else isFalse (by intro h'; cases h'; exact h rfl)
  | .obj a, .obj b => if h : a = b then isTrue (by rw [h]) else isFalse (by intro h'; cases h'; exact h rfl)
  | .list a, .list b => match decEqList a b with
      | isTrue h => isTrue (by rw [h])
      | isFalse h => isFalse (by intro h'; cases h'; exact h rfl)
  | .tuple a, .tuple b => match decEqList a b with
      | isTrue h => isTrue (by rw [h])
      | isFalse h => isFalse (by intro h'; cases h'; exact h rfl)
  | .set a, .set b => match decEqList a b with
      | isTrue h => isTrue (by rw [h])
      | isFalse h => isFalse (by intro h'; cases h'; exact h rfl)
  | .dict a, .dict b => match decEqPairs a b with
      | isTrue h => isTrue (by rw [h])
      | isFalse h => isFalse (by intro h'; cases h'; exact h rfl)
  | .jsonify a, .jsonify b => match Val.decEq a b with
      | isTrue h => isTrue (by rw [h])
      | isFalse h => isFalse (by intro h'; cases h'; exact h rfl)
  | .none, .bool _ | .none, .int _ | .none, .flt _ _ | .none, .str _ | .none, .bytes _ | .none, .list _ | .none, .tuple _ | .none, .dict _ | .none, .set _ | .none, .sic _ | .none, .py _ | .none, .jsonify _ | .none, .obj _ => isFalse (by intro h; cases h)
  | .bool _, .none | .bool _, .int _ | .bool _, .flt _ _ | .bool _, .str _ | .bool _, .bytes _ | .bool _, .list _ | .bool _, .tuple _ | .bool _, .dict _ | .bool _, .set _ | .bool _, .sic _ | .bool _, .py _ | .bool _, .jsonify _ | .bool _, .obj _ => isFalse (by intro h; cases h)
  | .int _, .none | .int _, .bool _ | .int _, .flt _ _ | .int _, .str _ | .int _, .bytes _ | .int _, .list _ | .int _, .tuple _ | .int _, .dict _ | .int _, .set _ | .int _, .sic _ | .int _, .py _ | .int _, .jsonify _ | .int _, .obj _ => isFalse (by intro h; cases h)
  | .flt _ _, .none | .flt _ _, .bool _ | .flt _ _, .int _ | .flt _ _, .str _ | .flt _ _, .bytes _ | .flt _ _, .list _ | .flt _ _, .tuple _ | .flt _ _, .dict _ | .flt _ _, .set _ | .flt _ _, .sic _ | .flt _ _, .py _ | .flt _ _, .jsonify _ | .flt _ _, .obj _ => isFalse (by intro h; cases h)
  | .str _, .none | .str _, .bool _ | .str _, .int _ | .str _, .flt _ _ | .str _, .bytes _ | .str _, .list _ | .str _, .tuple _ | .str _, .dict _ | .str _, .set _ | .str _, .sic _ | .str _, .py _ | .str _, .jsonify _ | .str _, .obj _ => isFalse (by intro h; cases h)
  | .bytes _, .none | .bytes _, .bool _ | .bytes _, .int _ | .bytes _, .flt _ _ | .bytes _, .str _ | .bytes _, .list _ | .bytes _, .tuple _ | .bytes _, .dict _ | .bytes _, .set _ | .bytes _, .sic _ | .bytes _, .py _ | .bytes _, .jsonify _ | .bytes _, .obj _ => isFalse (by intro h; cases h)
  | .list _, .none | .list _, .bool _ | .list _, .int _ | .list _, .flt _ _ | .list _, .str _ | .list _, .bytes _ | .list _, .tuple _ | .list _, .dict _ | .list _, .set _ | .list _, .sic _ | .list _, .py _ | .list _, .jsonify _ | .list _, .obj _ => isFalse (by intro h; cases h)
  | .tuple _, .none | .tuple _, .bool _ | .tuple _, .int _ | .tuple _, .flt _ _ | .tuple _, .str _ | .tuple _, .bytes _ | .tuple _, .list _ | .tuple _, .dict _ | .tuple _, .set _ | .tuple _, .sic _ | .tuple _, .py _ | .tuple _, .jsonify _ | .tuple _, .obj _ => isFalse (by intro h; cases h)
  | .dict _, .none | .dict _, .bool _ | .dict _, .int _ | .dict _, .flt _ _ | .dict _, .str _ | .dict _, .bytes _ | .dict _, .list _ | .dict _, .tuple _ | .dict _, .set _ | .dict _, .sic _ | .dict _, .py _ | .dict _, .jsonify _ | .dict _, .obj _ => isFalse (by intro h; cases h)
  | .set _, .none | .set _, .bool _ | .set _, .int _ | .set _, .flt _ _ | .set _, .str _ | .set _, .bytes _ | .set _, .list _ | .set _, .tuple _ | .set _, .dict _ | .set _, .sic _ | .set _, .py _ | .set _, .jsonify _ | .set _, .obj _ => isFalse (by intro h; cases h)
  | .sic _, .none | .sic _, .bool _ | .sic _, .int _ | .sic _, .flt _ _ | .sic _, .str _ | .sic _, .bytes _ | .sic _, .list _ | .sic _, .tuple _ | .sic _, .dict _ | .sic _, .set _ | .sic _, .py _ | .sic _, .jsonify _ | .sic _, .obj _ => isFalse (by intro h; cases h)
  | .py _, .none | .py _, .bool _ | .py _, .int _ | .py _, .flt _ _ | .py _, .str _ | .py _, .bytes _ | .py _, .list _ | .py _, .tuple _ | .py _, .dict _ | .py _, .set _ | .py _, .sic _ | .py _, .jsonify _ | .py _, .obj _ => isFalse (by intro h; cases h)
  | .jsonify _, .none | .jsonify _, .bool _ | .jsonify _, .int _ | .jsonify _, .flt _ _ | .jsonify _, .str _ | .jsonify _, .bytes _ | .jsonify _, .list _ | .jsonify _, .tuple _ | .jsonify _, .dict _ | .jsonify _, .set _ | .jsonify _, .sic _ | .jsonify _, .py _ | .jsonify _, .obj _ => isFalse (by intro h; cases h)
  | .obj _, .none | .obj _, .bool _ | .obj _, .int _ | .obj _, .flt _ _ | .obj _, .str _ | .obj _, .bytes _ | .obj _, .list _ | .obj _, .tuple _ | .obj _, .dict _ | .obj _, .set _ | .obj _, .sic _ | .obj _, .py _ | .obj _, .jsonify _ => isFalse (by intro h; cases h)
def decEqList : (a b : List Val) → Decidable (a = b)
  | [], [] => isTrue rfl
  | [], _ :: _ => isFalse (by intro h; cases h)
  | _ :: _, [] => isFalse (by intro h; cases h)
  | x :: xs, y :: ys => match Val.decEq x y, decEqList xs ys with
      | isTrue h1, isTrue h2 => isTrue (by rw [h1, h2])
      | isFalse h, _ => isFalse (by intro h'; cases h'; exact h rfl)
      | _, isFalse h => isFalse (by intro h'; cases h'; exact h rfl)
def decEqPairs : (a b : List (Val × Val)) → Decidable (a = b)
  | [], [] => isTrue rfl
  | [], _ :: _ => isFalse (by intro h; cases h)
  | _ :: _, [] => isFalse (by intro h; cases h)
  | (x1, x2) :: xs, (y1, y2) :: ys => match Val.decEq x1 y1, Val.decEq x2 y2, decEqPairs xs ys with
      | isTrue h1, isTrue h2, isTrue h3 => isTrue (by rw [h1, h2, h3])
      | isFalse h, _, _ => isFalse (by intro h'; cases h'; exact h rfl)
      | _, isFalse h, _ => isFalse (by intro h'; cases h'; exact h rfl)
      | _, _, isFalse h => isFalse (by intro h'; cases h'; exact h rfl)
end

instance : DecidableEq Val := Val.decEq

/-- Exceptions as the models see them: the canonical name (`get_error_name`)
    and the message. Identity of exception objects, where a property needs it,
    is carried separately by the flow model. -/
structure Exc where
  name : String
  msg  : String := ""
  deriving Repr, BEq, DecidableEq, Inhabited

/-- The pypyr context: an insertion-ordered dict with string keys. -/
abbrev Ctx := List (String × Val)

namespace Ctx

def get? (c : Ctx) (k : String) : Option Val :=
  match c with
  | [] => none
  | (k', v) :: rest => if k' = k then some v else get? rest k

def contains (c : Ctx) (k : String) : Bool := (get? c k).isSome

/-- `dict.__setitem__`: an existing key keeps its position, a new key goes last. -/
def set (c : Ctx) (k : String) (v : Val) : Ctx :=
  match c with
  | [] => [(k, v)]
  | (k', v') :: rest => if k' = k then (k, v) :: rest else (k', v') :: set rest k v

/-- `dict.pop(k, None)`. (All occurrences: on a key-unique list that is the one entry.) -/
def erase (c : Ctx) (k : String) : Ctx :=
  match c with
  | [] => []
  | (k', v') :: rest => if k' = k then erase rest k else (k', v') :: erase rest k

/-- `dict.update(other)` for an association list, left to right. -/
def update (c : Ctx) (kvs : List (String × Val)) : Ctx :=
  kvs.foldl (fun acc kv => set acc kv.1 kv.2) c

def keys (c : Ctx) : List String := c.map (·.1)

def toVal (c : Ctx) : Val := .dict (c.map fun kv => (.str kv.1, kv.2))

end Ctx

/-- Association-list helpers for `Val.dict` payloads (keys are arbitrary `Val`). -/
def dictGet? (kvs : List (Val × Val)) (k : Val) : Option Val :=
  match kvs with
  | [] => none
  | (k', v) :: rest => if k' = k then some v else dictGet? rest k

def dictSet (kvs : List (Val × Val)) (k v : Val) : List (Val × Val) :=
  match kvs with
  | [] => [(k, v)]
  | (k', v') :: rest => if k' = k then (k', v) :: rest else (k', v') :: dictSet rest k v

def dictErase (kvs : List (Val × Val)) (k : Val) : List (Val × Val) :=
  match kvs with
  | [] => []
  | (k', v') :: rest => if k' = k then rest else (k', v') :: dictErase rest k

/-- Set insertion keeping first occurrence (Python set semantics up to order). -/
def setInsert (xs : List Val) (v : Val) : List Val :=
  if xs.contains v then xs else xs ++ [v]

def setOfList (xs : List Val) : List Val := xs.foldl setInsert []

/-- Python truthiness (`bool(v)`) for the modelled kinds. Special tags are
    truthy iff their payload is (`SpecialTagDirective.__bool__`). -/
def Val.truthy : Val → Bool
  | .none => false
  | .bool b => b
  | .int i => i != 0
  | .flt n _ => n != 0
  | .str s => s != ""
  | .bytes s => s != ""
  | .list xs => !xs.isEmpty
  | .tuple xs => !xs.isEmpty
  | .dict kvs => !kvs.isEmpty
  | .set xs => !xs.isEmpty
  | .sic s => s != ""
  | .py _ => true          -- `!py` with an empty expression cannot be built by the renderer
  | .jsonify v => match v with
      | .none => false | .bool b => b | .int i => i != 0 | .flt n _ => n != 0
      | .str s => s != "" | .bytes s => s != ""
      | .list xs => !xs.isEmpty | .tuple xs => !xs.isEmpty
      | .dict kvs => !kvs.isEmpty | .set xs => !xs.isEmpty
      | _ => true
  | .obj _ => true

def lowerAscii (s : String) : String := s.map Char.toLower

/-- `pypyr.utils.types.cast_str_to_bool`. Note `str.lower()` on non-ASCII is
    outside the modelled domain; the truthy strings are all ASCII. -/
def castStrToBool (s : String) : Bool :=
  let l := lowerAscii s
  l == "true" || l == "1" || l == "1.0"

/-- `pypyr.utils.types.cast_to_bool`. -/
def castToBool : Val → Bool
  | .str s => castStrToBool s
  | v => v.truthy

end Pypyr
