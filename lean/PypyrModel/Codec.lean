/-
  C16 — structured file steps: write → fetch round trip and `fileformat{json,yaml,toml}`.

  * A document tree is a `Val` built from None/bool/int/float/str/list/dict (`isDoc`).
  * `fmtDoc` = what `ObjectRewriter` applies to the loaded object and what the `filewrite*` steps
    apply to their payload: `Context.get_formatted_value`, i.e. the basic formatter's `fmtVal`.
  * `Codec τ` = a serialiser / parser pair over a text type `τ` (`enc` fails where the real
    serialiser raises). YAML (ruamel.yaml) and TOML (tomli_w / tomllib) are third-party: they enter the
    theorems only through the hypothesis `dec (enc d) = some d`. For JSON the pair is written out
    (`Codec.Json.print` mirrors `json.dump(payload, f, indent=2, ensure_ascii=False)` as
    `filewritejson.run_step` and `JsonRepresenter.dump` call it; `Codec.Json.parse` mirrors
    `json.load`), so the hypothesis can be discharged (Props/C16.lean).
  * `writePayload`, `fileWrite`, `fetchArgs`, `fetch`, `fileFormatDoc` mirror the glue in
    `pypyr/steps/filewrite{json,yaml,toml}.py`, `fetch{json,yaml,toml}.py`,
    `pypyr/parser/{json,yaml,toml}file.py` and `ObjectRewriter.in_to_out`.

  No imports beyond the shared models.
-/
import PypyrModel.Val
import PypyrModel.PyRepr
import PypyrModel.Fmt

namespace Pypyr.Codec

/-! ### Documents -/

mutual
/-- A document tree: what json/yaml/toml loaders produce (keys are themselves documents; for JSON
    and TOML they are strings). -/
def isDoc : Val → Bool
  | .none => true
  | .bool _ => true
  | .int _ => true
  | .flt _ _ => true
  | .str _ => true
  | .list xs => isDocList xs
  | .dict kvs => isDocPairs kvs
  | _ => false
def isDocList : List Val → Bool
  | [] => true
  | x :: xs => isDoc x && isDocList xs
def isDocPairs : List (Val × Val) → Bool
  | [] => true
  | (k, v) :: rest => isDoc k && isDoc v && isDocPairs rest
end

/-- The formatting the structured file steps apply: `context.get_formatted_value(obj)`. -/
def fmtDoc (fuel : Nat) (ctx : Ctx) (d : Val) : Except Exc Val := fmtVal fuel ctx d

/-! ### Codecs -/

/-- A serialiser/parser pair. `enc d = none`: the serialiser raises on `d`. -/
structure Codec (τ : Type) where
  enc : Val → Option τ
  dec : τ → Option Val

/-- The hypothesis under which the third-party codecs enter: `d` survives a write/read cycle. -/
def Codec.RoundTrips {τ} (c : Codec τ) (d : Val) : Prop :=
  ∃ t, c.enc d = some t ∧ c.dec t = some d

abbrev Files (τ : Type) := List (String × τ)

def Files.get? {τ} : Files τ → String → Option τ
  | [], _ => none
  | (k, v) :: rest, p => if k = p then some v else Files.get? rest p

def Files.set {τ} : Files τ → String → τ → Files τ
  | [], p, t => [(p, t)]
  | (k, v) :: rest, p, t => if k = p then (k, t) :: rest else (k, v) :: Files.set rest p t

inductive Format where
  | json | yaml | toml
  deriving DecidableEq, Repr, Inhabited

def Format.writeKey : Format → String
  | .json => "fileWriteJson" | .yaml => "fileWriteYaml" | .toml => "fileWriteToml"
def Format.fetchKey : Format → String
  | .json => "fetchJson" | .yaml => "fetchYaml" | .toml => "fetchToml"
def Format.writeStep : Format → String
  | .json => "pypyr.steps.filewritejson" | .yaml => "pypyr.steps.filewriteyaml"
  | .toml => "pypyr.steps.filewritetoml"

def keyNotInContextMsg (msg : String) : Exc := ⟨"pypyr.errors.KeyNotInContextError", msg⟩
def keyHasNoValue (msg : String) : Exc := ⟨"pypyr.errors.KeyInContextHasNoValueError", msg⟩
def typeError (msg : String) : Exc := ⟨"TypeError", msg⟩

/-- `context.assert_key_has_value(key, caller)` then `context.get_formatted(key)`. -/
def formattedInput (fuel : Nat) (ctx : Ctx) (key : String) : Except Exc Val :=
  match ctx.get? key with
  | none => .error (keyNotInContextMsg key)
  | some .none => .error (keyHasNoValue key)
  | some v => fmtVal fuel ctx v

/-- `assert_key_has_value(obj=input, key='path', …)` and `input['path']` as a path string. -/
def pathOf (input : List (Val × Val)) : Except Exc String :=
  match dictGet? input (.str "path") with
  | none => .error (keyNotInContextMsg "path")
  | some .none => .error (keyHasNoValue "path")
  | some (.str p) => .ok p
  | some _ => .error (outOfDomain "path is not a string")

/-- `filewrite*.run_step` up to the call of the serialiser: the path and the payload handed to it
    (`input_context = context.get_formatted(key)`; `payload = input_context['payload']` when given,
    else the whole formatted context; TOML refuses a falsy payload). -/
def writePayload (f : Format) (fuel : Nat) (ctx : Ctx) : Except Exc (String × Val) :=
  match formattedInput fuel ctx f.writeKey with
  | .error e => .error e
  | .ok (.dict input) =>
    match pathOf input with
    | .error e => .error e
    | .ok path =>
      match dictGet? input (.str "payload") with
      | none =>
        match fmtVal fuel ctx (Ctx.toVal ctx) with
        | .error e => .error e
        | .ok whole => .ok (path, whole)
      | some payload =>
        if f = .toml && !payload.truthy then
          .error (keyHasNoValue "payload must have a value to write to output TOML document.")
        else .ok (path, payload)
  | .ok _ => .error (outOfDomain "step input is not a mapping")

/-- `filewrite*.run_step`: serialise the payload to the path. -/
def fileWrite {τ} (f : Format) (c : Codec τ) (fuel : Nat) (ctx : Ctx) (files : Files τ) :
    Except Exc (Files τ) :=
  match writePayload f fuel ctx with
  | .error e => .error e
  | .ok (path, payload) =>
    match c.enc payload with
    | none => .error (typeError "payload is not serializable")
    | some t => .ok (files.set path t)

/-- `fetch*.run_step` argument handling: a plain string is the path; else `path`, optional `key`. -/
def fetchArgs (f : Format) (fuel : Nat) (ctx : Ctx) : Except Exc (String × Option Val) :=
  match formattedInput fuel ctx f.fetchKey with
  | .error e => .error e
  | .ok (.str p) => .ok (p, none)
  | .ok (.dict input) =>
    match pathOf input with
    | .error e => .error e
    | .ok path => .ok (path, dictGet? input (.str "key"))
  | .ok _ => .error (outOfDomain "step input is neither a string nor a mapping")

/-- String-keyed entries of a mapping (`context.update(payload)` needs them; other key types are
    outside the modelled context). -/
def strEntries : List (Val × Val) → Option (List (String × Val))
  | [] => some []
  | (.str k, v) :: rest => (strEntries rest).map fun r => (k, v) :: r
  | _ => none

/-- Where the parsed payload goes: `if destination_key: context[key] = payload` else it must be a
    mapping (json, yaml: TypeError otherwise; toml is a mapping by construction) merged at root. -/
def store (ctx : Ctx) (key : Option Val) (payload : Val) : Except Exc Ctx :=
  let atRoot : Except Exc Ctx :=
    match payload with
    | .dict kvs =>
      match strEntries kvs with
      | some es => .ok (ctx.update es)
      | none => .error (outOfDomain "non-string key merged into context")
    | _ => .error (typeError "input should describe a mapping at the top level")
  match key with
  | none => atRoot
  | some k =>
    if k.truthy then
      match k with
      | .str ks => .ok (ctx.set ks payload)
      | _ => .error (outOfDomain "destination key is not a string")
    else atRoot

/-- Whether `len(payload)` works: not for a top-level None/bool/int/float. -/
def hasLen : Val → Bool
  | .none | .bool _ | .int _ | .flt _ _ => false
  | _ => true

/-- `fetch*.run_step`. `lenGuard = true` is the code as it is now (fix 37680ff: the closing log
    statement takes `len(payload)` only of a `Sized` payload); `false` is the code before that fix,
    where a scalar top level raised `TypeError` after the key had been set — kept for the witness
    theorem `fetch_scalar_raises_pre_fix`. -/
def fetchWith {τ} (lenGuard : Bool) (f : Format) (c : Codec τ) (fuel : Nat) (ctx : Ctx) (files : Files τ) :
    Except Exc Ctx :=
  match fetchArgs f fuel ctx with
  | .error e => .error e
  | .ok (path, key) =>
    match files.get? path with
    | none => .error ⟨"FileNotFoundError", path⟩
    | some t =>
      match c.dec t with
      | none => .error ⟨"DecodeError", path⟩
      | some payload =>
        match store ctx key payload with
        | .error e => .error e
        | .ok ctx' =>
          if lenGuard || hasLen payload then .ok ctx'
          else .error (typeError "object has no len()")   -- raised by the closing log statement

/-- `fetch*.run_step` as it is now. -/
def fetch {τ} (f : Format) (c : Codec τ) (fuel : Nat) (ctx : Ctx) (files : Files τ) : Except Exc Ctx :=
  fetchWith true f c fuel ctx files

/-- `pypyr.parser.{json,yaml,toml}file.get_parsed_context`: the parsed file must be a mapping
    (json/yaml check it, toml is one by construction); it becomes the initial context. -/
def fileParser {τ} (c : Codec τ) (t : τ) : Except Exc Val :=
  match c.dec t with
  | none => .error ⟨"DecodeError", ""⟩
  | some (.dict kvs) => .ok (.dict kvs)
  | some _ => .error (typeError "input should describe a mapping at the top level")

/-- `ObjectRewriter.in_to_out` at value level: load, format, dump. -/
def fileFormatDoc {τ} (c : Codec τ) (fuel : Nat) (ctx : Ctx) (src : τ) : Except Exc τ :=
  match c.dec src with
  | none => .error ⟨"DecodeError", ""⟩
  | some d =>
    match fmtDoc fuel ctx d with
    | .error e => .error e
    | .ok d' =>
      match c.enc d' with
      | none => .error (typeError "formatted document is not serializable")
      | some t => .ok t

/-! ### Encodings: the file-level `fileformat{json,yaml}` step

  `FileInRewriterStep.__init__` derives two encodings from three options; `ObjectRewriter.in_to_out`
  reads the source with the IN encoding and writes the result with the OUT encoding — whether it
  writes straight to `out_path` or to the temp file that replaces `in_path` (no out / out is the same
  file). The model keeps, next to the text of a file, the encoding its bytes are in. -/

/-- A file on disk: its text and the encoding the bytes are in. -/
structure Stored (τ : Type) where
  enc : String
  text : τ
  deriving Repr, DecidableEq

/-- `open(path, encoding=e).read()`: the text, if `e` is the encoding the bytes are in. (Idealised:
    decoding with another encoding is an error; the correspondence uses it only on the positive side,
    with non-ASCII content.) -/
def Stored.readAs {τ} (s : Stored τ) (e : String) : Option τ := if s.enc = e then some s.text else none

/-- `encoding`, `encodingIn`, `encodingOut` of the step's input. -/
structure EncOpts where
  encoding : Option String := none
  encodingIn : Option String := none
  encodingOut : Option String := none
  deriving Repr, DecidableEq

/-- `encoding = root_dict.get('encoding', config.default_encoding)`;
    `self.encoding_in = root_dict.get('encodingIn', encoding)`. -/
def EncOpts.inEnc (o : EncOpts) (dflt : String) : String := o.encodingIn.getD (o.encoding.getD dflt)
/-- `self.encoding_out = root_dict.get('encodingOut', encoding)`. -/
def EncOpts.outEnc (o : EncOpts) (dflt : String) : String := o.encodingOut.getD (o.encoding.getD dflt)

/-- Where the result of `in_to_out(in_path, out_path)` ends up: `out_path` when given (truthy), else
    `in_path` itself (via the temp file). `out_path` naming the same file as `in_path` is `in_path`. -/
def targetOf (inp : String) (out : Option String) : String :=
  match out with
  | none => inp
  | some o => if o = "" then inp else o

/-- `ObjectRewriter.in_to_out(in_path, out_path)` at file level, on either route. -/
def fileFormatFile {τ} (c : Codec τ) (fuel : Nat) (ctx : Ctx) (files : Files (Stored τ))
    (inp : String) (out : Option String) (o : EncOpts) (dflt : String) : Except Exc (Files (Stored τ)) :=
  match files.get? inp with
  | none => .error ⟨"FileNotFoundError", inp⟩
  | some s =>
    match s.readAs (o.inEnc dflt) with
    | none => .error ⟨"UnicodeDecodeError", inp⟩
    | some src =>
      match fileFormatDoc c fuel ctx src with
      | .error e => .error e
      | .ok t => .ok (files.set (targetOf inp out) ⟨o.outEnc dflt, t⟩)

/-! ### Sessions: several file operations in one process

  A `Codec` is a pair of FUNCTIONS: what `dec` returns depends on the text alone — not on which
  files were read or written earlier in the process. (The real loaders are objects; that the steps use
  them statelessly — a fresh loader per call, or one whose settings a document cannot change — is an
  assumption the correspondence checks with sessions, see harness/props/c16.py.) -/

inductive SOp where
  | write (f : Format) (ctx : Ctx)
  | fetch (f : Format) (ctx2 : Ctx)
  | format (f : Format) (ctx : Ctx) (inp : String) (out : Option String)
  deriving Repr

inductive SObs where
  | wrote
  | fetched (ctx : Ctx)
  | formatted
  | failed (e : Exc)
  deriving Repr

/-- One operation: the files afterwards and what the step did. -/
def stepS {τ} (c : Format → Codec τ) (fuel : Nat) (files : Files τ) : SOp → Files τ × SObs
  | .write f ctx =>
    match fileWrite f (c f) fuel ctx files with
    | .ok fs => (fs, .wrote)
    | .error e => (files, .failed e)
  | .fetch f ctx2 =>
    match fetch f (c f) fuel ctx2 files with
    | .ok cx => (files, .fetched cx)
    | .error e => (files, .failed e)
  | .format f ctx inp out =>
    match files.get? inp with
    | none => (files, .failed ⟨"FileNotFoundError", inp⟩)
    | some src =>
      match fileFormatDoc (c f) fuel ctx src with
      | .ok t => (files.set (targetOf inp out) t, .formatted)
      | .error e => (files, .failed e)

/-- A pipeline run: the operations one after the other; only the FILES carry over. -/
def runSession {τ} (c : Format → Codec τ) (fuel : Nat) : Files τ → List SOp → Files τ × List SObs
  | files, [] => (files, [])
  | files, op :: ops =>
    let r := stepS c fuel files op
    let r' := runSession c fuel r.1 ops
    (r'.1, r.2 :: r'.2)

/-- The ideal codec over values: what the correspondence uses for the three formats when only the
    glue is compared (representability is decided per format by the driver). -/
def Codec.ideal : Codec Val := { enc := some, dec := some }

/-! ### JSON, written out (`List Char` so that the round trip can be proved) -/

namespace Json

def hexDigit : Nat → Char
  | 0 => '0' | 1 => '1' | 2 => '2' | 3 => '3' | 4 => '4' | 5 => '5' | 6 => '6' | 7 => '7'
  | 8 => '8' | 9 => '9' | 10 => 'a' | 11 => 'b' | 12 => 'c' | 13 => 'd' | 14 => 'e' | _ => 'f'

def hexVal (c : Char) : Option Nat :=
  if c = '0' then some 0 else if c = '1' then some 1 else if c = '2' then some 2
  else if c = '3' then some 3 else if c = '4' then some 4 else if c = '5' then some 5
  else if c = '6' then some 6 else if c = '7' then some 7 else if c = '8' then some 8
  else if c = '9' then some 9
  else if c = 'a' || c = 'A' then some 10 else if c = 'b' || c = 'B' then some 11
  else if c = 'c' || c = 'C' then some 12 else if c = 'd' || c = 'D' then some 13
  else if c = 'e' || c = 'E' then some 14 else if c = 'f' || c = 'F' then some 15
  else none

/-- `json.encoder.ESCAPE_DCT` with `ensure_ascii=False`: only `"`, `\`, and U+0000–U+001F. -/
def escChar (c : Char) : List Char :=
  if c = '"' then ['\\', '"']
  else if c = '\\' then ['\\', '\\']
  else if c = '\n' then ['\\', 'n']
  else if c = '\r' then ['\\', 'r']
  else if c = '\t' then ['\\', 't']
  else if c = '\x08' then ['\\', 'b']
  else if c = '\x0c' then ['\\', 'f']
  else if c.toNat < 32 then ['\\', 'u', '0', '0', hexDigit (c.toNat / 16), hexDigit (c.toNat % 16)]
  else [c]

def escStr : List Char → List Char
  | [] => []
  | c :: cs => escChar c ++ escStr cs

def prStr (s : String) : List Char := '"' :: (escStr s.toList ++ ['"'])

def digit (k : Nat) : Char := hexDigit (k % 10)

/-- Decimal digits of `n`, most significant first (fuel ≥ n suffices). -/
def digitsAux : Nat → Nat → List Char → List Char
  | 0, n, acc => digit n :: acc
  | f + 1, n, acc => if n < 10 then digit n :: acc else digitsAux f (n / 10) (digit n :: acc)

def natDigits (n : Nat) : List Char := digitsAux n n []

/-- `int.__repr__`. -/
def prInt (i : Int) : List Char :=
  if i < 0 then '-' :: natDigits i.natAbs else natDigits i.natAbs

/-- `'\n' + ' ' * (2 * level)`. -/
def indentOf (lvl : Nat) : List Char := '\n' :: List.replicate (2 * lvl) ' '

def prKey : Val → List Char
  | .str s => prStr s
  | _ => ['"', '"']      -- outside the domain (`isJson` is false)

mutual
/-- `json.dump(v, f, indent=2, ensure_ascii=False)` at nesting level `lvl` (`_iterencode`). -/
def pr (lvl : Nat) : Val → List Char
  | .none => ['n', 'u', 'l', 'l']
  | .bool true => ['t', 'r', 'u', 'e']
  | .bool false => ['f', 'a', 'l', 's', 'e']
  | .int i => prInt i
  | .flt n k => (fltRepr n k).toList
  | .str s => prStr s
  | .list xs => prArr lvl xs
  | .dict kvs => prObj lvl kvs
  | _ => ['n', 'u', 'l', 'l']   -- outside the domain (`isJson` is false)
def prArr (lvl : Nat) : List Val → List Char
  | [] => ['[', ']']
  | x :: xs => '[' :: (indentOf (lvl + 1) ++ (pr (lvl + 1) x ++ prElems lvl xs))
/-- the remaining elements and the closing bracket of an array at level `lvl` -/
def prElems (lvl : Nat) : List Val → List Char
  | [] => indentOf lvl ++ [']']
  | x :: xs => ',' :: (indentOf (lvl + 1) ++ (pr (lvl + 1) x ++ prElems lvl xs))
def prObj (lvl : Nat) : List (Val × Val) → List Char
  | [] => ['{', '}']
  | (k, v) :: rest =>
    '{' :: (indentOf (lvl + 1) ++ (prKey k ++ (':' :: ' ' :: (pr (lvl + 1) v ++ prMembers lvl rest))))
def prMembers (lvl : Nat) : List (Val × Val) → List Char
  | [] => indentOf lvl ++ ['}']
  | (k, v) :: rest =>
    ',' :: (indentOf (lvl + 1) ++ (prKey k ++ (':' :: ' ' :: (pr (lvl + 1) v ++ prMembers lvl rest))))
end

def print (d : Val) : List Char := pr 0 d

def keyIn (k : Val) : List (Val × Val) → Bool
  | [] => false
  | (k', _) :: rest => k' == k || keyIn k rest

def isStr : Val → Bool
  | .str _ => true
  | _ => false

mutual
/-- The JSON domain: objects with pairwise distinct string keys, arrays, strings, ints, bools,
    null — and floats when `flt` (floats are printed but outside the proved round trip). -/
def isJson (flt : Bool) : Val → Bool
  | .none => true
  | .bool _ => true
  | .int _ => true
  | .flt _ _ => flt
  | .str _ => true
  | .list xs => isJsonList flt xs
  | .dict kvs => isJsonPairs flt kvs
  | _ => false
def isJsonList (flt : Bool) : List Val → Bool
  | [] => true
  | x :: xs => isJson flt x && isJsonList flt xs
def isJsonPairs (flt : Bool) : List (Val × Val) → Bool
  | [] => true
  | (k, v) :: rest => isStr k && !keyIn k rest && isJson flt v && isJsonPairs flt rest
end

/-- Parser results: a value and the unread input; a document `json.load` rejects
    (`JSONDecodeError`); or a document outside the modelled domain (floats, NaN/Infinity, lone
    surrogates, fuel). -/
inductive PR (α : Type) where
  | ok (v : α) (rest : List Char)
  | bad
  | outside
  deriving Repr

def isWs (c : Char) : Bool := c = ' ' || c = '\t' || c = '\n' || c = '\r'

def skipWs : List Char → List Char
  | [] => []
  | c :: cs => if isWs c then skipWs cs else c :: cs

/-- The single-character escapes of `json.decoder.BACKSLASH`. -/
def simpleEsc (c : Char) : Option Char :=
  if c = '"' then some '"' else if c = '\\' then some '\\' else if c = '/' then some '/'
  else if c = 'b' then some '\x08' else if c = 'f' then some '\x0c' else if c = 'n' then some '\n'
  else if c = 'r' then some '\r' else if c = 't' then some '\t' else none

/-- Scanner state inside a string literal. -/
inductive SMode where
  | norm                                   -- ordinary characters
  | esc                                    -- just after a backslash
  | u (k : Nat) (v : Nat) (hi : Option Nat) -- k hex digits of a \uXXXX read, value v; hi = pending high surrogate
  | hi1 (h : Nat)                          -- after a high surrogate: a backslash must follow
  | hi2 (h : Nat)                          -- … and then a `u`
  deriving Repr

/-- `json.decoder.scanstring` (strict; the C scanner's strict hex digits) after the opening quote, one
    character per step; `acc` is the text so far, reversed. A lone surrogate (which Python keeps in
    the resulting `str`) is outside the modelled domain. -/
def pStrM : SMode → List Char → List Char → PR (List Char)
  | _, [], _ => .bad
  | .norm, c :: cs, acc =>
    if c = '"' then .ok acc.reverse cs
    else if c = '\\' then pStrM .esc cs acc
    else if c.toNat < 32 then .bad
    else pStrM .norm cs (c :: acc)
  | .esc, c :: cs, acc =>
    if c = 'u' then pStrM (.u 0 0 none) cs acc
    else match simpleEsc c with
      | some e => pStrM .norm cs (e :: acc)
      | none => .bad
  | .u k v hi, c :: cs, acc =>
    match hexVal c with
    | none => .bad
    | some h =>
      if k < 3 then pStrM (.u (k + 1) (v * 16 + h) hi) cs acc
      else
        let n := v * 16 + h
        match hi with
        | none =>
          if 0xD800 ≤ n && n ≤ 0xDBFF then pStrM (.hi1 n) cs acc
          else if 0xDC00 ≤ n && n ≤ 0xDFFF then .outside
          else pStrM .norm cs (Char.ofNat n :: acc)
        | some h0 =>
          if 0xDC00 ≤ n && n ≤ 0xDFFF then
            pStrM .norm cs (Char.ofNat (0x10000 + (h0 - 0xD800) * 1024 + (n - 0xDC00)) :: acc)
          else .outside
  | .hi1 h0, c :: cs, acc => if c = '\\' then pStrM (.hi2 h0) cs acc else .outside
  | .hi2 h0, c :: cs, acc => if c = 'u' then pStrM (.u 0 0 (some h0)) cs acc else .outside

def pStr (cs acc : List Char) : PR (List Char) := pStrM .norm cs acc

/-- Consume decimal digits, accumulating. -/
def readNat (a : Nat) : List Char → Nat × List Char
  | [] => (a, [])
  | c :: cs => if c.isDigit then readNat (a * 10 + (c.toNat - 48)) cs else (a, c :: cs)

/-- After the integer part: a fraction or an exponent makes it a float (outside the domain). -/
def isFloatTail : List Char → Bool
  | '.' :: c :: _ => c.isDigit
  | 'e' :: c :: rest | 'E' :: c :: rest =>
    c.isDigit || ((c = '+' || c = '-') && match rest with
      | d :: _ => d.isDigit
      | [] => false)
  | _ => false

/-- `NUMBER_RE` integer part `(0|[1-9]\d*)` at the head of the input. -/
def pNat : List Char → PR Nat
  | [] => .bad
  | c :: cs =>
    if c = '0' then .ok 0 cs
    else if c.isDigit then
      let r := readNat 0 (c :: cs)
      .ok r.1 r.2
    else .bad

def pNumber (neg : Bool) (cs : List Char) : PR Val :=
  match pNat cs with
  | .ok n rest =>
    if isFloatTail rest then .outside
    else .ok (.int (if neg then -(Int.ofNat n) else Int.ofNat n)) rest
  | .bad => .bad
  | .outside => .outside

/-- A literal keyword after its first character. -/
def pLit (lit : List Char) (v : Val) (cs : List Char) : PR Val :=
  if lit.isPrefixOf cs then .ok v (cs.drop lit.length) else .bad

mutual
/-- `scan_once` at the head of the input (no leading whitespace). -/
def pValue : Nat → List Char → PR Val
  | 0, _ => .outside
  | _ + 1, [] => .bad
  | f + 1, c :: r =>
    if c.isDigit then pNumber false (c :: r)
    else if c = '"' then
      match pStr r [] with
      | .ok s rest => .ok (.str (String.ofList s)) rest
      | .bad => .bad
      | .outside => .outside
    else if c = '{' then
      match skipWs r with
      | [] => .bad
      | c' :: r' =>
        if c' = '}' then .ok (.dict []) r'
        else if c' = '"' then
          match pMember f r' with
          | .ok kvs rest => .ok (.dict (rebuildDict kvs)) rest
          | .bad => .bad
          | .outside => .outside
        else .bad
    else if c = '[' then
      match skipWs r with
      | [] => .bad
      | c' :: r' =>
        if c' = ']' then .ok (.list []) r'
        else
          match pValue f (c' :: r') with
          | .ok v rest =>
            match pElems f rest with
            | .ok vs rest' => .ok (.list (v :: vs)) rest'
            | .bad => .bad
            | .outside => .outside
          | .bad => .bad
          | .outside => .outside
    else if c = 'n' then pLit ['u', 'l', 'l'] .none r
    else if c = 't' then pLit ['r', 'u', 'e'] (.bool true) r
    else if c = 'f' then pLit ['a', 'l', 's', 'e'] (.bool false) r
    else if c = '-' then
      if ['I', 'n', 'f', 'i', 'n', 'i', 't', 'y'].isPrefixOf r then .outside else pNumber true r
    else if c = 'N' then (if ['a', 'N'].isPrefixOf r then .outside else .bad)
    else if c = 'I' then (if ['n', 'f', 'i', 'n', 'i', 't', 'y'].isPrefixOf r then .outside else .bad)
    else .bad
/-- after an array element: `,` value … or `]` -/
def pElems : Nat → List Char → PR (List Val)
  | 0, _ => .outside
  | f + 1, cs =>
    match skipWs cs with
    | [] => .bad
    | c :: r =>
      if c = ']' then .ok [] r
      else if c = ',' then
        match pValue f (skipWs r) with
        | .ok v rest =>
          match pElems f rest with
          | .ok vs rest' => .ok (v :: vs) rest'
          | .bad => .bad
          | .outside => .outside
        | .bad => .bad
        | .outside => .outside
      else .bad
/-- one member after its opening quote: key `:` value, then the remaining members -/
def pMember : Nat → List Char → PR (List (Val × Val))
  | 0, _ => .outside
  | f + 1, cs =>
    match pStr cs [] with
    | .ok k r =>
      match skipWs r with
      | [] => .bad
      | c :: r' =>
        if c = ':' then
          match pValue f (skipWs r') with
          | .ok v rest =>
            match pMembers f rest with
            | .ok kvs rest' => .ok ((.str (String.ofList k), v) :: kvs) rest'
            | .bad => .bad
            | .outside => .outside
          | .bad => .bad
          | .outside => .outside
        else .bad
    | .bad => .bad
    | .outside => .outside
/-- after a member: `,` `"` member … or `}` -/
def pMembers : Nat → List Char → PR (List (Val × Val))
  | 0, _ => .outside
  | f + 1, cs =>
    match skipWs cs with
    | [] => .bad
    | c :: r =>
      if c = '}' then .ok [] r
      else if c = ',' then
        match skipWs r with
        | [] => .bad
        | c' :: r' => if c' = '"' then pMember f r' else .bad
      else .bad
end

/-- `json.loads(text)`: leading whitespace, one value, trailing whitespace only. -/
def parse (cs : List Char) : PR Val :=
  let cs' := skipWs cs
  match pValue (cs'.length + 1) cs' with
  | .ok v rest => if (skipWs rest).isEmpty then .ok v [] else .bad
  | .bad => .bad
  | .outside => .outside

/-- The JSON codec as a `Codec` (text = list of characters). -/
def codec : Codec (List Char) :=
  { enc := fun d => if isJson true d then some (print d) else none
    dec := fun t => match parse t with
      | .ok v _ => some v
      | _ => none }

end Json

end Pypyr.Codec
