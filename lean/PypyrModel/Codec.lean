/-
  C16 — structured file steps: write → fetch round trip and `fileformat{json,yaml,toml}`.

  * A document tree is a `Val` built from None/bool/int/float/str/list/dict (`isDoc`).
  * `fmtDoc` = what `ObjectRewriter` applies to the loaded object and what the `filewrite*` steps
    apply to their payload: `Context.get_formatted_value`, i.e. the basic formatter's `fmtVal`.
  * `Codec τ` = a serialiser / parser pair over a text type `τ` (`enc` fails where the real
    serialiser raises). YAML (ruamel.yaml) and TOML (tomli_w / tomllib) are third-party: they enter the
    theorems only through the hypothesis `dec (enc d) = some d`. For JSON the pair is written out
    (`Codec.Json.print o` mirrors `json.dump(payload, f, indent=config.json_indent, ensure_ascii=config.json_ascii)` as
    `filewritejson.run_step` and `JsonRepresenter.dump` call it; `Codec.Json.parse` mirrors
    `json.load`), so the hypothesis can be discharged (Props/C16.lean).
  * `writePayload`, `fileWrite`, `fetchArgs`, `fetch`, `fileFormatDoc` mirror the glue in
    `pypyr/steps/filewrite{json,yaml,toml}.py`, `fetch{json,yaml,toml}.py`,
    `pypyr/parser/{json,yaml,toml}file.py` and `ObjectRewriter.in_to_out`.
  * File level with encodings: `fileWriteStored`, `fetchStored` (the steps' `encoding` entry, else
    `config.default_encoding`, else the platform default), `fileParserArgs` (the file context parsers:
    no-args behaviour per format, path = single-space join of the arguments, opened with
    `config.default_encoding` — toml: bytes, UTF-8 —, top-level check per format); `serialiseError` =
    the class of the exception when a serialiser refuses a payload, per format and cause.

  No imports beyond the shared models.
-/
import PypyrModel.Val
import PypyrModel.PyRepr
import PypyrModel.Fmt

namespace Pypyr.Codec

/-! ### Documents -/

mutual
/-- A document tree: what json/yaml/toml loaders produce (keys are themselves documents; for JSON
    and TOML they are strings). -/
def isDoc : Val → Bool
  | .none => true
  | .bool _ => true
  | .int _ => true
  | .flt _ _ => true
  | .str _ => true
  | .list xs => isDocList xs
  | .dict kvs => isDocPairs kvs
  | _ => false
def isDocList : List Val → Bool
  | [] => true
  | x :: xs => isDoc x && isDocList xs
def isDocPairs : List (Val × Val) → Bool
  | [] => true
  | (k, v) :: rest => isDoc k && isDoc v && isDocPairs rest
end

/-- The formatting the structured file steps apply: `context.get_formatted_value(obj)`. -/
def fmtDoc (fuel : Nat) (ctx : Ctx) (d : Val) : Except Exc Val := fmtVal fuel ctx d

/-! ### Codecs -/

/-- A serialiser/parser pair. `enc d = none`: the serialiser raises on `d`. -/
structure Codec (τ : Type) where
  enc : Val → Option τ
  dec : τ → Option Val

/-- The hypothesis under which the third-party codecs enter: `d` survives a write/read cycle. -/
def Codec.RoundTrips {τ} (c : Codec τ) (d : Val) : Prop :=
  ∃ t, c.enc d = some t ∧ c.dec t = some d

abbrev Files (τ : Type) := List (String × τ)

def Files.get? {τ} : Files τ → String → Option τ
  | [], _ => none
  | (k, v) :: rest, p => if k = p then some v else Files.get? rest p

def Files.set {τ} : Files τ → String → τ → Files τ
  | [], p, t => [(p, t)]
  | (k, v) :: rest, p, t => if k = p then (k, t) :: rest else (k, v) :: Files.set rest p t

inductive Format where
  | json | yaml | toml
  deriving DecidableEq, Repr, Inhabited

def Format.writeKey : Format → String
  | .json => "fileWriteJson" | .yaml => "fileWriteYaml" | .toml => "fileWriteToml"
def Format.fetchKey : Format → String
  | .json => "fetchJson" | .yaml => "fetchYaml" | .toml => "fetchToml"
def Format.writeStep : Format → String
  | .json => "pypyr.steps.filewritejson" | .yaml => "pypyr.steps.filewriteyaml"
  | .toml => "pypyr.steps.filewritetoml"

def keyNotInContextMsg (msg : String) : Exc := ⟨"pypyr.errors.KeyNotInContextError", msg⟩
def keyHasNoValue (msg : String) : Exc := ⟨"pypyr.errors.KeyInContextHasNoValueError", msg⟩
def typeError (msg : String) : Exc := ⟨"TypeError", msg⟩

/-- `context.assert_key_has_value(key, caller)` then `context.get_formatted(key)`. -/
def formattedInput (fuel : Nat) (ctx : Ctx) (key : String) : Except Exc Val :=
  match ctx.get? key with
  | none => .error (keyNotInContextMsg key)
  | some .none => .error (keyHasNoValue key)
  | some v => fmtVal fuel ctx v

/-- `assert_key_has_value(obj=input, key='path', …)` and `input['path']` as a path string. -/
def pathOf (input : List (Val × Val)) : Except Exc String :=
  match dictGet? input (.str "path") with
  | none => .error (keyNotInContextMsg "path")
  | some .none => .error (keyHasNoValue "path")
  | some (.str p) => .ok p
  | some _ => .error (outOfDomain "path is not a string")

/-- `filewrite*.run_step` up to the call of the serialiser: the path and the payload handed to it
    (`input_context = context.get_formatted(key)`; `payload = input_context['payload']` when given,
    else the whole formatted context; TOML refuses a falsy payload). -/
def writePayload (f : Format) (fuel : Nat) (ctx : Ctx) : Except Exc (String × Val) :=
  match formattedInput fuel ctx f.writeKey with
  | .error e => .error e
  | .ok (.dict input) =>
    match pathOf input with
    | .error e => .error e
    | .ok path =>
      match dictGet? input (.str "payload") with
      | none =>
        match fmtVal fuel ctx (Ctx.toVal ctx) with
        | .error e => .error e
        | .ok whole => .ok (path, whole)
      | some payload =>
        if f = .toml && !payload.truthy then
          .error (keyHasNoValue "payload must have a value to write to output TOML document.")
        else .ok (path, payload)
  | .ok _ => .error (outOfDomain "step input is not a mapping")

def attributeError (msg : String) : Exc := ⟨"AttributeError", msg⟩
def representerError (msg : String) : Exc := ⟨"ruamel.yaml.representer.RepresenterError", msg⟩

/-- The exception the serialiser of format `f` raises when it refuses `payload` (`c.enc payload = none`),
    by format and cause — the class is what the step lets escape, unchanged:
    * json — `json.dump`: `TypeError` ("Object of type X is not JSON serializable", "keys must be str, …");
    * yaml — ruamel.yaml's round-trip dumper: `RepresenterError` ("cannot represent an object");
    * toml — `tomli_w.dump` starts with `payload.items()`: a top level that is not a mapping (list, str,
      int, float, bool — the step has already refused the falsy ones) is an `AttributeError`
      ("'list' object has no attribute 'items'"); a node INSIDE a mapping that TOML has no type for (None,
      an object) or a mapping key that is not a string is a `TypeError` ("Object of type 'NoneType' is not
      TOML serializable", "Invalid mapping key '1' of type 'int'. A string is required."). -/
def serialiseError (f : Format) (payload : Val) : Exc :=
  match f with
  | .json => typeError "Object is not JSON serializable"
  | .yaml => representerError "cannot represent an object"
  | .toml =>
    match payload with
    | .dict _ => typeError "Object is not TOML serializable"
    | _ => attributeError "object has no attribute 'items'"

/-- `filewrite*.run_step`: serialise the payload to the path. -/
def fileWrite {τ} (f : Format) (c : Codec τ) (fuel : Nat) (ctx : Ctx) (files : Files τ) :
    Except Exc (Files τ) :=
  match writePayload f fuel ctx with
  | .error e => .error e
  | .ok (path, payload) =>
    match c.enc payload with
    | none => .error (serialiseError f payload)
    | some t => .ok (files.set path t)

/-- `fetch*.run_step` argument handling: a plain string is the path; else `path`, optional `key`. -/
def fetchArgs (f : Format) (fuel : Nat) (ctx : Ctx) : Except Exc (String × Option Val) :=
  match formattedInput fuel ctx f.fetchKey with
  | .error e => .error e
  | .ok (.str p) => .ok (p, none)
  | .ok (.dict input) =>
    match pathOf input with
    | .error e => .error e
    | .ok path => .ok (path, dictGet? input (.str "key"))
  | .ok _ => .error (outOfDomain "step input is neither a string nor a mapping")

/-- String-keyed entries of a mapping (`context.update(payload)` needs them; other key types are
    outside the modelled context). -/
def strEntries : List (Val × Val) → Option (List (String × Val))
  | [] => some []
  | (.str k, v) :: rest => (strEntries rest).map fun r => (k, v) :: r
  | _ => none

/-- The no-key branch of `fetch{json,yaml,toml}.run_step`: `context.update(payload)` — `dict.update`, a
    TOP-LEVEL overwrite: every top-level key of the parsed mapping is (re)bound to the parsed value AS
    IT IS (a list / table already under that name is REPLACED, not appended to or merged into), every
    other key of the context is left alone, and nothing that was read is run through the formatter
    (`Context.merge` — deep, additive, interpolating; what `contextmerge` uses — is NOT what the fetch
    steps call). json / yaml: a top level that is not a mapping is a `TypeError`. -/
def storeRoot (ctx : Ctx) (payload : Val) : Except Exc Ctx :=
  match payload with
  | .dict kvs =>
    match strEntries kvs with
    | some es => .ok (ctx.update es)
    | none => .error (outOfDomain "non-string key merged into context")
  | _ => .error (typeError "input should describe a mapping at the top level")

/-- The value `dict.update(entries)` leaves under `k`: that of the LAST entry with that key. -/
def lastOf : List (String × Val) → String → Option Val
  | [], _ => none
  | (k', v) :: rest, k =>
    match lastOf rest k with
    | some w => some w
    | none => if k' = k then some v else none

/-- Where the parsed payload goes: `if destination_key: context[key] = payload` else it must be a
    mapping (json, yaml: TypeError otherwise; toml is a mapping by construction) merged at root
    (`storeRoot`). -/
def store (ctx : Ctx) (key : Option Val) (payload : Val) : Except Exc Ctx :=
  let atRoot : Except Exc Ctx := storeRoot ctx payload
  match key with
  | none => atRoot
  | some k =>
    if k.truthy then
      match k with
      | .str ks => .ok (ctx.set ks payload)
      | _ => .error (outOfDomain "destination key is not a string")
    else atRoot

/-- Whether `len(payload)` works: not for a top-level None/bool/int/float. -/
def hasLen : Val → Bool
  | .none | .bool _ | .int _ | .flt _ _ => false
  | _ => true

/-- `fetch*.run_step`. `lenGuard = true` is the code as it is now (fix 37680ff: the closing log
    statement takes `len(payload)` only of a `Sized` payload); `false` is the code before that fix,
    where a scalar top level raised `TypeError` after the key had been set — kept for the witness
    theorem `fetch_scalar_raises_pre_fix`. -/
def fetchWith {τ} (lenGuard : Bool) (f : Format) (c : Codec τ) (fuel : Nat) (ctx : Ctx) (files : Files τ) :
    Except Exc Ctx :=
  match fetchArgs f fuel ctx with
  | .error e => .error e
  | .ok (path, key) =>
    match files.get? path with
    | none => .error ⟨"FileNotFoundError", path⟩
    | some t =>
      match c.dec t with
      | none => .error ⟨"DecodeError", path⟩
      | some payload =>
        match store ctx key payload with
        | .error e => .error e
        | .ok ctx' =>
          if lenGuard || hasLen payload then .ok ctx'
          else .error (typeError "object has no len()")   -- raised by the closing log statement

/-- `fetch*.run_step` as it is now. -/
def fetch {τ} (f : Format) (c : Codec τ) (fuel : Nat) (ctx : Ctx) (files : Files τ) : Except Exc Ctx :=
  fetchWith true f c fuel ctx files

/-- The payload branch of `filewrite*.run_step` on the FORMATTED step input:
    `payload = input_context.get('payload', sentinel)`; `if payload is sentinel: payload =
    context.get_formatted_value(context)` — the WHOLE context as one mapping through the formatter, so
    every string node of it, the top-level KEY NAMES included, is replaced by its formatted value (the
    step's own input entry `fileWriteX` is part of the context and is written too) — else the `payload`
    entry (already formatted with the input; TOML refuses a falsy one). `writePayload_eq_payloadFor`
    (Props/Lemmas/C16_Glue.lean): `writePayload` is `formattedInput`, `pathOf`, then this. -/
def payloadFor (f : Format) (fuel : Nat) (ctx : Ctx) (input : List (Val × Val)) : Except Exc Val :=
  match dictGet? input (.str "payload") with
  | none => fmtVal fuel ctx (Ctx.toVal ctx)
  | some payload =>
    if f = .toml && !payload.truthy then
      .error (keyHasNoValue "payload must have a value to write to output TOML document.")
    else .ok payload

/-! ### Several steps on ONE context

  A pipeline runs its steps on one `Context` object: `Step.run_pipeline_steps` puts the step's `in`
  arguments into the context (`set_step_input_context`), runs the step, and takes them out again
  (`unset_step_input_context`). Between two steps a file may also be changed from outside (`put`).
  What a second fetch to the context root sees is therefore the context the first one left. -/

inductive COp (τ : Type) where
  | put (path : String) (t : τ)              -- the file is (re)placed on disk; not a pypyr step
  | write (f : Format) (input : Val)         -- filewriteX with `in: {fileWriteX: input}`
  | fetch (f : Format) (input : Val)         -- fetchX with `in: {fetchX: input}`

/-- One step: the context and the files afterwards. -/
def stepC {τ} (c : Format → Codec τ) (fuel : Nat) (ctx : Ctx) (files : Files τ) :
    COp τ → Except Exc (Ctx × Files τ)
  | .put path t => .ok (ctx, files.set path t)
  | .write f input =>
    let cx := ctx.set f.writeKey input
    match fileWrite f (c f) fuel cx files with
    | .ok fs => .ok (cx.erase f.writeKey, fs)
    | .error e => .error e
  | .fetch f input =>
    match fetch f (c f) fuel (ctx.set f.fetchKey input) files with
    | .ok cx => .ok (cx.erase f.fetchKey, files)
    | .error e => .error e

/-- The steps one after the other on the same context; the context after every step, up to and
    including the first step that raises (the pipeline stops there). -/
def runC {τ} (c : Format → Codec τ) (fuel : Nat) : Ctx → Files τ → List (COp τ) → List (Except Exc Ctx)
  | _, _, [] => []
  | ctx, files, op :: ops =>
    match stepC c fuel ctx files op with
    | .error e => [.error e]
    | .ok (cx, fs) => .ok cx :: runC c fuel cx fs ops

/-- `pypyr.parser.{json,yaml,toml}file.get_parsed_context`: the parsed file must be a mapping
    (json/yaml check it, toml is one by construction); it becomes the initial context. -/
def fileParser {τ} (c : Codec τ) (t : τ) : Except Exc Val :=
  match c.dec t with
  | none => .error ⟨"DecodeError", ""⟩
  | some (.dict kvs) => .ok (.dict kvs)
  | some _ => .error (typeError "input should describe a mapping at the top level")

/-- `ObjectRewriter.in_to_out` at value level: load, format, dump. -/
def fileFormatDoc {τ} (c : Codec τ) (fuel : Nat) (ctx : Ctx) (src : τ) : Except Exc τ :=
  match c.dec src with
  | none => .error ⟨"DecodeError", ""⟩
  | some d =>
    match fmtDoc fuel ctx d with
    | .error e => .error e
    | .ok d' =>
      match c.enc d' with
      | none => .error (typeError "formatted document is not serializable")
      | some t => .ok t

/-! ### Encodings: the file-level `fileformat{json,yaml}` step

  `FileInRewriterStep.__init__` derives two encodings from three options; `ObjectRewriter.in_to_out`
  reads the source with the IN encoding and writes the result with the OUT encoding — whether it
  writes straight to `out_path` or to the temp file that replaces `in_path` (no out / out is the same
  file). The model keeps, next to the text of a file, the encoding its bytes are in. -/

/-- A file on disk: its text and the encoding the bytes are in. -/
structure Stored (τ : Type) where
  enc : String
  text : τ
  deriving Repr, DecidableEq

/-- `open(path, encoding=e).read()`: the text, if `e` is the encoding the bytes are in. (Idealised:
    decoding with another encoding is an error; the correspondence uses it only on the positive side,
    with non-ASCII content.) -/
def Stored.readAs {τ} (s : Stored τ) (e : String) : Option τ := if s.enc = e then some s.text else none

/-- `encoding`, `encodingIn`, `encodingOut` of the step's input. -/
structure EncOpts where
  encoding : Option String := none
  encodingIn : Option String := none
  encodingOut : Option String := none
  deriving Repr, DecidableEq

/-- `encoding = root_dict.get('encoding', config.default_encoding)`;
    `self.encoding_in = root_dict.get('encodingIn', encoding)`. -/
def EncOpts.inEnc (o : EncOpts) (dflt : String) : String := o.encodingIn.getD (o.encoding.getD dflt)
/-- `self.encoding_out = root_dict.get('encodingOut', encoding)`. -/
def EncOpts.outEnc (o : EncOpts) (dflt : String) : String := o.encodingOut.getD (o.encoding.getD dflt)

/-- Where the result of `in_to_out(in_path, out_path)` ends up: `out_path` when given (truthy), else
    `in_path` itself (via the temp file). `out_path` naming the same file as `in_path` is `in_path`. -/
def targetOf (inp : String) (out : Option String) : String :=
  match out with
  | none => inp
  | some o => if o = "" then inp else o

/-- `ObjectRewriter.in_to_out(in_path, out_path)` at file level, on either route. -/
def fileFormatFile {τ} (c : Codec τ) (fuel : Nat) (ctx : Ctx) (files : Files (Stored τ))
    (inp : String) (out : Option String) (o : EncOpts) (dflt : String) : Except Exc (Files (Stored τ)) :=
  match files.get? inp with
  | none => .error ⟨"FileNotFoundError", inp⟩
  | some s =>
    match s.readAs (o.inEnc dflt) with
    | none => .error ⟨"UnicodeDecodeError", inp⟩
    | some src =>
      match fileFormatDoc c fuel ctx src with
      | .error e => .error e
      | .ok t => .ok (files.set (targetOf inp out) ⟨o.outEnc dflt, t⟩)

/-! ### Encodings: write step, fetch step and file context parser at file level

  `filewrite{json,yaml}.run_step` open the target with `input.get('encoding', config.default_encoding)`;
  `fetch{json,yaml}.run_step` open the source with the same expression over THEIR input
  (`config.default_encoding` when the input is a plain path string). `filewritetoml` / `fetchtoml` /
  the toml parser work on bytes (`pypyr.toml.write_file` / `read_file`; UTF-8 by the TOML spec) and take
  no encoding option. The file context parsers `pypyr.parser.{jsonfile,yamlfile}.get_parsed_context`
  take no option either: they open the file with `config.default_encoding`.

  ASSUMPTIONS (stated, pinned by the harness): `open(encoding=None)` uses the platform default, which
  is utf-8 (`platformEnc`); encoding names are compared as strings (aliases such as `utf8` / `UTF-8` are
  not identified); every character of the text is encodable in the encoding written with (otherwise
  `open(...).write` raises UnicodeEncodeError — not modelled). `dflt` is `config.default_encoding`
  (env `PYPYR_ENCODING`; `none` = not set). -/

/-- `open(…, encoding=e)`: `None` is the platform default (assumed utf-8). -/
def platformEnc (e : Option String) : String := e.getD "utf-8"

/-- `input.get('encoding', config.default_encoding)` on the formatted step input: absent → the config
    default; present → its value — a present `None` is `None` (platform default), NOT the config default. -/
def encodingOpt (input : List (Val × Val)) (dflt : Option String) : Except Exc (Option String) :=
  match dictGet? input (.str "encoding") with
  | none => .ok dflt
  | some .none => .ok none
  | some (.str e) => .ok (some e)
  | some _ => .error (outOfDomain "encoding is not a string")

/-- The encoding `filewrite*.run_step` writes the file in. -/
def writeEncoding (f : Format) (fuel : Nat) (ctx : Ctx) (dflt : Option String) : Except Exc String :=
  match f with
  | .toml => .ok "utf-8"
  | _ =>
    match formattedInput fuel ctx f.writeKey with
    | .error e => .error e
    | .ok (.dict input) =>
      match encodingOpt input dflt with
      | .error e => .error e
      | .ok e => .ok (platformEnc e)
    | .ok _ => .error (outOfDomain "step input is not a mapping")

/-- `filewrite*.run_step` at file level: the file holds the serialised payload in `writeEncoding`. -/
def fileWriteStored {τ} (f : Format) (c : Codec τ) (fuel : Nat) (ctx : Ctx) (dflt : Option String)
    (files : Files (Stored τ)) : Except Exc (Files (Stored τ)) :=
  match writePayload f fuel ctx with
  | .error e => .error e
  | .ok (path, payload) =>
    match writeEncoding f fuel ctx dflt with
    | .error e => .error e
    | .ok we =>
      match c.enc payload with
      | none => .error (serialiseError f payload)
      | some t => .ok (files.set path ⟨we, t⟩)

/-- The encoding `fetch*.run_step` reads the file with: a plain-string input has no options. -/
def fetchEncoding (f : Format) (fuel : Nat) (ctx : Ctx) (dflt : Option String) : Except Exc String :=
  match f with
  | .toml => .ok "utf-8"
  | _ =>
    match formattedInput fuel ctx f.fetchKey with
    | .error e => .error e
    | .ok (.str _) => .ok (platformEnc dflt)
    | .ok (.dict input) =>
      match encodingOpt input dflt with
      | .error e => .error e
      | .ok e => .ok (platformEnc e)
    | .ok _ => .error (outOfDomain "step input is neither a string nor a mapping")

/-- `fetch*.run_step` at file level (the code as it is now: `len(payload)` guarded). -/
def fetchStored {τ} (f : Format) (c : Codec τ) (fuel : Nat) (ctx : Ctx) (dflt : Option String)
    (files : Files (Stored τ)) : Except Exc Ctx :=
  match fetchArgs f fuel ctx with
  | .error e => .error e
  | .ok (path, key) =>
    match fetchEncoding f fuel ctx dflt with
    | .error e => .error e
    | .ok fe =>
      match files.get? path with
      | none => .error ⟨"FileNotFoundError", path⟩
      | some s =>
        match s.readAs fe with
        | none => .error ⟨"UnicodeDecodeError", path⟩
        | some t =>
          match c.dec t with
          | none => .error ⟨"DecodeError", path⟩
          | some payload => store ctx key payload

/-- The encoding a file context parser opens its file with: `config.default_encoding` (json, yaml);
    toml reads bytes, UTF-8 by spec. The parsers take NO encoding option. -/
def parserEnc (f : Format) (dflt : Option String) : String :=
  match f with
  | .toml => "utf-8"
  | _ => platformEnc dflt

/-- `' '.join(args)`. -/
def joinArgs : List String → String
  | [] => ""
  | [a] => a
  | a :: b :: rest => a ++ " " ++ joinArgs (b :: rest)

/-- `if not args:` — json and yaml raise `AssertionError`, toml logs and returns `None`. -/
def noArgsResult (f : Format) : Except Exc (Option Val) :=
  match f with
  | .json => .error ⟨"AssertionError", "pipeline must be invoked with context arg set. (json)"⟩
  | .yaml => .error ⟨"AssertionError", "pipeline must be invoked with context arg set. (yaml)"⟩
  | .toml => .ok none

/-- What `get_parsed_context` does with the text of the file, per format: json / yaml check that the
    top level is a `Mapping` (`TypeError` otherwise); toml makes no check (tomllib returns a dict) but
    takes `len(payload)` for its closing log statement. -/
def fileParserF {τ} (f : Format) (c : Codec τ) (t : τ) : Except Exc Val :=
  match c.dec t with
  | none => .error ⟨"DecodeError", ""⟩
  | some d =>
    match f with
    | .toml => if hasLen d then .ok d else .error (typeError "object has no len()")
    | _ =>
      match d with
      | .dict kvs => .ok (.dict kvs)
      | _ => .error (typeError "input should describe a mapping at the top level")

/-- `get_parsed_context` from the path on: open with the parser's encoding, decode, parse, check. -/
def fileParserPath {τ} (f : Format) (c : Codec τ) (dflt : Option String) (path : String)
    (files : Files (Stored τ)) : Except Exc Val :=
  match files.get? path with
  | none => .error ⟨"FileNotFoundError", path⟩
  | some s =>
    match s.readAs (parserEnc f dflt) with
    | none => .error ⟨"UnicodeDecodeError", path⟩
    | some t => fileParserF f c t

/-- `pypyr.parser.{jsonfile,yamlfile,tomlfile}.get_parsed_context(args)`: `args` is `None` or the list
    of context arguments of the command line; the path is their single-space join. `.ok none` = the
    parser returned `None` (no initial context). -/
def fileParserArgs {τ} (f : Format) (c : Codec τ) (dflt : Option String) (args : Option (List String))
    (files : Files (Stored τ)) : Except Exc (Option Val) :=
  match args with
  | none => noArgsResult f
  | some [] => noArgsResult f
  | some (a :: rest) =>
    match fileParserPath f c dflt (joinArgs (a :: rest)) files with
    | .error e => .error e
    | .ok v => .ok (some v)

/-! ### Sessions: several file operations in one process

  A `Codec` is a pair of FUNCTIONS: what `dec` returns depends on the text alone — not on which
  files were read or written earlier in the process. (The real loaders are objects; that the steps use
  them statelessly — a fresh loader per call, or one whose settings a document cannot change — is an
  assumption the correspondence checks with sessions, see harness/props/c16.py.) -/

inductive SOp where
  | write (f : Format) (ctx : Ctx)
  | fetch (f : Format) (ctx2 : Ctx)
  | format (f : Format) (ctx : Ctx) (inp : String) (out : Option String)
  deriving Repr

inductive SObs where
  | wrote
  | fetched (ctx : Ctx)
  | formatted
  | failed (e : Exc)
  deriving Repr

/-- One operation: the files afterwards and what the step did. -/
def stepS {τ} (c : Format → Codec τ) (fuel : Nat) (files : Files τ) : SOp → Files τ × SObs
  | .write f ctx =>
    match fileWrite f (c f) fuel ctx files with
    | .ok fs => (fs, .wrote)
    | .error e => (files, .failed e)
  | .fetch f ctx2 =>
    match fetch f (c f) fuel ctx2 files with
    | .ok cx => (files, .fetched cx)
    | .error e => (files, .failed e)
  | .format f ctx inp out =>
    match files.get? inp with
    | none => (files, .failed ⟨"FileNotFoundError", inp⟩)
    | some src =>
      match fileFormatDoc (c f) fuel ctx src with
      | .ok t => (files.set (targetOf inp out) t, .formatted)
      | .error e => (files, .failed e)

/-- A pipeline run: the operations one after the other; only the FILES carry over. -/
def runSession {τ} (c : Format → Codec τ) (fuel : Nat) : Files τ → List SOp → Files τ × List SObs
  | files, [] => (files, [])
  | files, op :: ops =>
    let r := stepS c fuel files op
    let r' := runSession c fuel r.1 ops
    (r'.1, r.2 :: r'.2)

/-- The ideal codec over values: what the correspondence uses for the three formats when only the
    glue is compared (representability is decided per format by the driver). -/
def Codec.ideal : Codec Val := { enc := some, dec := some }

/-! ### JSON, written out (`List Char` so that the round trip can be proved) -/

namespace Json

/-- The two settings `filewritejson.run_step` and `JsonRepresenter.dump` read from `pypyr.config`:
    `json.dump(payload, f, indent=config.json_indent, ensure_ascii=config.json_ascii)`.
    `ind = some n`: `indent=n` (an int; a negative int prints like 0); `ind = none`: `indent=None`,
    the one-line form with `', '` between items. (`indent` given as a string is not modelled.) -/
structure Opts where
  ind : Option Nat := some 2
  ascii : Bool := false
  deriving Repr, DecidableEq

def hexDigit : Nat → Char
  | 0 => '0' | 1 => '1' | 2 => '2' | 3 => '3' | 4 => '4' | 5 => '5' | 6 => '6' | 7 => '7'
  | 8 => '8' | 9 => '9' | 10 => 'a' | 11 => 'b' | 12 => 'c' | 13 => 'd' | 14 => 'e' | _ => 'f'

def hexVal (c : Char) : Option Nat :=
  if c = '0' then some 0 else if c = '1' then some 1 else if c = '2' then some 2
  else if c = '3' then some 3 else if c = '4' then some 4 else if c = '5' then some 5
  else if c = '6' then some 6 else if c = '7' then some 7 else if c = '8' then some 8
  else if c = '9' then some 9
  else if c = 'a' || c = 'A' then some 10 else if c = 'b' || c = 'B' then some 11
  else if c = 'c' || c = 'C' then some 12 else if c = 'd' || c = 'D' then some 13
  else if c = 'e' || c = 'E' then some 14 else if c = 'f' || c = 'F' then some 15
  else none

/-- `'\\u{0:04x}'.format(n)` (n < 0x10000). -/
def u4 (n : Nat) : List Char :=
  ['\\', 'u', hexDigit (n / 4096), hexDigit (n / 256 % 16), hexDigit (n / 16 % 16), hexDigit (n % 16)]

/-- One character of a string literal. `json.encoder.ESCAPE_DCT`: `"`, `\`, and `\n \r \t \b \f`
    have short escapes, the other characters below U+0020 are `\u00XX`
    (`py_encode_basestring`, `ensure_ascii=False`). With `ensure_ascii=True`
    (`py_encode_basestring_ascii`, `ESCAPE_ASCII = ([\\"]|[^\ -~])`) every character outside
    U+0020..U+007E as well (so U+007F too): `\uXXXX` below U+10000, else the UTF-16 surrogate pair
    `\ud8xx\udcxx` of `n - 0x10000`. -/
def escChar (ascii : Bool) (c : Char) : List Char :=
  if c = '"' then ['\\', '"']
  else if c = '\\' then ['\\', '\\']
  else if c = '\n' then ['\\', 'n']
  else if c = '\r' then ['\\', 'r']
  else if c = '\t' then ['\\', 't']
  else if c = '\x08' then ['\\', 'b']
  else if c = '\x0c' then ['\\', 'f']
  else if c.toNat < 32 || (ascii && 126 < c.toNat) then
    if c.toNat < 0x10000 then u4 c.toNat
    else u4 (0xD800 + (c.toNat - 0x10000) / 1024) ++ u4 (0xDC00 + (c.toNat - 0x10000) % 1024)
  else [c]

def escStr (ascii : Bool) : List Char → List Char
  | [] => []
  | c :: cs => escChar ascii c ++ escStr ascii cs

def prStr (ascii : Bool) (s : String) : List Char := '"' :: (escStr ascii s.toList ++ ['"'])

def digit (k : Nat) : Char := hexDigit (k % 10)

/-- Decimal digits of `n`, most significant first (fuel ≥ n suffices). -/
def digitsAux : Nat → Nat → List Char → List Char
  | 0, n, acc => digit n :: acc
  | f + 1, n, acc => if n < 10 then digit n :: acc else digitsAux f (n / 10) (digit n :: acc)

def natDigits (n : Nat) : List Char := digitsAux n n []

/-- `int.__repr__`. -/
def prInt (i : Int) : List Char :=
  if i < 0 then '-' :: natDigits i.natAbs else natDigits i.natAbs

def padZeros (ds : List Char) (k : Nat) : List Char := List.replicate (k - ds.length) '0' ++ ds

def stripZeros (ds : List Char) : List Char := (ds.reverse.dropWhile (· == '0')).reverse

/-- `float.__repr__` of `n / 2^k`: the shared `fltRepr` (PypyrModel/PyRepr.lean) over `List Char`
    (`Props/Lemmas/C16_JsonFloat.lean`: `prFlt_eq_fltRepr : prFlt n k = (fltRepr n k).toList`, all `n k`).
    The exact decimal expansion: integer part, `.`, the `k` digits of `(|n| mod 2^k)·5^k` without
    trailing zeros (`0` if none are left). That IS Python's (shortest round-tripping) repr where the
    expansion has at most 15 significant digits and no exponent form is due — see `fltOk`. -/
def prFlt (n : Int) (k : Nat) : List Char :=
  let a := n.natAbs
  let ds := stripZeros (padZeros (natDigits (a % 2 ^ k * 5 ^ k)) k)
  (if n < 0 then ['-'] else []) ++ (natDigits (a / 2 ^ k) ++ '.' :: (if ds.isEmpty then ['0'] else ds))

/-- The floats on which `prFlt` is `float.__repr__` and which the parser below reads back exactly:
    canonical (`k = 0`, or `n` odd — what `float.as_integer_ratio` gives), at most 15 digits in all
    (then the value is a double and its exact expansion is its shortest repr), and
    `|x| ≥ 1e-4` or `x = 0` (below that `repr` switches to the exponent form; above, `|x| < 1e16`
    follows from the 15 digits). `-0.0` has no `Val`. -/
def fltOk (n : Int) (k : Nat) : Bool :=
  (k == 0 || n.natAbs % 2 == 1) &&
  decide ((natDigits (n.natAbs / 2 ^ k)).length + max k 1 ≤ 15) &&
  (n == 0 || decide (2 ^ k ≤ n.natAbs * 10000))

/-- `'\n' + ' ' * (indent * level)` after an opening and before a closing bracket; nothing with
    `indent=None`. -/
def nl (o : Opts) (lvl : Nat) : List Char :=
  match o.ind with
  | none => []
  | some n => '\n' :: List.replicate (n * lvl) ' '

/-- What follows the comma between two items: the newline-indent, or a blank with `indent=None`
    (`item_separator` is `','` when an indent is given, `', '` otherwise). -/
def sep (o : Opts) (lvl : Nat) : List Char :=
  match o.ind with
  | none => [' ']
  | some n => '\n' :: List.replicate (n * lvl) ' '

/-- The key of a member as `_iterencode_dict` writes it: a `str` as it is; `float` by `float.__repr__`;
    `True`/`False`/`None` as `true`/`false`/`null`; `int` by `int.__repr__`; any other key type:
    `TypeError: keys must be str, int, float, bool or None` (`none`). -/
def keyStr : Val → Option String
  | .str s => some s
  | .flt n k => some (fltRepr n k)
  | .bool true => some "true"
  | .bool false => some "false"
  | .none => some "null"
  | .int i => some (intStr i)
  | _ => Option.none

def prKey (o : Opts) (k : Val) : List Char :=
  match keyStr k with
  | some s => prStr o.ascii s
  | Option.none => ['"', '"']      -- outside the domain (`isJsonK` is false)

mutual
/-- `json.dump(v, f, indent=o.ind, ensure_ascii=o.ascii)` at nesting level `lvl` (`_iterencode`). -/
def pr (o : Opts) (lvl : Nat) : Val → List Char
  | .none => ['n', 'u', 'l', 'l']
  | .bool true => ['t', 'r', 'u', 'e']
  | .bool false => ['f', 'a', 'l', 's', 'e']
  | .int i => prInt i
  | .flt n k => prFlt n k
  | .str s => prStr o.ascii s
  | .list xs => prArr o lvl xs
  | .dict kvs => prObj o lvl kvs
  | _ => ['n', 'u', 'l', 'l']   -- outside the domain (`isJsonK` is false)
def prArr (o : Opts) (lvl : Nat) : List Val → List Char
  | [] => ['[', ']']
  | x :: xs => '[' :: (nl o (lvl + 1) ++ (pr o (lvl + 1) x ++ prElems o lvl xs))
/-- the remaining elements and the closing bracket of an array at level `lvl` -/
def prElems (o : Opts) (lvl : Nat) : List Val → List Char
  | [] => nl o lvl ++ [']']
  | x :: xs => ',' :: (sep o (lvl + 1) ++ (pr o (lvl + 1) x ++ prElems o lvl xs))
def prObj (o : Opts) (lvl : Nat) : List (Val × Val) → List Char
  | [] => ['{', '}']
  | (k, v) :: rest =>
    '{' :: (nl o (lvl + 1) ++ (prKey o k ++ (':' :: ' ' :: (pr o (lvl + 1) v ++ prMembers o lvl rest))))
def prMembers (o : Opts) (lvl : Nat) : List (Val × Val) → List Char
  | [] => nl o lvl ++ ['}']
  | (k, v) :: rest =>
    ',' :: (sep o (lvl + 1) ++ (prKey o k ++ (':' :: ' ' :: (pr o (lvl + 1) v ++ prMembers o lvl rest))))
end

def print (o : Opts) (d : Val) : List Char := pr o 0 d

mutual
/-- What a `json.dump` → `json.load` cycle makes of a document: every key becomes the string
    `json.dump` wrote for it (`keyStr`), and where two keys of one mapping are written as the same
    string (`{1: 'a', '1': 'b'}`: BOTH members are written) `json.load` keeps the first position and
    the last value — `rebuildDict`, Python's `dict(pairs)`. -/
def coerceKeys : Val → Val
  | .list xs => .list (coerceList xs)
  | .dict kvs => .dict (rebuildDict (coercePairs kvs))
  | v => v
def coerceList : List Val → List Val
  | [] => []
  | x :: xs => coerceKeys x :: coerceList xs
def coercePairs : List (Val × Val) → List (Val × Val)
  | [] => []
  | (k, v) :: rest => (.str ((keyStr k).getD ""), coerceKeys v) :: coercePairs rest
end

def keyIn (k : Val) : List (Val × Val) → Bool
  | [] => false
  | (k', _) :: rest => k' == k || keyIn k rest

def isStr : Val → Bool
  | .str _ => true
  | _ => false

/-- A key `json.dump` accepts; `strict`: and a float key is one `prFlt` prints as Python does. -/
def isKey (strict : Bool) : Val → Bool
  | .str _ | .int _ | .bool _ | .none => true
  | .flt n k => !strict || fltOk n k
  | _ => false

mutual
/-- The documents `json.dump` accepts: objects whose keys are str/int/float/bool/None, arrays,
    strings, ints, floats, bools, null. `strict = true`: and every float is in `fltOk` (the domain
    of the proved round trip, and of the byte-for-byte correspondence of the printer). -/
def isJsonK (strict : Bool) : Val → Bool
  | .none => true
  | .bool _ => true
  | .int _ => true
  | .flt n k => !strict || fltOk n k
  | .str _ => true
  | .list xs => isJsonKList strict xs
  | .dict kvs => isJsonKPairs strict kvs
  | _ => false
def isJsonKList (strict : Bool) : List Val → Bool
  | [] => true
  | x :: xs => isJsonK strict x && isJsonKList strict xs
def isJsonKPairs (strict : Bool) : List (Val × Val) → Bool
  | [] => true
  | (k, v) :: rest => isKey strict k && isJsonK strict v && isJsonKPairs strict rest
end

mutual
/-- Every mapping in the document has string keys, pairwise distinct (what JSON itself can say:
    on these `coerceKeys` is the identity). -/
def strKeys : Val → Bool
  | .list xs => strKeysList xs
  | .dict kvs => strKeysPairs kvs
  | _ => true
def strKeysList : List Val → Bool
  | [] => true
  | x :: xs => strKeys x && strKeysList xs
def strKeysPairs : List (Val × Val) → Bool
  | [] => true
  | (k, v) :: rest => isStr k && !keyIn k rest && strKeys v && strKeysPairs rest
end

/-- Parser results: a value and the unread input; a document `json.load` rejects
    (`JSONDecodeError`); or a document outside the modelled domain (floats other than the exact short
    decimals of `mkFloat`, exponents, NaN/Infinity, lone surrogates, fuel). -/
inductive PR (α : Type) where
  | ok (v : α) (rest : List Char)
  | bad
  | outside
  deriving Repr

def isWs (c : Char) : Bool := c = ' ' || c = '\t' || c = '\n' || c = '\r'

def skipWs : List Char → List Char
  | [] => []
  | c :: cs => if isWs c then skipWs cs else c :: cs

/-- The single-character escapes of `json.decoder.BACKSLASH`. -/
def simpleEsc (c : Char) : Option Char :=
  if c = '"' then some '"' else if c = '\\' then some '\\' else if c = '/' then some '/'
  else if c = 'b' then some '\x08' else if c = 'f' then some '\x0c' else if c = 'n' then some '\n'
  else if c = 'r' then some '\r' else if c = 't' then some '\t' else none

/-- Scanner state inside a string literal. -/
inductive SMode where
  | norm                                   -- ordinary characters
  | esc                                    -- just after a backslash
  | u (k : Nat) (v : Nat) (hi : Option Nat) -- k hex digits of a \uXXXX read, value v; hi = pending high surrogate
  | hi1 (h : Nat)                          -- after a high surrogate: a backslash must follow
  | hi2 (h : Nat)                          -- … and then a `u`
  deriving Repr

/-- `json.decoder.scanstring` (strict; the C scanner's strict hex digits) after the opening quote, one
    character per step; `acc` is the text so far, reversed. A lone surrogate (which Python keeps in
    the resulting `str`) is outside the modelled domain. -/
def pStrM : SMode → List Char → List Char → PR (List Char)
  | _, [], _ => .bad
  | .norm, c :: cs, acc =>
    if c = '"' then .ok acc.reverse cs
    else if c = '\\' then pStrM .esc cs acc
    else if c.toNat < 32 then .bad
    else pStrM .norm cs (c :: acc)
  | .esc, c :: cs, acc =>
    if c = 'u' then pStrM (.u 0 0 none) cs acc
    else match simpleEsc c with
      | some e => pStrM .norm cs (e :: acc)
      | none => .bad
  | .u k v hi, c :: cs, acc =>
    match hexVal c with
    | none => .bad
    | some h =>
      if k < 3 then pStrM (.u (k + 1) (v * 16 + h) hi) cs acc
      else
        let n := v * 16 + h
        match hi with
        | none =>
          if 0xD800 ≤ n && n ≤ 0xDBFF then pStrM (.hi1 n) cs acc
          else if 0xDC00 ≤ n && n ≤ 0xDFFF then .outside
          else pStrM .norm cs (Char.ofNat n :: acc)
        | some h0 =>
          if 0xDC00 ≤ n && n ≤ 0xDFFF then
            pStrM .norm cs (Char.ofNat (0x10000 + (h0 - 0xD800) * 1024 + (n - 0xDC00)) :: acc)
          else .outside
  | .hi1 h0, c :: cs, acc => if c = '\\' then pStrM (.hi2 h0) cs acc else .outside
  | .hi2 h0, c :: cs, acc => if c = 'u' then pStrM (.u 0 0 (some h0)) cs acc else .outside

def pStr (cs acc : List Char) : PR (List Char) := pStrM .norm cs acc

/-- Consume decimal digits, accumulating. -/
def readNat (a : Nat) : List Char → Nat × List Char
  | [] => (a, [])
  | c :: cs => if c.isDigit then readNat (a * 10 + (c.toNat - 48)) cs else (a, c :: cs)

/-- Consume the digits of a fraction: how many (`m`), their value (`F`), the unread input. -/
def readFrac (m F : Nat) : List Char → Nat × Nat × List Char
  | [] => (m, F, [])
  | c :: cs => if c.isDigit then readFrac (m + 1) (F * 10 + (c.toNat - 48)) cs else (m, F, c :: cs)

/-- `NUMBER_RE` exponent part `([eE][-+]?[0-9]+)` at the head of the input. -/
def isExpTail : List Char → Bool
  | 'e' :: c :: rest | 'E' :: c :: rest =>
    c.isDigit || ((c = '+' || c = '-') && match rest with
      | d :: _ => d.isDigit
      | [] => false)
  | _ => false

/-- `NUMBER_RE` integer part `(0|[1-9]\d*)` at the head of the input. -/
def pNat : List Char → PR Nat
  | [] => .bad
  | c :: cs =>
    if c = '0' then .ok 0 cs
    else if c.isDigit then
      let r := readNat 0 (c :: cs)
      .ok r.1 r.2
    else .bad

def sgn (neg : Bool) (a : Nat) : Int := if neg then -(Int.ofNat a) else Int.ofNat a

/-- `float(text)` for `x.ddd` (integer part `x`, `m` fraction digits of value `F`), where it can be
    given exactly and simply: at most 15 digits in all (so the decimal is a double when it is dyadic);
    `F = 0` → `x / 2^0` (not `-0.0`, which has no `Val`); `5^m ∣ F` with an odd quotient `fr` →
    `(x·2^m + fr) / 2^m` (because `F / 10^m = fr / 2^m`) — this is every canonical float `prFlt` prints.
    Anything else (`0.1`, `0.50`, 16 digits …): `none`, outside the modelled domain. -/
def mkFloat (neg : Bool) (x m F : Nat) : Option Val :=
  if 15 < (natDigits x).length + m then Option.none
  else if F = 0 then (if neg && x = 0 then Option.none else some (.flt (sgn neg x) 0))
  else if F % 5 ^ m = 0 && (F / 5 ^ m) % 2 = 1 then some (.flt (sgn neg (x * 2 ^ m + F / 5 ^ m)) m)
  else Option.none

/-- `NUMBER_RE` after the sign: integer part, optional fraction `(\.[0-9]+)`, optional exponent
    (any exponent form is outside the modelled domain). -/
def pNumber (neg : Bool) (cs : List Char) : PR Val :=
  match pNat cs with
  | .ok n rest =>
    match rest with
    | '.' :: c :: r =>
      if c.isDigit then
        let fr := readFrac 0 0 (c :: r)
        if isExpTail fr.2.2 then .outside
        else match mkFloat neg n fr.1 fr.2.1 with
          | some v => .ok v fr.2.2
          | Option.none => .outside
      else .ok (.int (sgn neg n)) rest
    | _ =>
      if isExpTail rest then .outside
      else .ok (.int (sgn neg n)) rest
  | .bad => .bad
  | .outside => .outside

/-- A literal keyword after its first character. -/
def pLit (lit : List Char) (v : Val) (cs : List Char) : PR Val :=
  if lit.isPrefixOf cs then .ok v (cs.drop lit.length) else .bad

mutual
/-- `scan_once` at the head of the input (no leading whitespace). -/
def pValue : Nat → List Char → PR Val
  | 0, _ => .outside
  | _ + 1, [] => .bad
  | f + 1, c :: r =>
    if c.isDigit then pNumber false (c :: r)
    else if c = '"' then
      match pStr r [] with
      | .ok s rest => .ok (.str (String.ofList s)) rest
      | .bad => .bad
      | .outside => .outside
    else if c = '{' then
      match skipWs r with
      | [] => .bad
      | c' :: r' =>
        if c' = '}' then .ok (.dict []) r'
        else if c' = '"' then
          match pMember f r' with
          | .ok kvs rest => .ok (.dict (rebuildDict kvs)) rest
          | .bad => .bad
          | .outside => .outside
        else .bad
    else if c = '[' then
      match skipWs r with
      | [] => .bad
      | c' :: r' =>
        if c' = ']' then .ok (.list []) r'
        else
          match pValue f (c' :: r') with
          | .ok v rest =>
            match pElems f rest with
            | .ok vs rest' => .ok (.list (v :: vs)) rest'
            | .bad => .bad
            | .outside => .outside
          | .bad => .bad
          | .outside => .outside
    else if c = 'n' then pLit ['u', 'l', 'l'] .none r
    else if c = 't' then pLit ['r', 'u', 'e'] (.bool true) r
    else if c = 'f' then pLit ['a', 'l', 's', 'e'] (.bool false) r
    else if c = '-' then
      if ['I', 'n', 'f', 'i', 'n', 'i', 't', 'y'].isPrefixOf r then .outside else pNumber true r
    else if c = 'N' then (if ['a', 'N'].isPrefixOf r then .outside else .bad)
    else if c = 'I' then (if ['n', 'f', 'i', 'n', 'i', 't', 'y'].isPrefixOf r then .outside else .bad)
    else .bad
/-- after an array element: `,` value … or `]` -/
def pElems : Nat → List Char → PR (List Val)
  | 0, _ => .outside
  | f + 1, cs =>
    match skipWs cs with
    | [] => .bad
    | c :: r =>
      if c = ']' then .ok [] r
      else if c = ',' then
        match pValue f (skipWs r) with
        | .ok v rest =>
          match pElems f rest with
          | .ok vs rest' => .ok (v :: vs) rest'
          | .bad => .bad
          | .outside => .outside
        | .bad => .bad
        | .outside => .outside
      else .bad
/-- one member after its opening quote: key `:` value, then the remaining members -/
def pMember : Nat → List Char → PR (List (Val × Val))
  | 0, _ => .outside
  | f + 1, cs =>
    match pStr cs [] with
    | .ok k r =>
      match skipWs r with
      | [] => .bad
      | c :: r' =>
        if c = ':' then
          match pValue f (skipWs r') with
          | .ok v rest =>
            match pMembers f rest with
            | .ok kvs rest' => .ok ((.str (String.ofList k), v) :: kvs) rest'
            | .bad => .bad
            | .outside => .outside
          | .bad => .bad
          | .outside => .outside
        else .bad
    | .bad => .bad
    | .outside => .outside
/-- after a member: `,` `"` member … or `}` -/
def pMembers : Nat → List Char → PR (List (Val × Val))
  | 0, _ => .outside
  | f + 1, cs =>
    match skipWs cs with
    | [] => .bad
    | c :: r =>
      if c = '}' then .ok [] r
      else if c = ',' then
        match skipWs r with
        | [] => .bad
        | c' :: r' => if c' = '"' then pMember f r' else .bad
      else .bad
end

/-- `json.loads(text)`: leading whitespace, one value, trailing whitespace only. -/
def parse (cs : List Char) : PR Val :=
  let cs' := skipWs cs
  match pValue (cs'.length + 1) cs' with
  | .ok v rest => if (skipWs rest).isEmpty then .ok v [] else .bad
  | .bad => .bad
  | .outside => .outside

/-- The JSON codec as a `Codec` (text = list of characters), under the settings `o`. `enc` fails
    where `json.dump` raises (`TypeError`: a node or a key of another type). -/
def codec (o : Opts := {}) : Codec (List Char) :=
  { enc := fun d => if isJsonK false d then some (print o d) else none
    dec := fun t => match parse t with
      | .ok v _ => some v
      | _ => none }

end Json

end Pypyr.Codec
