/-
  Heap-level model of pypyr formatting, in which object identity, sharing and
  mutation are observable (C09: purity, leaf identity, the id-keyed memo).

  A `Heap` is a list of cells addressed by index (`Ref`); an object of the Python
  program is one cell, `id(obj)` is its index. Container cells hold references.
  `fmtH` mirrors `RecursiveFormatter._get_formatted_iterable` *as an operation on
  objects*:

    * it never writes to an existing cell — containers are rebuilt as NEW cells
      (`obj.__class__(generator)`), strings that change are NEW `str` cells;
    * non-string leaves (None, bool, int, float, bytes, arbitrary objects) and
      the mutable binary leaf `bytearray` (`Cell.mbytes`) are returned BY
      REFERENCE (`return obj` / `new = obj`);
    * a brace-free string is returned by reference (`Formatter.parse` yields the
      whole string as its single literal, CPython returns the same object);
    * the `memo` dict keyed by `id(obj)` is threaded through the children of a
      container, consulted first (`already_done is not None`), written only when
      `new is not obj`; a *fresh* memo is used by every call that passes
      `memo=None`: the recursion on a `{field}` from `_format_keep_type` and
      `Jsonify.get_value` (which calls `context.get_formatted_value`).

  The expression grammar is the simple one of `PypyrModel/Fmt.lean`
  (`parsePieces`); `!py` is modelled here only as a bare name (the result is the
  context object itself) — general `!py` results are covered at tree level.

  Every object has a PERMANENT address here (`id(obj)` = index, cells are never freed). CPython only
  promises unique ids among objects alive at the same time; `PypyrModel/FmtFree.lean` is the counter-model
  with a free list, and `Props/C09.lean` (`memo_keeps_alive_sound`) shows that the repaired code (the memo
  keeps every object it has an entry for alive, /repo 2cfa9de) never re-uses an address while the memo
  lives, i.e. stays inside this model; `fmtH_memo_sound` is the soundness of the memo in it.

  Container cells carry a class tag (`0` = the builtin type; for sets `1` =
  `frozenset`; other numbers = subclasses such as ruamel's `CommentedMap`,
  numbered by the harness): the rebuilt cell has the SAME tag (`obj.__class__`).
-/
import PypyrModel.Val
import PypyrModel.PyRepr
import PypyrModel.PyEval
import PypyrModel.Fmt

namespace Pypyr.FmtHeap

abbrev Ref := Nat

inductive Cell where
  | leaf (v : Val)                       -- non-string leaf: none / bool / int / flt / bytes / obj
  | mbytes (b : String)                  -- bytearray: a MUTABLE non-string leaf (hex text), unhashable
  | str (s : String)
  | list (tag : Nat) (rs : List Ref)
  | tuple (tag : Nat) (rs : List Ref)
  | dict (tag : Nat) (kvs : List (Ref × Ref))
  | set (tag : Nat) (rs : List Ref)      -- tag 1 = frozenset
  | sic (r : Ref)                        -- SicString whose `.value` is the str object at `r`
  | pyName (n : String)                  -- PyString whose expression is the bare name `n`
  | jsonify (r : Ref)                    -- Jsonify whose `.value` is the object at `r`
  deriving Repr, Inhabited

abbrev Heap := List Cell
abbrev Memo := List (Ref × Ref)
/-- The context as the formatter sees it: string keys bound to objects of the heap. -/
abbrev HCtx := List (String × Ref)

structure St where
  heap : Heap
  memo : Memo
  deriving Repr, Inhabited

def HCtx.get? (c : HCtx) (k : String) : Option Ref :=
  match c with
  | [] => none
  | (k', r) :: rest => if k' = k then some r else HCtx.get? rest k

/-- Which `Val`s may sit in a `leaf` cell. -/
def isLeafVal : Val → Bool
  | .none | .bool _ | .int _ | .flt _ _ | .bytes _ | .obj _ => true
  | _ => false

/-- The object is a non-string leaf: it has no members, `_get_formatted_iterable` hands it back as
    the same object and never writes a memo entry for it (immutable `leaf`, or `bytearray`). -/
def isLeafCell : Cell → Bool
  | .leaf _ | .mbytes _ => true
  | _ => false

def mapO {α β} (f : α → Option β) : List α → Option (List β)
  | [] => some []
  | x :: xs => match f x with
    | none => none
    | some y => match mapO f xs with
      | none => none
      | some ys => some (y :: ys)

/-- The tree value of the object at `r` (fuel bounds the depth: a cyclic heap reads as `none`). -/
def readVal : Nat → Heap → Ref → Option Val
  | 0, _, _ => none
  | fuel + 1, h, r =>
    match h[r]? with
    | none => none
    | some (.leaf v) => some v
    | some (.mbytes b) => some (.bytes b)        -- the tree reading has one kind of binary leaf
    | some (.str s) => some (.str s)
    | some (.list _ rs) => (mapO (readVal fuel h) rs).map .list
    | some (.tuple _ rs) => (mapO (readVal fuel h) rs).map .tuple
    | some (.set _ rs) => (mapO (readVal fuel h) rs).map .set
    | some (.dict _ kvs) =>
      (mapO (fun (kv : Ref × Ref) => match readVal fuel h kv.1 with
          | none => none
          | some k => match readVal fuel h kv.2 with
            | none => none
            | some v => some (k, v)) kvs).map .dict
    | some (.sic p) => match readVal fuel h p with
      | some (.str s) => some (.sic s)
      | _ => none
    | some (.pyName n) => some (.py (.name n))
    | some (.jsonify p) => (readVal fuel h p).map .jsonify

/-- Deep value with enough fuel for any acyclic heap. -/
def deepVal (h : Heap) (r : Ref) : Option Val := readVal (h.length + 1) h r

/-- `hash(obj)` succeeds (tuples of hashables, frozensets, strings, leaves). -/
def hashableH : Nat → Heap → Ref → Bool
  | 0, _, _ => false
  | fuel + 1, h, r =>
    match h[r]? with
    | some (.leaf _) => true
    | some (.str _) => true
    | some (.tuple _ rs) => rs.all (hashableH fuel h)
    | some (.set tag _) => tag == 1
    | _ => false

def memoGet (m : Memo) (r : Ref) : Option Ref :=
  match m with
  | [] => none
  | (r', d) :: rest => if r' = r then some d else memoGet rest r

/-- `memo[obj_id] = new`. -/
def memoSet (m : Memo) (r d : Ref) : Memo :=
  match m with
  | [] => [(r, d)]
  | (r', d') :: rest => if r' = r then (r, d) :: rest else (r', d') :: memoSet rest r d

def isNoneCell (h : Heap) (r : Ref) : Bool :=
  match h[r]? with
  | some (.leaf .none) => true
  | _ => false

/-- `already_done = memo.get(obj_id); if already_done is not None: return already_done`. -/
def memoHit (st : St) (r : Ref) : Option Ref :=
  match memoGet st.memo r with
  | none => none
  | some d => if isNoneCell st.heap d then none else some d

/-- `if new is not obj: memo[obj_id] = new`. -/
def memoIf (m : Memo) (r new : Ref) : Memo := if new = r then m else memoSet m r new

def alloc (h : Heap) (c : Cell) : Heap × Ref := (h ++ [c], h.length)

/-- State-threading map with the first error winning, left to right. -/
def mapS {σ α β} (f : α → σ → Except Exc (β × σ)) : List α → σ → Except Exc (List β × σ)
  | [], s => .ok ([], s)
  | x :: xs, s => match f x s with
    | .error e => .error e
    | .ok (y, s1) => match mapS f xs s1 with
      | .error e => .error e
      | .ok (ys, s2) => .ok (y :: ys, s2)

def unhashable : Exc := ⟨"TypeError", "unhashable type"⟩

/-- `dict.__setitem__` during `obj.__class__(pairs)`: an equal key keeps the FIRST key object
    and its position, the value is replaced. Keys are compared by value. -/
def insKey (acc : List (Val × Ref × Ref)) (kv : Val) (k v : Ref) : List (Val × Ref × Ref) :=
  match acc with
  | [] => [(kv, k, v)]
  | (kv', k', v') :: rest =>
    if kv' = kv then (kv', k', v) :: rest else (kv', k', v') :: insKey rest kv k v

/-- Build the pair list of the new dict cell from the formatted (key, value) refs. -/
def rebuildDictH (h : Heap) : List (Ref × Ref) → List (Val × Ref × Ref) → Except Exc (List (Ref × Ref))
  | [], acc => .ok (acc.map fun e => (e.2.1, e.2.2))
  | (k, v) :: rest, acc =>
    match deepVal h k with
    | none => .error outOfFuel
    | some kv => rebuildDictH h rest (insKey acc kv k v)

/-- `set.add` during `obj.__class__(members)`: an equal member keeps the first object. -/
def insMem (acc : List (Val × Ref)) (mv : Val) (m : Ref) : List (Val × Ref) :=
  match acc with
  | [] => [(mv, m)]
  | (mv', m') :: rest => if mv' = mv then (mv', m') :: rest else (mv', m') :: insMem rest mv m

def rebuildSetH (h : Heap) : List Ref → List (Val × Ref) → Except Exc (List Ref)
  | [], acc => .ok (acc.map (·.2))
  | m :: rest, acc =>
    match deepVal h m with
    | none => .error outOfFuel
    | some mv => rebuildSetH h rest (insMem acc mv m)

mutual
/-- `_get_formatted_iterable(obj, args, kwargs, used_args, memo, is_recursive)` on objects. -/
def fmtH : Nat → HCtx → Bool → Ref → St → Except Exc (Ref × St)
  | 0, _, _, _, _ => .error outOfFuel
  | fuel + 1, ctx, isRec, r, st =>
    match memoHit st r with
    | some done => .ok (done, st)
    | none =>
      match st.heap[r]? with
      | none => .error (outOfDomain "dangling reference")
      | some cell =>
        match cell with
        | .leaf _ => .ok (r, st)                       -- bytes: `new = obj`; others: `return obj`
        | .mbytes _ => .ok (r, st)                     -- bytearray: `new = obj`, never memoised
        | .sic p => .ok (p, { st with memo := memoIf st.memo r p })
        | .pyName n =>
          match HCtx.get? ctx n with
          | none => .error ⟨"NameError", "name '" ++ n ++ "' is not defined"⟩
          | some o => .ok (o, { st with memo := memoIf st.memo r o })
        | .jsonify p =>
          -- `json.dumps(context.get_formatted_value(self.value))`: a new top-level call
          match fmtH fuel ctx false p { heap := st.heap, memo := [] } with
          | .error e => .error e
          | .ok (fp, st1) =>
            match deepVal st1.heap fp with
            | none => .error outOfFuel
            | some v =>
              match jsonDumps v with
              | none => .error ⟨"TypeError", "Object is not JSON serializable"⟩
              | some s =>
                let (h2, nr) := alloc st1.heap (.str s)
                .ok (nr, { heap := h2, memo := memoIf st.memo r nr })
        | .str s =>
          match fmtHKeep fuel ctx isRec r s st.heap with
          | .error e => .error e
          | .ok (nr, h1) => .ok (nr, { heap := h1, memo := memoIf st.memo r nr })
        | .dict tag kvs =>
          match mapS (fun (kv : Ref × Ref) (s : St) =>
              match fmtH fuel ctx isRec kv.1 s with
              | .error e => .error e
              | .ok (k, s1) => match fmtH fuel ctx isRec kv.2 s1 with
                | .error e => .error e
                | .ok (v, s2) =>
                  -- the dict constructor consumes the generator pair by pair: the key is hashed
                  -- before the next pair is formatted
                  if hashableH (s2.heap.length + 1) s2.heap k then .ok ((k, v), s2)
                  else .error unhashable) kvs st with
          | .error e => .error e
          | .ok (kvs', st1) =>
            match rebuildDictH st1.heap kvs' [] with
            | .error e => .error e
            | .ok kvs'' =>
              let (h2, nr) := alloc st1.heap (.dict tag kvs'')
              .ok (nr, { heap := h2, memo := memoIf st1.memo r nr })
        | .list tag rs =>
          match mapS (fmtH fuel ctx isRec) rs st with
          | .error e => .error e
          | .ok (rs', st1) =>
            let (h2, nr) := alloc st1.heap (.list tag rs')
            .ok (nr, { heap := h2, memo := memoIf st1.memo r nr })
        | .tuple tag rs =>
          match mapS (fmtH fuel ctx isRec) rs st with
          | .error e => .error e
          | .ok (rs', st1) =>
            let (h2, nr) := alloc st1.heap (.tuple tag rs')
            .ok (nr, { heap := h2, memo := memoIf st1.memo r nr })
        | .set tag rs =>
          match mapS (fun (m : Ref) (s : St) =>
              match fmtH fuel ctx isRec m s with
              | .error e => .error e
              | .ok (m', s1) =>
                -- `set(generator)` hashes each member before the next one is formatted
                if hashableH (s1.heap.length + 1) s1.heap m' then .ok (m', s1)
                else .error unhashable) rs st with
          | .error e => .error e
          | .ok (rs', st1) =>
            match rebuildSetH st1.heap rs' [] with
            | .error e => .error e
            | .ok rs'' =>
              let (h2, nr) := alloc st1.heap (.set tag rs'')
              .ok (nr, { heap := h2, memo := memoIf st1.memo r nr })

/-- One replacement field of `_format_keep_type`: the context object, recursed
    (with a fresh memo: `memo=None`) when `rf`, or when inside a recursion and not `ff`. -/
def fmtHField : Nat → HCtx → Bool → String → String → Heap → Except Exc (Ref × Bool × Heap)
  | 0, _, _, _, _, _ => .error outOfFuel
  | fuel + 1, ctx, isRec, name, spec, h =>
    match HCtx.get? ctx name with
    | none => .error (keyNotInContext name)
    | some o =>
      if spec == "rf" || (isRec && spec != "ff") then
        match fmtH fuel ctx true o { heap := h, memo := [] } with
        | .error e => .error e
        | .ok (o', st) => .ok (o', true, st.heap)
      else .ok (o, false, h)

/-- `_format_keep_type(format_string, …)` for the str object at `r` with text `s`. -/
def fmtHKeep : Nat → HCtx → Bool → Ref → String → Heap → Except Exc (Ref × Heap)
  | 0, _, _, _, _, _ => .error outOfFuel
  | fuel + 1, ctx, isRec, r, s, h =>
    match parsePieces s with
    | .error e => .error e
    | .ok pieces =>
      match pieces with
      | [] => .ok (alloc h (.str "")).swap
      | [.lit t] => if t = s then .ok (r, h) else .ok (alloc h (.str t)).swap
      | [.field name spec] =>
        match fmtHField fuel ctx isRec name spec h with
        | .error e => .error e
        | .ok (o, recursed, h1) =>
          if recursed || spec == "ff" then .ok (o, h1)
          else match fmtH fuel ctx (spec == "rf") o { heap := h1, memo := [] } with
            | .error e => .error e
            | .ok (o', st2) => .ok (o', st2.heap)
      | ps =>
        match mapS (fun (p : Piece) (hh : Heap) => match p with
            | Piece.lit t => Except.ok (t, hh)
            | Piece.field name spec =>
              match fmtHField fuel ctx isRec name spec hh with
              | .error e => .error e
              | .ok (o, _, h1) => match deepVal h1 o with
                | none => .error outOfFuel
                | some v => .ok (pyStr v, h1)) ps h with
        | .error e => .error e
        | .ok (strs, h1) => .ok (alloc h1 (.str (String.join strs))).swap
end

/-- `Context.get_formatted_value(obj)`: a top-level call, empty memo.
    Returns the result object and the heap afterwards. -/
def fmtHeap (fuel : Nat) (ctx : HCtx) (h : Heap) (r : Ref) : Except Exc (Ref × Heap) :=
  match fmtH fuel ctx false r { heap := h, memo := [] } with
  | .error e => .error e
  | .ok (r', st) => .ok (r', st.heap)

/-! ### Tree-level predicates used by the C09 theorems and evaluated by the driver -/

def strBraceFree (s : String) : Bool := s.toList.all fun c => c != '{' && c != '}'

mutual
/-- No `{` or `}` in any string anywhere in `v`, and no special tag in `v`. -/
def braceFree : Val → Bool
  | .str s => strBraceFree s
  | .list xs => braceFreeL xs
  | .tuple xs => braceFreeL xs
  | .set xs => braceFreeL xs
  | .dict kvs => braceFreeP kvs
  | .sic _ | .py _ | .jsonify _ => false
  | _ => true
def braceFreeL : List Val → Bool
  | [] => true
  | x :: xs => braceFree x && braceFreeL xs
def braceFreeP : List (Val × Val) → Bool
  | [] => true
  | (k, v) :: rest => braceFree k && braceFree v && braceFreeP rest
end

def nodupB : List Val → Bool
  | [] => true
  | x :: xs => !xs.contains x && nodupB xs

def keysOf : List (Val × Val) → List Val
  | [] => []
  | (k, _) :: rest => k :: keysOf rest

mutual
/-- Representation invariant of `Val`: dict keys pairwise distinct, set members pairwise distinct,
    at every node (what a Python dict / set always satisfies). -/
def wfVal : Val → Bool
  | .list xs => wfValL xs
  | .tuple xs => wfValL xs
  | .set xs => nodupB xs && wfValL xs
  | .dict kvs => nodupB (keysOf kvs) && wfValP kvs
  | .jsonify v => wfVal v
  | _ => true
def wfValL : List Val → Bool
  | [] => true
  | x :: xs => wfVal x && wfValL xs
def wfValP : List (Val × Val) → Bool
  | [] => true
  | (k, v) :: rest => wfVal k && wfVal v && wfValP rest
end

/-- `hash(v)` succeeds, for tree values (`Val.set` read as a mutable set: unhashable). -/
def hashableV : Val → Bool
  | .none | .bool _ | .int _ | .flt _ _ | .str _ | .bytes _ | .obj _ => true
  | .tuple xs => hashableVL xs
  | _ => false
where hashableVL : List Val → Bool
  | [] => true
  | x :: xs => hashableV x && hashableVL xs

mutual
/-- Every dict key and set member in `v` is hashable (Python could have built `v`). -/
def keysHashable : Val → Bool
  | .list xs => keysHashableL xs
  | .tuple xs => keysHashableL xs
  | .set xs => xs.all hashableV && keysHashableL xs
  | .dict kvs => (keysOf kvs).all hashableV && keysHashableP kvs
  | .jsonify v => keysHashable v
  | _ => true
def keysHashableL : List Val → Bool
  | [] => true
  | x :: xs => keysHashable x && keysHashableL xs
def keysHashableP : List (Val × Val) → Bool
  | [] => true
  | (k, v) :: rest => keysHashable k && keysHashable v && keysHashableP rest
end

end Pypyr.FmtHeap
