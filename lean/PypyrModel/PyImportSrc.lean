/- The SOURCE LANGUAGE of `pypyr.steps.pyimport` (property C14: "names imported through pyimport").

   `pypyr.steps.pyimport.run_step` hands `str(context['pyImport'])` to
   `pystring_namespace_cache.get_namespace(source)` = `moduleloader.ImportVisitor().get_namespace(source)`
   (memoised per source text) and merges the dict it returns into the Context's `!py` globals with
   `dict.update` (`Context.pystring_globals_update`). `ImportVisitor` is an `ast.NodeVisitor`: it walks the
   statements of the source in order, `visit_Import` / `visit_ImportFrom` write `self.imported_namespace`,
   every other statement is walked through (`generic_visit`) and binds nothing.

   This file models that visitor as it is, over a `World` of importable modules:
     * an object is the module with a given dotted name, or "the object attribute `n` of module `p` holds";
     * `importModule`  = `importlib.import_module(dotted)` (every prefix package has to exist);
     * `bindItem`      = one loop iteration of `visit_Import` (one `ast.alias`);
     * `visitImport`   = the loop of `visit_Import`, threading `self.imported_namespace`;
     * `bindFrom` / `visitFrom` = `visit_ImportFrom` (level > 0 → TypeError; getattr, on AttributeError
       `import_module(f'{module}.{name}')`; `from m import *` has `name == '*'`, which no module carries
       and no module is called, so it ends in ModuleNotFoundError — no special case in the code);
     * `visitSource`   = `get_namespace`: all or nothing (an exception leaves the caller without a dict);
     * `runSession`    = several pyimport steps on one Context (`dict.update`; a failing step changes nothing).
   `visitImportSticky` is a COUNTER-MODEL (statement-level `bind_to`), used only to show that the
   independence theorems of Props/C14.lean are not vacuous.

   No Mathlib, no partial, total functions over lists. -/

namespace Pypyr.PyImportSrc

/-- dotted module name, split at the dots: `a.b.c` = `["a", "b", "c"]` -/
abbrev Path := List String

/-- what a name can be bound to: the module object of that dotted name (`sys.modules[dotted]`), or the
    object held by a (non-module) attribute of a module (identified by where it lives) -/
inductive Obj
  | mod (p : Path)
  | attr (p : Path) (n : String)
  deriving DecidableEq, Repr, Inhabited

inductive Err
  | modNotFound     -- ModuleNotFoundError (import_module / __import__ of something that is not there)
  | typeError       -- visit_ImportFrom: level > 0 (relative import)
  deriving DecidableEq, Repr, Inhabited

instance {α : Type} [DecidableEq α] : DecidableEq (Except Err α) := fun a b =>
  match a, b with
  | .ok x, .ok y => if h : x = y then isTrue (by rw [h]) else isFalse (fun e => by cases e; exact h rfl)
  | .error x, .error y => if h : x = y then isTrue (by rw [h]) else isFalse (fun e => by cases e; exact h rfl)
  | .ok _, .error _ => isFalse (fun e => by cases e)
  | .error _, .ok _ => isFalse (fun e => by cases e)

/-- The importable universe. `mods`: dotted names that resolve to a module / package. `attrs`: what
    `getattr(module, name)` gives for names set by the module's own code (`X = …`, `import q as X`):
    any object, a module included. An attribute entry beats the sub-module of the same name in
    `from m import n` exactly as `getattr` does in the code. -/
structure World where
  mods : List Path
  attrs : List ((Path × String) × Obj)
  deriving Repr

/-- all non-empty prefixes of a dotted name: `a.b.c` ↦ `a`, `a.b`, `a.b.c` -/
def prefixes : Path → List Path
  | [] => []
  | a :: r => [a] :: (prefixes r).map (a :: ·)

/-- `importlib.import_module(dotted)` / the import part of `__import__(dotted)`: every prefix is imported
    in turn; the first one that does not exist raises ModuleNotFoundError. -/
def importModule (w : World) (p : Path) : Except Err Obj :=
  if p ≠ [] ∧ (prefixes p).all (fun q => w.mods.contains q) then .ok (.mod p) else .error .modNotFound

/-- `getattr(module, name)`; `none` = AttributeError -/
def getAttr (w : World) (p : Path) (n : String) : Option Obj :=
  (w.attrs.find? (fun e => e.1 = (p, n))).map (·.2)

/-- one `ast.alias` of an `import` statement: `path` = alias.name split at dots, `asname` = alias.asname -/
structure ImportItem where
  path : Path
  asname : Option String
  deriving DecidableEq, Repr

/-- one `ast.alias` of a `from … import` statement -/
structure FromName where
  name : String
  asname : Option String
  deriving DecidableEq, Repr

/-- a top-level statement of a pyimport source -/
inductive Stmt
  | imp (items : List ImportItem)                                  -- import a, b.c as d, …
  | from_ (level : Nat) (module : Path) (names : List FromName)    -- from [.…]module import n as m, … | *
  | other                                                          -- anything else without an import inside
  deriving Repr

abbrev Source := List Stmt

/-- `self.imported_namespace`: a Python dict (insertion order, assignment to a present key keeps its place) -/
abbrev Ns := List (String × Obj)

def Ns.set : Ns → String → Obj → Ns
  | [], k, v => [(k, v)]
  | (k', v') :: r, k, v => if k' = k then (k, v) :: r else (k', v') :: Ns.set r k v

def Ns.get : Ns → String → Option Obj
  | [], _ => none
  | (k', v') :: r, k => if k' = k then some v' else Ns.get r k

/-- `dict.update(other)` / a run of `_set_namespace` calls -/
def Ns.setAll (ns : Ns) (bs : List (String × Obj)) : Ns :=
  bs.foldl (fun acc b => acc.set b.1 b.2) ns

/-- the name an `import` item binds: asname, else the FIRST component of the dotted name -/
def ImportItem.boundName (it : ImportItem) : String :=
  match it.asname with
  | some x => x
  | none => it.path.headD ""

/-- the name a `from` item binds: asname, else name (`_set_namespace`) -/
def FromName.boundName (f : FromName) : String := f.asname.getD f.name

/-- body of the loop in `ImportVisitor.visit_Import` for ONE alias: what is imported and the name it is
    bound to.
      asname            → `importlib.import_module(alias.name)`, bound to asname
      no asname, dotted → `alias.asname = parent; __import__(alias.name)`: the TOP-LEVEL package object
                           bound to the first component (after the whole dotted name was imported)
      no asname, plain  → `importlib.import_module(alias.name)` bound to the name -/
def bindItem (w : World) (it : ImportItem) : Except Err (String × Obj) :=
  match it.asname with
  | some x =>
    match importModule w it.path with
    | .error e => .error e
    | .ok m => .ok (x, m)
  | none =>
    match it.path with
    | [] => .error .modNotFound
    | [a] =>
      match importModule w [a] with
      | .error e => .error e
      | .ok m => .ok (a, m)
    | a :: b :: r =>
      match importModule w (a :: b :: r) with
      | .error e => .error e
      | .ok _ => .ok (a, .mod [a])

/-- `ImportVisitor.visit_Import`: the loop over `node.names`, threading `self.imported_namespace` -/
def visitImport (w : World) : Ns → List ImportItem → Except Err Ns
  | ns, [] => .ok ns
  | ns, it :: rest =>
    match bindItem w it with
    | .error e => .error e
    | .ok b => visitImport w (ns.set b.1 b.2) rest

/-- body of the loop in `visit_ImportFrom` for one alias (the module is already imported):
    `getattr(imported_module, alias.name)`, on AttributeError `import_module(f'{module}.{name}')` -/
def bindFrom (w : World) (m : Path) (f : FromName) : Except Err (String × Obj) :=
  match getAttr w m f.name with
  | some o => .ok (f.boundName, o)
  | none =>
    match importModule w (m ++ [f.name]) with
    | .error e => .error e
    | .ok o => .ok (f.boundName, o)

def visitFromLoop (w : World) (m : Path) : Ns → List FromName → Except Err Ns
  | ns, [] => .ok ns
  | ns, f :: rest =>
    match bindFrom w m f with
    | .error e => .error e
    | .ok b => visitFromLoop w m (ns.set b.1 b.2) rest

/-- `ImportVisitor.visit_ImportFrom` -/
def visitFrom (w : World) (ns : Ns) (level : Nat) (m : Path) (names : List FromName) : Except Err Ns :=
  if level > 0 then .error .typeError
  else match importModule w m with
    | .error e => .error e
    | .ok _ => visitFromLoop w m ns names

def visitStmt (w : World) (ns : Ns) : Stmt → Except Err Ns
  | .imp items => visitImport w ns items
  | .from_ l m names => visitFrom w ns l m names
  | .other => .ok ns

/-- `NodeVisitor.visit(ast.parse(source))` over the module body, from the namespace so far -/
def visitSource (w : World) : Ns → Source → Except Err Ns
  | ns, [] => .ok ns
  | ns, s :: rest =>
    match visitStmt w ns s with
    | .error e => .error e
    | .ok ns' => visitSource w ns' rest

/-- `ImportVisitor().get_namespace(source)` -/
def getNamespace (w : World) (src : Source) : Except Err Ns := visitSource w [] src

/-- one `pypyr.steps.pyimport` step on a Context whose `!py` import namespace is `g`:
    `context.pystring_globals_update(get_namespace(source))`; an exception leaves `g` as it was -/
def runStep (w : World) (g : Ns) (src : Source) : Ns × Option Err :=
  match getNamespace w src with
  | .error e => (g, some e)
  | .ok ns => (g.setAll ns, none)

/-- several pyimport steps on one Context -/
def runSession (w : World) : Ns → List Source → Ns
  | g, [] => g
  | g, s :: rest => runSession w (runStep w g s).1 rest

/-- the per-item bindings of a statement, each item taken ALONE (no visitor state) -/
def itemBindings (w : World) : List ImportItem → Except Err (List (String × Obj))
  | [] => .ok []
  | it :: rest =>
    match bindItem w it with
    | .error e => .error e
    | .ok b =>
      match itemBindings w rest with
      | .error e => .error e
      | .ok bs => .ok (b :: bs)

def fromBindings (w : World) (m : Path) : List FromName → Except Err (List (String × Obj))
  | [] => .ok []
  | f :: rest =>
    match bindFrom w m f with
    | .error e => .error e
    | .ok b =>
      match fromBindings w m rest with
      | .error e => .error e
      | .ok bs => .ok (b :: bs)

/-- the binding trace of a statement: the list of (name, object) pairs in the order they are made -/
def stmtBindings (w : World) : Stmt → Except Err (List (String × Obj))
  | .imp items => itemBindings w items
  | .from_ l m names =>
    if l > 0 then .error .typeError
    else match importModule w m with
      | .error e => .error e
      | .ok _ => fromBindings w m names
  | .other => .ok []

def sourceBindings (w : World) : Source → Except Err (List (String × Obj))
  | [] => .ok []
  | s :: rest =>
    match stmtBindings w s with
    | .error e => .error e
    | .ok bs =>
      match sourceBindings w rest with
      | .error e => .error e
      | .ok cs => .ok (bs ++ cs)

/-- the last binding of name `n` in a trace -/
def lastBinding : List (String × Obj) → String → Option Obj
  | [], _ => none
  | (k, v) :: r, n =>
    match lastBinding r n with
    | some o => some o
    | none => if k = n then some v else none

/-! ### counter-model: a statement-level `bind_to` (NOT what the code does) -/

/-- `visit_Import` with the name to bind kept in a variable that is initialised once per STATEMENT:
    once a dotted un-aliased item has set it, it wins over every later item's own name / asname
    (`as_name = bind_to or alias.asname or alias.name`). -/
def visitImportSticky (w : World) : Option String → Ns → List ImportItem → Except Err Ns
  | _, ns, [] => .ok ns
  | bt, ns, it :: rest =>
    match bindItem w it with
    | .error e => .error e
    | .ok b =>
      let bt' := match it.asname, it.path with
        | none, a :: _ :: _ => some a
        | _, _ => bt
      let name := match bt' with
        | some x => x
        | none => b.1
      visitImportSticky w bt' (ns.set name b.2) rest

end Pypyr.PyImportSrc
