/-
  Faithful model of pypyr's formatting (`pypyr/formatting.py`, the formatting part of
  `pypyr/context.py`, the special tags of `pypyr/dsl.py`) on top of CPython's
  `string.Formatter` (Lib/string.py) — C08.

      getField        string.Formatter.get_field / get_value with kwargs = Context, args = None
      convertField    string.Formatter.convert_field
      formatField     format(value, spec) = string.Formatter.format_field: Python/formatter_unicode.c for
                      str / int / bool on the whole mini-language (grouping, precision, #, b o x X c n, z)
      vfmt / vLoop    string.Formatter._vformat (the base-class method `_format_keep_type` uses to
                      expand a nested format spec; recursion_depth counted exactly)
      ktField/ktLoop/ktFinish/fmtKeepType   RecursiveFormatter._format_keep_type
      fmtIter         RecursiveFormatter._get_formatted_iterable
      fmtVal          Context.get_formatted_value = formatter.vformat(v, None, context)
      fmtAsBool       Context.get_formatted_as_type(v, out_type=bool)

  Recursion that can diverge in the code (`a: '{a}'`) is fuel-indexed; `OutOfFuel` is the
  distinguished "did not terminate" result. The id-keyed `memo` of
  `_get_formatted_iterable` is not part of this tree-level model. That it is not an observable is a
  THEOREM about the object-level model, not an assumption: `Props/C09.lean` `fmtH_memo_sound` /
  `fmtH_memo_independent` (any memo whose entries hold the formatted value of the CURRENT object at their
  address gives the memo-free result) — as long as no address of a memoised object is re-used while the
  memo lives, which the code guarantees by keeping a reference (/repo 2cfa9de; counter-model
  `PypyrModel/FmtFree.lean`, `memo_keeps_alive_sound`, `memo_reuse_breaks_soundness`).
  Input outside the modelled domain yields the distinguished error `OutOfDomain`, which the
  driver turns into a protocol-level reject.
-/
import PypyrModel.Val
import PypyrModel.PyRepr
import PypyrModel.PyEval
import PypyrModel.Fmt
import PypyrModel.FmtParse

namespace Pypyr.Format

/-! ## lookups (`get_field`) -/

/-- `type(v).__name__` as it appears in CPython's error messages (`obj` = the harness's `Opaque`). -/
def typeName : Val → String
  | .none => "NoneType" | .bool _ => "bool" | .int _ => "int" | .flt _ _ => "float"
  | .str _ => "str" | .bytes _ => "bytes" | .list _ => "list" | .tuple _ => "tuple"
  | .dict _ => "dict" | .set _ => "set" | .sic _ => "SicString" | .py _ => "PyString"
  | .jsonify _ => "Jsonify" | .obj _ => "Opaque"

def Key.toVal : Key → Val
  | .int n => .int n
  | .str s => .str (String.ofList s)

/-- dict lookup by `==` (so `d[1]` finds the key `True` or `1.0`, as in Python). -/
def dictFind (kvs : List (Val × Val)) (k : Val) : Option Val :=
  match kvs with
  | [] => none
  | (k', v) :: rest => if pyEq k' k then some v else dictFind rest k

def hexVal (c : Char) : Nat :=
  if '0' ≤ c ∧ c ≤ '9' then c.toNat - 48
  else if 'a' ≤ c ∧ c ≤ 'f' then c.toNat - 87
  else if 'A' ≤ c ∧ c ≤ 'F' then c.toNat - 55
  else 0

def seqIndex (xs : List Val) (n : Nat) (what : String) : Except Exc Val :=
  match xs[n]? with
  | some v => .ok v
  | none => .error ⟨"IndexError", what ++ " index out of range"⟩

/-- `obj[i]` for the key a field name can produce (a non-negative int or a str). -/
def getItem (obj : Val) (k : Key) : Except Exc Val :=
  match obj with
  | .dict kvs =>
    match dictFind kvs k.toVal with
    | some v => .ok v
    | none => .error ⟨"KeyError", pyRepr k.toVal⟩
  | .list xs =>
    match k with
    | .int n => seqIndex xs n "list"
    | .str _ => .error (typeError "list indices must be integers or slices, not str")
  | .tuple xs =>
    match k with
    | .int n => seqIndex xs n "tuple"
    | .str _ => .error (typeError "tuple indices must be integers or slices, not str")
  | .str s =>
    match k with
    | .int n =>
      match s.toList[n]? with
      | some c => .ok (.str (String.singleton c))
      | none => .error ⟨"IndexError", "string index out of range"⟩
    | .str _ => .error (typeError "string indices must be integers, not 'str'")
  | .bytes h =>
    match k with
    | .int n =>
      match h.toList[2 * n]?, h.toList[2 * n + 1]? with
      | some a, some b => .ok (.int (hexVal a * 16 + hexVal b))
      | _, _ => .error ⟨"IndexError", "index out of range"⟩
    | .str _ => .error (typeError "byte indices must be integers or slices, not str")
  | other => .error (typeError ("'" ++ typeName other ++ "' object is not subscriptable"))

/-- Names that *are* attributes of some modelled Python type (`dir()` of None, bool, int, float,
    str, bytes, list, tuple, dict, set, frozenset, SicString, PyString, Jsonify, Opaque) other than
    dunder names. `getattr` with such a name is outside the modelled domain — except `value` and
    `yaml_tag`, which `getAttr` models. The harness checks this table against the running interpreter
    at start-up. -/
def knownAttrs : List String :=
  ["add", "append", "as_integer_ratio", "bit_count", "bit_length", "capitalize", "casefold", "center",
   "clear", "conjugate", "copy", "count", "decode", "denominator", "difference", "difference_update",
   "discard", "encode", "endswith", "expandtabs", "extend", "find", "format", "format_map", "from_bytes",
   "from_yaml", "fromhex", "fromkeys", "get", "get_value", "hex", "imag", "index", "insert",
   "intersection", "intersection_update", "is_integer", "isalnum", "isalpha", "isascii", "isdecimal",
   "isdigit", "isdisjoint", "isidentifier", "islower", "isnumeric", "isprintable", "isspace", "issubset",
   "issuperset", "istitle", "isupper", "items", "join", "keys", "ljust", "lower", "lstrip", "maketrans",
   "numerator", "partition", "pop", "popitem", "real", "remove", "removeprefix", "removesuffix", "replace",
   "reverse", "rfind", "rindex", "rjust", "rpartition", "rsplit", "rstrip", "scalar", "setdefault", "sort",
   "split", "splitlines", "startswith", "strip", "swapcase", "symmetric_difference",
   "symmetric_difference_update", "title", "to_bytes", "to_yaml", "translate", "union", "update", "upper",
   "value", "values", "yaml_tag", "zfill"]

/-- Attribute names for which the model knows `getattr` fails on every modelled kind
    (except `ident` on an opaque object, which succeeds). -/
def attrInDomain (n : List Char) : Bool :=
  !(n.take 2 == ['_', '_']) && !knownAttrs.contains (String.ofList n)

def errNoAttr (obj : Val) (n : List Char) : Exc :=
  ⟨"AttributeError", "'" ++ typeName obj ++ "' object has no attribute '" ++ String.ofList n ++ "'"⟩

/-- `getattr(obj, name)`.
    * the special tags of `pypyr/dsl.py` have the instance attribute `value` (`SpecialTagDirective.__init__`:
      the untouched scalar — the text of a `!sic`, the source text of a `!py` (`PyExpr.src`, the renderer the
      harness builds `PyString`s with), the payload of a `!jsonify`) and the class attribute `yaml_tag`
      (`'!sic'`, `'!py'`, `'!jsonify'`); no other modelled kind has an attribute of either name;
    * the harness's opaque objects have `ident`;
    * any other name that *is* an attribute of some modelled type (`knownAttrs`: bound methods, `real`,
      `Jsonify.scalar`, …) and every dunder name is outside the modelled domain;
    * everything else is the AttributeError. -/
def getAttr (obj : Val) (n : List Char) : Except Exc Val :=
  let name := String.ofList n
  if name = "value" || name = "yaml_tag" then
    match obj with
    | .sic s => .ok (.str (if name = "value" then s else "!sic"))
    | .py e => .ok (.str (if name = "value" then e.src else "!py"))
    | .jsonify v => if name = "value" then .ok v else .ok (.str "!jsonify")
    | other => .error (errNoAttr other n)
  else if !attrInDomain n then .error (outOfDomain ("attribute " ++ name))
  else match obj with
    | .obj id =>
      if n = ['i', 'd', 'e', 'n', 't'] then .ok (.int id)
      else .error (errNoAttr obj n)
    | other => .error (errNoAttr other n)

/-- The `for is_attr, i in rest` loop of `get_field`; `err` is what the lazy `rest` iterator raises
    after its last good accessor. -/
def walk (obj : Val) : List Accessor → Option Exc → Except Exc Val
  | [], none => .ok obj
  | [], some e => .error e
  | .attr n :: rest, err =>
    match getAttr obj n with
    | .error e => .error e
    | .ok o => walk o rest err
  | .item k :: rest, err =>
    match getItem obj k with
    | .error e => .error e
    | .ok o => walk o rest err

def errArgsNone : Exc := typeError "'NoneType' object is not subscriptable"

/-- `Formatter.get_value(first, args=None, kwargs=context)`: an int indexes `args` (which is
    `None`), a str is looked up in the context (`Context.__missing__` raises). -/
def getValue (ctx : Ctx) : Key → Except Exc Val
  | .int _ => .error errArgsNone
  | .str k =>
    match Ctx.get? ctx (String.ofList k) with
    | some v => .ok v
    | none => .error (keyNotInContext (String.ofList k))

/-- `Formatter.get_field(field_name, None, context)` (the object only; `used_args` is write-only). -/
def getField (ctx : Ctx) (name : List Char) : Except Exc Val :=
  -- non-ASCII decimal digits (`Py_UNICODE_TODECIMAL`, `str.isdigit`) are outside the modelled domain
  if name.any (fun c => c.toNat ≥ 128) then .error (outOfDomain "non-ASCII character in a field name") else
  match splitField name with
  | .error e => .error e
  | .ok (first, accs, err) =>
    match getValue ctx first with
    | .error e => .error e
    | .ok obj => walk obj accs err

/-! ## conversions (`convert_field`) -/

def hex8 (n : Nat) : String := hex4 (n / 65536) ++ hex4 (n % 65536)

/-- `ascii(x)` = `repr(x)` encoded with `backslashreplace`. -/
def asciiEscape (s : String) : String :=
  s.toList.foldl (fun acc c =>
    let n := c.toNat
    if n < 128 then acc ++ String.singleton c
    else if n < 256 then acc ++ "\\x" ++ hex2 n
    else if n < 65536 then acc ++ "\\u" ++ hex4 n
    else acc ++ "\\U" ++ hex8 n) ""

mutual
/-- Values whose `str()`/`repr()` the shared `pyRepr` reproduces: no bytes, no set with two or
    more members (iteration order of a set is not modelled). -/
def reprOk : Val → Bool
  | .bytes _ => false
  | .list xs => reprOkList xs
  | .tuple xs => reprOkList xs
  | .set xs => xs.length ≤ 1 && reprOkList xs
  | .dict kvs => reprOkPairs kvs
  | .jsonify v => reprOk v
  | _ => true
def reprOkList : List Val → Bool
  | [] => true
  | x :: xs => reprOk x && reprOkList xs
def reprOkPairs : List (Val × Val) → Bool
  | [] => true
  | (k, v) :: xs => reprOk k && reprOk v && reprOkPairs xs
end

/-- `str(v)` may be taken: `v` is a str (returned as is) or has a modelled repr; a `!jsonify`
    whose payload is itself a special tag is outside the domain (cannot be written in yaml). -/
def strOk : Val → Bool
  | .str _ => true
  | .jsonify v => !isSpecialTag v && reprOk v
  | v => reprOk v

def errReprDomain : Exc := outOfDomain "str()/repr() of bytes or of a set with several members"

/-- `Formatter.convert_field(value, conversion)`. -/
def convertField (v : Val) : Option Char → Except Exc Val
  | none => .ok v
  | some c =>
    if c = 's' then (if strOk v then .ok (.str (pyStr v)) else .error errReprDomain)
    else if c = 'r' then (if reprOk v then .ok (.str (pyRepr v)) else .error errReprDomain)
    else if c = 'a' then (if reprOk v then .ok (.str (asciiEscape (pyRepr v))) else .error errReprDomain)
    else .error (valueError ("Unknown conversion specifier " ++ String.singleton c))

/-! ## `format(value, spec)`

CPython's `Python/formatter_unicode.c`, function by function, for `str`, `int` and `bool` values and the
whole standard format-spec mini-language

    [[fill]align][sign]["z"]["#"]["0"][width][grouping]["." precision][type]

Outside the modelled domain (`OutOfDomain`, see `specInDomain`): any non-empty spec on a float; the
float presentation types `e E f F g G %` on an int (they convert to float first); a non-ASCII character
anywhere but in the fill position (Unicode decimal digits count as width digits in CPython); a width or
precision of more than 4 digits; the presentation type `c` on a surrogate code point (no Lean `Char`).
The type `n` is modelled under the C locale for `LC_NUMERIC` (no grouping: the harness checks
`locale.localeconv()` at start-up). -/

def isAlign (c : Char) : Bool := c = '<' || c = '>' || c = '=' || c = '^'
def isSign (c : Char) : Bool := c = '+' || c = '-' || c = ' '

/-- `InternalFormatSpec` after `parse_internal_render_format_spec`. -/
structure FSpec where
  fill : Char
  fillGiven : Bool
  align : Option Char       -- `none` = the default alignment of the type (`<` for str, `>` for numbers)
  sign : Option Char
  noNeg0 : Bool := false    -- the `z` flag
  alt : Bool := false       -- the `#` flag
  zero : Bool               -- the `0` flag was consumed (no explicit fill)
  width : Nat               -- 0 = none (a width of 0 pads nothing either)
  sep : Option Char := none -- `,` or `_`
  prec : Option Nat := none
  type : Option Char
  deriving Repr, DecidableEq, Inhabited

inductive SpecParse where
  /-- outside the modelled domain: a non-ASCII char outside the fill position, or a width / precision of more than 4 digits -/
  | ood (why : String)
  /-- CPython: "Invalid format specifier '…' for object of type '…'" (more than one char left where the type goes) -/
  | invalid
  /-- a ValueError raised while parsing, whose text does not depend on the object -/
  | err (e : Exc)
  | ok (f : FSpec)
  deriving Repr, DecidableEq, Inhabited

def digitsVal (cs : List Char) : Nat := cs.foldl (fun acc c => acc * 10 + (c.toNat - 48)) 0

def errCommaUnderscore : Exc := valueError "Cannot specify both ',' and '_'."

/-- `invalid_thousands_separator_type`. -/
def errSepType (sep t : Char) : Exc :=
  if t.toNat > 32 ∧ t.toNat < 128 then
    valueError ("Cannot specify '" ++ String.singleton sep ++ "' with '" ++ String.singleton t ++ "'.")
  else
    valueError ("Cannot specify '" ++ String.singleton sep ++ "' with '\\x" ++ String.ofList (Nat.toDigits 16 t.toNat) ++ "'.")

/-- the part of `parse_internal_render_format_spec` after fill and alignment; `dflt` is the default
    presentation type of the object (`s` / `d`), which the grouping check looks at. -/
def parseSpecTail (dflt : Char) (fill : Char) (fillGiven : Bool) (align : Option Char) (rest : List Char) : SpecParse :=
  if rest.any (fun c => c.toNat ≥ 128) then .ood "non-ASCII character in format spec" else
  let (sign, rest) := match rest with
    | c :: r => if isSign c then (some c, r) else (none, rest)
    | [] => (none, rest)
  let (noNeg0, rest) := match rest with
    | 'z' :: r => (true, r)
    | _ => (false, rest)
  let (alt, rest) := match rest with
    | '#' :: r => (true, r)
    | _ => (false, rest)
  let (zero, rest) := match rest with
    | '0' :: r => if fillGiven then (false, rest) else (true, r)
    | _ => (false, rest)
  let ds := rest.takeWhile isAsciiDigit
  let rest := rest.dropWhile isAsciiDigit
  if ds.length > 4 then .ood "width of more than 4 digits" else
  -- `,` then `_` (or one of them); a `,` after `_` is the overlap error too
  let (comma, rest) := match rest with
    | ',' :: r => (true, r)
    | _ => (false, rest)
  match (match rest with
    | '_' :: r => if comma then (Except.error errCommaUnderscore : Except Exc (Option Char × List Char)) else .ok (some '_', r)
    | _ => .ok (if comma then some ',' else none, rest)) with
  | .error e => .err e
  | .ok (sep, rest) =>
    match (match rest with
      | ',' :: _ => if sep = some '_' then (some errCommaUnderscore) else none
      | _ => none) with
    | some e => .err e
    | none =>
      -- precision
      match (match rest with
        | '.' :: r =>
          let ps := r.takeWhile isAsciiDigit
          if ps = [] then (Except.error (valueError "Format specifier missing precision") : Except Exc (Option (List Char) × List Char))
          else .ok (some ps, r.dropWhile isAsciiDigit)
        | _ => .ok (none, rest)) with
      | .error e => .err e
      | .ok (ps, rest) =>
        if (ps.getD []).length > 4 then .ood "precision of more than 4 digits" else
        match rest with
        | _ :: _ :: _ => .invalid
        | _ =>
          let ty : Option Char := rest.head?
          let t := ty.getD dflt
          let f : FSpec := { fill := if zero then '0' else fill, fillGiven := fillGiven, align := align, sign := sign,
                             noNeg0 := noNeg0, alt := alt, zero := zero, width := digitsVal ds, sep := sep,
                             prec := ps.map digitsVal, type := ty }
          match sep with
          | none => .ok f
          | some sc =>
            if t = 'd' || t = 'e' || t = 'f' || t = 'g' || t = 'E' || t = 'G' || t = '%' || t = 'F' then .ok f
            else if (t = 'b' || t = 'o' || t = 'x' || t = 'X') && sc = '_' then .ok f
            else .err (errSepType sc t)

/-- `parse_internal_render_format_spec`. -/
def parseSpec (dflt : Char) (spec : List Char) : SpecParse :=
  match spec with
  | f :: a :: rest =>
    if isAlign a then parseSpecTail dflt f true (some a) rest
    else if isAlign f then parseSpecTail dflt ' ' false (some f) (a :: rest)
    else parseSpecTail dflt ' ' false none spec
  | [a] => if isAlign a then parseSpecTail dflt ' ' false (some a) [] else parseSpecTail dflt ' ' false none spec
  | [] => parseSpecTail dflt ' ' false none []

def pad (c : Char) (n : Nat) : List Char := List.replicate n c

/-- `fill_padding` for `<`, `>`, `^`. -/
def padAligned (body : List Char) (fill : Char) (align : Char) (width : Nat) : List Char :=
  let total := width - body.length
  if align = '>' then pad fill total ++ body
  else if align = '^' then pad fill (total / 2) ++ body ++ pad fill (total - total / 2)
  else body ++ pad fill total

def errInvalidSpec (spec : List Char) (ty : String) : Exc :=
  valueError ("Invalid format specifier '" ++ String.ofList spec ++ "' for object of type '" ++ ty ++ "'")

/-- `unknown_presentation_type`. -/
def errUnknownCode (t : Char) (ty : String) : Exc :=
  let shown := if t.toNat > 32 ∧ t.toNat < 128 then String.singleton t
               else "\\x" ++ String.ofList (Nat.toDigits 16 t.toNat)
  valueError ("Unknown format code '" ++ shown ++ "' for object of type '" ++ ty ++ "'")

/-- `str.__format__` (`format_string_internal`). -/
def formatStr (s : List Char) (spec : List Char) : Except Exc (List Char) :=
  match parseSpec 's' spec with
  | .ood why => .error (outOfDomain ("format spec: " ++ why))
  | .invalid => .error (errInvalidSpec spec "str")
  | .err e => .error e
  | .ok f =>
    match f.type with
    | some t => if t = 's' then formatStrBody s f else .error (errUnknownCode t "str")
    | none => formatStrBody s f
where
  formatStrBody (s : List Char) (f : FSpec) : Except Exc (List Char) :=
    match f.sign with
    | some c =>
      if c = ' ' then .error (valueError "Space not allowed in string format specifier")
      else .error (valueError "Sign not allowed in string format specifier")
    | none =>
      if f.noNeg0 then .error (valueError "Negative zero coercion (z) not allowed in string format specifier")
      else if f.alt then .error (valueError "Alternate form (#) not allowed in string format specifier")
      else if f.align = some '=' then .error (valueError "'=' alignment not allowed in string format specifier")
      else
        -- if precision is specified, output no more than precision characters
        let body := match f.prec with
          | some p => s.take p
          | none => s
        .ok (padAligned body f.fill (f.align.getD '<') f.width)

/-- presentation types that convert an int to float first -/
def floatTypes : List Char := ['e', 'E', 'f', 'F', 'g', 'G', '%']

/-- `_PyUnicode_InsertThousandsGrouping` for the grouping "every `g` digits" (`g = 0`: no grouping), written
    right to left as the C code does: `acc` is the output so far, `digits` what is left of the number,
    `minWidth` how many more characters zero padding still asks for. -/
def groupLoop (g : Nat) (sep : Char) : Nat → List Char → Int → Bool → List Char → List Char
  | 0, digits, _, _, acc => digits ++ acc                       -- not reached (fuel)
  | fuel + 1, digits, minWidth, useSep, acc =>
    let remaining : Int := digits.length
    let whole : Int := max (max remaining minWidth) 1
    let len : Int := if g = 0 then whole else min (g : Int) whole
    let nZeros := (len - remaining).toNat
    let nChars := (min remaining len).toNat
    let piece := pad '0' nZeros ++ digits.drop (digits.length - nChars)
    let acc1 := piece ++ (if useSep then sep :: acc else acc)
    let digits1 := digits.take (digits.length - nChars)
    let minWidth1 := minWidth - len
    if g = 0 then acc1
    else if digits1 = [] ∧ minWidth1 ≤ 0 then acc1
    else groupLoop g sep fuel digits1 (minWidth1 - 1) true acc1

def groupDigits (g : Nat) (sep : Char) (digits : List Char) (minWidth : Int) : List Char :=
  groupLoop g sep (digits.length + minWidth.toNat + 2) digits minWidth false []

def upperHex (c : Char) : Char := if 'a' ≤ c ∧ c ≤ 'f' then Char.ofNat (c.toNat - 32) else c

/-- `format_long_internal` (with `calc_number_widths` / `fill_number`); `ty` is `int` or `bool`. -/
def formatLong (i : Int) (f : FSpec) (t : Char) : Except Exc (List Char) :=
  if f.prec.isSome then .error (valueError "Precision not allowed in integer format specifier")
  else if f.noNeg0 then .error (valueError "Negative zero coercion (z) not allowed in integer format specifier")
  else
    -- (sign_char, prefix, digits, remainder)
    let parts : Except Exc (Bool × List Char × List Char × List Char) :=
      if t = 'c' then
        if f.sign.isSome then .error (valueError "Sign not allowed with integer format specifier 'c'")
        else if f.alt then .error (valueError "Alternate form (#) not allowed with integer format specifier 'c'")
        else if i < -9223372036854775808 ∨ i > 9223372036854775807 then
          .error ⟨"OverflowError", "Python int too large to convert to C long"⟩
        else if i < 0 ∨ i > 1114111 then .error ⟨"OverflowError", "%c arg not in range(0x110000)"⟩
        else if 55296 ≤ i ∧ i ≤ 57343 then .error (outOfDomain "format spec: type c on a surrogate code point")
        else .ok (false, [], [], [Char.ofNat i.toNat])
      else
        let base : Nat := if t = 'b' then 2 else if t = 'o' then 8 else if t = 'x' || t = 'X' then 16 else 10
        let ds := Nat.toDigits base i.natAbs
        let ds := if t = 'X' then ds.map upperHex else ds
        let pre : List Char :=
          if !f.alt then []
          else if t = 'b' then ['0', 'b'] else if t = 'o' then ['0', 'o']
          else if t = 'x' then ['0', 'x'] else if t = 'X' then ['0', 'X'] else []
        .ok (decide (i < 0), pre, ds, [])
    match parts with
    | .error e => .error e
    | .ok (neg, pre, ds, rem) =>
      let signCs : List Char :=
        if neg then ['-']
        else match f.sign with
          | some '+' => ['+']
          | some ' ' => [' ']
          | _ => []
      let align : Char := match f.align with
        | some a => a
        | none => if f.zero then '=' else '>'
      let nonDigit := signCs.length + pre.length + rem.length
      let minWidth : Int := if f.fill = '0' ∧ align = '=' then (f.width : Int) - nonDigit else 0
      let (g, sc) : Nat × Char := match f.sep with
        | none => (0, ',')
        | some c => if c = '_' ∧ (t = 'b' || t = 'o' || t = 'x' || t = 'X') then (4, '_') else (3, c)
      let grouped := if ds = [] then [] else groupDigits g sc ds minWidth
      let nPad := f.width - (nonDigit + grouped.length)
      if align = '<' then .ok (signCs ++ pre ++ grouped ++ rem ++ pad f.fill nPad)
      else if align = '^' then .ok (pad f.fill (nPad / 2) ++ signCs ++ pre ++ grouped ++ rem ++ pad f.fill (nPad - nPad / 2))
      else if align = '=' then .ok (signCs ++ pre ++ pad f.fill nPad ++ grouped ++ rem)
      else .ok (pad f.fill nPad ++ signCs ++ pre ++ grouped ++ rem)

/-- `int.__format__` (`_PyLong_FormatAdvancedWriter`); `ty` is `int` or `bool`. -/
def formatInt (i : Int) (ty : String) (spec : List Char) : Except Exc (List Char) :=
  match parseSpec 'd' spec with
  | .ood why => .error (outOfDomain ("format spec: " ++ why))
  | .invalid => .error (errInvalidSpec spec ty)
  | .err e => .error e
  | .ok f =>
    let t := f.type.getD 'd'
    if t = 'b' || t = 'c' || t = 'd' || t = 'o' || t = 'x' || t = 'X' || t = 'n' then formatLong i f t
    else if floatTypes.contains t then .error (outOfDomain "format spec: float presentation type on an int")
    else .error (errUnknownCode t ty)

def errReprDomainFmt : Exc := errReprDomain

/-- `Formatter.format_field(value, spec)` = `format(value, spec)`. -/
def formatField (v : Val) (spec : List Char) : Except Exc (List Char) :=
  match v with
  | .str s => if spec = [] then .ok s.toList else formatStr s.toList spec
  | .int i => if spec = [] then .ok (intStr i).toList else formatInt i "int" spec
  | .bool b => if spec = [] then .ok (pyStr v).toList else formatInt (if b then 1 else 0) "bool" spec
  | .flt _ _ => if spec = [] then .ok (pyStr v).toList else .error (outOfDomain "format spec on a float")
  | other =>
    if spec = [] then (if strOk other then .ok (pyStr other).toList else .error errReprDomain)
    else .error (typeError ("unsupported format string passed to " ++ typeName other ++ ".__format__"))

/-- The explicit domain predicate of `formatField`: on it the model claims to equal `format(v, spec)`. -/
def specInDomain (v : Val) (spec : List Char) : Bool :=
  match formatField v spec with
  | .error e => e.name != "OutOfDomain"
  | .ok _ => true

/-! ## automatic / manual field numbering -/

def errSwitch : Exc :=
  valueError "cannot switch from manual field specification to automatic field numbering"

/-- The `if field_name == '': … elif field_name.isdigit(): …` block shared by `_vformat` and
    `_format_keep_type`. `auto = none` is Python's `auto_arg_index is False`. -/
def autoNumber (name : List Char) (auto : Option Nat) : Except Exc (List Char × Option Nat) :=
  if name = [] then
    match auto with
    | none => .error errSwitch
    | some n => .ok ((toString n).toList, some (n + 1))
  else if isDigitStr name then
    match auto with
    | some n => if n ≠ 0 then .error errSwitch else .ok (name, none)
    | none => .ok (name, none)
  else .ok (name, auto)

/-! ## the base class `_vformat` (used for nested format specs) -/

def errMaxRecursion : Exc := valueError "Max string recursion exceeded"

/-- The `for … in self.parse(format_string)` loop of `Formatter._vformat`; `recur` is
    `self._vformat(·, …, recursion_depth - 1, auto_arg_index = ·)`. -/
def vLoop (recur : List Char → Option Nat → Except Exc (List Char × Option Nat)) (ctx : Ctx) :
    List Tup → Option Exc → Option Nat → List Char → Except Exc (List Char × Option Nat)
  | [], none, auto, acc => .ok (acc, auto)
  | [], some e, _, _ => .error e
  | t :: ts, perr, auto, acc =>
    match t.field with
    | none => vLoop recur ctx ts perr auto (acc ++ t.lit)
    | some f =>
      match autoNumber f.name auto with
      | .error e => .error e
      | .ok (name, auto1) =>
        match getField ctx name with
        | .error e => .error e
        | .ok obj =>
          match convertField obj f.conv with
          | .error e => .error e
          | .ok obj1 =>
            match recur f.spec auto1 with
            | .error e => .error e
            | .ok (spec, auto2) =>
              match formatField obj1 spec with
              | .error e => .error e
              | .ok txt => vLoop recur ctx ts perr auto2 (acc ++ t.lit ++ txt)

/-- `Formatter._vformat(s, None, ctx, used_args, recursion_depth, auto_arg_index)` with
    `recursion_depth = d - 1` (so `vfmt 0` is the call that raises "Max string recursion exceeded"). -/
def vfmt : Nat → Ctx → List Char → Option Nat → Except Exc (List Char × Option Nat)
  | 0, _, _, _ => .error errMaxRecursion
  | d + 1, ctx, s, auto =>
    let p := parseTuples s
    vLoop (vfmt d ctx) ctx p.1 p.2 auto []

/-! ## `RecursionSpec` and `_format_keep_type` -/

/-- `RecursionSpec(format_spec)`; `conversion` is the `!r !s !a` still to apply when it had to wait
    for the default recursion of a single expression. -/
structure RSpec where
  isRecursive : Bool
  isFlat : Bool
  hasRecursed : Bool
  formatSpec : List Char
  conversion : Option Char := none
  deriving Repr, DecidableEq, Inhabited

def RSpec.parse (spec : List Char) : RSpec :=
  if spec.take 2 = ['r', 'f'] then ⟨true, false, false, spec.drop 2, none⟩
  else if spec.take 2 = ['f', 'f'] then ⟨false, true, false, spec.drop 2, none⟩
  else ⟨false, false, false, spec, none⟩

/-- An element of `result`: `(literal_text, True, None)` or `(obj, False, recursion_spec)`. -/
inductive Entry where
  | lit (t : List Char)
  | fld (obj : Val) (rs : RSpec)
  deriving Repr, Inhabited

/-- The body of `if field_name is not None:` in `_format_keep_type`. `fi isRec v` is
    `self._get_formatted_iterable(v, args, kwargs, used_args, None, isRec)`. -/
def ktField (fi : Bool → Val → Except Exc Val) (ctx : Ctx) (isRec : Bool) (f : FieldT) (auto : Option Nat) :
    Except Exc (Entry × Option Nat) :=
  match autoNumber f.name auto with
  | .error e => .error e
  | .ok (name, auto1) =>
    -- given the field_name, find the object it references
    match getField ctx name with
    | .error e => .error e
    | .ok obj =>
      -- expand the format spec with the base class: recursion_depth - 1 = 1
      match vfmt 2 ctx f.spec auto1 with
      | .error e => .error e
      | .ok (spec, auto2) =>
        let rs := RSpec.parse spec
        -- the resulting object could be formattable itself
        let recursed : Except Exc (Val × RSpec) :=
          if rs.isRecursive || (isRec && !rs.isFlat) then
            match fi true obj with
            | .error e => .error e
            | .ok o => .ok (o, { rs with hasRecursed := true })
          else .ok (obj, rs)
        match recursed with
        | .error e => .error e
        | .ok (obj1, rs1) =>
          -- do any conversion on the resulting object - unless it might still recurse by default
          -- as a single expression: the conversion then applies after that recursion
          if rs1.hasRecursed || rs1.isFlat then
            match convertField obj1 f.conv with
            | .error e => .error e
            | .ok obj2 => .ok (.fld obj2 rs1, auto2)
          else .ok (.fld obj1 { rs1 with conversion := f.conv }, auto2)

/-- The `for literal_text, field_name, format_spec, conversion in self.parse(format_string)` loop. -/
def ktLoop (fi : Bool → Val → Except Exc Val) (ctx : Ctx) (isRec : Bool) :
    List Tup → Option Exc → Option Nat → List Entry → Except Exc (List Entry)
  | [], none, _, result => .ok result
  | [], some e, _, _ => .error e
  | t :: ts, perr, auto, result =>
    let result1 := if t.lit = [] then result else result ++ [.lit t.lit]
    match t.field with
    | none => ktLoop fi ctx isRec ts perr auto result1
    | some f =>
      match ktField fi ctx isRec f auto with
      | .error e => .error e
      | .ok (entry, auto1) => ktLoop fi ctx isRec ts perr auto1 (result1 ++ [entry])

/-- The text one entry contributes to the `''.join([...])`:
    `format_field(convert_field(obj, recursion_spec.conversion), recursion_spec.format_spec)`. -/
def entryText : Entry → Except Exc (List Char)
  | .lit t => .ok t
  | .fld obj rs =>
    match convertField obj rs.conversion with
    | .error e => .error e
    | .ok o => formatField o rs.formatSpec

def joinEntries : List Entry → Except Exc (List Char)
  | [] => .ok []
  | e :: es =>
    match entryText e with
    | .error x => .error x
    | .ok t =>
      match joinEntries es with
      | .error x => .error x
      | .ok ts => .ok (t ++ ts)

/-- Everything after the loop: the `len(result) == 1` rule and the join. -/
def ktFinish (fi : Bool → Val → Except Exc Val) (result : List Entry) : Except Exc Val :=
  match result with
  | [.lit t] => .ok (.str (String.ofList t))
  | [.fld obj rs] =>
    let formatted : Except Exc Val :=
      if !(rs.hasRecursed || rs.isFlat) then
        -- default is go recursive where a single expression is the entire string; a conversion
        -- that waited for this applies now
        match fi rs.isRecursive obj with
        | .error e => .error e
        | .ok o => convertField o rs.conversion
      else .ok obj
    match formatted with
    | .error e => .error e
    | .ok o =>
      if rs.formatSpec ≠ [] then
        match formatField o rs.formatSpec with
        | .error e => .error e
        | .ok t => .ok (.str (String.ofList t))
      else .ok o
  | entries =>
    match joinEntries entries with
    | .error e => .error e
    | .ok t => .ok (.str (String.ofList t))

/-- `_format_keep_type(s, None, ctx, used_args, recursion_depth=2, is_recursive=isRec)` given the
    formatter for nested objects. -/
def keepType (fi : Bool → Val → Except Exc Val) (ctx : Ctx) (isRec : Bool) (s : List Char) : Except Exc Val :=
  let p := parseTuples s
  match ktLoop fi ctx isRec p.1 p.2 (some 0) [] with
  | .error e => .error e
  | .ok result => ktFinish fi result

/-! ## container rebuilds -/

mutual
/-- `hash(v)` works; otherwise the type named in "unhashable type: '…'". -/
def unhashable : Val → Option String
  | .list _ => some "list"
  | .dict _ => some "dict"
  | .set _ => some "set"
  | .sic _ => some "SicString"      -- `__eq__` without `__hash__`
  | .py _ => some "PyString"
  | .jsonify _ => some "Jsonify"
  | .tuple xs => unhashableList xs
  | _ => Option.none
def unhashableList : List Val → Option String
  | [] => Option.none
  | x :: xs => match unhashable x with
    | some t => some t
    | Option.none => unhashableList xs
end

def errUnhashable (t : String) : Exc := typeError ("unhashable type: '" ++ t ++ "'")

/-- `dict.__setitem__` by `==`: an existing key keeps its position and its key object. -/
def dictPut (kvs : List (Val × Val)) (k v : Val) : List (Val × Val) :=
  match kvs with
  | [] => [(k, v)]
  | (k', v') :: rest => if pyEq k' k then (k', v) :: rest else (k', v') :: dictPut rest k v

/-- `obj.__class__((f k, f v) for k, v in obj.items())` for a dict: pairs are formatted and
    inserted one at a time, so an unhashable formatted key fails before later pairs are formatted. -/
def foldPairs (f : Val → Except Exc Val) : List (Val × Val) → List (Val × Val) → Except Exc (List (Val × Val))
  | [], acc => .ok acc
  | (k, v) :: rest, acc =>
    match f k with
    | .error e => .error e
    | .ok k' =>
      match f v with
      | .error e => .error e
      | .ok v' =>
        match unhashable k' with
        | some t => .error (errUnhashable t)
        | none => foldPairs f rest (dictPut acc k' v')

def setPut (xs : List Val) (v : Val) : List Val :=
  if xs.any (fun x => pyEq x v) then xs else xs ++ [v]

/-- `obj.__class__(f v for v in obj)` for a set. -/
def foldSet (f : Val → Except Exc Val) : List Val → List Val → Except Exc (List Val)
  | [], acc => .ok acc
  | v :: rest, acc =>
    match f v with
    | .error e => .error e
    | .ok v' =>
      match unhashable v' with
      | some t => .error (errUnhashable t)
      | none => foldSet f rest (setPut acc v')

def errNotJson : Exc := typeError "Object is not JSON serializable"

/-! ## the recursion -/

mutual
/-- `_get_formatted_iterable(obj, None, ctx, used_args, memo, is_recursive)`.
    Dispatch order as in the code: passthrough types (none configured for `Context.formatter`),
    special tag, str, bytes, Mapping, Sequence/Set, anything else unchanged. -/
def fmtIter : Nat → Ctx → Bool → Val → Except Exc Val
  | 0, _, _, _ => .error outOfFuel
  | fuel + 1, ctx, isRec, v =>
    match v with
    | .sic s => .ok (.str s)                                   -- SicString.get_value
    | .py e => evalPy ctx e                                    -- PyString.get_value → get_eval_string
    | .jsonify w =>                                            -- json.dumps(context.get_formatted_value(value))
      match fmtIter fuel ctx false w with
      | .error e => .error e
      | .ok fw => match jsonDumps fw with
        | some s => .ok (.str s)
        | none => .error errNotJson
    | .str s => fmtKeepType fuel ctx isRec s.toList
    | .bytes _ => .ok v
    | .dict kvs => (foldPairs (fmtIter fuel ctx isRec) kvs []).map .dict
    | .list xs => (mapE (fmtIter fuel ctx isRec) xs).map .list
    | .tuple xs => (mapE (fmtIter fuel ctx isRec) xs).map .tuple
    | .set xs => (foldSet (fmtIter fuel ctx isRec) xs []).map .set
    | other => .ok other

/-- `_format_keep_type(format_string, None, ctx, used_args, recursion_depth=2, is_recursive)`. -/
def fmtKeepType : Nat → Ctx → Bool → List Char → Except Exc Val
  | 0, _, _, _ => .error outOfFuel
  | fuel + 1, ctx, isRec, s => keepType (fun r v => fmtIter fuel ctx r v) ctx isRec s
end

/-- `Context.get_formatted_value(v)` = `self.formatter.vformat(v, None, self)`. -/
def fmtVal (fuel : Nat) (ctx : Ctx) (v : Val) : Except Exc Val := fmtIter fuel ctx false v

/-- `Context.get_formatted_as_type(value, out_type=bool)` for a non-None value. -/
def fmtAsBool (fuel : Nat) (ctx : Ctx) (v : Val) : Except Exc Bool :=
  if isSpecialTag v then
    (fmtIter fuel ctx false v).map Val.truthy
  else match v with
    | .str _ =>
      match fmtIter fuel ctx false v with
      | .error e => .error e
      | .ok (.bool b) => .ok b
      | .ok r => .ok (castToBool r)
    | other => .ok other.truthy

end Pypyr.Format
