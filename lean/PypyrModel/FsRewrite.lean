/-
  C15 — model of pypyr's write-temp-then-rename protocol
  (`pypyr/utils/filesystem.py`: `StreamRewriter.in_to_out`, `ObjectRewriter.in_to_out`,
  `FileRewriter.files_in_to_out`, `move_temp_file`, `remove_temp_file`, `is_same_file`).

  * Directory state `Fs`: path ↦ bytes (an association list; paths are canonical names relative to
    the scratch root, bytes are carried as opaque text — the harness sends hex).
  * The rewrite of one file is the **operation list** the code performs
    (`isSameFile, openRead, mkTemp, fmt/write …, close, replace`), interpreted by `exec` under a
    **fault plan** `Nat → Fault` (what happens at the i-th executed operation: nothing, the operation
    raises, or the process is killed just before it).  `exec` mirrors the `try/except` structure:
    when an operation raises while `outfile` is bound, `remove_temp_file(outfile.name)` runs (itself
    an operation that can fault; its own error is logged and swallowed) and the error is re-raised.
  * `Cfg.cleanupWrite = true` is the code as it is now (fix c58f36c: temp removed when formatting /
    writing / closing fails); `false` is the code before that fix (clean-up only when `os.replace`
    fails) and is kept only for the witness theorem `temp_leak_pre_fix`.
  * `exec` returns the outcome and the directory state after **every** executed operation, so
    "at every instant (operation granularity)" is "for every state in the trace, under every plan".
  * Faults: `raise` = the operation raises an `Exception` (OSError, KeyNotInContextError, …);
    `raiseBase` = it raises a `BaseException` that is NOT an `Exception` (KeyboardInterrupt, SystemExit,
    GeneratorExit, CancelledError); `kill` = the process dies. The clean-up handlers of the protocol are
    `except BaseException:` (fix 66bb5ed; `Cfg.cleanupBase`): both kinds of error remove the temp file and
    propagate. Before that fix they were `except Exception:` — a BaseException passed them by and the temp
    file stayed (`cleanupBase = false`, kept for the witness `base_exception_temp_stays_pre_fix`).
    `remove_temp_file` itself still swallows only `Exception`s of its `os.remove`.
  * The close of the SOURCE file is an operation of its own (`closeIn`): StreamRewriter keeps the source
    open while it writes (`with open(in_path) as infile:` encloses the temp-file block; the source is
    closed between the close of the temp file and `move_temp_file`), ObjectRewriter closes it right
    after `load`, before the temp file is made (`Job.early`). Since 66bb5ed StreamRewriter's
    `with open(in_path)` sits INSIDE the `try` of the in-place branch: a failing close of the source
    removes the temp file like any other failure (`Cfg.closeInTry`; before, it was outside every `try`:
    witness `closeIn_failure_leaves_temp_pre_fix`).
  * `Job.dst`: the in path's last component is a symlink. `open(in_path)` reads the link's target
    (`src`), the temp file is made in the LINK's directory, and `os.replace(temp, in_path)` replaces the
    link itself (entry `dst`) by a regular file; the target keeps its bytes.

  * Same-file-ness is explicit (`Links`): the OS resolves a path *spelling* (relative, absolute, with
    `..`, through symlinked directories or a symlink to the file) to a directory entry (`resolve` =
    realpath) and every directory entry names an inode (`inoOf`); hard links are several entries with
    one inode id. `isSameFileL` (= `os.path.samefile` behind the `isfile` guards) is inode equality
    of the resolved entries; `route` takes the in-place route iff there is no out or out names the
    inode of in — by whatever path. On the direct route `open(out, 'w')` truncates the *inode*: the
    operation carries the other entries that are links to it (`peers`), and every write lands in all
    of them. `runJobsL` threads the link table through the loop (a successful in-place rewrite gives
    the source entry a fresh inode: `os.replace`).
    The older `isSameFile`/`jobOps`/`runJobs` (no link table: a name is its own inode) are the special
    case `Links` empty (`jobOpsL_nolinks`).

  No imports beyond core: the driver links this file.
-/

namespace Pypyr.FsRewrite

/-- Directory state: path ↦ bytes. Names are unique (invariant kept by `set`). -/
abbrev Fs := List (String × String)

namespace Fs

def get? : Fs → String → Option String
  | [], _ => none
  | (k, v) :: rest, p => if k = p then some v else get? rest p

/-- Write a whole file: an existing entry keeps its place, a new entry goes last. -/
def set : Fs → String → String → Fs
  | [], p, c => [(p, c)]
  | (k, v) :: rest, p, c => if k = p then (k, c) :: rest else (k, v) :: set rest p c

/-- `os.remove`. -/
def erase : Fs → String → Fs
  | [], _ => []
  | (k, v) :: rest, p => if k = p then rest else (k, v) :: erase rest p

def names (fs : Fs) : List String := fs.map (·.1)

/-- The same bytes into several entries (the directory entries that are links to one inode). -/
def setMany (fs : Fs) (ps : List String) (c : String) : Fs := ps.foldl (fun f p => set f p c) fs

def contains (fs : Fs) (p : String) : Bool := (get? fs p).isSome

end Fs

/-- What the environment does to the i-th executed operation. `kill`: the process dies just before
    the operation takes effect (dying just after it = dying before the next one). -/
inductive Fault where
  | none
  | raise       -- the operation raises an `Exception`
  | raiseBase   -- it raises a BaseException that is not an Exception (KeyboardInterrupt, SystemExit,
                -- GeneratorExit): caught by the clean-up handlers only since they are `except BaseException:`
  | kill
  deriving DecidableEq, Repr, Inhabited

abbrev Plan := Nat → Fault

/-- No fault anywhere. -/
def Plan.clean : Plan := fun _ => .none

/-- Exactly one fault: kind `k` at operation index `p`. -/
def Plan.single (p : Nat) (k : Fault) : Plan := fun i => if i = p then k else .none

/-- Two faults (used for "rename fails and then the clean-up `os.remove` fails too"). -/
def Plan.double (p : Nat) (k : Fault) (q : Nat) (k' : Fault) : Plan :=
  fun i => if i = p then k else if i = q then k' else .none

/-- Primitive operations of one `in_to_out` call, in the order the code performs them. -/
inductive Op where
  | sameFile                          -- `is_same_file(in_path, out_path)`: stats only
  | openRead (src : String)           -- `open(in_path)` (+ `representer.load` for ObjectRewriter)
  | closeIn                           -- leaving `with open(in_path) … as infile`: close of the source file
  | mkTemp (tmp : String)             -- `NamedTemporaryFile(dir=dirname(in_path), delete=False)`
  | openWrite (out : String) (peers : List String := [])
                                      -- `open(out_path, 'w')` (only when out is another file); `out` is the
                                      -- resolved entry, `peers` the other entries linked to its inode
  | fmt (i : Nat)                     -- formatting of line i / of the whole object (i = 0)
  | write (i : Nat) (chunk : String)  -- `outfile.write(chunk_i)`
  | close                             -- leaving the `with`: flush + close of `outfile`
  | replace (dst : String)            -- `os.replace(outfile.name, infile.name)` in `move_file`; `dst` is the
                                      -- directory entry the in path names (the link itself when it is a symlink)
  deriving DecidableEq, Repr, Inhabited

/-- Operations that occur between opening the output and closing it. -/
def Op.isBody : Op → Bool
  | .fmt _ => true
  | .write _ _ => true
  | _ => false

def Op.isReplace : Op → Bool
  | .replace _ => true
  | _ => false

def Op.isCloseIn : Op → Bool
  | .closeIn => true
  | _ => false

def Op.label : Op → String
  | .sameFile => "sameFile"
  | .openRead _ => "openRead"
  | .closeIn => "closeIn"
  | .mkTemp _ => "mkTemp"
  | .openWrite _ _ => "openWrite"
  | .fmt _ => "fmt"
  | .write _ _ => "write"
  | .close => "close"
  | .replace _ => "replace"

/-- State of one `in_to_out` call. `target` is the file `outfile` writes to; `temp` is
    `outfile.name` when `outfile` is a bound NamedTemporaryFile (`if outfile:` in the handlers). -/
structure St where
  fs : Fs
  target : Option String := none
  temp : Option String := none
  /-- the other directory entries that are hard links to the inode `outfile` writes to -/
  peers : List String := []
  deriving Repr, Inhabited

/-- Effect of an operation that does not fault. `none` = the operation fails by itself
    (source file missing, write without an open target: cannot happen in well-formed lists). -/
def apply : Op → St → Option St
  | .sameFile, st => some st
  | .openRead src, st => if st.fs.contains src then some st else none
  | .mkTemp t, st => some { fs := st.fs.set t "", target := some t, temp := some t, peers := [] }
  | .openWrite o ps, st =>
    some { st with fs := (st.fs.set o "").setMany ps "", target := some o, peers := ps }
  | .fmt _, st => some st
  | .write _ c, st =>
    match st.target with
    | none => none
    | some t => match st.fs.get? t with
      | none => none
      | some old => some { st with fs := (st.fs.set t (old ++ c)).setMany st.peers (old ++ c) }
  | .close, st => some st
  | .closeIn, st => some st
  | .replace dst, st =>
    match st.temp with
    | none => none
    | some t => match st.fs.get? t with
      | none => none
      | some c => some { st with fs := (st.fs.erase t).set dst c }

inductive Outcome where
  | ok
  | raised (at_ : Nat)   -- index of the operation whose error propagates to the caller
  | killed (at_ : Nat)   -- index of the operation the process died at
  deriving DecidableEq, Repr, Inhabited

/-- One entry per executed operation: its label (`!` appended when it raised) and the directory
    state after it. -/
abbrev Trace := List (String × Fs)

structure Cfg where
  /-- the `except Exception: if outfile: remove_temp_file(outfile.name); raise` around the write
      phase (present in the code now; absent before fix c58f36c). -/
  cleanupWrite : Bool := true
  /-- the clean-up handlers (both `in_to_out`s, `move_temp_file`) are `except BaseException:` (the code now,
      fix 66bb5ed); `false`: `except Exception:` — a KeyboardInterrupt / SystemExit / GeneratorExit passes
      them by. -/
  cleanupBase : Bool := true
  /-- StreamRewriter's `with open(in_path)` is inside the `try` of the in-place branch (the code now, fix
      66bb5ed): a failing close of the source file is cleaned up; `false`: it was outside every `try`. -/
  closeInTry : Bool := true
  deriving DecidableEq, Repr, Inhabited

/-- The clean-up clauses (`except BaseException: if outfile: remove_temp_file(outfile.name); raise`):
    operation `i` (= `op`) raised — an `Exception`, or a BaseException when `cfg.cleanupBase` — in state `st`.
    `move_temp_file` always removes the temp when `os.replace` fails; the write phase (formatting, writes,
    the close of the temp file and — `cfg.closeInTry` — the close of the source file) does so when
    `cfg.cleanupWrite`. `remove_temp_file` is operation `i+1`: if its `os.remove` raises an `Exception`,
    that error is logged and swallowed (the temp stays) and the original error propagates; if it raises a
    BaseException, THAT propagates (`except Exception as ex_clean` does not catch it; the temp stays).
    Returns the outcome and the events: the failed operation (label ending in `!`, state unchanged)
    and the clean-up (`removeTemp`, or `removeTemp!` when it failed). -/
def handler (cfg : Cfg) (plan : Plan) (i : Nat) (op : Op) (st : St) : Outcome × Trace :=
  let ev : String × Fs := (op.label ++ "!", st.fs)
  match st.temp with
  | none => (.raised i, [ev])
  | some t =>
    if op.isCloseIn && !cfg.closeInTry then (.raised i, [ev])
    else if op.isReplace || cfg.cleanupWrite then
      match plan (i + 1) with
      | .kill => (.killed (i + 1), [ev])
      | .raise => (.raised i, [ev, ("removeTemp!", st.fs)])
      | .raiseBase => (.raised (i + 1), [ev, ("removeTemp!", st.fs)])
      | .none => (.raised i, [ev, ("removeTemp", st.fs.erase t)])
    else (.raised i, [ev])

/-- Interpret an operation list from index `i` in state `st` under `plan`. Returns the outcome and
    the trace: the directory state after every executed operation (in order). A BaseException
    (`raiseBase`) goes through the same clean-up clauses as an Exception when they are
    `except BaseException:` (`cfg.cleanupBase`, the code now); before 66bb5ed it passed them by: the event of
    the failed operation, nothing else.
    (While an error propagates out of StreamRewriter's `with open(in_path)` the source file is closed
    on the way; that implicit close changes nothing in the directory and is not an operation here.) -/
def exec (cfg : Cfg) (plan : Plan) : Nat → St → List Op → Outcome × Trace
  | _, _, [] => (.ok, [])
  | i, st, op :: rest =>
    match plan i with
    | .kill => (.killed i, [])
    | .raise => handler cfg plan i op st
    | .raiseBase => if cfg.cleanupBase then handler cfg plan i op st else (.raised i, [(op.label ++ "!", st.fs)])
    | .none =>
      match apply op st with
      | none => handler cfg plan i op st
      | some st' =>
        let r := exec cfg plan (i + 1) st' rest
        (r.1, (op.label, st'.fs) :: r.2)

/-- Last state of a trace that started in `fs`. -/
def final (fs : Fs) (tr : Trace) : Fs := (tr.getLast?.map (·.2)).getD fs

/-- Concatenation of the chunks written by a body: the complete new content. -/
def newContent : List Op → String
  | [] => ""
  | .write _ c :: rest => c ++ newContent rest
  | _ :: rest => newContent rest

/-- The operations after the write phase on the in-place route. StreamRewriter (`early = false`): the
    temp file is closed, then the source file (leaving the outer `with`), then `move_temp_file`.
    ObjectRewriter (`early = true`): the source was closed long ago. -/
def tailOps (early : Bool) (dst : String) : List Op :=
  if early then [.close, .replace dst] else [.close, .closeIn, .replace dst]

/-- The operations before the write phase on the in-place route. -/
def headOps (early : Bool) (src tmp : String) : List Op :=
  if early then [.sameFile, .openRead src, .closeIn, .mkTemp tmp] else [.sameFile, .openRead src, .mkTemp tmp]

/-- In-place route: temp file in the directory of the in path, then rename over the entry `dst` the in
    path names (`dst = src` unless the in path's last component is a symlink). -/
def inplaceOps (early : Bool) (src dst tmp : String) (body : List Op) : List Op :=
  headOps early src tmp ++ (body ++ tailOps early dst)

/-- Out is another file: written directly (not claimed to be all-or-nothing). `peers`: the other
    directory entries that are links to the inode of `out`. -/
def directOps (early : Bool) (src out : String) (body : List Op) (peers : List String := []) : List Op :=
  if early then [.sameFile, .openRead src, .closeIn, .openWrite out peers] ++ (body ++ [.close])
  else [.sameFile, .openRead src, .openWrite out peers] ++ (body ++ [.close, .closeIn])

/-- `is_same_file(path1, path2)`: both given, both existing files, same file.
    Paths are canonical names, so "same file" is equality of names. -/
def isSameFile (fs : Fs) (a : String) (b : Option String) : Bool :=
  match b with
  | none => false
  | some b => a != "" && b != "" && fs.contains a && fs.contains b && a == b

/-- One `in_to_out(in_path, out_path)` call. `body` = the fmt/write operations
    (StreamRewriter: `fmt 1, write 1, fmt 2, write 2, …`; ObjectRewriter: `fmt 0, write 1, …`). -/
structure Job where
  src : String
  out : Option String := none
  tmp : String
  body : List Op
  /-- ObjectRewriter: the source file is closed right after `load`, before the temp file exists. -/
  early : Bool := false
  /-- the in path's last component is a symlink: the directory entry of the link itself (where
      `os.replace` lands); `none`: the in path names `src` itself. -/
  dst : Option String := none
  deriving Repr, Inhabited

/-- The directory entry `os.replace(temp, in_path)` lands on. -/
def Job.target (j : Job) : String := j.dst.getD j.src

/-- The routing at the top of `in_to_out`: `if is_same_file(in, out): out_path = None`, then
    `if out_path:` direct `else:` temp + replace. -/
def jobOps (fs : Fs) (j : Job) : List Op :=
  let out := if isSameFile fs j.src j.out then none else j.out
  match out with
  | some o => if o != "" then directOps j.early j.src o j.body else inplaceOps j.early j.src j.target j.tmp j.body
  | none => inplaceOps j.early j.src j.target j.tmp j.body

def runJob (cfg : Cfg) (plan : Plan) (i : Nat) (fs : Fs) (j : Job) : Outcome × Trace :=
  exec cfg plan i { fs := fs } (jobOps fs j)

/-- The loop of `files_in_to_out` over the matched files: one `in_to_out` after the other; the
    first error propagates (later files are not processed). Operation indices run on. -/
def runJobs (cfg : Cfg) (plan : Plan) : Nat → Fs → List Job → Outcome × Trace
  | _, _, [] => (.ok, [])
  | i, fs, j :: js =>
    let r := runJob cfg plan i fs j
    match r.1 with
    | .ok =>
      let r' := runJobs cfg plan (i + (jobOps fs j).length) (final fs r.2) js
      (r'.1, r.2 ++ r'.2)
    | o => (o, r.2)

/-! ### Same-file-ness: path spellings, directory entries, inodes -/

/-- How the OS sees the names of the scratch tree.
    `entry`: path spelling (as handed to the step) ↦ directory entry it resolves to (`realpath`: cwd,
    `.`/`..`, symlinked directories, a symlink to the file); a spelling not listed is its own entry.
    `ino`: directory entry ↦ inode id; hard links = several entries with one id; an entry not listed
    is an inode of its own. -/
structure Links where
  entry : List (String × String) := []
  ino : List (String × Nat) := []
  deriving Repr, Inhabited

namespace Links

def resolve (l : Links) (p : String) : String := (l.entry.lookup p).getD p

def inoOf (l : Links) (p : String) : Option Nat := l.ino.lookup p

/-- `os.path.samefile` on two existing entries: the same entry, or two entries with one inode id. -/
def sameIno (l : Links) (p q : String) : Bool :=
  p == q || (match l.inoOf p, l.inoOf q with
    | some a, some b => a == b
    | _, _ => false)

/-- The other directory entries that are links to the inode of `o`. -/
def peers (l : Links) (o : String) : List String :=
  match l.inoOf o with
  | none => []
  | some n => (l.ino.map (·.1)).filter fun p => p != o && l.inoOf p == some n

/-- An inode id not in use. -/
def fresh (l : Links) : Nat := l.ino.foldl (fun m e => max m e.2) 0 + 1

/-- Entry `p` now names inode `n` (a new file, or `os.replace` onto `p`). -/
def bind (l : Links) (p : String) (n : Nat) : Links :=
  { l with ino := (p, n) :: l.ino.filter (·.1 != p) }

end Links

/-- `is_same_file(path1, path2)`: both given, both resolve to existing files, `os.path.samefile`
    (inode identity of what the two spellings resolve to). -/
def isSameFileL (l : Links) (fs : Fs) (a : String) (b : Option String) : Bool :=
  match b with
  | none => false
  | some b => a != "" && b != "" && fs.contains (l.resolve a) && fs.contains (l.resolve b)
      && l.sameIno (l.resolve a) (l.resolve b)

/-- The routing at the top of `in_to_out`: `none` = temp + replace (in place), `some o` = write
    straight to the entry `o` the out spelling resolves to. -/
def route (l : Links) (fs : Fs) (j : Job) : Option String :=
  let out := if isSameFileL l fs j.src j.out then none else j.out
  match out with
  | some o => if o != "" then some (l.resolve o) else none
  | none => none

/-- `in_to_out(in_path, out_path)` with same-file-ness decided on inodes. `j.src` is the resolved
    entry of the in path (what `open(in_path)` reads and `is_same_file` compares; when the last
    component of the in path is a symlink, `j.dst` is the link's own entry); `j.out` is a spelling. -/
def jobOpsL (l : Links) (fs : Fs) (j : Job) : List Op :=
  match route l fs j with
  | some o => directOps j.early j.src o j.body (l.peers o)
  | none => inplaceOps j.early j.src j.target j.tmp j.body

/-- The link table after a `in_to_out` that ended ok: `os.replace(temp, in_path)` makes the entry the
    in path names hold the temp file's (new) inode; a direct write to a missing `out` creates an inode. -/
def linksAfter (l : Links) (fs : Fs) (j : Job) : Links :=
  match route l fs j with
  | none =>
    match j.dst with
    | none => l.bind j.src l.fresh
    | some d =>
      -- the link `d` is now a regular file of its own: the spelling no longer resolves to the target
      { (l.bind d l.fresh) with entry := l.entry.filter (·.1 != d) }
  | some o => if fs.contains o then l else l.bind o l.fresh

def runJobL (cfg : Cfg) (plan : Plan) (i : Nat) (l : Links) (fs : Fs) (j : Job) : Outcome × Trace :=
  exec cfg plan i { fs := fs } (jobOpsL l fs j)

/-- The loop of `files_in_to_out` with the link table threaded through. -/
def runJobsL (cfg : Cfg) (plan : Plan) : Nat → Links → Fs → List Job → Outcome × Trace
  | _, _, _, [] => (.ok, [])
  | i, l, fs, j :: js =>
    let r := runJobL cfg plan i l fs j
    match r.1 with
    | .ok =>
      let r' := runJobsL cfg plan (i + (jobOpsL l fs j).length) (linksAfter l fs j) (final fs r.2) js
      (r'.1, r.2 ++ r'.2)
    | o => (o, r.2)

/-! ### `files_in_to_out`: what the `out` option means

  The step hands `root_dict.get('out', None)` — after formatting, so `out: '{outDir}'` with
  `outDir == ''` arrives as `''` — to `FileRewriter.files_in_to_out(in_path, out_path)`. The tests are
  TRUTHINESS tests (`if out_path:`), in `files_in_to_out` and again in both `in_to_out`s: an absent out,
  `None` and `''` all mean "no out: edit every in file in place". -/

/-- How `files_in_to_out` reads its `out_path` argument. -/
inductive OutPlan where
  | inplace                 -- `if out_path:` is false (absent, None, ''): `in_to_out(in_path=actual_in)`
  | intoDir (d : String)    -- ends with the separator (`mkdir -p`) or is an existing directory:
                            -- `actual_out = basedir_out.joinpath(actual_in.name)`
  | toFile (f : String)     -- anything else: one destination file (`is_outfile_name_known`)
  | tooMany                 -- … which is `raise Error(…)` when `in` resolved to more than one path
  deriving DecidableEq, Repr, Inhabited

/-- `FileRewriter.is_str_dir` on posix: `s.endswith(os.sep)`. -/
def endsWithSep (s : String) : Bool := s.toList.getLast? == some '/'

/-- The `if out_path:` ladder at the top of `files_in_to_out`. `isDir` = `Path(out_path).is_dir()`
    (a fact about the file system, supplied), `nIn` = `len(in_paths)`. -/
def planOut (out : Option String) (isDir : Bool) (nIn : Nat) : OutPlan :=
  match out with
  | none => .inplace
  | some o =>
    if o = "" then .inplace
    else if endsWithSep o then .intoDir o
    else if isDir then .intoDir o
    else if nIn > 1 then .tooMany
    else .toFile o

/-- `Path(p).name`. -/
def baseName (p : String) : String :=
  String.ofList (p.toList.reverse.takeWhile (· != '/')).reverse

/-- The spelling of `basedir_out.joinpath(name)` the link table is keyed by: trailing separators of
    the directory dropped (`Path()` strips them), an empty rest written `.`. -/
def joinDir (d name : String) : String :=
  let d' := (d.toList.reverse.dropWhile (· == '/')).reverse
  String.ofList ((if d'.isEmpty then ['.'] else d') ++ '/' :: name.toList)

/-- The `out_path` handed to `in_to_out` for the in file `src`. -/
def OutPlan.outFor (p : OutPlan) (src : String) : Option String :=
  match p with
  | .inplace => none
  | .intoDir d => some (joinDir d (baseName src))
  | .toFile f => some f
  | .tooMany => none

def Job.withOut (p : OutPlan) (j : Job) : Job := { j with out := p.outFor j.src }

/-- `files_in_to_out(in_path, out_path)` over the matched files `J` (their own `out` fields are
    ignored: the plan decides). The multi-file-to-one-file error is raised before anything is opened. -/
def runFiles (cfg : Cfg) (plan : Plan) (i : Nat) (l : Links) (fs : Fs)
    (out : Option String) (isDir : Bool) (nIn : Nat) (J : List Job) : Outcome × Trace :=
  match planOut out isDir nIn with
  | .tooMany => (.raised i, [])
  | p => runJobsL cfg plan i l fs (J.map (Job.withOut p))

/-- Body of a StreamRewriter run over the given output chunks (one per line). -/
def streamBody : Nat → List String → List Op
  | _, [] => []
  | i, c :: cs => .fmt i :: .write i c :: streamBody (i + 1) cs

def writes : Nat → List String → List Op
  | _, [] => []
  | i, c :: cs => .write i c :: writes (i + 1) cs

/-- Body of an ObjectRewriter run: the object is formatted as a whole, then serialised in chunks. -/
def objectBody (chunks : List String) : List Op := .fmt 0 :: writes 1 chunks

/-! ### The monitor: the property statement as a decidable predicate over an observation
    (directory before / after, the matched sources with their complete new contents, how the run
    ended). Written from the statement of C15, without reference to `exec`. -/

inductive End where
  | ok | raised | killed
  deriving DecidableEq, Repr, Inhabited

def Outcome.toEnd : Outcome → End
  | .ok => .ok
  | .raised _ => .raised
  | .killed _ => .killed

/-- The basename of `p` starts with `tmp#` (how the harness canonicalises the names
    NamedTemporaryFile picked). -/
def isTempName (p : String) : Bool :=
  let base := (p.toList.reverse.takeWhile (· != '/')).reverse
  ['t', 'm', 'p', '#'].isPrefixOf base

structure Verdict where
  srcWhole : Bool        -- every matched source holds its complete original or a complete new content
  okAllNew : Bool        -- after success every matched source holds its (last) new bytes
  noExtra : Bool         -- after ok / raise: exactly the original entries; after kill: only tmp# extra
  noneMissing : Bool     -- no original entry disappeared
  unmatchedSame : Bool   -- every entry not matched by `in` is byte-identical
  onlyTempExtra : Bool   -- every extra entry is a tmp# entry (however the run ended)
  deriving DecidableEq, Repr, Inhabited

/-- The statement of C15. -/
def Verdict.holds (v : Verdict) : Bool :=
  v.srcWhole && v.okAllNew && v.noExtra && v.noneMissing && v.unmatchedSame

/-- What is left of the statement when the clean-up's own `os.remove` fails too (and, before fix 66bb5ed,
    when the failure was a BaseException or a failing close of the source file): everything except "no
    temporary file left behind" — the only extra entries are temp files. -/
def Verdict.holdsDirty (v : Verdict) : Bool :=
  v.srcWhole && v.okAllNew && v.onlyTempExtra && v.noneMissing && v.unmatchedSame

/-- The new content of the LAST rewrite of `p` in the run (`in` may match a file more than once:
    `get_glob` chains the per-pattern globs without de-duplication). -/
def lastNew (srcs : List (String × String)) (p : String) : Option String :=
  (srcs.reverse.find? (·.1 == p)).map (·.2)

def judge (before after : Fs) (srcs : List (String × String)) (e : End) : Verdict :=
  { srcWhole := srcs.all fun (p, _) =>
      match after.get? p with
      | none => false
      | some c => before.get? p == some c || srcs.any fun (q, new) => q == p && c == new
    okAllNew := e != .ok || srcs.all fun (p, _) => after.get? p == lastNew srcs p
    noExtra := after.names.all fun p =>
      before.contains p || (e == .killed && isTempName p)
    noneMissing := before.names.all fun p => after.contains p
    unmatchedSame := before.all fun (p, c) =>
      (srcs.any fun s => s.1 == p) || after.get? p == some c
    onlyTempExtra := after.names.all fun p => before.contains p || isTempName p }

/-! ### The final move: an atomic replace, or a failure — nothing else

`move_file(temp, in_path)` is `os.replace` and only that: the operation `replace dst` either happens as ONE step
(`apply`: the entry `dst` goes from the complete old bytes to the complete new bytes, the temp entry disappears) or
it faults and the directory is as before (`handler`). This is a HYPOTHESIS about the code, tied statically
(`Generated/FsMove.lean`: the calls `move_file` / `move_temp_file` / `remove_temp_file` make, read by ast;
`Props/C15.lean` `move_file_is_replace_only`) and dynamically (the harness fails the rename with every errno class
and watches every `os.*` / `shutil.*` / `open` call made afterwards). What a move that is NOT of this shape does to
the property is the counter-model below. -/

def Op.isWrite : Op → Bool
  | .write _ _ => true
  | _ => false

/-- NOT pypyr: what a copy fallback does after `os.replace` was refused (EBUSY: the in file is a mount point of
    its own; EXDEV) — `shutil.copyfile(temp, dst)`: open `dst` for writing (truncates the LIVE inode), stream the
    chunks into it, close. (`os.remove(temp)` follows; it is not needed for the witness.) -/
def copyFallbackOps (dst : String) (body : List Op) : List Op :=
  .openWrite dst :: (body.filter Op.isWrite ++ [.close])

/-- NOT pypyr: the in-place route with the refused rename replaced by the copy fallback -/
def inplaceFallbackOps (early : Bool) (src dst tmp : String) (body : List Op) : List Op :=
  headOps early src tmp ++ (body ++ ((if early then [.close] else [.close, .closeIn]) ++ copyFallbackOps dst body))


end Pypyr.FsRewrite
