/-
  `Spec` — what the documentation says formatting does, written independently of the shape of
  the code (no result list of triples, no numbering flags, no `has_recursed` bookkeeping):

  * a format string is a sequence of *parts*: literal text and `{name!conv:spec}` expressions;
  * an expression stands for the object found by following `name` through the context
    (`getField`), converted by `!r !s !a` (`convertField`);
  * `:rf` formats the referenced object recursively first, `:ff` leaves it as it is; inside a
    recursive format every expression is recursive unless it says `:ff`;
  * a string that is exactly one expression yields that object itself — recursively formatted
    unless `:ff` — and only a format spec turns it into text (`formatSingle`);
  * any other string yields text: the literals and `format(object, spec)` of every expression,
    concatenated, each expression formatted one level deep (`formatFlat`).

  The primitives `getField`, `convertField`, `formatField` are Python's own (`obj[key]`,
  `repr/str/ascii`, `format`) and are shared with the code-shaped model; what is independent is
  the control structure. `Props/C08.lean` proves the code-shaped model equal to this.

  `deep r v` is "format the value `v` (recursively when `r`)": for the real formatter it is
  `_get_formatted_iterable(v, …, is_recursive = r)`.

  History: before /repo commit db7f4e2 the code converted a single expression *before* its default
  recursion and so formatted the converted text (`'{d!s}'` with `d = {}` raised TypeError); this spec
  always said "format the object, then convert". Props/C08.lean keeps the old ordering as a labelled
  witness (`single_conversion_formats_converted_text_pre_fix`).

  Error precedence: like the code (and unlike `str.format`) all expressions are resolved before the
  first `format()` call, so a lookup error in a later expression wins over a format-spec error in
  an earlier one. Where both succeed the texts are the same.
-/
import PypyrModel.Format

namespace Pypyr.Format

/-- A part of a format string. -/
inductive Part where
  | lit (t : List Char)
  | fld (f : FieldT)
  deriving Repr, DecidableEq, Inhabited

def Tup.parts (t : Tup) : List Part :=
  (if t.lit = [] then [] else [Part.lit t.lit]) ++
  (match t.field with
   | none => []
   | some f => [Part.fld f])

/-- The parts of a parsed string, in order (empty literals dropped). -/
def parts : List Tup → List Part
  | [] => []
  | t :: ts => t.parts ++ parts ts

namespace Spec

def isRf (spec : List Char) : Bool := spec.take 2 = ['r', 'f']
def isFf (spec : List Char) : Bool := spec.take 2 = ['f', 'f']
/-- the format spec proper: what follows a leading `rf` / `ff` -/
def specBody (spec : List Char) : List Char := if isRf spec || isFf spec then spec.drop 2 else spec

/-- The object an expression of a mixed string stands for, and the conversion still pending on it:
    `:rf` (or an enclosing recursive format, unless `:ff`) formats the referenced object recursively
    and converts the result; `:ff` converts the object as it is; a plain expression is converted
    when the text is put together (which only matters for which error comes first). -/
def fieldObj (deep : Bool → Val → Except Exc Val) (ctx : Ctx) (isRec : Bool) (f : FieldT) :
    Except Exc (Val × Option Char) := do
  let obj ← getField ctx f.name
  if isRf f.spec || (isRec && !isFf f.spec) then do
    let o ← deep true obj
    let o ← convertField o f.conv
    pure (o, none)
  else if isFf f.spec then do
    let o ← convertField obj f.conv
    pure (o, none)
  else pure (obj, f.conv)

/-- A string that is exactly one expression: the referenced object itself, recursively formatted
    (unless `:ff`), then converted if a conversion is given, and turned into text only by a format
    spec. The recursive flag is on for `:rf` and inside a recursive format. -/
def formatSingle (deep : Bool → Val → Except Exc Val) (ctx : Ctx) (isRec : Bool) (f : FieldT) : Except Exc Val := do
  let obj ← getField ctx f.name
  let obj ← if isFf f.spec then pure obj else deep (isRf f.spec || isRec) obj
  let obj ← convertField obj f.conv
  if specBody f.spec = [] then pure obj
  else do
    let t ← formatField obj (specBody f.spec)
    pure (.str (String.ofList t))

/-- phase 1 of a mixed string: resolve every expression, left to right -/
def resolve (deep : Bool → Val → Except Exc Val) (ctx : Ctx) (isRec : Bool) :
    List Part → Except Exc (List (List Char ⊕ (Val × Option Char × List Char)))
  | [] => pure []
  | .lit t :: ps => do
    let rest ← resolve deep ctx isRec ps
    pure (.inl t :: rest)
  | .fld f :: ps => do
    let (obj, pending) ← fieldObj deep ctx isRec f
    let rest ← resolve deep ctx isRec ps
    pure (.inr (obj, pending, specBody f.spec) :: rest)

/-- phase 2: the text — `format(convert(object), spec)` of every expression between the literals -/
def render : List (List Char ⊕ (Val × Option Char × List Char)) → Except Exc (List Char)
  | [] => pure []
  | .inl t :: rs => do
    let rest ← render rs
    pure (t ++ rest)
  | .inr (obj, pending, spec) :: rs => do
    let o ← convertField obj pending
    let t ← formatField o spec
    let rest ← render rs
    pure (t ++ rest)

/-- Text and expressions mixed (or several expressions, or nothing at all): a str. -/
def formatFlat (deep : Bool → Val → Except Exc Val) (ctx : Ctx) (isRec : Bool) (ps : List Part) : Except Exc Val := do
  let rs ← resolve deep ctx isRec ps
  let t ← render rs
  pure (.str (String.ofList t))

/-- The documented result of formatting a string whose parts are `ps`. -/
def format (deep : Bool → Val → Except Exc Val) (ctx : Ctx) (isRec : Bool) (ps : List Part) : Except Exc Val :=
  match ps with
  | [.lit t] => pure (.str (String.ofList t))
  | [.fld f] => formatSingle deep ctx isRec f
  | ps => formatFlat deep ctx isRec ps

/-- Python's own `str.format` over the context, one level deep: what a mixed string without
    `rf` means. Nothing referenced is formatted again — `deep` is never consulted. -/
def pyFormat (ctx : Ctx) (ps : List Part) : Except Exc Val :=
  formatFlat (fun _ v => pure v) ctx false ps

end Spec

end Pypyr.Format
