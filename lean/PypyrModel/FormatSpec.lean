/-
  `Spec` — what the documentation says formatting does, written independently of the shape of
  the code (no result list of triples, no numbering flags, no `has_recursed` bookkeeping):

  * a format string is a sequence of *parts*: literal text and `{name!conv:spec}` expressions;
  * the `spec` of an expression may itself contain expressions (`{x:>{w}}`): it is expanded first, by
    Python's own flat rules (`expandSpec`) — `rf` / `ff` and the format spec proper are read off the
    expanded text;
  * an expression stands for the object found by following `name` through the context
    (`getField`), converted by `!r !s !a` (`convertField`);
  * `:rf` formats the referenced object recursively first, `:ff` leaves it as it is; inside a
    recursive format every expression is recursive unless it says `:ff`;
  * a string that is exactly one expression yields that object itself — recursively formatted
    unless `:ff` — and only a format spec turns it into text (`formatSingle`);
  * any other string yields text: the literals and `format(object, spec)` of every expression,
    concatenated, each expression formatted one level deep (`formatFlat`).

  The primitives `getField`, `convertField`, `formatField` are Python's own (`obj[key]`,
  `repr/str/ascii`, `format`) and are shared with the code-shaped model; what is independent is
  the control structure. `Props/C08.lean` proves the code-shaped model equal to this.

  `deep r v` is "format the value `v` (recursively when `r`)": for the real formatter it is
  `_get_formatted_iterable(v, …, is_recursive = r)`.

  History: before /repo commit db7f4e2 the code converted a single expression *before* its default
  recursion and so formatted the converted text (`'{d!s}'` with `d = {}` raised TypeError); this spec
  always said "format the object, then convert". Props/C08.lean keeps the old ordering as a labelled
  witness (`single_conversion_formats_converted_text_pre_fix`).

  Error precedence: like the code (and unlike `str.format`) all expressions are resolved before the
  first `format()` call, so a lookup error in a later expression wins over a format-spec error in
  an earlier one. Where both succeed the texts are the same.
-/
import PypyrModel.Format

namespace Pypyr.Format

/-- A part of a format string. -/
inductive Part where
  | lit (t : List Char)
  | fld (f : FieldT)
  deriving Repr, DecidableEq, Inhabited

def Tup.parts (t : Tup) : List Part :=
  (if t.lit = [] then [] else [Part.lit t.lit]) ++
  (match t.field with
   | none => []
   | some f => [Part.fld f])

/-- The parts of a parsed string, in order (empty literals dropped). -/
def parts : List Tup → List Part
  | [] => []
  | t :: ts => t.parts ++ parts ts

namespace Spec

def isRf (spec : List Char) : Bool := spec.take 2 = ['r', 'f']
def isFf (spec : List Char) : Bool := spec.take 2 = ['f', 'f']
/-- the format spec proper: what follows a leading `rf` / `ff` -/
def specBody (spec : List Char) : List Char := if isRf spec || isFf spec then spec.drop 2 else spec

/-! ### replacement fields nested in a format spec

A format spec is itself a format string of Python's *own* formatter (no `rf`/`ff`, no type keeping):
`{x:>{w}}` pads to the width found at `w`. A field nested in a spec may have a spec of its own
(`{x:{w:>3}}`), but that one is the last level: a field in it is still looked up and converted, and
then fails, because expanding *its* spec — even an empty one, CPython's depth check comes first —
raises "Max string recursion exceeded".
Nothing here is numbered: an empty or all-digit name inside a spec refers to the positional
arguments, of which formatting with a context has none, so `getField` fails on it.

The parser is lazy, so the parts read before a syntax error are expanded before the error surfaces:
the first failing lookup / conversion / `format()` wins, a syntax error comes last. -/

/-- the text a field nested in a format spec stands for: `format(convert(lookup), expanded inner spec)` -/
def nestedField (ctx : Ctx) (inner : List Char → Except Exc (List Char)) (f : FieldT) : Except Exc (List Char) := do
  -- `{}` inside a spec is the positional argument 0
  let obj ← getField ctx (if f.name = [] then ['0'] else f.name)
  let obj ← convertField obj f.conv
  let spec ← inner f.spec
  formatField obj spec

/-- literals (with `{{`/`}}` unescaped by the parser) and nested fields, concatenated left to right -/
def expandParts (ctx : Ctx) (inner : List Char → Except Exc (List Char)) : List Part → Except Exc (List Char)
  | [] => pure []
  | .lit t :: ps => do
    let rest ← expandParts ctx inner ps
    pure (t ++ rest)
  | .fld f :: ps => do
    let t ← nestedField ctx inner f
    let rest ← expandParts ctx inner ps
    pure (t ++ rest)

/-- one level of expansion of the text `s`, the specs of its fields expanded by `inner` -/
def expandText (ctx : Ctx) (inner : List Char → Except Exc (List Char)) (s : List Char) : Except Exc (List Char) := do
  let t ← expandParts ctx inner (parts (parseTuples s).1)
  match (parseTuples s).2 with
  | some e => throw e
  | none => pure t

/-- **The expanded format spec** of a top-level expression: nested fields, whose own specs are expanded
    with "Max string recursion exceeded" for every field in them. -/
def expandSpec (ctx : Ctx) (spec : List Char) : Except Exc (List Char) :=
  expandText ctx (expandText ctx (fun _ => .error errMaxRecursion)) spec

/-! ### one expression -/

/-- What an expression of a mixed string stands for, once its object `obj` is found and its format spec
    expanded to `spec`: the object, the conversion still pending on it, and the spec.
    `:rf` (or an enclosing recursive format, unless `:ff`) formats the referenced object recursively
    and converts the result; `:ff` converts the object as it is; a plain expression is converted
    when the text is put together (which only matters for which error comes first). -/
def applyMode (deep : Bool → Val → Except Exc Val) (isRec : Bool) (conv : Option Char) (obj : Val)
    (spec : List Char) : Except Exc (Val × Option Char × List Char) :=
  if isRf spec || (isRec && !isFf spec) then do
    let o ← deep true obj
    let o ← convertField o conv
    pure (o, none, spec)
  else if isFf spec then do
    let o ← convertField obj conv
    pure (o, none, spec)
  else pure (obj, conv, spec)

/-- An expression of a mixed string: look the object up, expand the format spec (`rf` / `ff` are read
    off the *expanded* spec: `{s:{k}}` with `k = 'rf'` is recursive), then by mode. -/
def fieldObj (deep : Bool → Val → Except Exc Val) (ctx : Ctx) (isRec : Bool) (f : FieldT) :
    Except Exc (Val × Option Char × List Char) := do
  let obj ← getField ctx f.name
  let spec ← expandSpec ctx f.spec
  applyMode deep isRec f.conv obj spec

/-- A single expression whose object is `obj` and whose expanded spec is `spec`: the object itself,
    recursively formatted (unless `:ff`), then converted if a conversion is given, and turned into
    text only by a format spec. The recursive flag is on for `:rf` and inside a recursive format. -/
def singleObj (deep : Bool → Val → Except Exc Val) (isRec : Bool) (conv : Option Char) (obj : Val)
    (spec : List Char) : Except Exc Val := do
  let obj ← if isFf spec then pure obj else deep (isRf spec || isRec) obj
  let obj ← convertField obj conv
  if specBody spec = [] then pure obj
  else do
    let t ← formatField obj (specBody spec)
    pure (.str (String.ofList t))

/-- A string that is exactly one expression. -/
def formatSingle (deep : Bool → Val → Except Exc Val) (ctx : Ctx) (isRec : Bool) (f : FieldT) : Except Exc Val := do
  let obj ← getField ctx f.name
  let spec ← expandSpec ctx f.spec
  singleObj deep isRec f.conv obj spec

/-- phase 1 of a mixed string: resolve every expression, left to right -/
def resolve (deep : Bool → Val → Except Exc Val) (ctx : Ctx) (isRec : Bool) :
    List Part → Except Exc (List (List Char ⊕ (Val × Option Char × List Char)))
  | [] => pure []
  | .lit t :: ps => do
    let rest ← resolve deep ctx isRec ps
    pure (.inl t :: rest)
  | .fld f :: ps => do
    let (obj, pending, spec) ← fieldObj deep ctx isRec f
    let rest ← resolve deep ctx isRec ps
    pure (.inr (obj, pending, specBody spec) :: rest)

/-- phase 2: the text — `format(convert(object), spec)` of every expression between the literals -/
def render : List (List Char ⊕ (Val × Option Char × List Char)) → Except Exc (List Char)
  | [] => pure []
  | .inl t :: rs => do
    let rest ← render rs
    pure (t ++ rest)
  | .inr (obj, pending, spec) :: rs => do
    let o ← convertField obj pending
    let t ← formatField o spec
    let rest ← render rs
    pure (t ++ rest)

/-- Text and expressions mixed (or several expressions, or nothing at all): a str. -/
def formatFlat (deep : Bool → Val → Except Exc Val) (ctx : Ctx) (isRec : Bool) (ps : List Part) : Except Exc Val := do
  let rs ← resolve deep ctx isRec ps
  let t ← render rs
  pure (.str (String.ofList t))

/-- The documented result of formatting a string whose parts are `ps`. -/
def format (deep : Bool → Val → Except Exc Val) (ctx : Ctx) (isRec : Bool) (ps : List Part) : Except Exc Val :=
  match ps with
  | [.lit t] => pure (.str (String.ofList t))
  | [.fld f] => formatSingle deep ctx isRec f
  | ps => formatFlat deep ctx isRec ps

/-- Python's own `str.format` over the context, one level deep: what a mixed string without
    `rf` means. Nothing referenced is formatted again — `deep` is never consulted. -/
def pyFormat (ctx : Ctx) (ps : List Part) : Except Exc Val :=
  formatFlat (fun _ v => pure v) ctx false ps

end Spec

end Pypyr.Format
