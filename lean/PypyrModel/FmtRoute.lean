/-
  The CLASSIFIER of `RecursiveFormatter._get_formatted_iterable` (pypyr/formatting.py): which `isinstance`
  answer routes an object to which branch. The formatter never looks at what an object can DO (`__len__`,
  `__iter__`, `__contains__`, `__getitem__`, `keys` …): only at what `isinstance` says against str,
  bytes / bytearray, the configured special / passthrough types and the three collections.abc classes Mapping,
  Sequence, Set - which match by inheritance or explicit registration only (no structural `__subclasshook__`).
  Everything else is a leaf and is returned as the identical object.
-/
import PypyrModel.FmtHeap

namespace Pypyr.FmtRoute
open Pypyr.FmtHeap

/-- What `isinstance(obj, …)` answers for one object, one field per class the ladder tests. -/
structure Tags where
  passthrough : Bool := false      -- `self.passthrough_types and isinstance(obj, self.passthrough_types)`
  special : Bool := false          -- `self.special_types and isinstance(obj, self.special_types)`
  str : Bool := false
  bytes : Bool := false            -- bytes or bytearray
  mapping : Bool := false          -- collections.abc.Mapping
  sequence : Bool := false         -- collections.abc.Sequence
  set : Bool := false              -- collections.abc.Set
  deriving DecidableEq, Repr, Inhabited

/-- What the object's class defines: NOT an input of the routing (see `route_ignores_attrs`). -/
structure Attrs where
  len : Bool := false
  iter : Bool := false
  contains : Bool := false
  getitem : Bool := false
  keys : Bool := false
  deriving DecidableEq, Repr, Inhabited

inductive Branch where
  | passthrough      -- `new = obj`
  | special          -- `new = obj.get_value(kwargs)`
  | format           -- `new = self._format_keep_type(obj, …)`: the whole string is parsed and formatted
  | bytesLeaf        -- `new = obj`
  | mapping          -- `new = obj.__class__((rec k, rec v) for k, v in obj.items())`
  | iterable         -- `new = obj.__class__(rec v for v in obj)`
  | leaf             -- `return obj`
  deriving DecidableEq, Repr, Inhabited

/-- THE ROUTING TABLE the models assume (order matters: passthrough > special > str > bytes > Mapping >
    Sequence-or-Set > leaf). -/
def route (t : Tags) : Branch :=
  if t.passthrough then .passthrough
  else if t.special then .special
  else if t.str then .format
  else if t.bytes then .bytesLeaf
  else if t.mapping then .mapping
  else if t.sequence || t.set then .iterable
  else .leaf

structure Obj where
  tags : Tags
  attrs : Attrs
  deriving DecidableEq, Repr, Inhabited

def routeObj (o : Obj) : Branch := route o.tags

/-- COUNTER-MODEL (not pypyr): the Sequence-or-Set rung replaced by `collections.abc.Collection`, whose
    `__subclasshook__` is structural: any class defining `__len__`, `__iter__` and `__contains__` matches. -/
def routeCollection (o : Obj) : Branch :=
  if o.tags.passthrough then .passthrough
  else if o.tags.special then .special
  else if o.tags.str then .format
  else if o.tags.bytes then .bytesLeaf
  else if o.tags.mapping then .mapping
  else if o.tags.sequence || o.tags.set || (o.attrs.len && o.attrs.iter && o.attrs.contains) then .iterable
  else .leaf

/-! ## the ladder as source text (what `harness/props/c09.py extract` reads by ast) -/

/-- The ladder the classifier assumes, in the extractor's vocabulary. -/
def ladderAssumed : List (List String × String) :=
  [(["self.passthrough_types"], "new = obj"),
   (["self.special_types"], "new = obj.get_value(kwargs)"),
   (["str"], "new = self._format_keep_type(obj, ...)"),
   (["bytes", "bytearray"], "new = obj"),
   (["Mapping"], "new = obj.__class__((rec(k), rec(v)) for (k, v) in obj.items())"),
   (["Sequence", "Set"], "new = obj.__class__(rec(v) for v in obj)")]

def elseAssumed : String := "return obj"

def originsAssumed : List (String × String) :=
  [("Mapping", "collections.abc.Mapping"), ("Sequence", "collections.abc.Sequence"), ("Set", "collections.abc.Set")]

/-- `isinstance(obj, <class name>)` under the tags. A name the model does not know answers `none`. -/
def holds (t : Tags) (cls : String) : Option Bool :=
  if cls == "self.passthrough_types" then some t.passthrough
  else if cls == "self.special_types" then some t.special
  else if cls == "str" then some t.str
  else if cls == "bytes" || cls == "bytearray" then some t.bytes
  else if cls == "Mapping" then some t.mapping
  else if cls == "Sequence" then some t.sequence
  else if cls == "Set" then some t.set
  else none

/-- The branch a rung's body is, read from (tested classes, body text). -/
def branchOf (names : List String) (body : String) : Option Branch :=
  if body == "return obj" then some .leaf
  else if body == "new = obj.get_value(kwargs)" then some .special
  else if body == "new = self._format_keep_type(obj, ...)" then some .format
  else if body == "new = obj.__class__((rec(k), rec(v)) for (k, v) in obj.items())" then some .mapping
  else if body == "new = obj.__class__(rec(v) for v in obj)" then some .iterable
  else if body == "new = obj" then
    (if names == ["self.passthrough_types"] then some .passthrough else some .bytesLeaf)
  else none

def anyHolds (t : Tags) : List String → Option Bool
  | [] => some false
  | c :: cs =>
    match holds t c, anyHolds t cs with
    | some a, some b => some (a || b)
    | _, _ => none

/-- Interpreter of an extracted ladder: the first rung one of whose classes matches. `none`: the ladder has a
    test or a body outside the vocabulary (the model does not speak about such a tree). -/
def routeBy (els : String) (t : Tags) : List (List String × String) → Option Branch
  | [] => branchOf [] els
  | (names, body) :: rest =>
    match anyHolds t names with
    | none => none
    | some true => branchOf names body
    | some false => routeBy els t rest

/-! ## the heap model's cells under the classifier -/

/-- The `isinstance` answers of the object a heap cell stands for. -/
def cellTags : Cell → Tags
  | .leaf (.bytes _) => { bytes := true }
  | .leaf _ => {}
  | .mbytes _ => { bytes := true }
  | .str _ => { str := true }
  | .list _ _ => { sequence := true }
  | .tuple _ _ => { sequence := true }
  | .dict _ _ => { mapping := true }
  | .set _ _ => { set := true }
  | .sic _ => { special := true }
  | .pyName _ => { special := true }
  | .jsonify _ => { special := true }

end Pypyr.FmtRoute
