/-
  Faithful model of CPython's format-string parser as `string.Formatter` (and so
  pypyr's `RecursiveFormatter`) uses it:

  * `parseTuples`  — `_string.formatter_parser` (Objects/stringlib/unicode_format.h:
                     `MarkupIterator_next` + `parse_field`), including every error
                     message and the rule that `[`…`]` in a field name hides `:` `!` `{` `}`.
  * `splitField`   — `_string.formatter_field_name_split` (`field_name_split`,
                     `FieldNameIterator_next`, `_FieldNameIterator_attr/_item`, `get_integer`).

  Both C functions are *lazy iterators*: the tuples (accessors) produced before a
  syntax error are consumed by the caller before the error surfaces, so a lookup error
  in an earlier field wins over a syntax error further right. The model therefore
  returns the produced prefix **and** the optional error: `List Tup × Option Exc`.

  Each parser is a state machine folded over the characters (`List.foldl step`); the
  states are the program points of the C code at which a character is read, so there is
  no fuel and every proof about the parser is an induction over the text.
  The behaviour of both machines was tabulated against CPython 3.12 exhaustively for all
  strings of length ≤ 7 over the alphabet `{ } [ ] . : ! a 0 space`.
-/
import PypyrModel.Val
import PypyrModel.Fmt

namespace Pypyr.Format

/-- A replacement field as the parser yields it: `(field_name, format_spec, conversion)`. -/
structure FieldT where
  name : List Char
  spec : List Char
  conv : Option Char
  deriving Repr, DecidableEq, Inhabited

/-- One tuple of `formatter_parser`: `(literal_text, field_name, format_spec, conversion)`;
    `field = none` is CPython's `field_name is None`. -/
structure Tup where
  lit : List Char
  field : Option FieldT
  deriving Repr, DecidableEq, Inhabited

/-- Program points of `MarkupIterator_next` / `parse_field` at which the next character is read. -/
inductive PSt where
  /-- scanning literal text (`while (self->str.start < self->str.end)` of MarkupIterator_next) -/
  | lit (out : List Tup) (acc : List Char)
  /-- just read a `{` in literal text: the next character decides escape vs markup -/
  | opened (out : List Tup) (acc : List Char)
  /-- just read a `}` in literal text: the next character must be `}` -/
  | closed (out : List Tup) (acc : List Char)
  /-- `parse_field`, field-name loop; `inBr` = inside the `for` that skips to `]` -/
  | name (out : List Tup) (lit : List Char) (acc : List Char) (inBr : Bool)
  /-- just read `!`: the next character is the conversion -/
  | bang (out : List Tup) (lit : List Char) (nm : List Char)
  /-- conversion read: the next character must be `}` or `:` -/
  | conv (out : List Tup) (lit : List Char) (nm : List Char) (cv : Char)
  /-- format-spec loop with its brace counter -/
  | spec (out : List Tup) (lit : List Char) (nm : List Char) (cv : Option Char) (count : Nat) (acc : List Char)
  /-- an error has been set; the tuples yielded before it stay available -/
  | failed (out : List Tup) (e : Exc)
  deriving Repr, Inhabited

def errSingleClose : Exc := valueError "Single '}' encountered in format string"
def errSingleOpen : Exc := valueError "Single '{' encountered in format string"
def errExpectedClose : Exc := valueError "expected '}' before end of string"
def errUnmatched : Exc := valueError "unmatched '{' in format spec"
def errOpenInName : Exc := valueError "unexpected '{' in field name"
def errConvEnd : Exc := valueError "end of string while looking for conversion specifier"
def errConvColon : Exc := valueError "expected ':' after conversion specifier"

/-- One character of the field-name loop of `parse_field` (outside `[`…`]`). -/
def stepName (out : List Tup) (lit acc : List Char) (c : Char) : PSt :=
  if c = '{' then .failed out errOpenInName
  else if c = '[' then .name out lit (acc ++ [c]) true
  else if c = '}' then .lit (out ++ [⟨lit, some ⟨acc, [], none⟩⟩]) []
  else if c = ':' then .spec out lit acc none 1 []
  else if c = '!' then .bang out lit acc
  else .name out lit (acc ++ [c]) false

/-- Consume one character. -/
def step : PSt → Char → PSt
  | .lit out acc, c =>
    if c = '{' then .opened out acc
    else if c = '}' then .closed out acc
    else .lit out (acc ++ [c])
  | .opened out acc, c =>
    -- `{{`: escaped, the literal (with one brace) is yielded without markup
    if c = '{' then .lit (out ++ [⟨acc ++ ['{'], none⟩]) []
    else stepName out acc [] c
  | .closed out acc, c =>
    if c = '}' then .lit (out ++ [⟨acc ++ ['}'], none⟩]) []
    else .failed out errSingleClose
  | .name out lit acc false, c => stepName out lit acc c
  | .name out lit acc true, c => .name out lit (acc ++ [c]) (if c = ']' then false else true)
  | .bang out lit nm, c => .conv out lit nm c
  | .conv out lit nm cv, c =>
    if c = '}' then .lit (out ++ [⟨lit, some ⟨nm, [], some cv⟩⟩]) []
    else if c = ':' then .spec out lit nm (some cv) 1 []
    else .failed out errConvColon
  | .spec out lit nm cv count acc, c =>
    if c = '{' then .spec out lit nm cv (count + 1) (acc ++ [c])
    else if c = '}' then
      if count = 1 then .lit (out ++ [⟨lit, some ⟨nm, acc, cv⟩⟩]) []
      else .spec out lit nm cv (count - 1) (acc ++ [c])
    else .spec out lit nm cv count (acc ++ [c])
  | .failed out e, _ => .failed out e

/-- End of input at each program point. -/
def finish : PSt → List Tup × Option Exc
  | .lit out acc => (if acc = [] then out else out ++ [⟨acc, none⟩], none)
  | .opened out _ => (out, some errSingleOpen)
  | .closed out _ => (out, some errSingleClose)
  | .name out _ _ _ => (out, some errExpectedClose)
  | .bang out _ _ => (out, some errConvEnd)
  | .conv out _ _ _ => (out, some errUnmatched)
  | .spec out _ _ _ _ _ => (out, some errUnmatched)
  | .failed out e => (out, some e)

def run (st : PSt) (cs : List Char) : PSt := cs.foldl step st

/-- `_string.formatter_parser(s)`: the tuples yielded, then the error (if any) raised on the
    following `next()`. -/
def parseTuples (s : List Char) : List Tup × Option Exc := finish (run (.lit [] []) s)

/-- What `_format_keep_type` / `_vformat` make of the tuples: non-empty literal text, then the field. -/
inductive Piece where
  | lit (s : String)
  | field (name : String) (conv : Option Char) (spec : String)
  deriving Repr, DecidableEq, Inhabited

def Tup.pieces (t : Tup) : List Piece :=
  (if t.lit = [] then [] else [Piece.lit (String.ofList t.lit)]) ++
  (match t.field with
   | none => []
   | some f => [Piece.field (String.ofList f.name) f.conv (String.ofList f.spec)])

def toPieces : List Tup → List Piece
  | [] => []
  | t :: ts => t.pieces ++ toPieces ts

/-- `list(string.Formatter().parse(s))` flattened to pieces, or the `ValueError` it raises. -/
def parseFmt (s : String) : Except Exc (List Piece) :=
  match parseTuples s.toList with
  | (_, some e) => .error e
  | (ts, none) => .ok (toPieces ts)

/-! ## field names -/

/-- An item key / first name: all-decimal-digit text is an `int` (`get_integer`). -/
inductive Key where
  | int (n : Nat)
  | str (s : List Char)
  deriving Repr, DecidableEq, Inhabited

inductive Accessor where
  | attr (n : List Char)
  | item (k : Key)
  deriving Repr, DecidableEq, Inhabited

def errTooManyDigits : Exc := valueError "Too many decimal digits in format string"
def errEmptyAttr : Exc := valueError "Empty attribute in format string"
def errMissingBracket : Exc := valueError "Missing ']' in format string"
def errAfterBracket : Exc := valueError "Only '.' or '[' may follow ']' in format field specifier"

def isAsciiDigit (c : Char) : Bool := decide ('0' ≤ c) && decide (c ≤ '9')

def getIntegerGo : List Char → Nat → Except Exc (Option Nat)
  | [], acc => .ok (some acc)
  | c :: rest, acc =>
    if isAsciiDigit c then
      let d := c.toNat - 48
      if acc > (9223372036854775807 - d) / 10 then .error errTooManyDigits
      else getIntegerGo rest (acc * 10 + d)
    else .ok none

/-- `get_integer`: `some n` for non-empty all-digit text, `none` (C: -1) otherwise; overflow of
    `Py_ssize_t` is the ValueError. (Non-ASCII decimal digits: outside the modelled domain.) -/
def getInteger (cs : List Char) : Except Exc (Option Nat) :=
  if cs = [] then .ok none else getIntegerGo cs 0

def keyOf (cs : List Char) : Except Exc Key :=
  match getInteger cs with
  | .error e => .error e
  | .ok (some n) => .ok (.int n)
  | .ok none => .ok (.str cs)

/-- Program points of `field_name_split` / `FieldNameIterator_next`. -/
inductive SSt where
  | first (acc : List Char)
  | attr (first : List Char) (out : List Accessor) (acc : List Char)
  | item (first : List Char) (out : List Accessor) (acc : List Char)
  | afterItem (first : List Char) (out : List Accessor)
  | failed (first : List Char) (out : List Accessor) (e : Exc)
  deriving Repr, Inhabited

def sstep : SSt → Char → SSt
  | .first acc, c =>
    if c = '[' then .item acc [] []
    else if c = '.' then .attr acc [] []
    else .first (acc ++ [c])
  | .attr fst out acc, c =>
    if c = '.' ∨ c = '[' then
      if acc = [] then .failed fst out errEmptyAttr
      else if c = '.' then .attr fst (out ++ [.attr acc]) []
      else .item fst (out ++ [.attr acc]) []
    else .attr fst out (acc ++ [c])
  | .item fst out acc, c =>
    if c = ']' then
      if acc = [] then .failed fst out errEmptyAttr
      else match keyOf acc with
        | .error e => .failed fst out e
        | .ok k => .afterItem fst (out ++ [.item k])
    else .item fst out (acc ++ [c])
  | .afterItem fst out, c =>
    if c = '.' then .attr fst out []
    else if c = '[' then .item fst out []
    else .failed fst out errAfterBracket
  | .failed fst out e, _ => .failed fst out e

def sfinish : SSt → List Char × List Accessor × Option Exc
  | .first acc => (acc, [], none)
  | .attr fst out acc => if acc = [] then (fst, out, some errEmptyAttr) else (fst, out ++ [.attr acc], none)
  | .item fst out _ => (fst, out, some errMissingBracket)
  | .afterItem fst out => (fst, out, none)
  | .failed fst out e => (fst, out, some e)

/-- `formatter_field_name_split(name)`: the text of `first`, the accessors the `rest` iterator
    yields, and the error raised by it afterwards (if any). -/
def splitRaw (name : List Char) : List Char × List Accessor × Option Exc :=
  sfinish (name.foldl sstep (.first []))

/-- `first, rest = formatter_field_name_split(name)`. The integer conversion of `first` happens
    eagerly inside the call (so its overflow error precedes every lookup). -/
def splitField (name : List Char) : Except Exc (Key × List Accessor × Option Exc) :=
  let (fst, accs, err) := splitRaw name
  match keyOf fst with
  | .error e => .error e
  | .ok k => .ok (k, accs, err)

/-- `str.isdigit()` on ASCII text. -/
def isDigitStr (cs : List Char) : Bool := !cs.isEmpty && cs.all isAsciiDigit

end Pypyr.Format
