/-
  C20 — configuration look-up order and merge (`pypyr/config.py`, `pypyr/platform.py`).

  What is modelled, and at which abstraction:

  * A config *file* is seen through what its loader hands to `Config.handle_path`:
    `Payload.none` (absent / unreadable file with `raise_not_found=False`, empty yaml
    document, no `[tool.pypyr]` table), `Payload.mapping kvs` (a Mapping, keys unique as in
    every Python dict; `kvs = []` is the falsy `{}`), `Payload.nonMapping truthy` (anything
    else: list, scalar, string … with its Python truthiness). Parsing itself (ruamel.yaml,
    tomllib) is not modelled; the correspondence harness writes real files and so keeps the
    parsers in the loop.
  * Setting values are opaque `Val`s; a scalar setting is overwritten (`setattr`), a dict
    setting (`vars`, `shortcuts`) is `dict.update`d key-wise.
  * In Python the config object is mutated in place and an exception leaves whatever was
    already written. The model therefore returns **the state after the call together with the
    optional error** (`ConfigState × Option CfgErr`), so "rejected before anything is applied"
    is a statement one can make. `initConfig` is the `Except` projection.
  * Paths are strings. `Path(base, 'pypyr', 'config.yaml')` is `base ++ "/pypyr/config.yaml"`,
    which is what pathlib yields for a *clean* base (no trailing or doubled slash, no `.`
    component): `pathClean`; everything else is outside the modelled domain (driver rejects).
    Environment values are ASCII (`str.strip()` / `str.lower()` on non-ASCII text: outside).
  * Platform (`pypyr.platform.get_platform_dir_finder`): the Android test comes FIRST, on every
    OS — `$ANDROID_DATA == '/data'` and `$ANDROID_ROOT == '/system'` select the `Android` finder,
    whose constructor needs the app folder (`Env.androidDir`: what `_get_android_dir` finds
    through jnius or the `sys.path` scan; `none` = `OSError("Cannot find path to android app
    folder")`, which escapes `init()`) — an environment that passes this test declares the platform
    to be Android and is outside the domain the property is judged on; otherwise `sys.platform` picks `Windows` (`;` separator,
    common default `$ALLUSERSPROFILE` or `C:/ProgramData`), `MacOs` or `Xdg`. Paths are joined
    the posix way on every platform (the Windows branch is tied on a posix host with
    `sys.platform` / `os.pathsep` patched: ntpath is not modelled).
  * What a loader can do besides returning a payload: `Payload.unreadable` (the file is there but
    `open` raises an `OSError` — a directory, a component that is a file, a symlink loop, no
    permission: treated exactly like an absent file), `Payload.parseError exc` (ruamel / tomllib /
    the decoder raise `exc`, which is NOT a `ConfigError` and is not caught), `Payload.toolNotTable`
    (`pyproject.toml` whose top-level `tool` is a truthy non-table: `tool.get` → AttributeError).
  * Not modelled: `load_yaml` opens the file with the *current* `default_encoding`, so a
    lower-precedence file (or `$PYPYR_ENCODING`) can change how later files are decoded. The
    model assumes every file decodes to the same payload under every encoding in play.

  No imports beyond `Val`: the driver links this file.
-/
import PypyrModel.Val

namespace Pypyr.Config

/-! ## The property tables (`Config.all_writable_props`, `dict_props`, `scalar_props`) -/

/-- `Config.all_writable_props` (a Python set; listed here in sorted order). -/
def allWritableProps : List String :=
  ["default_backoff", "default_cmd_encoding", "default_encoding", "default_failure_group",
   "default_group", "default_loader", "default_success_group", "json_ascii", "json_indent",
   "log_config", "log_date_format", "log_detail_format", "log_notify_format", "no_cache",
   "pipelines_subdir", "shortcuts", "vars"]

/-- `Config.dict_props`. -/
def dictProps : List String := ["shortcuts", "vars"]

/-- `Config.scalar_props = all_writable_props - dict_props`. -/
def scalarProps : List String := allWritableProps.filter (fun k => !dictProps.contains k)

/-- Where a default comes from in `Config.__init__`. -/
inductive DefaultSrc where
  | lit (v : Val)                                   -- `self.x = <literal>`
  | env (name : String)                             -- `os.getenv(name, None)`
  | envBool (name : String) (dflt : String)         -- `cast_str_to_bool(os.getenv(name, dflt))`
  | emptyDict                                       -- `self.x: dict = {}`
  deriving DecidableEq, Repr

/-- The writable attributes assigned by `Config.__init__`, in source order. -/
def defaultsTable : List (String × DefaultSrc) :=
  [("json_ascii", .lit (.bool false)),
   ("json_indent", .lit (.int 2)),
   ("pipelines_subdir", .lit (.str "pipelines")),
   ("log_config", .lit .none),
   ("log_date_format", .lit (.str "%Y-%m-%d %H:%M:%S")),
   ("log_notify_format", .lit (.str "%(message)s")),
   ("log_detail_format", .lit (.str "%(asctime)s %(levelname)s:%(name)s:%(funcName)s: %(message)s")),
   ("default_backoff", .lit (.str "fixed")),
   ("default_cmd_encoding", .env "PYPYR_CMD_ENCODING"),
   ("default_encoding", .env "PYPYR_ENCODING"),
   ("default_loader", .lit (.str "pypyr.loaders.file")),
   ("default_group", .lit (.str "steps")),
   ("default_success_group", .lit (.str "on_success")),
   ("default_failure_group", .lit (.str "on_failure")),
   ("no_cache", .envBool "PYPYR_NO_CACHE" "0"),
   ("shortcuts", .emptyDict),
   ("vars", .emptyDict)]

/-! ## Environment -/

/-- `sys.platform` as far as `get_platform_dir_finder` distinguishes it: `win32`, `darwin`, else. -/
inductive Platform where
  | posix | macos | windows
  deriving DecidableEq, Repr

/-- The environment variables `Config.__init__`, `Config.init` and `pypyr.platform` read
    (`vars` is `os.environ` restricted to those names, `$ANDROID_DATA` / `$ANDROID_ROOT` /
    `$ALLUSERSPROFILE` included); `home` is what `expanduser('~')` yields; `platform` is
    `sys.platform`; `androidDir` is what `Android._get_android_dir()` would find (jnius, else the
    first `sys.path` entry matching `/data/(data|user/N)/<pkg>/files`) — `none`: it raises. -/
structure Env where
  vars : List (String × String) := []
  home : String := "/home/u"
  platform : Platform := .posix
  androidDir : Option String := none
  deriving Repr

def envGet? : List (String × String) → String → Option String
  | [], _ => none
  | (k, v) :: rest, name => if k = name then some v else envGet? rest name

/-- `os.getenv(name)`. -/
def Env.get? (e : Env) (name : String) : Option String := envGet? e.vars name

/-- `os.getenv(name, dflt)`. -/
def Env.getD (e : Env) (name dflt : String) : String := (e.get? name).getD dflt

/-- ASCII part of what `str.strip()` removes / `str.isspace` accepts. -/
def isPyWs (c : Char) : Bool :=
  c == ' ' || c == '\t' || c == '\n' || c == '\r' || c == '\x0b' || c == '\x0c' ||
  c == '\x1c' || c == '\x1d' || c == '\x1e' || c == '\x1f'

/-- `not s.strip()`. -/
def isBlank (s : String) : Bool := s.toList.all isPyWs

/-- `str.split(sep)` for a one-character separator, on characters (structural, so that the
    kernel can evaluate it; `String.splitOn` does not reduce). -/
def splitOnChar (sep : Char) : List Char → List Char → List (List Char)
  | acc, [] => [acc.reverse]
  | acc, c :: cs =>
    if c = sep then acc.reverse :: splitOnChar sep [] cs else splitOnChar sep (c :: acc) cs

def splitChar (sep : Char) (s : String) : List String :=
  (splitOnChar sep [] s.toList).map String.ofList

/-- `$PYPYR_SKIP_INIT` is truthy (`cast_str_to_bool(os.getenv('PYPYR_SKIP_INIT', '0'))`). -/
def Env.skip (e : Env) : Bool := castStrToBool (e.getD "PYPYR_SKIP_INIT" "0")

/-- the first test of `get_platform_dir_finder`, made on every OS -/
def Env.isAndroid (e : Env) : Bool :=
  e.get? "ANDROID_DATA" == some "/data" && e.get? "ANDROID_ROOT" == some "/system"

/-! ## State, payloads, errors -/

abbrev Dict := List (Val × Val)

/-- The writable part of a `Config` instance plus the two read-only attributes `init` sets. -/
structure ConfigState where
  scalars : Ctx                          -- one entry per scalar prop, `__init__` order
  dicts : List (String × Dict)           -- `shortcuts`, `vars`
  loaded : List String := []             -- `_config_loaded_paths`
  skipInit : Bool := false               -- `_skip_init`
  deriving Repr, DecidableEq

def evalDefault (e : Env) : DefaultSrc → Val
  | .lit v => v
  | .env n => match e.get? n with | some s => .str s | none => .none
  | .envBool n d => .bool (castStrToBool (e.getD n d))
  | .emptyDict => .dict []

/-- `Config.__init__`: the light-weight defaults (three of them read the environment). -/
def defaults (e : Env) : ConfigState :=
  { scalars := (defaultsTable.filter (fun p => !dictProps.contains p.1)).map
                 (fun p => (p.1, evalDefault e p.2)),
    dicts := (defaultsTable.filter (fun p => dictProps.contains p.1)).map (fun p => (p.1, [])) }

/-- What a loader returns for one file (see the header). -/
inductive Payload where
  | none
  | mapping (kvs : Ctx)
  | nonMapping (truthy : Bool)
  /-- the parser (or the decoder under it) raises `exc`: bad YAML / TOML syntax, a duplicate key,
      several documents, bytes the encoding cannot decode -/
  | parseError (exc : String)
  /-- `pyproject.toml` only: top-level `tool` is truthy and not a table (`tool = 1`) -/
  | toolNotTable
  /-- the file is there, `open` raises an `OSError` (`kind`: isDirectory, notADirectory, loop, …) -/
  | unreadable (kind : String)
  deriving Repr, DecidableEq

/-- Python truthiness of a payload (`if payload:`). -/
def Payload.truthy : Payload → Bool
  | .none => false
  | .mapping kvs => !kvs.isEmpty
  | .nonMapping t => t
  | _ => false

inductive CfgErr where
  | notFound (path : String)            -- ConfigError: Could not open config file at {path}.
  | notMapping (path : String)          -- ConfigError: Config file {path} should be a mapping …
  | unknownProps (keys : List String)   -- ConfigError: Unexpected config props: {…}
  | dictUpdate (prop : String) (exc : String)  -- TypeError / ValueError out of `dict.update(<value>)`
  | parse (path : String) (exc : String)       -- whatever the parser raised, uncaught
  | toolNotTable                               -- AttributeError: '…' object has no attribute 'get'
  | androidDir                                 -- OSError: Cannot find path to android app folder
  deriving Repr, DecidableEq

/-- `type(e).__name__` of the exception. -/
def CfgErr.name : CfgErr → String
  | .notFound _ | .notMapping _ | .unknownProps _ => "ConfigError"
  | .dictUpdate _ exc => exc
  | .parse _ exc => exc
  | .toolNotTable => "AttributeError"
  | .androidDir => "OSError"

/-- `isinstance(e, pypyr.errors.ConfigError)` -/
def CfgErr.isConfigError : CfgErr → Bool
  | .notFound _ | .notMapping _ | .unknownProps _ => true
  | _ => false

/-- Result of something that mutates the config and may raise: the state afterwards, and the
    exception if one was raised. -/
abbrev Outcome := ConfigState × Option CfgErr

/-! ## `Config.update` -/

/-- `keys - Config.all_writable_props`. -/
def unknownKeys (kvs : Ctx) : List String :=
  (kvs.map (·.1)).filter (fun k => !allWritableProps.contains k)

/-- `d.update(m)` for a mapping `m`, left to right. -/
def dictUpdate (d m : Dict) : Dict := m.foldl (fun acc kv => dictSet acc kv.1 kv.2) d

/-- one element of the sequence handed to `dict.update(seq)`: it must itself be a sequence of
    length 2 (a 2-list / 2-tuple, a 2-character string, a 2-key mapping — its keys); a sequence of
    another length is a `ValueError`, a non-iterable a `TypeError`. -/
def seqPair : Val → Except String (Val × Val)
  | .list [k, v] => .ok (k, v)
  | .tuple [k, v] => .ok (k, v)
  | .list _ => .error "ValueError"
  | .tuple _ => .error "ValueError"
  | .str s =>
    match s.toList with
    | [a, b] => .ok (.str (String.ofList [a]), .str (String.ofList [b]))
    | _ => .error "ValueError"
  | .dict [(k1, _), (k2, _)] => .ok (k1, k2)
  | .dict _ => .error "ValueError"
  | _ => .error "TypeError"

/-- `dict.update(seq)`, element by element: what was set before the offending element stays set -/
def updateSeq : Dict → List Val → Dict × Option String
  | d, [] => (d, none)
  | d, x :: xs =>
    match seqPair x with
    | .ok (k, v) => updateSeq (dictSet d k v) xs
    | .error exc => (d, some exc)

/-- `d.update(value)` for whatever a file gives as the value of `vars` / `shortcuts`: a mapping is
    merged; a list is taken as a sequence of pairs (`vars: [[a, 1]]` is accepted); a string is
    iterated character by character (`""` changes nothing, anything else is a `ValueError` at its
    first character); `None`, a bool, a number: `TypeError`. -/
def dictUpdateVal (d : Dict) : Val → Dict × Option String
  | .dict m => (dictUpdate d m, none)
  | .list xs => updateSeq d xs
  | .tuple xs => updateSeq d xs
  | .str s => if s.isEmpty then (d, none) else (d, some "ValueError")
  | _ => (d, some "TypeError")

/-- Step 2 of `Config.update`: `for k in keys & dict_props: getattr(self, k).update(input[k])`, in
    the order of the list. A value `dict.update` rejects raises; the dict props before it have been
    updated, the offending one up to its offending element, the ones after it not. (`keys &
    dict_props` is a SET: with both `vars` and `shortcuts` in a file the order is that of their
    string hashes, i.e. of `$PYTHONHASHSEED` — `updateDictsOrd`.) -/
def updateDicts : List (String × Dict) → Ctx → List (String × Dict) × Option CfgErr
  | [], _ => ([], none)
  | (n, d) :: rest, kvs =>
    match Ctx.get? kvs n with
    | none => let r := updateDicts rest kvs; ((n, d) :: r.1, r.2)
    | some v =>
      match dictUpdateVal d v with
      | (d', none) => let r := updateDicts rest kvs; ((n, d') :: r.1, r.2)
      | (d', some exc) => ((n, d') :: rest, some (.dictUpdate n exc))

/-- … in either iteration order of the two-element set: `rev = false` is `shortcuts` then `vars`. -/
def updateDictsOrd (rev : Bool) (ds : List (String × Dict)) (kvs : Ctx) : List (String × Dict) × Option CfgErr :=
  if rev then ((updateDicts ds.reverse kvs).1.reverse, (updateDicts ds.reverse kvs).2) else updateDicts ds kvs

/-- Step 3 of `Config.update`: `for k in keys & scalar_props: setattr(self, k, input[k])`. -/
def overwriteScalars (sc kvs : Ctx) : Ctx :=
  sc.map fun p => (p.1, (Ctx.get? kvs p.1).getD p.2)

/-- `Config.update(input)`: 1. unknown keys → ConfigError before anything is written;
    2. dict props are updated key-wise (in the iteration order `rev` of the set); 3. scalar props are
    overwritten. -/
def updateOrd (rev : Bool) (st : ConfigState) (kvs : Ctx) : Outcome :=
  let difference := unknownKeys kvs
  if !difference.isEmpty then (st, some (.unknownProps difference))
  else
    match updateDictsOrd rev st.dicts kvs with
    | (ds, some e) => ({ st with dicts := ds }, some e)
    | (ds, none) => ({ st with dicts := ds, scalars := overwriteScalars st.scalars kvs }, none)

/-- `Config.update` with the iteration order the rest of the model uses (`shortcuts`, `vars`); by
    `update_order_irrelevant_*` (Props/C20.lean) the order matters only when a dict prop is rejected. -/
def update (st : ConfigState) (kvs : Ctx) : Outcome := updateOrd false st kvs

/-! ## `Config.handle_path` -/

/-- `handle_path` after the loader returned `payload`: `None` is no settings; anything else
    must be a Mapping (falsy non-mappings included — the F8 repair); a truthy mapping is merged
    and the path recorded. -/
def applyFileStOrd (rev : Bool) (st : ConfigState) (path : String) (payload : Payload) : Outcome :=
  match payload with
  | .nonMapping _ => (st, some (.notMapping path))
  | .none => (st, none)
  | .unreadable _ => (st, none)
  | .parseError exc => (st, some (.parse path exc))
  | .toolNotTable => (st, some .toolNotTable)
  | .mapping kvs =>
    if kvs.isEmpty then (st, none)
    else match updateOrd rev st kvs with
      | (st', some e) => (st', some e)
      | (st', none) => ({ st' with loaded := st'.loaded ++ [path] }, none)

def applyFileSt (st : ConfigState) (path : String) (payload : Payload) : Outcome :=
  applyFileStOrd false st path payload

/-- `handle_path` as it was before the repair: `if payload:` came first, so a falsy
    non-mapping never reached the Mapping test. -/
def applyFileStPreFix (st : ConfigState) (path : String) (payload : Payload) : Outcome :=
  if payload.truthy then
    match payload with
    | .mapping kvs =>
      match update st kvs with
      | (st', some e) => (st', some e)
      | (st', none) => ({ st' with loaded := st'.loaded ++ [path] }, none)
    | _ => (st, some (.notMapping path))
  else (st, none)

/-- The `Except` view of `applyFileSt` (what a caller that does not keep the object sees). -/
def applyFile (st : ConfigState) (path : String) (payload : Payload) : Except CfgErr ConfigState :=
  match applyFileSt st path payload with
  | (_, some e) => .error e
  | (st', none) => .ok st'

/-- Apply payloads in list order (lowest precedence first), stopping at the first exception. -/
def applyAll (st : ConfigState) : List (String × Payload) → Outcome
  | [] => (st, none)
  | (path, p) :: rest =>
    match applyFileSt st path p with
    | (st', some e) => (st', some e)
    | (st', none) => applyAll st' rest

/-! ## Where `init` looks -/

inductive Loader where
  | yaml          -- `Config.load_yaml`
  | pyproject     -- `Config.load_pyproject_toml`: the `[tool.pypyr]` table
  deriving DecidableEq, Repr

/-- One `handle_path` call. -/
structure Look where
  path : String
  loader : Loader := .yaml
  mustExist : Bool := false              -- `raise_not_found`
  deriving DecidableEq, Repr

/-- `str(Path(s))` for a clean `s`; `Path('')` is `.`. -/
def pathStr (s : String) : String := if s = "" then "." else s

/-- `Xdg.get_pypyr_config_file_appended`: `Path(base, 'pypyr', 'config.yaml')`. -/
def appendCfg (base : String) : String := base ++ "/pypyr/config.yaml"

/-- `Xdg.common_config_base_dir_default` (`MacOs` overrides it; `Windows`: when
    `$ALLUSERSPROFILE` is unset). -/
def commonBaseDefault : Platform → String
  | .posix => "/etc/xdg"
  | .macos => "/Library/Application Support"
  | .windows => "C:/ProgramData"

/-- `Windows.__init__`: `os.getenv('ALLUSERSPROFILE', 'C:/ProgramData')`. -/
def commonBase (e : Env) : String :=
  match e.platform with
  | .windows => e.getD "ALLUSERSPROFILE" (commonBaseDefault .windows)
  | p => commonBaseDefault p

/-- `os.pathsep`. -/
def pathSep : Platform → Char
  | .windows => ';'
  | _ => ':'

/-- `Android.__init__`: `android_dir.joinpath('shared_prefs', app_name, config_file_name)`. -/
def androidCfg (dir : String) : String := dir ++ "/shared_prefs/pypyr/config.yaml"

/-- Which finder `get_platform_dir_finder` picks. -/
inductive Finder where
  | xdg (p : Platform)
  | android (dir : String)
  deriving DecidableEq, Repr

/-- `get_platform_dir_finder()` and the finder's constructor: Android first, whatever
    `sys.platform` is; its constructor raises when the app folder cannot be found. -/
def platformOf (e : Env) : Except CfgErr Finder :=
  if e.isAndroid then
    match e.androidDir with
    | some d => .ok (.android d)
    | none => .error .androidDir
  else .ok (.xdg e.platform)

/-- `get_config_user`: `Xdg`: `$XDG_CONFIG_HOME`, `~/.config` when unset or blank; `Android`: the
    app's shared_prefs file. -/
def userConfigPath (e : Env) : String :=
  match platformOf e with
  | .ok (.android d) => androidCfg d
  | _ =>
    let path := e.getD "XDG_CONFIG_HOME" ""
    let path := if isBlank path then e.home ++ "/.config" else path
    appendCfg path

/-- `get_config_common`: `Xdg`: the non-blank entries of `$XDG_CONFIG_DIRS` (the platform's default
    when unset or blank), split on `os.pathsep`, in the order listed; `Android`: the same single
    file as the user's. -/
def commonConfigPaths (e : Env) : List String :=
  match platformOf e with
  | .ok (.android d) => [androidCfg d]
  | _ =>
    let path := e.getD "XDG_CONFIG_DIRS" ""
    let path := if isBlank path then commonBase e else path
    ((splitChar (pathSep e.platform) path).filter (fun p => !isBlank p)).map appendCfg

/-- `$PYPYR_CONFIG_GLOBAL` when set and non-empty (`if env_config_path_str:`). -/
def Env.globalPath? (e : Env) : Option String :=
  match e.get? "PYPYR_CONFIG_GLOBAL" with
  | some g => if g = "" then none else some g
  | none => none

/-- The common + user group of `Config.init` (steps 5 and 4): common files last-listed first,
    then the user file. -/
def xdgLooks (e : Env) : List Look :=
  (commonConfigPaths e).reverse.map (fun p => { path := p }) ++ [{ path := userConfigPath e }]

/-- The two cwd files (steps 2 and 1): `./pyproject.toml`, then `$PYPYR_CONFIG_LOCAL` or
    `pypyr-config.yaml`. -/
def localLooks (e : Env) : List Look :=
  [{ path := "pyproject.toml", loader := .pyproject },
   { path := pathStr (e.getD "PYPYR_CONFIG_LOCAL" "pypyr-config.yaml") }]

/-- The sequence of `handle_path` calls of `Config.init` once past the skip test. -/
def lookOrder (e : Env) : List Look :=
  (match e.globalPath? with
   | some g => [{ path := pathStr g, mustExist := true }]
   | none => xdgLooks e) ++ localLooks e

/-- `init` gets as far as `get_platform_paths` (no `$PYPYR_CONFIG_GLOBAL`) and that raises. -/
def Env.platformFails (e : Env) : Bool :=
  e.globalPath?.isNone && (match platformOf e with | .error _ => true | .ok _ => false)

/-- Every file look-up `init` can make, as a function of the environment. -/
def initOrder (e : Env) : List Look := if e.skip then [] else if e.platformFails then [] else lookOrder e

/-! ## The file system as the loaders see it -/

/-- `path ↦ payload` for the files that exist and can be opened; anything not listed raises
    `OSError` on `open`. For `pyproject.toml` the payload is what `load_pyproject_toml`
    returns (`toml['tool']['pypyr']`, `None` when `tool` or `pypyr` is missing). -/
abbrev Files := List (String × Payload)

def Files.get? (fs : Files) (path : String) : Option Payload :=
  match fs with
  | [] => none
  | (p, pl) :: rest => if p = path then some pl else Files.get? rest path

/-- `load_yaml` / `load_pyproject_toml`: `OSError` → `None`, or ConfigError with
    `raise_error=True`. -/
def load (fs : Files) (l : Look) : Except CfgErr Payload :=
  match fs.get? l.path with
  | some (.unreadable _) => if l.mustExist then .error (.notFound l.path) else .ok .none
  | some p => .ok p
  | none => if l.mustExist then .error (.notFound l.path) else .ok .none

/-- `open(path)` succeeds -/
def Files.opens (fs : Files) (path : String) : Bool :=
  match fs.get? path with
  | some (.unreadable _) => false
  | some _ => true
  | none => false

/-- `Config.handle_path(path, handler, raise_not_found)`. -/
def handlePath (fs : Files) (st : ConfigState) (l : Look) : Outcome :=
  match load fs l with
  | .error e => (st, some e)
  | .ok p => applyFileSt st l.path p

def runLooks (fs : Files) (st : ConfigState) : List Look → Outcome
  | [] => (st, none)
  | l :: ls =>
    match handlePath fs st l with
    | (st', some e) => (st', some e)
    | (st', none) => runLooks fs st' ls

/-- `Config()` followed by `Config.init()`: the config object afterwards and the exception
    `init` raised, if any. -/
def initSt (e : Env) (fs : Files) : Outcome :=
  if e.skip then ({ defaults e with skipInit := true }, none)
  else if e.platformFails then (defaults e, some .androidDir)
  else runLooks fs (defaults e) (lookOrder e)

/-- `initConfig : Env → (path ↦ payload) → Except Err ConfigState`. -/
def initConfig (e : Env) (fs : Files) : Except CfgErr ConfigState :=
  match initSt e fs with
  | (_, some err) => .error err
  | (st, none) => .ok st

/-- The `handle_path` calls `init` actually makes: `initOrder` up to and including the first
    one that raises. -/
def consulted (fs : Files) (st : ConfigState) : List Look → List String
  | [] => []
  | l :: ls =>
    match handlePath fs st l with
    | (_, some _) => [l.path]
    | (st', none) => l.path :: consulted fs st' ls

/-! ## Histories: objects that persist, an environment that changes between calls -/

/-- `Config.init()` called on an existing object `st`, under the environment `e` **as it is when the
    call runs** (`os.getenv` inside `init` / `get_platform_paths`), whatever the environment was when
    the object was built (`Config.__init__`, for the module singleton: at import) or at any earlier
    call. With `$PYPYR_SKIP_INIT` the only effect is `_skip_init = True` (never reset afterwards);
    otherwise the look-ups of `lookOrder e` are merged into the object as it is. -/
def initOn (st : ConfigState) (e : Env) (fs : Files) : Outcome :=
  if e.skip then ({ st with skipInit := true }, none)
  else if e.platformFails then (st, some .androidDir)
  else runLooks fs st (lookOrder e)

/-- One step of a process's history with `Config` objects. Object `0` is the module singleton
    `pypyr.config.config` (constructed when `pypyr.config` is imported); each step carries the
    environment at the moment it runs. -/
inductive Op where
  | construct (obj : Nat) (e : Env)      -- `obj = Config()`
  | init (obj : Nat) (e : Env)           -- `obj.init()`
  deriving Repr

abbrev Objs := List (Nat × ConfigState)

def objGet? : Objs → Nat → Option ConfigState
  | [], _ => none
  | (n, st) :: rest, k => if n = k then some st else objGet? rest k

def objSet : Objs → Nat → ConfigState → Objs
  | [], k, st => [(k, st)]
  | (n, s) :: rest, k, st => if n = k then (n, st) :: rest else (n, s) :: objSet rest k st

/-- What one step shows: the object afterwards (`none`: no such object), the exception raised, the
    `handle_path` calls made. -/
structure StepObs where
  obj : Nat
  state : Option ConfigState
  err : Option CfgErr
  consulted : List String
  deriving Repr, DecidableEq

def stepOp (fs : Files) (objs : Objs) : Op → Objs × StepObs
  | .construct o e => (objSet objs o (defaults e), ⟨o, some (defaults e), none, []⟩)
  | .init o e =>
    match objGet? objs o with
    | none => (objs, ⟨o, none, none, []⟩)
    | some st =>
      let r := initOn st e fs
      (objSet objs o r.1, ⟨o, some r.1, r.2, consulted fs st (initOrder e)⟩)

/-- The objects after a history. -/
def objsAfter (fs : Files) : Objs → List Op → Objs
  | objs, [] => objs
  | objs, op :: ops => objsAfter fs (stepOp fs objs op).1 ops

/-- The observations of a history, step by step. -/
def runOps (fs : Files) : Objs → List Op → List StepObs
  | _, [] => []
  | objs, op :: ops => (stepOp fs objs op).2 :: runOps fs (stepOp fs objs op).1 ops

/-! ## `$PYTHONHASHSEED`: the iteration order of `keys & dict_props`

  `rev = false` (the order the definitions above use) is `shortcuts` before `vars`, `rev = true` the
  other way round. Which one a run gets is a matter of the string hashes of that process. -/

def handlePathOrd (rev : Bool) (fs : Files) (st : ConfigState) (l : Look) : Outcome :=
  match load fs l with
  | .error e => (st, some e)
  | .ok p => applyFileStOrd rev st l.path p

def runLooksOrd (rev : Bool) (fs : Files) (st : ConfigState) : List Look → Outcome
  | [] => (st, none)
  | l :: ls =>
    match handlePathOrd rev fs st l with
    | (st', some e) => (st', some e)
    | (st', none) => runLooksOrd rev fs st' ls

/-- `init()` on `st` in a process whose set order is `rev` -/
def initOnOrd (rev : Bool) (st : ConfigState) (e : Env) (fs : Files) : Outcome :=
  if e.skip then ({ st with skipInit := true }, none)
  else if e.platformFails then (st, some .androidDir)
  else runLooksOrd rev fs st (lookOrder e)

/-! ## Reading a state -/

def ConfigState.scalar? (st : ConfigState) (k : String) : Option Val := Ctx.get? st.scalars k

def dictsGet? : List (String × Dict) → String → Option Dict
  | [], _ => none
  | (n, d) :: rest, k => if n = k then some d else dictsGet? rest k

def ConfigState.dict? (st : ConfigState) (k : String) : Option Dict := dictsGet? st.dicts k

/-! ## Domain of the model (checked by the driver; never a hypothesis of a theorem unless stated) -/

/-- A path string pathlib leaves unchanged: non-empty, no empty or `.` component after the
    first, no trailing slash. -/
def pathClean (s : String) : Bool :=
  match splitChar '/' s with
  | [] => false
  | first :: rest => s != "" && first != "." && rest.all (fun c => c != "" && c != ".")

def asciiStr (s : String) : Bool := s.toList.all (fun c => c.toNat < 128 && c.toNat != 0)

def strKey : Val → Bool
  | .str _ => true
  | _ => false

/-- the element of an update sequence is one the model speaks about: a 2-element list with a
    string key, or something `seqPair` rejects -/
def seqElemInDomain : Val → Bool
  | .list [k, _] => strKey k
  | .list _ => true
  | .str s => s.length != 2        -- a 2-character string is a pair of 1-character strings: not generated
  | .none | .bool _ | .int _ | .flt _ _ => true
  | _ => false

/-- A dict-prop value the model speaks about: a mapping with unique keys, a list of pairs /
    rejected elements, a string, or one of the non-iterables. -/
def dictValInDomain : Val → Bool
  | .dict m => decide (m.map (·.1)).Nodup
  | .list xs => xs.all seqElemInDomain
  | .str _ => true
  | .none | .bool _ | .int _ | .flt _ _ => true
  | _ => false

def payloadInDomain : Payload → Bool
  | .mapping kvs =>
    decide (kvs.map (·.1)).Nodup &&
    dictProps.all (fun d => match Ctx.get? kvs d with | some v => dictValInDomain v | none => true)
  | _ => true

/-! ## Where the payloads come from: the parser as the process sees it

    `Files` takes "what `load_yaml` produced for the file" as given. In the process that payload is the outcome
    of ONE PASS over the texts of the files found, in look-up order, by whatever parser object(s) `load_yaml`
    uses. A `TextLoader` is a parser with the HIDDEN STATE it may carry from one load to the next (`σ`: a parser
    object kept on the `Config` instance or at module level, which remembers the `%YAML` directive of the last
    document it read). "Every file's mapping is a function of its text alone" is `TextLoader.TextOnly` – an
    ASSUMPTION about the code under test (the model does not contain ruamel.yaml): `Props/C20.lean` section 15
    proves what follows from it and that it is load-bearing; the harness checks the assumption itself (stream
    `rawyaml`: every file of a case is also loaded ALONE in a pristine process). -/

structure TextLoader (σ τ : Type) where
  init : σ
  parse : σ → τ → Payload × σ

/-- What the parser makes of a text in a process in which nothing was parsed before. -/
def TextLoader.alone {σ τ : Type} (L : TextLoader σ τ) (t : τ) : Payload := (L.parse L.init t).1

/-- THE ASSUMPTION: the payload of a file depends on its text alone, not on what was parsed before. -/
def TextLoader.TextOnly {σ τ : Type} (L : TextLoader σ τ) : Prop := ∀ s t, (L.parse s t).1 = L.alone t

/-- One pass over the texts of the files found (list order = look-up order = increasing precedence), the parser
    state threaded through; `s` is the state the pass starts in (`L.init` for the first `init()` of a process,
    whatever the previous pass left behind for a later one). -/
def loadSeq {σ τ : Type} (L : TextLoader σ τ) : σ → List (String × τ) → List (String × Payload) × σ
  | s, [] => ([], s)
  | s, (p, t) :: rest => ((p, (L.parse s t).1) :: (loadSeq L (L.parse s t).2 rest).1, (loadSeq L (L.parse s t).2 rest).2)

/-- Every file loaded alone in a pristine process. -/
def loadAlone {σ τ : Type} (L : TextLoader σ τ) (ts : List (String × τ)) : List (String × Payload) :=
  ts.map fun pt => (pt.1, L.alone pt.2)

/-- The effective configuration as a function of the TEXTS: the object's settings overlaid by what one pass of
    the parser (starting in state `s`) makes of the files found, lowest precedence first. -/
def effective {σ τ : Type} (L : TextLoader σ τ) (st : ConfigState) (s : σ) (ts : List (String × τ)) : Outcome :=
  applyAll st (loadSeq L s ts).1

/-- Two `init()`s of one process: the second pass starts in the parser state the first one left. -/
def effectiveTwice {σ τ : Type} (L : TextLoader σ τ) (st : ConfigState) (ts1 ts2 : List (String × τ)) : Outcome :=
  match applyAll st (loadSeq L L.init ts1).1 with
  | (st1, some e) => (st1, some e)
  | (st1, none) => effective L st1 (loadSeq L L.init ts1).2 ts2

/-! ### the smallest config text whose reading depends on parser state -/

inductive YVer where
  | v11
  | v12
  deriving DecidableEq, Repr, Inhabited

/-- A yaml config text: an optional `%YAML` directive, top-level `key: plain-scalar` lines and the plain scalars
    under `vars:`. -/
structure CfgText where
  directive : Option YVer
  top : List (String × String)
  vars : List (String × String)
  deriving DecidableEq, Repr, Inhabited

/-- How a plain scalar resolves: the readings the two yaml versions disagree on (1.1: `on`/`yes` True,
    `off`/`no` False, `0777` octal 511, `1:30` sexagesimal 90, `1_000` 1000; 1.2: `0777` decimal 777, `0o17` 15),
    anything else the string. -/
def resolveY : YVer → String → Val
  | .v11, "on" => .bool true
  | .v11, "yes" => .bool true
  | .v11, "off" => .bool false
  | .v11, "no" => .bool false
  | .v11, "0777" => .int 511
  | .v12, "0777" => .int 777
  | .v11, "1:30" => .int 90
  | .v11, "1_000" => .int 1000
  | .v12, "0o17" => .int 15
  | _, s => .str s

def parseCfg (v : YVer) (t : CfgText) : Payload :=
  .mapping (t.top.map (fun kv => (kv.1, resolveY v kv.2)) ++
    (if t.vars.isEmpty then [] else [("vars", .dict (t.vars.map fun kv => (.str kv.1, resolveY v kv.2)))]))

/-- `load_yaml` as it is: a parser object per call, which starts at yaml 1.2. -/
def perCallParser : TextLoader Unit CfgText :=
  ⟨(), fun _ t => (parseCfg (t.directive.getD .v12) t, ())⟩

/-- One parser object for every load: a directive sets the version, a document without one is read by whatever
    version the parser was left in. -/
def stickyParser : TextLoader YVer CfgText :=
  ⟨.v12, fun s t => (parseCfg (t.directive.getD s) t, t.directive.getD s)⟩

end Pypyr.Config
