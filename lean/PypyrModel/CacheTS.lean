/-
  CacheTS — small-step transition system of pypyr's lock-protected get-or-create cache
  (`pypyr/cache/cache.py`), the pipeline key function of `Loader.get_pipeline`
  (`pypyr/cache/loadercache.py`) and `pypyr.moduleloader.add_sys_path`.

  Threads run lists of `get k` / `clear` operations against ONE cache instance; an explicit
  schedule (list of thread ids) picks which thread makes the next micro-step. Creators are
  scripted: the n-th creator invocation (numbered when the creator is entered) returns the fresh
  object whose id is n, or raises if `fails n`.

  Python, `Cache.get(key, creator)`:

      if config.no_cache:            -- `start` (idle → bpCreator | wantLock)
          return creator()           -- bpCreator → bpExiting → bpDone → idle
      with self._lock:               -- wantLock → locked           (acquire)
          if key in self._cache:     -- locked → toRelease (hit)    (check)
              obj = self._cache[key]
          else:
              obj = creator()        -- locked → inCreator → exiting → created | toRelease(raised)
              self._cache[key] = obj -- created → toRelease         (store)
                                     -- toRelease → released        (release; also on exception)
      return obj                     -- released → idle             (return / propagate)

  `Cache.clear`: `with self._lock: self._cache.clear()`; `BackoffCache` starts from, and its
  `clear` resets to, a copy of the built-in table — `Cfg.seed` (all-`none` for the plain caches).
-/
namespace Pypyr.CacheTS

abbrev Tid := Nat
abbrev Key := Nat
abbrev Obj := Nat

/-- One operation of a thread's program. -/
inductive Op where
  | get (k : Key)
  | clear
  deriving DecidableEq, Repr, Inhabited

/-- What an operation gave back to its caller: the object, the creator's exception (tagged with
    the creator-call number), or nothing (clear). -/
inductive Res where
  | val (c : Obj)
  | raised (c : Nat)
  | cleared
  deriving DecidableEq, Repr, Inhabited

/-- Events of the ghost history, logged at the point where the operation takes effect. -/
inductive Ev where
  | hit (t : Tid) (k : Key) (c : Obj)      -- `key in self._cache` was true; `obj = self._cache[key]`
  | create (t : Tid) (k : Key) (c : Obj)   -- creator call number `c` returned the fresh object `c`
  | fail (t : Tid) (k : Key) (c : Nat)     -- creator call number `c` raised
  | clear (t : Tid)                        -- `self._cache.clear()` ran
  deriving DecidableEq, Repr, Inhabited

def Ev.tid : Ev → Tid
  | .hit t _ _ | .create t _ _ | .fail t _ _ | .clear t => t

/-- The result the operation that logged this event hands to its caller. -/
def Ev.res : Ev → Res
  | .hit _ _ c | .create _ _ c => .val c
  | .fail _ _ c => .raised c
  | .clear _ => .cleared

/-- Program counter inside the current operation (see the file header). -/
inductive Pc where
  | idle
  | wantLock (op : Op)
  | locked (op : Op)
  | inCreator (k : Key) (c : Nat)
  | exiting (k : Key) (c : Nat)
  | created (k : Key) (c : Obj)
  | toRelease (r : Res)
  | released (r : Res)
  | bpCreator (k : Key) (c : Nat)
  | bpExiting (k : Key) (c : Nat)
  | bpDone (r : Res)
  deriving DecidableEq, Repr, Inhabited

structure Thread where
  ops : List Op
  pc : Pc
  /-- results of the finished operations, newest first -/
  results : List Res
  deriving Repr, Inhabited

/-- Fixed parameters of a run. -/
structure Cfg where
  /-- initial content and what `clear` resets to (`BackoffCache`); `fun _ => none` otherwise -/
  seed : Key → Option Obj
  /-- creator script: does creator invocation number `n` raise? -/
  fails : Nat → Bool
  /-- `config.no_cache` -/
  noCache : Bool

structure State where
  threads : Tid → Thread
  lock : Option Tid
  cache : Key → Option Obj
  /-- number of creator invocations so far -/
  calls : Nat
  /-- ghost history, newest first -/
  hist : List Ev

def State.setThread (st : State) (t : Tid) (th : Thread) : State :=
  { st with threads := fun u => if u = t then th else st.threads u }

def setKey (m : Key → Option Obj) (k : Key) (c : Obj) : Key → Option Obj :=
  fun k' => if k' = k then some c else m k'

/-- One micro-step of thread `t`. A thread that cannot move (finished, or waiting for a held lock)
    leaves the state unchanged. Mirrors `Cache.get` / `Cache.clear` / `BackoffCache.clear`. -/
def step (cfg : Cfg) (st : State) (t : Tid) : State :=
  let th := st.threads t
  match th.pc with
  | .idle =>
    match th.ops with
    | [] => st
    | op :: rest =>
      match op with
      | .get k =>
        if cfg.noCache then
          { st.setThread t { th with ops := rest, pc := .bpCreator k st.calls } with
            calls := st.calls + 1 }
        else st.setThread t { th with ops := rest, pc := .wantLock (.get k) }
      | .clear => st.setThread t { th with ops := rest, pc := .wantLock .clear }
  | .wantLock op =>
    match st.lock with
    | some _ => st
    | none => { st.setThread t { th with pc := .locked op } with lock := some t }
  | .locked op =>
    match op with
    | .get k =>
      match st.cache k with
      | some c => { st.setThread t { th with pc := .toRelease (.val c) } with
                    hist := .hit t k c :: st.hist }
      | none => { st.setThread t { th with pc := .inCreator k st.calls } with calls := st.calls + 1 }
    | .clear =>
      { st.setThread t { th with pc := .toRelease .cleared } with
        cache := cfg.seed, hist := .clear t :: st.hist }
  | .inCreator k c => st.setThread t { th with pc := .exiting k c }
  | .exiting k c =>
    if cfg.fails c then
      { st.setThread t { th with pc := .toRelease (.raised c) } with hist := .fail t k c :: st.hist }
    else
      { st.setThread t { th with pc := .created k c } with hist := .create t k c :: st.hist }
  | .created k c =>
    { st.setThread t { th with pc := .toRelease (.val c) } with cache := setKey st.cache k c }
  | .toRelease r => { st.setThread t { th with pc := .released r } with lock := none }
  | .released r => st.setThread t { th with pc := .idle, results := r :: th.results }
  | .bpCreator k c => st.setThread t { th with pc := .bpExiting k c }
  | .bpExiting k c =>
    if cfg.fails c then
      { st.setThread t { th with pc := .bpDone (.raised c) } with hist := .fail t k c :: st.hist }
    else
      { st.setThread t { th with pc := .bpDone (.val c) } with hist := .create t k c :: st.hist }
  | .bpDone r => st.setThread t { th with pc := .idle, results := r :: th.results }

/-- Run a schedule of micro-steps. -/
def run (cfg : Cfg) (st : State) : List Tid → State
  | [] => st
  | t :: ts => run cfg (step cfg st t) ts

/-- Initial state: every thread idle with its program; cache = seed. -/
def init (cfg : Cfg) (prog : Tid → List Op) : State :=
  { threads := fun t => { ops := prog t, pc := .idle, results := [] }
    lock := none, cache := cfg.seed, calls := 0, hist := [] }

/-! ### Turn granularity (what the correspondence harness can schedule)

The real threads can only be parked where the harness has a hook: before an operation, in
`_lock.__enter__`, on creator entry, on creator exit, in `_lock.__exit__`. A *turn* of thread `t`
runs it from one parking place to the next. -/

def Pc.parked : Pc → Bool
  | .idle | .wantLock _ | .inCreator _ _ | .exiting _ _ | .toRelease _
  | .bpCreator _ _ | .bpExiting _ _ => true
  | _ => false

def settle (cfg : Cfg) : Nat → State → Tid → State
  | 0, st, _ => st
  | n + 1, st, t => if (st.threads t).pc.parked then st else settle cfg n (step cfg st t) t

/-- One turn = one micro-step, then continue until parked again (at most 3 more micro-steps). -/
def turn (cfg : Cfg) (st : State) (t : Tid) : State := settle cfg 3 (step cfg st t) t

/-- Can a turn of `t` change anything? -/
def enabled (st : State) (t : Tid) : Bool :=
  match (st.threads t).pc with
  | .idle => !(st.threads t).ops.isEmpty
  | .wantLock _ => st.lock.isNone
  | _ => true

def runTurns (cfg : Cfg) (st : State) : List Tid → State
  | [] => st
  | t :: ts => runTurns cfg (turn cfg st t) ts

/-- After the schedule: lowest-numbered enabled thread among `0..n-1` first, until nobody can move
    (fuel-bounded). -/
def finish (cfg : Cfg) (n : Nat) : Nat → State → State
  | 0, st => st
  | fuel + 1, st =>
    match (List.range n).find? (enabled st) with
    | none => st
    | some t => finish cfg n fuel (turn cfg st t)

/-! ### The atomic specification: get-or-create on a map, one event per operation -/

/-- Atomic get-or-create / clear. State = the map. `none` = the event is not possible here. -/
def specStep (cfg : Cfg) (s : Key → Option Obj) : Ev → Option (Key → Option Obj)
  | .hit _ k c => if s k = some c then some s else none
  | .create _ k c => if s k = none ∧ cfg.fails c = false then some (setKey s k c) else none
  | .fail _ k c => if s k = none ∧ cfg.fails c = true then some s else none
  | .clear _ => some cfg.seed

/-- Run the atomic specification over a history (newest first). -/
def specRun (cfg : Cfg) : List Ev → Option (Key → Option Obj)
  | [] => some cfg.seed
  | e :: h => match specRun cfg h with
    | none => none
    | some s => specStep cfg s e

/-! ### History observations used by the property statements and the monitors -/

/-- Ids of the objects created for / handed out under key `k` since the last clear
    (history newest first). -/
def epochIds (k : Key) : List Ev → List Obj
  | [] => []
  | .clear _ :: _ => []
  | .hit _ k' c :: h => if k' = k then c :: epochIds k h else epochIds k h
  | .create _ k' c :: h => if k' = k then c :: epochIds k h else epochIds k h
  | .fail _ _ _ :: h => epochIds k h

def Ev.touches (k : Key) : Ev → Bool
  | .clear _ => true
  | .hit _ k' _ | .create _ k' _ | .fail _ k' _ => k' = k

/-- The newest event that concerns key `k` (an event on `k`, or a clear). -/
def lastOn (k : Key) : List Ev → Option Ev
  | [] => none
  | e :: h => if e.touches k then some e else lastOn k h

/-- Call numbers of the creator invocations that finished (newest first). -/
def callIds : List Ev → List Nat
  | [] => []
  | .create _ _ c :: h => c :: callIds h
  | .fail _ _ c :: h => c :: callIds h
  | _ :: h => callIds h

/-- Decidable monitor, evaluated by the driver on the IMPLEMENTATION's history: the history is a
    trace of the atomic specification and no creator-call number occurs twice. -/
def holds (cfg : Cfg) (h : List Ev) : Bool :=
  (specRun cfg h).isSome && decide (callIds h).Nodup

/-! ### `Loader.get_pipeline` key -/

/-- The dict key `Loader.get_pipeline` uses: `(str(parent), name) if parent else name`.
    A Python tuple never equals a str, hence two constructors. -/
inductive PKey where
  | pair (parent : String) (name : String)
  | bare (name : String)
  deriving DecidableEq, Repr

/-- `parentTruthy` = `bool(parent)`, `parentStr` = `str(parent)`. -/
def pipelineKey (parentTruthy : Bool) (parentStr name : String) : PKey :=
  if parentTruthy then .pair parentStr name else .bare name

/-- The key before fix F5: `f'{parent}+{name}' if parent else name`. -/
def pipelineKeyOld (parentTruthy : Bool) (parentStr name : String) : String :=
  if parentTruthy then parentStr ++ "+" ++ name else name

/-! ### `pypyr.moduleloader.add_sys_path`

      if path in _known_dirs and path not in _missing_dirs: return   -- spIdle → (done | spExists)
      if not path_obj.exists():                       -- spExists → (done | spWant)
          _missing_dirs.add(path); _known_dirs.add(path); return
      with _sys_path_lock:                            -- spWant → spLocked
          if path_str not in sys.path:                -- spLocked → spAppend | spRelease
              sys.path.append(path_str)               -- spAppend → spRelease
                                                      -- spRelease → spKnown
      _known_dirs.add(path)                           -- spKnown → done
      _missing_dirs.discard(path)                     --   (only now: the unlocked early return above must not
                                                      --    be open to others before the path is on sys.path)
-/

inductive SpPc where
  | spIdle | spExists (p : Nat) | spWant (p : Nat) | spLocked (p : Nat) | spAppend (p : Nat)
  | spRelease (p : Nat) | spKnown (p : Nat)
  deriving DecidableEq, Repr, Inhabited

structure SpThread where
  ops : List Nat
  pc : SpPc
  deriving Repr, Inhabited

structure SpState where
  threads : Tid → SpThread
  lock : Option Tid
  sysPath : List Nat
  known : List Nat
  /-- `_missing_dirs`: the known paths that did not exist when last looked at -/
  missing : List Nat := []

def SpState.setThread (st : SpState) (t : Tid) (th : SpThread) : SpState :=
  { st with threads := fun u => if u = t then th else st.threads u }

/-- One micro-step of `add_sys_path` in thread `t`; `ex p` = the directory exists. -/
def spStep (ex : Nat → Bool) (st : SpState) (t : Tid) : SpState :=
  let th := st.threads t
  match th.pc with
  | .spIdle =>
    match th.ops with
    | [] => st
    | p :: rest =>
      if p ∈ st.known ∧ p ∉ st.missing then st.setThread t { th with ops := rest }
      else st.setThread t { ops := rest, pc := .spExists p }
  | .spExists p =>
    if ex p then st.setThread t { th with pc := .spWant p }
    else { st.setThread t { th with pc := .spIdle } with known := p :: st.known, missing := p :: st.missing }
  | .spWant p =>
    match st.lock with
    | some _ => st
    | none => { st.setThread t { th with pc := .spLocked p } with lock := some t }
  | .spLocked p =>
    if p ∈ st.sysPath then st.setThread t { th with pc := .spRelease p }
    else st.setThread t { th with pc := .spAppend p }
  | .spAppend p => { st.setThread t { th with pc := .spRelease p } with sysPath := st.sysPath ++ [p] }
  | .spRelease p => { st.setThread t { th with pc := .spKnown p } with lock := none }
  | .spKnown p =>
    { st.setThread t { th with pc := .spIdle } with known := p :: st.known, missing := st.missing.filter (· ≠ p) }

def spRun (ex : Nat → Bool) (st : SpState) : List Tid → SpState
  | [] => st
  | t :: ts => spRun ex (spStep ex st t) ts

def spInit (sysPath : List Nat) (prog : Tid → List Nat) : SpState :=
  { threads := fun t => { ops := prog t, pc := .spIdle }, lock := none, sysPath := sysPath, known := [], missing := [] }

/-- a process with a history: `known` / `missing` as earlier calls left them (e.g. a directory that was missing
    then and exists now is in both) -/
def spInitH (sysPath known missing : List Nat) (prog : Tid → List Nat) : SpState :=
  { threads := fun t => { ops := prog t, pc := .spIdle }, lock := none, sysPath := sysPath, known := known,
    missing := missing }

/-- places where the harness can park a thread inside `add_sys_path`: before the call, in
    `_sys_path_lock.__enter__`, in `_sys_path_lock.__exit__` -/
def SpPc.parked : SpPc → Bool
  | .spIdle | .spWant _ | .spRelease _ => true
  | _ => false

def spSettle (ex : Nat → Bool) : Nat → SpState → Tid → SpState
  | 0, st, _ => st
  | n + 1, st, t => if (st.threads t).pc.parked then st else spSettle ex n (spStep ex st t) t

def spTurn (ex : Nat → Bool) (st : SpState) (t : Tid) : SpState := spSettle ex 3 (spStep ex st t) t

def spEnabled (st : SpState) (t : Tid) : Bool :=
  match (st.threads t).pc with
  | .spIdle => !(st.threads t).ops.isEmpty
  | .spWant _ => st.lock.isNone
  | _ => true

def spRunTurns (ex : Nat → Bool) (st : SpState) : List Tid → SpState
  | [] => st
  | t :: ts => spRunTurns ex (spTurn ex st t) ts

def spFinish (ex : Nat → Bool) (n : Nat) : Nat → SpState → SpState
  | 0, st => st
  | fuel + 1, st =>
    match (List.range n).find? (spEnabled st) with
    | none => st
    | some t => spFinish ex n fuel (spTurn ex st t)

/-! ### The layers above the caches: clients that hold on to cached objects

`pypyr.pipeline.Pipeline.load_and_run_pipeline` (one *client* object, possibly run many times):

      loader_instance = loader_cache.get_pype_loader(self.loader)      -- LoaderCache: name → Loader object
      self.pipeline_definition = loader_instance.get_pipeline(         -- Loader._pipeline_cache:
          name=self.name, parent=parent)                               --   pipelineKey → definition
      … StepsRunner(self.pipeline_definition.pipeline …) → step_cache.get_step(name) per step

  the file loader's `get_pipeline_definition`: `get_pipeline_path` (a pure look-up in the file
  system as it is NOW) then `file_cache.get(str(path), load_pipeline_from_file)`; a custom
  loader's `get_pipeline_definition(name, parent)` is any function of the request and the world.

  Sequential (one thread; the interleavings of each single cache are the transition system above).
  A `Loader` object owns its pipeline cache, so Loader objects have identities (`nextObj`) and a
  table dropped from `LoaderCache` is a *different* object from the one created next. The client's
  `pipeline_definition` slot is part of the state: it is written by every successful run and —
  in pypyr as it is — never read before it is written (`run_ignores_slots`).

  Content is abstracted to a version number: the pipeline that runs announces which version of
  which source it was made from. -/
namespace Stack

abbrev Ver := Nat

/-- a request as `Loader.get_pipeline` sees it: `bool(parent)`, `str(parent)`, the name -/
structure Rq where
  pt : Bool
  ps : String
  name : String
  deriving DecidableEq, Repr, Inhabited

def Rq.key (r : Rq) : PKey := pipelineKey r.pt r.ps r.name

/-- the world outside the caches at one moment -/
structure World where
  /-- file loader: the file the request resolves to NOW (`none`: `PipelineNotFoundError`) -/
  resolve : Rq → Option Nat
  /-- version of the content of that file NOW -/
  fileVer : Nat → Ver
  /-- custom loader `l ≥ 1`: what its `get_pipeline_definition` returns NOW (`none`: it raises) -/
  custom : Nat → Rq → Option Ver
  /-- the content with this version has a mapping at its top level (a property of the content, so of
      the version: the worlds of one session agree on it). `false`: `Loader._load_pipeline` rejects
      it with `PipelineDefinitionError`. -/
  mapping : Ver → Bool := fun _ => true

/-- the check at the end of `Loader._load_pipeline` ("A pipeline must be a mapping at the top
    level"): a payload that is not a mapping raises, which the caller sees as a failed look-up -/
def World.accept (w : World) (x : Option Ver) : Option Ver :=
  x.bind fun v => if w.mapping v then some v else none

/-- what the loader `l` (0 = the file loader) itself answers now, before the mapping check -/
def World.raw (w : World) (l : Nat) (r : Rq) : Option Ver :=
  if l = 0 then (w.resolve r).map w.fileVer else w.custom l r

/-- what an uncached look-up by loader `l` (0 = the file loader) yields now -/
def World.fresh (w : World) (l : Nat) (r : Rq) : Option Ver := w.accept (w.raw l r)

structure LState where
  /-- `config.no_cache` -/
  noCache : Bool
  /-- `loader_cache._cache`: loader name → Loader object -/
  loaders : Nat → Option Nat
  /-- `Loader._pipeline_cache` of every Loader object ever made -/
  pipes : Nat → PKey → Option Ver
  /-- `file_cache._cache`: path → parsed definition -/
  files : Nat → Option Ver
  /-- `step_cache` holds the step the pipelines use -/
  stepCached : Bool
  /-- number of Loader objects made so far -/
  nextObj : Nat
  /-- `Loader.name` of every Loader object made so far -/
  owner : Nat → Nat
  /-- `Pipeline.pipeline_definition` of every client object -/
  slot : Nat → Option Ver

def LState.init : LState :=
  { noCache := false, loaders := fun _ => none, pipes := fun _ _ => none, files := fun _ => none,
    stepCached := false, nextObj := 0, owner := fun _ => 0, slot := fun _ => none }

/-- what one `Pipeline.run` shows to the outside -/
structure Obs where
  /-- version of the pipeline that ran; `none` = the look-up raised -/
  ran : Option Ver
  /-- `load_the_loader` was called -/
  loaderMade : Bool
  /-- the loader's `get_pipeline_definition` was called -/
  defMade : Bool
  /-- `load_pipeline_from_file` was called -/
  fileRead : Bool
  /-- `load_the_step` was called -/
  stepMade : Bool
  deriving DecidableEq, Repr, Inhabited

/-- `LoaderCache.get_pype_loader` → (Loader object, was it created now, state) -/
def getLoader (st : LState) (l : Nat) : Nat × Bool × LState :=
  if st.noCache then
    (st.nextObj, true, { st with nextObj := st.nextObj + 1,
                                 owner := fun o => if o = st.nextObj then l else st.owner o })
  else match st.loaders l with
    | some o => (o, false, st)
    | none => (st.nextObj, true,
        { st with loaders := fun l' => if l' = l then some st.nextObj else st.loaders l',
                  nextObj := st.nextObj + 1,
                  owner := fun o => if o = st.nextObj then l else st.owner o })

/-- `Loader._load_pipeline`, the creator of the pipeline cache: the loader's
    `get_pipeline_definition`, THEN the mapping check → (definition, was a file parsed, state).
    For the file loader the parse is stored by `file_cache` inside `get_pipeline_definition`, that is
    BEFORE the check: a rejected payload stays in `file_cache` (`files` holds it; every later
    look-up of that path is served the rejected parse and fails again — `rejected_file_is_remembered`
    in `Props/C13.lean`, the open finding "malformed top level cached before rejection"). -/
def loadDef (w : World) (st : LState) (l : Nat) (r : Rq) : Option Ver × Bool × LState :=
  if l = 0 then
    match w.resolve r with
    | none => (none, false, st)
    | some p =>
      if st.noCache then (w.accept (some (w.fileVer p)), true, st)
      else match st.files p with
        | some v => (w.accept (some v), false, st)
        | none => (w.accept (some (w.fileVer p)), true,
            { st with files := fun p' => if p' = p then some (w.fileVer p) else st.files p' })
  else (w.accept (w.custom l r), false, st)

/-- NOT pypyr as it is: the file loader validating BEFORE `file_cache` stores (the creator handed to
    `file_cache.get` raises for a non-mapping payload), so that a rejected payload is stored nowhere.
    `Props/C13.lean` `validating_file_creator_forgets_rejection`. -/
def loadDefV (w : World) (st : LState) (l : Nat) (r : Rq) : Option Ver × Bool × LState :=
  if l = 0 then
    match w.resolve r with
    | none => (none, false, st)
    | some p =>
      if st.noCache then (w.accept (some (w.fileVer p)), true, st)
      else match st.files p with
        | some v => (w.accept (some v), false, st)
        | none =>
          if w.mapping (w.fileVer p) then
            (some (w.fileVer p), true,
              { st with files := fun p' => if p' = p then some (w.fileVer p) else st.files p' })
          else (none, true, st)
  else (w.accept (w.custom l r), false, st)

/-- `Loader.get_pipeline` on Loader object `o` → (definition, defMade, fileRead, state) -/
def getPipeline (w : World) (st : LState) (o l : Nat) (r : Rq) : Option Ver × Bool × Bool × LState :=
  if st.noCache then
    ((loadDef w st l r).1, true, (loadDef w st l r).2.1, (loadDef w st l r).2.2)
  else match st.pipes o r.key with
    | some v => (some v, false, false, st)
    | none =>
      match (loadDef w st l r).1 with
      | some x => (some x, true, (loadDef w st l r).2.1,
          { (loadDef w st l r).2.2 with
            pipes := fun o' k => if o' = o ∧ k = r.key then some x else (loadDef w st l r).2.2.pipes o' k })
      | none => (none, true, (loadDef w st l r).2.1, (loadDef w st l r).2.2)

/-- `step_cache.get_step` for the step of the pipeline that runs -/
def getStep (st : LState) : Bool × LState :=
  if st.noCache then (true, st)
  else if st.stepCached then (false, st) else (true, { st with stepCached := true })

/-- `Pipeline.load_and_run_pipeline(context, parent)` on client object `c`, whose `loader` is `l`
    and whose `name`/this call's `parent` make up `r`. -/
def run (w : World) (st : LState) (c l : Nat) (r : Rq) : Obs × LState :=
  let gl := getLoader st l
  let gp := getPipeline w gl.2.2 gl.1 l r
  match gp.1 with
  | none => ({ ran := none, loaderMade := gl.2.1, defMade := gp.2.1, fileRead := gp.2.2.1, stepMade := false },
             gp.2.2.2)
  | some x =>
    let st3 : LState := { gp.2.2.2 with slot := fun c' => if c' = c then some x else gp.2.2.2.slot c' }
    ({ ran := some x, loaderMade := gl.2.1, defMade := gp.2.1, fileRead := gp.2.2.1,
       stepMade := (getStep st3).1 }, (getStep st3).2)

/-- the operations of a session -/
inductive LOp where
  /-- client `c` (a Pipeline object for loader `l`) is run with request `r` -/
  | run (c l : Nat) (r : Rq)
  /-- the world changes: sources are edited, files appear or disappear -/
  | world (w : World)
  /-- `pypyr.cache.admin.clear_all()` -/
  | clearAll
  /-- `loader_cache.clear()` -/
  | clearLoaders
  /-- `loader_cache.clear_pipes(l)` / `Loader.clear()` of the cached Loader; `none` = all loaders -/
  | clearPipes (l : Option Nat)
  /-- `file_cache.clear()` -/
  | clearFiles
  /-- `step_cache.clear()` -/
  | clearSteps
  /-- `config.no_cache = b` -/
  | setNoCache (b : Bool)

def clearPipesOf (st : LState) (l : Nat) : LState :=
  match st.loaders l with
  | some o => { st with pipes := fun o' k => if o' = o then none else st.pipes o' k }
  | none => st

/-- one operation; runs also yield an observation -/
def exec (w : World) (st : LState) : LOp → World × LState × Option Obs
  | .run c l r => (w, (run w st c l r).2, some (run w st c l r).1)
  | .world w' => (w', st, none)
  | .clearAll => (w, { st with loaders := fun _ => none, files := fun _ => none, stepCached := false }, none)
  | .clearLoaders => (w, { st with loaders := fun _ => none }, none)
  | .clearPipes (some l) => (w, clearPipesOf st l, none)
  | .clearPipes none =>
    (w, { st with pipes := fun o k => if st.loaders (st.owner o) = some o then none else st.pipes o k }, none)
  | .clearFiles => (w, { st with files := fun _ => none }, none)
  | .clearSteps => (w, { st with stepCached := false }, none)
  | .setNoCache b => (w, { st with noCache := b }, none)

/-- NOT pypyr: a client that re-uses the definition it holds from an earlier run. The model can
    express it; the freshness theorem fails for it (`Props/C13.lean`, `retaining_client_breaks_clear`). -/
def runRetaining (w : World) (st : LState) (c l : Nat) (r : Rq) : Obs × LState :=
  match st.slot c with
  | some v => ({ ran := some v, loaderMade := false, defMade := false, fileRead := false,
                 stepMade := (getStep st).1 }, (getStep st).2)
  | none => run w st c l r

/-- Ghost bookkeeping for the property statement: which layers MAY hold something made from a
    world that is gone. `files` = `file_cache`; `pipes l` = the pipeline cache of loader `l`'s
    current Loader object. Any change of the world may stale everything; each clear cleans exactly
    the layer it empties; a file-loader run while `file_cache` may be stale copies the staleness
    into the file loader's pipeline cache. -/
structure Flags where
  files : Bool
  pipes : Nat → Bool

def Flags.none : Flags := { files := false, pipes := fun _ => false }

/-- a run of loader `l` goes only through clean layers -/
def Flags.clean (f : Flags) (l : Nat) : Bool := !f.pipes l && (l != 0 || !f.files)

def Flags.step (f : Flags) : LOp → Flags
  | .run _ l _ =>
    if l = 0 ∧ f.files = true then { f with pipes := fun l' => if l' = 0 then true else f.pipes l' } else f
  | .world _ => { files := true, pipes := fun _ => true }
  | .clearAll => { files := false, pipes := fun _ => false }
  | .clearLoaders => { f with pipes := fun _ => false }
  | .clearPipes (some l) => { f with pipes := fun l' => if l' = l then false else f.pipes l' }
  | .clearPipes Option.none => { f with pipes := fun _ => false }
  | .clearFiles => { f with files := false }
  | .clearSteps => f
  | .setNoCache _ => f

/-- a whole session: the observation of every run together with "did it go through clean layers
    only (or with no_cache)" and what an uncached look-up would have yielded at that moment -/
def session (w : World) (st : LState) (f : Flags) : List LOp → List (Obs × Bool × Option Ver)
  | [] => []
  | op :: ops =>
    let rest := session (exec w st op).1 (exec w st op).2.1 (f.step op) ops
    match op with
    | .run c l r => ((run w st c l r).1, (f.clean l || st.noCache), w.fresh l r) :: rest
    | _ => rest

/-! #### `clear_all` / `clear_pipes` as the SEQUENCES they are

`pypyr.cache.admin.clear_all()` is a list of `<cache>.clear()` calls, each one critical section under that
cache's own lock, and `LoaderCache.clear_pipes()` a loop of `Loader.clear()` calls: between two of them any
other thread may complete look-ups. `weave gap i cl` = the clears `cl` in their order with the operations
`gap j` of other threads completed before the `j`-th clear (`gap (i + cl.length)` after the last one). -/

/-- the layer a cache instance named in `clear_all` belongs to; caches that are not on a pipeline look-up's
    path (`backoff_cache`, `pystring_namespace_cache`, `contextparser_cache`) have no counterpart here -/
def clearOpOf : String → Option LOp
  | "file_cache" => some .clearFiles
  | "loader_cache" => some .clearLoaders
  | "step_cache" => some .clearSteps
  | _ => none

def weave (gap : Nat → List LOp) : Nat → List LOp → List LOp
  | i, [] => gap i
  | i, c :: cs => gap i ++ c :: weave gap (i + 1) cs

def LOp.isWorld : LOp → Bool
  | .world _ => true
  | _ => false

def LOp.isClearLoaders : LOp → Bool
  | .clearLoaders => true
  | _ => false

/-- the order condition: some `file_cache.clear()` (the INNER layer of the file loader's look-up path) comes
    before some `loader_cache.clear()` (the OUTER layer, filled FROM the inner one) -/
def innerFirst : List LOp → Bool
  | [] => false
  | .clearFiles :: rest => rest.any LOp.isClearLoaders || innerFirst rest
  | _ :: rest => innerFirst rest

end Stack


/-! ### The atomic specification without the creator script

`specStep` ties the outcome of creator call `c` to `cfg.fails c`. For a cache whose creator is itself a
look-up in another cache (`Nest` below) the outcome also depends on that inner look-up, so the
per-layer statements use the script-free discipline: a hit serves what the table holds, a creation or
a failure happens only for an absent key, a clear resets. -/

def specStepU (seed s : Key → Option Obj) : Ev → Option (Key → Option Obj)
  | .hit _ k c => if s k = some c then some s else none
  | .create _ k c => if s k = none then some (setKey s k c) else none
  | .fail _ k _ => if s k = none then some s else none
  | .clear _ => some seed

def specRunU (seed : Key → Option Obj) : List Ev → Option (Key → Option Obj)
  | [] => some seed
  | e :: h => match specRunU seed h with
    | none => none
    | some s => specStepU seed s e

/-! ### `LoaderCache.clear_pipes` next to look-ups

  As repaired (fix fa2daa9):

      def clear_pipes(self, loader_name=None):
          if loader_name:
              loader = self._cache.get(loader_name, None)   -- ONE unlocked dict read: off → iter [c] | iter []
              if loader: loader.clear()
          else:
              with self._lock:                               -- off → snapping: wantLock → locked → …
                  loaders = list(self._cache.values())       --   … the read under the lock (snapshot) …
                                                             --   … toRelease → released → idle
              for loader in loaders:                         -- snapping → iter snapshot
                  loader.clear()                             -- iter (c :: todo) → clrWant c → clrRel c → iter todo
                                                             -- (`Loader.clear` = `with self._pipeline_cache._lock: …clear()`)

  `XState` = the one-lock system above (`base`, untouched: the cache instance is the `LoaderCache`) plus,
  per thread, the program that may contain `clear_pipes` calls, and the locks of the Loader objects' own
  pipeline caches (keyed by the Loader object = its creator-call number).

  The snapshot's critical section — take the lock, READ the table, release — is run by the base system
  itself as a look-up of a reserved, seeded key `snapKey` (a hit: `wantLock → locked → toRelease →
  released → idle`, no write), so lock coherence, mutual exclusion with the creators and the turn
  structure are the base system's own; at the `locked` step the extended system records the table.
  Cached mode only (`cfg.noCache = false`): with `no_cache` nothing is ever stored in the table. -/
namespace Scan

/-- `(key, object)` of the creations in `h` (newest first) since the last clear, oldest first -/
def epochCreates : List Ev → List (Key × Obj)
  | [] => []
  | .clear _ :: _ => []
  | .create _ k c :: h => epochCreates h ++ [(k, c)]
  | _ :: h => epochCreates h

/-- the entries of `self._cache` in insertion order, as a reader sees them now: a creation whose store
    (`created → toRelease`) has not happened yet is not there -/
def visible (st : State) : List (Key × Obj) :=
  (epochCreates st.hist).filter fun kc => st.cache kc.1 == some kc.2

inductive SOp where
  | base (op : Op)
  /-- `clear_pipes()` -/
  | clearPipes
  /-- `clear_pipes(loader_name)` -/
  | clearPipesOf (k : Key)
  deriving DecidableEq, Repr, Inhabited

/-- how a `clear_pipes` call ended: the Loader objects it cleared, in order; `sizeChanged` =
    `RuntimeError: dictionary changed size during iteration` (pre-fix only, see `ScanPre`) -/
inductive SRes where
  | swept (cleared : List Obj)
  | sizeChanged (cleared : List Obj)
  deriving DecidableEq, Repr, Inhabited

inductive SPc where
  | off
  /-- inside `with self._lock: loaders = list(…)`; `snap` = the list once it has been read -/
  | snapping (snap : Option (List Obj))
  /-- between two iterations of `for loader in loaders`: still to clear, cleared (newest first) -/
  | iter (todo done : List Obj)
  /-- in `loader.clear()`: waiting for Loader object `c`'s pipeline-cache lock -/
  | clrWant (todo done : List Obj) (c : Obj)
  /-- holds it, has emptied that Loader's pipeline cache; about to release -/
  | clrRel (todo done : List Obj) (c : Obj)
  deriving DecidableEq, Repr, Inhabited

structure SThread where
  sops : List SOp
  spc : SPc
  /-- outcomes of the finished `clear_pipes` calls, newest first -/
  sres : List SRes
  /-- ghost: what each `clear_pipes` call read from the table (its snapshot), newest first -/
  snaps : List (List Obj)
  deriving Repr, Inhabited

structure XState where
  base : State
  scan : Tid → SThread
  /-- `Loader._pipeline_cache._lock` of Loader object `c` -/
  llock : Obj → Option Tid

def XState.setScan (x : XState) (t : Tid) (sc : SThread) : XState :=
  { x with scan := fun u => if u = t then sc else x.scan u }

/-- One micro-step of thread `t`; `snapKey` = the reserved key (see the section header). -/
def xstep (cfg : Cfg) (snapKey : Key) (x : XState) (t : Tid) : XState :=
  let sc := x.scan t
  let th := x.base.threads t
  match sc.spc with
  | .snapping snap =>
    if th.pc = .idle then
      -- the `with` block is over: start iterating the list that was read
      x.setScan t { sc with spc := .iter (snap.getD []) [], snaps := snap.getD [] :: sc.snaps }
    else if th.pc = .locked (.get snapKey) then
      -- `loaders = list(self._cache.values())`, under the lock
      { x.setScan t { sc with spc := .snapping (some ((visible x.base).map (·.2))) } with base := step cfg x.base t }
    else { x with base := step cfg x.base t }
  | .iter todo done =>
    match todo with
    | [] => x.setScan t { sc with spc := .off, sres := .swept done.reverse :: sc.sres }
    | c :: rest => x.setScan t { sc with spc := .clrWant rest done c }
  | .clrWant todo done c =>
    match x.llock c with
    | some _ => x
    | none => { x.setScan t { sc with spc := .clrRel todo done c } with
                llock := fun c' => if c' = c then some t else x.llock c' }
  | .clrRel todo done c =>
    { x.setScan t { sc with spc := .iter todo (c :: done) } with
      llock := fun c' => if c' = c then none else x.llock c' }
  | .off =>
    if th.pc = .idle ∧ th.ops = [] then
      match sc.sops with
      | [] => x
      | .base op :: rest =>
        { x.setScan t { sc with sops := rest } with
          base := step cfg (x.base.setThread t { th with ops := [op] }) t }
      | .clearPipes :: rest =>
        { x.setScan t { sc with sops := rest, spc := .snapping none } with
          base := step cfg (x.base.setThread t { th with ops := [.get snapKey] }) t }
      | .clearPipesOf k :: rest =>
        -- `self._cache.get(loader_name)`: one read of the table as it is now, no lock
        let l := match x.base.cache k with
          | some c => [c]
          | none => []
        x.setScan t { sc with sops := rest, spc := .iter l [], snaps := l :: sc.snaps }
    else { x with base := step cfg x.base t }

def xrun (cfg : Cfg) (snapKey : Key) (x : XState) : List Tid → XState
  | [] => x
  | t :: ts => xrun cfg snapKey (xstep cfg snapKey x t) ts

def xinit (cfg : Cfg) (prog : Tid → List SOp) : XState :=
  { base := init cfg (fun _ => []), scan := fun t => { sops := prog t, spc := .off, sres := [], snaps := [] },
    llock := fun _ => none }

/-- parking places of the harness: those of the base system, and the Loader lock's enter/exit -/
def xparked (x : XState) (t : Tid) : Bool :=
  match (x.scan t).spc with
  | .off => (x.base.threads t).pc.parked
  | .snapping _ => (x.base.threads t).pc.parked && (x.base.threads t).pc != .idle
  | .iter _ _ => false
  | .clrWant _ _ _ | .clrRel _ _ _ => true

def xsettle (cfg : Cfg) (snapKey : Key) : Nat → XState → Tid → XState
  | 0, x, _ => x
  | n + 1, x, t => if xparked x t then x else xsettle cfg snapKey n (xstep cfg snapKey x t) t

def xturn (cfg : Cfg) (snapKey : Key) (x : XState) (t : Tid) : XState :=
  xsettle cfg snapKey 4 (xstep cfg snapKey x t) t

def xenabled (x : XState) (t : Tid) : Bool :=
  match (x.scan t).spc with
  | .off =>
    if (x.base.threads t).pc = .idle ∧ (x.base.threads t).ops = [] then !(x.scan t).sops.isEmpty
    else enabled x.base t
  | .snapping _ => (x.base.threads t).pc == .idle || enabled x.base t
  | .clrWant _ _ c => (x.llock c).isNone
  | _ => true

def xrunTurns (cfg : Cfg) (snapKey : Key) (x : XState) : List Tid → XState
  | [] => x
  | t :: ts => xrunTurns cfg snapKey (xturn cfg snapKey x t) ts

def xfinish (cfg : Cfg) (snapKey : Key) (n : Nat) : Nat → XState → XState
  | 0, x => x
  | fuel + 1, x =>
    match (List.range n).find? (xenabled x) with
    | none => x
    | some t => xfinish cfg snapKey n fuel (xturn cfg snapKey x t)

end Scan

/-! ### `LoaderCache.clear_pipes()` BEFORE fix fa2daa9 — read and iterated the table WITHOUT the lock

          else:
              for _, loader in self._cache.items():       -- iterator made: off → iter used 0
                  loader.clear()                          -- iter → clrWant → clrRel → iter

  CPython's `dictiter_iternextitem`: every `next()` first compares the size the dict had when the
  iterator was made (`di_used`) with its present size and raises `RuntimeError("dictionary changed
  size during iteration")` when they differ; then it yields the entry at `di_pos`, or stops when
  there is none. The table only ever grows by one appended entry (`self._cache[key] = obj`, under
  the lock, for an absent key) or is emptied (`clear`), so the entries are the creations since the
  last clear whose store has happened, in order (`Scan.visible`). Pinned here for the witness
  `clear_pipes_race_pre_fix` (`Props/C13.lean`); nothing else refers to it. -/
namespace ScanPre
open Scan (visible SOp SRes)

inductive SPc where
  | off
  /-- between two `next()` calls: `di_used`, `di_pos`, cleared so far (newest first) -/
  | iter (used pos : Nat) (done : List Obj)
  | clrWant (used pos : Nat) (done : List Obj) (c : Obj)
  | clrRel (used pos : Nat) (done : List Obj) (c : Obj)
  deriving DecidableEq, Repr, Inhabited

structure SThread where
  sops : List SOp
  spc : SPc
  sres : List SRes
  deriving Repr, Inhabited

structure XState where
  base : State
  scan : Tid → SThread
  llock : Obj → Option Tid

def XState.setScan (x : XState) (t : Tid) (sc : SThread) : XState :=
  { x with scan := fun u => if u = t then sc else x.scan u }

def xstep (cfg : Cfg) (x : XState) (t : Tid) : XState :=
  let sc := x.scan t
  match sc.spc with
  | .iter used pos done =>
    if (visible x.base).length ≠ used then
      x.setScan t { sc with spc := .off, sres := .sizeChanged done.reverse :: sc.sres }
    else match (visible x.base)[pos]? with
      | some kc => x.setScan t { sc with spc := .clrWant used pos done kc.2 }
      | none => x.setScan t { sc with spc := .off, sres := .swept done.reverse :: sc.sres }
  | .clrWant used pos done c =>
    match x.llock c with
    | some _ => x
    | none => { x.setScan t { sc with spc := .clrRel used pos done c } with
                llock := fun c' => if c' = c then some t else x.llock c' }
  | .clrRel used pos done c =>
    { x.setScan t { sc with spc := .iter used (pos + 1) (c :: done) } with
      llock := fun c' => if c' = c then none else x.llock c' }
  | .off =>
    let th := x.base.threads t
    if th.pc = .idle ∧ th.ops = [] then
      match sc.sops with
      | [] => x
      | .base op :: rest =>
        { x.setScan t { sc with sops := rest } with
          base := step cfg (x.base.setThread t { th with ops := [op] }) t }
      | .clearPipes :: rest =>
        x.setScan t { sc with sops := rest, spc := .iter (visible x.base).length 0 [] }
      | .clearPipesOf _ :: rest => x.setScan t { sc with sops := rest }
    else { x with base := step cfg x.base t }

def xrun (cfg : Cfg) (x : XState) : List Tid → XState
  | [] => x
  | t :: ts => xrun cfg (xstep cfg x t) ts

def xinit (cfg : Cfg) (prog : Tid → List SOp) : XState :=
  { base := init cfg (fun _ => []), scan := fun t => { sops := prog t, spc := .off, sres := [] },
    llock := fun _ => none }

end ScanPre

/-! ### Two locks: a cache whose creator looks up another cache

`Loader.get_pipeline` → `self._pipeline_cache.get(key, lambda: self._load_pipeline(name, parent))`;
for the file loader `_load_pipeline` → `pypyr.loaders.file.get_pipeline_definition` →
`file_cache.get(str(path), lambda: load_pipeline_from_file(path))`. So the OUTER cache's creator
runs, still under the outer lock, a whole `get` on the INNER cache (second lock):

      outer.get(ko):  with outer._lock:                       -- wantO → lockedO
                          if ko in outer._cache: …hit          -- lockedO → relO
                          else:
                              obj = creator()                  -- lockedO → inCrO
                                  inner.get(ki):               -- inCrO → wantI (some (ko, c))
                                      with inner._lock: …      -- wantI → lockedI → (relI | inCrI → exitI → (createdI →)? relI)
                                                               -- relI → doneI
                                  (wrap / validate / raise)    -- doneI → exitO → (createdO | relO (raised))
                              outer._cache[ko] = obj           -- createdO → relO
                                                               -- relO → doneO → idle

The lock order is outer-then-inner only: nothing that runs under the inner lock
(`load_pipeline_from_file`) looks anything up in a pipeline cache. Other threads reach the inner
cache directly (`getI`, `clearI`: from this pair's point of view that is what the creator of
ANOTHER Loader's pipeline cache, or `file_cache.clear()`, looks like).

`getRe` is NOT pypyr: an outer get whose creator gets from the SAME cache. `threading.Lock` is not
re-entrant, so that thread waits for ever for the lock it holds (`reWant`). It is in the model to
make the assumption "no creator re-enters its own cache" explicit (`Props/C13.lean`,
`reentrant_get_deadlocks`). -/
namespace Nest

inductive NOp where
  | getO (ko ki : Key)
  | getI (ki : Key)
  | clearO
  | clearI
  | getRe (ko ko' : Key)
  deriving DecidableEq, Repr, Inhabited

/-- an operation on the outer cache -/
inductive OOp where
  | get (ko ki : Key)
  | clear
  | re (ko ko' : Key)
  deriving DecidableEq, Repr, Inhabited

/-- an operation on the inner cache -/
inductive IOp where
  | get (ki : Key)
  | clear
  deriving DecidableEq, Repr, Inhabited

/-- the outer creator invocation an inner operation is nested in: (outer key, outer call number) -/
abbrev Frame := Option (Key × Nat)

inductive NPc where
  | idle
  | wantO (op : OOp)
  | lockedO (op : OOp)
  | inCrO (ko ki : Key) (c : Nat)
  | reWant (ko ko' : Key) (c : Nat)
  | wantI (fr : Frame) (op : IOp)
  | lockedI (fr : Frame) (op : IOp)
  | inCrI (fr : Frame) (ki : Key) (c : Nat)
  | exitI (fr : Frame) (ki : Key) (c : Nat)
  | createdI (fr : Frame) (ki : Key) (c : Obj)
  | relI (fr : Frame) (r : Res)
  | doneI (fr : Frame) (r : Res)
  | exitO (ko : Key) (c : Nat) (ri : Res)
  | createdO (ko : Key) (c : Obj)
  | relO (r : Res)
  | doneO (r : Res)
  deriving DecidableEq, Repr, Inhabited

structure NThread where
  ops : List NOp
  pc : NPc
  results : List Res
  deriving Repr, Inhabited

/-- creator scripts: does outer creator call `n` raise after its inner look-up returned
    (`_load_pipeline`'s "must be a mapping"); does inner creator call `n` raise -/
structure NCfg where
  failsO : Nat → Bool
  failsI : Nat → Bool

structure NState where
  threads : Tid → NThread
  lockO : Option Tid
  lockI : Option Tid
  cacheO : Key → Option Obj
  cacheI : Key → Option Obj
  callsO : Nat
  callsI : Nat
  /-- ghost histories of the two layers, newest first -/
  histO : List Ev
  histI : List Ev

def NState.setThread (st : NState) (t : Tid) (th : NThread) : NState :=
  { st with threads := fun u => if u = t then th else st.threads u }

def emptyTab : Key → Option Obj := fun _ => none

/-- One micro-step of thread `t` (see the section header). -/
def nstep (cfg : NCfg) (st : NState) (t : Tid) : NState :=
  let th := st.threads t
  match th.pc with
  | .idle =>
    match th.ops with
    | [] => st
    | op :: rest =>
      match op with
      | .getO ko ki => st.setThread t { th with ops := rest, pc := .wantO (.get ko ki) }
      | .clearO => st.setThread t { th with ops := rest, pc := .wantO .clear }
      | .getRe ko ko' => st.setThread t { th with ops := rest, pc := .wantO (.re ko ko') }
      | .getI ki => st.setThread t { th with ops := rest, pc := .wantI none (.get ki) }
      | .clearI => st.setThread t { th with ops := rest, pc := .wantI none .clear }
  | .wantO op =>
    match st.lockO with
    | some _ => st
    | none => { st.setThread t { th with pc := .lockedO op } with lockO := some t }
  | .lockedO op =>
    match op with
    | .get ko ki =>
      match st.cacheO ko with
      | some c => { st.setThread t { th with pc := .relO (.val c) } with histO := .hit t ko c :: st.histO }
      | none => { st.setThread t { th with pc := .inCrO ko ki st.callsO } with callsO := st.callsO + 1 }
    | .re ko ko' =>
      match st.cacheO ko with
      | some c => { st.setThread t { th with pc := .relO (.val c) } with histO := .hit t ko c :: st.histO }
      | none => { st.setThread t { th with pc := .reWant ko ko' st.callsO } with callsO := st.callsO + 1 }
    | .clear =>
      { st.setThread t { th with pc := .relO .cleared } with cacheO := emptyTab, histO := .clear t :: st.histO }
  | .inCrO ko ki c => st.setThread t { th with pc := .wantI (some (ko, c)) (.get ki) }
  | .reWant _ _ _ => st      -- `outer._lock.acquire()` by the thread that holds it: never granted
  | .wantI fr op =>
    match st.lockI with
    | some _ => st
    | none => { st.setThread t { th with pc := .lockedI fr op } with lockI := some t }
  | .lockedI fr op =>
    match op with
    | .get ki =>
      match st.cacheI ki with
      | some c => { st.setThread t { th with pc := .relI fr (.val c) } with histI := .hit t ki c :: st.histI }
      | none => { st.setThread t { th with pc := .inCrI fr ki st.callsI } with callsI := st.callsI + 1 }
    | .clear =>
      { st.setThread t { th with pc := .relI fr .cleared } with cacheI := emptyTab, histI := .clear t :: st.histI }
  | .inCrI fr ki c => st.setThread t { th with pc := .exitI fr ki c }
  | .exitI fr ki c =>
    if cfg.failsI c then
      { st.setThread t { th with pc := .relI fr (.raised c) } with histI := .fail t ki c :: st.histI }
    else
      { st.setThread t { th with pc := .createdI fr ki c } with histI := .create t ki c :: st.histI }
  | .createdI fr ki c =>
    { st.setThread t { th with pc := .relI fr (.val c) } with cacheI := setKey st.cacheI ki c }
  | .relI fr r => { st.setThread t { th with pc := .doneI fr r } with lockI := none }
  | .doneI fr r =>
    match fr with
    | none => st.setThread t { th with pc := .idle, results := r :: th.results }
    | some (ko, c) => st.setThread t { th with pc := .exitO ko c r }
  | .exitO ko c ri =>
    match ri with
    | .val _ =>
      if cfg.failsO c then
        { st.setThread t { th with pc := .relO (.raised c) } with histO := .fail t ko c :: st.histO }
      else
        { st.setThread t { th with pc := .createdO ko c } with histO := .create t ko c :: st.histO }
    | _ => { st.setThread t { th with pc := .relO (.raised c) } with histO := .fail t ko c :: st.histO }
  | .createdO ko c =>
    { st.setThread t { th with pc := .relO (.val c) } with cacheO := setKey st.cacheO ko c }
  | .relO r => { st.setThread t { th with pc := .doneO r } with lockO := none }
  | .doneO r => st.setThread t { th with pc := .idle, results := r :: th.results }

def nrun (cfg : NCfg) (st : NState) : List Tid → NState
  | [] => st
  | t :: ts => nrun cfg (nstep cfg st t) ts

def ninit (prog : Tid → List NOp) : NState :=
  { threads := fun t => { ops := prog t, pc := .idle, results := [] }
    lockO := none, lockI := none, cacheO := emptyTab, cacheI := emptyTab, callsO := 0, callsI := 0,
    histO := [], histI := [] }

/-- Can a micro-step of `t` change anything? -/
def nenabled (st : NState) (t : Tid) : Bool :=
  match (st.threads t).pc with
  | .idle => !(st.threads t).ops.isEmpty
  | .wantO _ => st.lockO.isNone
  | .wantI _ _ => st.lockI.isNone
  | .reWant _ _ _ => false
  | _ => true

/-- where the harness can park a real thread: before an operation, in either lock's `__enter__`
    and `__exit__`, on entry to and exit from the inner creator -/
def NPc.parked : NPc → Bool
  | .idle | .wantO _ | .reWant _ _ _ | .wantI _ _ | .inCrI _ _ _ | .exitI _ _ _ | .relI _ _ | .relO _ => true
  | _ => false

def nsettle (cfg : NCfg) : Nat → NState → Tid → NState
  | 0, st, _ => st
  | n + 1, st, t => if (st.threads t).pc.parked then st else nsettle cfg n (nstep cfg st t) t

def nturn (cfg : NCfg) (st : NState) (t : Tid) : NState := nsettle cfg 5 (nstep cfg st t) t

def nrunTurns (cfg : NCfg) (st : NState) : List Tid → NState
  | [] => st
  | t :: ts => nrunTurns cfg (nturn cfg st t) ts

def nfinish (cfg : NCfg) (n : Nat) : Nat → NState → NState
  | 0, st => st
  | fuel + 1, st =>
    match (List.range n).find? (nenabled st) with
    | none => st
    | some t => nfinish cfg n fuel (nturn cfg st t)

end Nest

/-! ### `add_sys_path` at the granularity of the single set operations

`_known_dirs` / `_missing_dirs` are plain sets read and written OUTSIDE `_sys_path_lock`. `spStep`
above does the entry test `path in _known_dirs and path not in _missing_dirs` and the pair
`_known_dirs.add(path); _missing_dirs.add(path)` in one step each. Here every set operation is a
step of its own (each one is atomic in CPython; another thread can run between any two):

                                                 -- fIdle → fChkK (the call starts)
      if path in _known_dirs                     -- fChkK → fChkM | fExists
         and path not in _missing_dirs: return   -- fChkM → fIdle | fExists
      if not path_obj.exists():                  -- fExists → fAddM | fWant
          _missing_dirs.add(path)                -- fAddM → fAddK
          _known_dirs.add(path); return          -- fAddK → fIdle
      with _sys_path_lock:                       -- fWant → fLocked
          if path_str not in sys.path:           -- fLocked → fAppend | fRelease
              sys.path.append(path_str)          -- fAppend → fRelease
                                                 -- fRelease → fKnown
      _known_dirs.add(path)                      -- fKnown → fDiscard
      _missing_dirs.discard(path)                -- fDiscard → fIdle

The ORDER of the last three matters to a concurrent caller: the unlocked early return trusts "known and not
missing"; the path must be on `sys.path` before that becomes true. `fStepO` below is the same system with the
order as a parameter (`FOrder.repaired` = `fStep`; `FOrder.discardFirst` = the order before the repair;
`FOrder.knownFirst` = `_known_dirs.add` before the append): the two other orders let a call return for an
existing directory that is not on `sys.path` (Props/C13.lean `*_breaks_returned_on_syspath`).
In the not-exists branch `_missing_dirs.add` comes BEFORE `_known_dirs.add` for the same reason: "known and not
missing" must never be true of a path that is not on `sys.path`, not even between two set operations
(`FOrder.knownBeforeMissing` = the other order: a directory created at that moment is skipped by a concurrent caller).
The file system may change at any moment: `fRunW` takes the exists() oracle per step.
-/

inductive FPc where
  | fIdle | fChkK (p : Nat) | fChkM (p : Nat) | fExists (p : Nat) | fAddK (p : Nat) | fAddM (p : Nat) | fDiscard (p : Nat)
  | fWant (p : Nat) | fLocked (p : Nat) | fAppend (p : Nat) | fRelease (p : Nat) | fKnown (p : Nat)
  deriving DecidableEq, Repr, Inhabited

structure FThread where
  ops : List Nat
  pc : FPc
  deriving Repr, Inhabited

structure FState where
  threads : Tid → FThread
  lock : Option Tid
  sysPath : List Nat
  known : List Nat
  missing : List Nat

def FState.setThread (st : FState) (t : Tid) (th : FThread) : FState :=
  { st with threads := fun u => if u = t then th else st.threads u }

def fStep (ex : Nat → Bool) (st : FState) (t : Tid) : FState :=
  let th := st.threads t
  match th.pc with
  | .fIdle =>
    match th.ops with
    | [] => st
    | p :: rest => st.setThread t { ops := rest, pc := .fChkK p }
  | .fChkK p =>
    if p ∈ st.known then st.setThread t { th with pc := .fChkM p }
    else st.setThread t { th with pc := .fExists p }
  | .fChkM p =>
    if p ∉ st.missing then st.setThread t { th with pc := .fIdle }
    else st.setThread t { th with pc := .fExists p }
  | .fExists p =>
    if ex p then st.setThread t { th with pc := .fWant p } else st.setThread t { th with pc := .fAddM p }
  | .fAddK p => { st.setThread t { th with pc := .fIdle } with known := p :: st.known }
  | .fAddM p => { st.setThread t { th with pc := .fAddK p } with missing := p :: st.missing }
  | .fDiscard p => { st.setThread t { th with pc := .fIdle } with missing := st.missing.filter (· ≠ p) }
  | .fWant p =>
    match st.lock with
    | some _ => st
    | none => { st.setThread t { th with pc := .fLocked p } with lock := some t }
  | .fLocked p =>
    if p ∈ st.sysPath then st.setThread t { th with pc := .fRelease p }
    else st.setThread t { th with pc := .fAppend p }
  | .fAppend p => { st.setThread t { th with pc := .fRelease p } with sysPath := st.sysPath ++ [p] }
  | .fRelease p => { st.setThread t { th with pc := .fKnown p } with lock := none }
  | .fKnown p => { st.setThread t { th with pc := .fDiscard p } with known := p :: st.known }

def fRun (ex : Nat → Bool) (st : FState) : List Tid → FState
  | [] => st
  | t :: ts => fRun ex (fStep ex st t) ts

/-- the file system changes while the threads run: every step comes with the exists() oracle of its moment -/
def fRunW (st : FState) : List ((Nat → Bool) × Tid) → FState
  | [] => st
  | (ex, t) :: ts => fRunW (fStep ex st t) ts

def fInit (sysPath : List Nat) (prog : Tid → List Nat) : FState :=
  { threads := fun t => { ops := prog t, pc := .fIdle }, lock := none, sysPath := sysPath, known := [], missing := [] }

/-- a process with a history: `known` / `missing` as earlier calls left them (a directory that was missing at an
    earlier call and exists now is in both) -/
def fInitH (sysPath known missing : List Nat) (prog : Tid → List Nat) : FState :=
  { threads := fun t => { ops := prog t, pc := .fIdle }, lock := none, sysPath := sysPath, known := known,
    missing := missing }

/-- the path of the call a thread is in -/
def FPc.path : FPc → Option Nat
  | .fIdle => none
  | .fChkK p | .fChkM p | .fExists p | .fAddK p | .fAddM p | .fDiscard p | .fWant p | .fLocked p | .fAppend p
  | .fRelease p | .fKnown p => some p

/-- Where the three steps `_missing_dirs.discard`, locked append, `_known_dirs.add` of the exists-branch go:
    the successor of the exists() test, of the lock release, of `_known_dirs.add`, of `_missing_dirs.discard`. -/
structure FOrder where
  afterExists : Nat → FPc
  afterRelease : Nat → FPc
  afterKnown : Nat → FPc
  afterDiscard : Nat → FPc
  /-- the not-exists branch: successor of the exists() test, of `_missing_dirs.add`, of `_known_dirs.add` -/
  afterNotExists : Nat → FPc := .fAddM
  afterAddM : Nat → FPc := .fAddK
  afterAddK : Nat → FPc := fun _ => .fIdle

/-- append, `_known_dirs.add`, `_missing_dirs.discard` — the order of `fStep` -/
def FOrder.repaired : FOrder :=
  { afterExists := .fWant, afterRelease := .fKnown, afterKnown := .fDiscard, afterDiscard := fun _ => .fIdle }
/-- `_missing_dirs.discard`, append, `_known_dirs.add` -/
def FOrder.discardFirst : FOrder :=
  { afterExists := .fDiscard, afterDiscard := .fWant, afterRelease := .fKnown, afterKnown := fun _ => .fIdle }
/-- `_known_dirs.add`, `_missing_dirs.discard`, append -/
def FOrder.knownFirst : FOrder :=
  { afterExists := .fKnown, afterKnown := .fDiscard, afterDiscard := .fWant, afterRelease := fun _ => .fIdle }

/-- the exists-branch as repaired; the not-exists branch `_known_dirs.add` first, `_missing_dirs.add` second -/
def FOrder.knownBeforeMissing : FOrder :=
  { FOrder.repaired with afterNotExists := .fAddK, afterAddK := .fAddM, afterAddM := fun _ => .fIdle }

def fStepO (o : FOrder) (ex : Nat → Bool) (st : FState) (t : Tid) : FState :=
  let th := st.threads t
  match th.pc with
  | .fIdle =>
    match th.ops with
    | [] => st
    | p :: rest => st.setThread t { ops := rest, pc := .fChkK p }
  | .fChkK p =>
    if p ∈ st.known then st.setThread t { th with pc := .fChkM p }
    else st.setThread t { th with pc := .fExists p }
  | .fChkM p =>
    if p ∉ st.missing then st.setThread t { th with pc := .fIdle }
    else st.setThread t { th with pc := .fExists p }
  | .fExists p =>
    if ex p then st.setThread t { th with pc := o.afterExists p }
    else st.setThread t { th with pc := o.afterNotExists p }
  | .fAddK p => { st.setThread t { th with pc := o.afterAddK p } with known := p :: st.known }
  | .fAddM p => { st.setThread t { th with pc := o.afterAddM p } with missing := p :: st.missing }
  | .fDiscard p => { st.setThread t { th with pc := o.afterDiscard p } with missing := st.missing.filter (· ≠ p) }
  | .fWant p =>
    match st.lock with
    | some _ => st
    | none => { st.setThread t { th with pc := .fLocked p } with lock := some t }
  | .fLocked p =>
    if p ∈ st.sysPath then st.setThread t { th with pc := .fRelease p }
    else st.setThread t { th with pc := .fAppend p }
  | .fAppend p => { st.setThread t { th with pc := .fRelease p } with sysPath := st.sysPath ++ [p] }
  | .fRelease p => { st.setThread t { th with pc := o.afterRelease p } with lock := none }
  | .fKnown p => { st.setThread t { th with pc := o.afterKnown p } with known := p :: st.known }

def fRunO (o : FOrder) (ex : Nat → Bool) (st : FState) : List Tid → FState
  | [] => st
  | t :: ts => fRunO o ex (fStepO o ex st t) ts

def fRunOW (o : FOrder) (st : FState) : List ((Nat → Bool) × Tid) → FState
  | [] => st
  | (ex, t) :: ts => fRunOW o (fStepO o ex st t) ts

def fEnabled (st : FState) (t : Tid) : Bool :=
  match (st.threads t).pc with
  | .fIdle => !(st.threads t).ops.isEmpty
  | .fWant _ => st.lock.isNone
  | _ => true

/-- where the harness parks a real thread: before the call, before every operation on `_known_dirs` /
    `_missing_dirs` (the harness replaces them by sets that hand over control first), in the lock's
    `__enter__` and `__exit__` -/
def FPc.parked : FPc → Bool
  | .fExists _ | .fLocked _ | .fAppend _ => false
  | _ => true

def fSettle (ex : Nat → Bool) : Nat → FState → Tid → FState
  | 0, st, _ => st
  | n + 1, st, t => if (st.threads t).pc.parked then st else fSettle ex n (fStep ex st t) t

def fTurn (ex : Nat → Bool) (st : FState) (t : Tid) : FState := fSettle ex 3 (fStep ex st t) t

def fRunTurns (ex : Nat → Bool) (st : FState) : List Tid → FState
  | [] => st
  | t :: ts => fRunTurns ex (fTurn ex st t) ts

def fFinish (ex : Nat → Bool) (n : Nat) : Nat → FState → FState
  | 0, st => st
  | fuel + 1, st =>
    match (List.range n).find? (fEnabled st) with
    | none => st
    | some t => fFinish ex n fuel (fTurn ex st t)

end Pypyr.CacheTS
