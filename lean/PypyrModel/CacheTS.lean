/-
  CacheTS — small-step transition system of pypyr's lock-protected get-or-create cache
  (`pypyr/cache/cache.py`), the pipeline key function of `Loader.get_pipeline`
  (`pypyr/cache/loadercache.py`) and `pypyr.moduleloader.add_sys_path`.

  Threads run lists of `get k` / `clear` operations against ONE cache instance; an explicit
  schedule (list of thread ids) picks which thread makes the next micro-step. Creators are
  scripted: the n-th creator invocation (numbered when the creator is entered) returns the fresh
  object whose id is n, or raises if `fails n`.

  Python, `Cache.get(key, creator)`:

      if config.no_cache:            -- `start` (idle → bpCreator | wantLock)
          return creator()           -- bpCreator → bpExiting → bpDone → idle
      with self._lock:               -- wantLock → locked           (acquire)
          if key in self._cache:     -- locked → toRelease (hit)    (check)
              obj = self._cache[key]
          else:
              obj = creator()        -- locked → inCreator → exiting → created | toRelease(raised)
              self._cache[key] = obj -- created → toRelease         (store)
                                     -- toRelease → released        (release; also on exception)
      return obj                     -- released → idle             (return / propagate)

  `Cache.clear`: `with self._lock: self._cache.clear()`; `BackoffCache` starts from, and its
  `clear` resets to, a copy of the built-in table — `Cfg.seed` (all-`none` for the plain caches).
-/
namespace Pypyr.CacheTS

abbrev Tid := Nat
abbrev Key := Nat
abbrev Obj := Nat

/-- One operation of a thread's program. -/
inductive Op where
  | get (k : Key)
  | clear
  deriving DecidableEq, Repr, Inhabited

/-- What an operation gave back to its caller: the object, the creator's exception (tagged with
    the creator-call number), or nothing (clear). -/
inductive Res where
  | val (c : Obj)
  | raised (c : Nat)
  | cleared
  deriving DecidableEq, Repr, Inhabited

/-- Events of the ghost history, logged at the point where the operation takes effect. -/
inductive Ev where
  | hit (t : Tid) (k : Key) (c : Obj)      -- `key in self._cache` was true; `obj = self._cache[key]`
  | create (t : Tid) (k : Key) (c : Obj)   -- creator call number `c` returned the fresh object `c`
  | fail (t : Tid) (k : Key) (c : Nat)     -- creator call number `c` raised
  | clear (t : Tid)                        -- `self._cache.clear()` ran
  deriving DecidableEq, Repr, Inhabited

def Ev.tid : Ev → Tid
  | .hit t _ _ | .create t _ _ | .fail t _ _ | .clear t => t

/-- The result the operation that logged this event hands to its caller. -/
def Ev.res : Ev → Res
  | .hit _ _ c | .create _ _ c => .val c
  | .fail _ _ c => .raised c
  | .clear _ => .cleared

/-- Program counter inside the current operation (see the file header). -/
inductive Pc where
  | idle
  | wantLock (op : Op)
  | locked (op : Op)
  | inCreator (k : Key) (c : Nat)
  | exiting (k : Key) (c : Nat)
  | created (k : Key) (c : Obj)
  | toRelease (r : Res)
  | released (r : Res)
  | bpCreator (k : Key) (c : Nat)
  | bpExiting (k : Key) (c : Nat)
  | bpDone (r : Res)
  deriving DecidableEq, Repr, Inhabited

structure Thread where
  ops : List Op
  pc : Pc
  /-- results of the finished operations, newest first -/
  results : List Res
  deriving Repr, Inhabited

/-- Fixed parameters of a run. -/
structure Cfg where
  /-- initial content and what `clear` resets to (`BackoffCache`); `fun _ => none` otherwise -/
  seed : Key → Option Obj
  /-- creator script: does creator invocation number `n` raise? -/
  fails : Nat → Bool
  /-- `config.no_cache` -/
  noCache : Bool

structure State where
  threads : Tid → Thread
  lock : Option Tid
  cache : Key → Option Obj
  /-- number of creator invocations so far -/
  calls : Nat
  /-- ghost history, newest first -/
  hist : List Ev

def State.setThread (st : State) (t : Tid) (th : Thread) : State :=
  { st with threads := fun u => if u = t then th else st.threads u }

def setKey (m : Key → Option Obj) (k : Key) (c : Obj) : Key → Option Obj :=
  fun k' => if k' = k then some c else m k'

/-- One micro-step of thread `t`. A thread that cannot move (finished, or waiting for a held lock)
    leaves the state unchanged. Mirrors `Cache.get` / `Cache.clear` / `BackoffCache.clear`. -/
def step (cfg : Cfg) (st : State) (t : Tid) : State :=
  let th := st.threads t
  match th.pc with
  | .idle =>
    match th.ops with
    | [] => st
    | op :: rest =>
      match op with
      | .get k =>
        if cfg.noCache then
          { st.setThread t { th with ops := rest, pc := .bpCreator k st.calls } with
            calls := st.calls + 1 }
        else st.setThread t { th with ops := rest, pc := .wantLock (.get k) }
      | .clear => st.setThread t { th with ops := rest, pc := .wantLock .clear }
  | .wantLock op =>
    match st.lock with
    | some _ => st
    | none => { st.setThread t { th with pc := .locked op } with lock := some t }
  | .locked op =>
    match op with
    | .get k =>
      match st.cache k with
      | some c => { st.setThread t { th with pc := .toRelease (.val c) } with
                    hist := .hit t k c :: st.hist }
      | none => { st.setThread t { th with pc := .inCreator k st.calls } with calls := st.calls + 1 }
    | .clear =>
      { st.setThread t { th with pc := .toRelease .cleared } with
        cache := cfg.seed, hist := .clear t :: st.hist }
  | .inCreator k c => st.setThread t { th with pc := .exiting k c }
  | .exiting k c =>
    if cfg.fails c then
      { st.setThread t { th with pc := .toRelease (.raised c) } with hist := .fail t k c :: st.hist }
    else
      { st.setThread t { th with pc := .created k c } with hist := .create t k c :: st.hist }
  | .created k c =>
    { st.setThread t { th with pc := .toRelease (.val c) } with cache := setKey st.cache k c }
  | .toRelease r => { st.setThread t { th with pc := .released r } with lock := none }
  | .released r => st.setThread t { th with pc := .idle, results := r :: th.results }
  | .bpCreator k c => st.setThread t { th with pc := .bpExiting k c }
  | .bpExiting k c =>
    if cfg.fails c then
      { st.setThread t { th with pc := .bpDone (.raised c) } with hist := .fail t k c :: st.hist }
    else
      { st.setThread t { th with pc := .bpDone (.val c) } with hist := .create t k c :: st.hist }
  | .bpDone r => st.setThread t { th with pc := .idle, results := r :: th.results }

/-- Run a schedule of micro-steps. -/
def run (cfg : Cfg) (st : State) : List Tid → State
  | [] => st
  | t :: ts => run cfg (step cfg st t) ts

/-- Initial state: every thread idle with its program; cache = seed. -/
def init (cfg : Cfg) (prog : Tid → List Op) : State :=
  { threads := fun t => { ops := prog t, pc := .idle, results := [] }
    lock := none, cache := cfg.seed, calls := 0, hist := [] }

/-! ### Turn granularity (what the correspondence harness can schedule)

The real threads can only be parked where the harness has a hook: before an operation, in
`_lock.__enter__`, on creator entry, on creator exit, in `_lock.__exit__`. A *turn* of thread `t`
runs it from one parking place to the next. -/

def Pc.parked : Pc → Bool
  | .idle | .wantLock _ | .inCreator _ _ | .exiting _ _ | .toRelease _
  | .bpCreator _ _ | .bpExiting _ _ => true
  | _ => false

def settle (cfg : Cfg) : Nat → State → Tid → State
  | 0, st, _ => st
  | n + 1, st, t => if (st.threads t).pc.parked then st else settle cfg n (step cfg st t) t

/-- One turn = one micro-step, then continue until parked again (at most 3 more micro-steps). -/
def turn (cfg : Cfg) (st : State) (t : Tid) : State := settle cfg 3 (step cfg st t) t

/-- Can a turn of `t` change anything? -/
def enabled (st : State) (t : Tid) : Bool :=
  match (st.threads t).pc with
  | .idle => !(st.threads t).ops.isEmpty
  | .wantLock _ => st.lock.isNone
  | _ => true

def runTurns (cfg : Cfg) (st : State) : List Tid → State
  | [] => st
  | t :: ts => runTurns cfg (turn cfg st t) ts

/-- After the schedule: lowest-numbered enabled thread among `0..n-1` first, until nobody can move
    (fuel-bounded). -/
def finish (cfg : Cfg) (n : Nat) : Nat → State → State
  | 0, st => st
  | fuel + 1, st =>
    match (List.range n).find? (enabled st) with
    | none => st
    | some t => finish cfg n fuel (turn cfg st t)

/-! ### The atomic specification: get-or-create on a map, one event per operation -/

/-- Atomic get-or-create / clear. State = the map. `none` = the event is not possible here. -/
def specStep (cfg : Cfg) (s : Key → Option Obj) : Ev → Option (Key → Option Obj)
  | .hit _ k c => if s k = some c then some s else none
  | .create _ k c => if s k = none ∧ cfg.fails c = false then some (setKey s k c) else none
  | .fail _ k c => if s k = none ∧ cfg.fails c = true then some s else none
  | .clear _ => some cfg.seed

/-- Run the atomic specification over a history (newest first). -/
def specRun (cfg : Cfg) : List Ev → Option (Key → Option Obj)
  | [] => some cfg.seed
  | e :: h => match specRun cfg h with
    | none => none
    | some s => specStep cfg s e

/-! ### History observations used by the property statements and the monitors -/

/-- Ids of the objects created for / handed out under key `k` since the last clear
    (history newest first). -/
def epochIds (k : Key) : List Ev → List Obj
  | [] => []
  | .clear _ :: _ => []
  | .hit _ k' c :: h => if k' = k then c :: epochIds k h else epochIds k h
  | .create _ k' c :: h => if k' = k then c :: epochIds k h else epochIds k h
  | .fail _ _ _ :: h => epochIds k h

def Ev.touches (k : Key) : Ev → Bool
  | .clear _ => true
  | .hit _ k' _ | .create _ k' _ | .fail _ k' _ => k' = k

/-- The newest event that concerns key `k` (an event on `k`, or a clear). -/
def lastOn (k : Key) : List Ev → Option Ev
  | [] => none
  | e :: h => if e.touches k then some e else lastOn k h

/-- Call numbers of the creator invocations that finished (newest first). -/
def callIds : List Ev → List Nat
  | [] => []
  | .create _ _ c :: h => c :: callIds h
  | .fail _ _ c :: h => c :: callIds h
  | _ :: h => callIds h

/-- Decidable monitor, evaluated by the driver on the IMPLEMENTATION's history: the history is a
    trace of the atomic specification and no creator-call number occurs twice. -/
def holds (cfg : Cfg) (h : List Ev) : Bool :=
  (specRun cfg h).isSome && decide (callIds h).Nodup

/-! ### `Loader.get_pipeline` key -/

/-- The dict key `Loader.get_pipeline` uses: `(str(parent), name) if parent else name`.
    A Python tuple never equals a str, hence two constructors. -/
inductive PKey where
  | pair (parent : String) (name : String)
  | bare (name : String)
  deriving DecidableEq, Repr

/-- `parentTruthy` = `bool(parent)`, `parentStr` = `str(parent)`. -/
def pipelineKey (parentTruthy : Bool) (parentStr name : String) : PKey :=
  if parentTruthy then .pair parentStr name else .bare name

/-- The key before fix F5: `f'{parent}+{name}' if parent else name`. -/
def pipelineKeyOld (parentTruthy : Bool) (parentStr name : String) : String :=
  if parentTruthy then parentStr ++ "+" ++ name else name

/-! ### `pypyr.moduleloader.add_sys_path`

      if path in _known_dirs: return                  -- spIdle → (done | spExists)
      if not path_obj.exists(): _known_dirs.add(path); return   -- spExists → (done | spWant)
      with _sys_path_lock:                            -- spWant → spLocked
          if path_str not in sys.path:                -- spLocked → spAppend | spRelease
              sys.path.append(path_str)               -- spAppend → spRelease
                                                      -- spRelease → spKnown
      _known_dirs.add(path)                           -- spKnown → done
-/

inductive SpPc where
  | spIdle | spExists (p : Nat) | spWant (p : Nat) | spLocked (p : Nat) | spAppend (p : Nat)
  | spRelease (p : Nat) | spKnown (p : Nat)
  deriving DecidableEq, Repr, Inhabited

structure SpThread where
  ops : List Nat
  pc : SpPc
  deriving Repr, Inhabited

structure SpState where
  threads : Tid → SpThread
  lock : Option Tid
  sysPath : List Nat
  known : List Nat

def SpState.setThread (st : SpState) (t : Tid) (th : SpThread) : SpState :=
  { st with threads := fun u => if u = t then th else st.threads u }

/-- One micro-step of `add_sys_path` in thread `t`; `ex p` = the directory exists. -/
def spStep (ex : Nat → Bool) (st : SpState) (t : Tid) : SpState :=
  let th := st.threads t
  match th.pc with
  | .spIdle =>
    match th.ops with
    | [] => st
    | p :: rest =>
      if p ∈ st.known then st.setThread t { th with ops := rest }
      else st.setThread t { ops := rest, pc := .spExists p }
  | .spExists p =>
    if ex p then st.setThread t { th with pc := .spWant p }
    else { st.setThread t { th with pc := .spIdle } with known := p :: st.known }
  | .spWant p =>
    match st.lock with
    | some _ => st
    | none => { st.setThread t { th with pc := .spLocked p } with lock := some t }
  | .spLocked p =>
    if p ∈ st.sysPath then st.setThread t { th with pc := .spRelease p }
    else st.setThread t { th with pc := .spAppend p }
  | .spAppend p => { st.setThread t { th with pc := .spRelease p } with sysPath := st.sysPath ++ [p] }
  | .spRelease p => { st.setThread t { th with pc := .spKnown p } with lock := none }
  | .spKnown p => { st.setThread t { th with pc := .spIdle } with known := p :: st.known }

def spRun (ex : Nat → Bool) (st : SpState) : List Tid → SpState
  | [] => st
  | t :: ts => spRun ex (spStep ex st t) ts

def spInit (sysPath : List Nat) (prog : Tid → List Nat) : SpState :=
  { threads := fun t => { ops := prog t, pc := .spIdle }, lock := none, sysPath := sysPath, known := [] }

/-- places where the harness can park a thread inside `add_sys_path`: before the call, in
    `_sys_path_lock.__enter__`, in `_sys_path_lock.__exit__` -/
def SpPc.parked : SpPc → Bool
  | .spIdle | .spWant _ | .spRelease _ => true
  | _ => false

def spSettle (ex : Nat → Bool) : Nat → SpState → Tid → SpState
  | 0, st, _ => st
  | n + 1, st, t => if (st.threads t).pc.parked then st else spSettle ex n (spStep ex st t) t

def spTurn (ex : Nat → Bool) (st : SpState) (t : Tid) : SpState := spSettle ex 3 (spStep ex st t) t

def spEnabled (st : SpState) (t : Tid) : Bool :=
  match (st.threads t).pc with
  | .spIdle => !(st.threads t).ops.isEmpty
  | .spWant _ => st.lock.isNone
  | _ => true

def spRunTurns (ex : Nat → Bool) (st : SpState) : List Tid → SpState
  | [] => st
  | t :: ts => spRunTurns ex (spTurn ex st t) ts

def spFinish (ex : Nat → Bool) (n : Nat) : Nat → SpState → SpState
  | 0, st => st
  | fuel + 1, st =>
    match (List.range n).find? (spEnabled st) with
    | none => st
    | some t => spFinish ex n fuel (spTurn ex st t)

end Pypyr.CacheTS
