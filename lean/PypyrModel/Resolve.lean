/-
  Resolve — where a pipeline name is looked for, what a pype child inherits from its caller,
  and which directories end up on `sys.path`.

  Mirrors `pypyr/loaders/file.py` (`find_pipeline`, `get_pipeline_path`,
  `get_pipeline_definition`, `load_pipeline_from_file`), the loader/parent part of
  `pypyr/steps/pype.py` (`get_arguments`), `pypyr/cache/loadercache.py`
  (`LoaderCache.get_pype_loader` default, `Loader._load_pipeline` wrapping),
  `pypyr/pipedef.py` (`PipelineInfo` / `PipelineFileInfo` defaults) and the sequential
  behaviour of `pypyr.moduleloader.add_sys_path` (its interleavings are in `CacheTS`).

  Domain: absolute directories (a path is its list of components). The first layer
  (`getPipelinePath` … `runChain`, `request`) is the look-up on a normalised, symlink-free tree,
  where `Path.resolve()` is the identity. The `…R` layer below (`getPipelinePathR`,
  `getPipelineDefinitionR`, `loadOneR`, `runChainR`) adds what the code does on any tree:
  `parent.resolve()` before the parent is looked at, `path.resolve()` on what `find_pipeline` /
  the absolute branch return (`Fs.realpath`: symlinks followed, `..` folded — so a pipeline file
  reached through a symlink hands its children the TARGET's directory, and that directory goes on
  `sys.path`), the `py_dir` of a `Pipeline` (`add_sys_path(py_dir)` before the look-up: `--dir`,
  `pipelinerunner.run(py_dir=)`, pype's `pyDir`), and which file an `import m` of a step binds
  (`resolveModule`: `sys.modules` first, then the first `sys.path` entry that has `m`).
  Names may contain `..` segments (the file-system predicates walk them like the OS); names with
  `.` or empty segments, relative `parent` / `py_dir` strings (resolved by the code against the
  OS cwd of the moment, not `config.cwd`) and a cwd / built-in directory that is itself reached
  through a symlink (`config.cwd = Path.cwd()` is already real) are rejected by the driver.
-/
import PypyrModel.Val

namespace Pypyr.Resolve

abbrev Path := List String

/-- What the file system looks like to the loader. `cwd` is `config.cwd` (fixed at import),
    `builtin` is `{pypyr dir}/pipelines`. -/
structure Fs where
  cwd : Path
  builtin : Path
  isFile : Path → Bool
  dirExists : Path → Bool
  /-- `Path.resolve()`: symlinks followed, `..` folded; the identity on a normalised symlink-free
      tree (the default, and what the first layer of this file assumes) -/
  realpath : Path → Path := id

/-- `pipeline_name`, already split on `/`; `abs` iff `Path(f'{name}.yaml').is_absolute()`. -/
inductive Name where
  | rel (parts : List String)
  | abs (parts : List String)
  deriving DecidableEq, Repr

/-- the components of `f'{pipeline_name}.yaml'` -/
def fileParts : List String → List String
  | [] => []
  | [x] => [x ++ ".yaml"]
  | x :: xs => x :: fileParts xs

/-- `str(path)` of an absolute posix path -/
def pathStr (p : Path) : String := "/" ++ "/".intercalate p

/-- `path.parent` -/
def dirOf (p : Path) : Path := p.dropLast

def cwdPipelines (fs : Fs) : Path := fs.cwd ++ ["pipelines"]

/-- `search_locations` of `get_pipeline_path` for a relative name: the parent (only if truthy,
    existing and not the cwd itself), then cwd, cwd/pipelines, the built-ins. -/
def searchDirs (fs : Fs) (parent : Option Path) : List Path :=
  (match parent with
   | some p => if fs.dirExists p then (if p = fs.cwd then [] else [p]) else []
   | none => []) ++ [fs.cwd, cwdPipelines fs, fs.builtin]

/-- the `for … break … else` loop of `find_pipeline` -/
def findPipeline (fs : Fs) (file : List String) : List Path → Option Path
  | [] => none
  | d :: ds => if fs.isFile (d ++ file) then some (d ++ file) else findPipeline fs file ds

/-- text of the `PipelineNotFoundError` raised by `find_pipeline` -/
def notFoundMsg (fileName : String) (dirs : List Path) : String :=
  fileName ++ " not found in any of the following:\n" ++ "\n".intercalate (dirs.map pathStr)

/-- `get_pipeline_path(pipeline_name, parent)`; `parent = none` for any falsy parent. -/
def getPipelinePath (fs : Fs) (name : Name) (parent : Option Path) : Except String Path :=
  match name with
  | .abs parts =>
    let f := fileParts parts
    if fs.isFile f then .ok f else .error (pathStr f ++ " does not exist.")
  | .rel parts =>
    let dirs := searchDirs fs parent
    match findPipeline fs (fileParts parts) dirs with
    | some p => .ok p
    | none => .error (notFoundMsg ("/".intercalate (fileParts parts)) dirs)

/-! ### `add_sys_path`, `file_cache`, `get_pipeline_definition` (sequential) -/

structure LoadState where
  fileCache : List Path
  sysPath : List Path
  known : List Path
  /-- `_missing_dirs`: the known directories that did not exist when last looked at -/
  missing : List Path := []
  deriving Repr

/-- `pypyr.moduleloader.add_sys_path` run by one thread: a directory whose "add or not" logic has
    run is skipped — unless it did not exist then: such a directory is looked at again -/
def addSysPath (fs : Fs) (st : LoadState) (d : Path) : LoadState :=
  if d ∈ st.known ∧ d ∉ st.missing then st
  else if fs.dirExists d then
    { st with sysPath := if d ∈ st.sysPath then st.sysPath else st.sysPath ++ [d], known := d :: st.known,
              missing := st.missing.filter (· ≠ d) }
  else { st with known := d :: st.known, missing := d :: st.missing }

/-- `get_pipeline_definition`: find the path; on a `file_cache` miss `load_pipeline_from_file`
    parses the file and puts its directory on `sys.path`. -/
def getPipelineDefinition (fs : Fs) (st : LoadState) (name : Name) (parent : Option Path) :
    Except String Path × LoadState :=
  match getPipelinePath fs name parent with
  | .error e => (.error e, st)
  | .ok p =>
    if p ∈ st.fileCache then (.ok p, st)
    else (.ok p, addSysPath fs { st with fileCache := p :: st.fileCache } (dirOf p))

/-! ### what a pype child inherits: `pypyr.steps.pype.get_arguments` -/

def fileLoader : String := "pypyr.loaders.file"

/-- `PipelineInfo` of the calling pipeline, as far as `get_arguments` reads it -/
structure Info where
  loader : String
  parent : Option Path
  isLoaderCascading : Bool
  isParentCascading : Bool
  deriving Repr

/-- the three `pype` keys that steer resolution. Outer `Option` = is the key present;
    `loader`/`parent` may be present with value `None`; `resolveFromParent` is any value
    (only its truthiness is used). -/
structure PypeIn where
  loader : Option (Option String)
  resolveFromParent : Option Val
  parent : Option (Option Path)

/-- `loader = pype.get('loader', parent_loader if loader_info.is_loader_cascading else None)` -/
def childLoader (pype : PypeIn) (info : Info) : Option String :=
  match pype.loader with
  | some l => l
  | none => if info.isLoaderCascading then some info.loader else none

/-- `is_resolve_from_parent`, `parent_default`, `parent = pype.get('parent', parent_default)` -/
def childParent (pype : PypeIn) (info : Info) : Option Path :=
  let loader := childLoader pype info
  let rfp := match pype.resolveFromParent with
    | some v => v.truthy
    | none => info.isParentCascading
  let parentDefault := if rfp && (loader == some info.loader) then info.parent else none
  match pype.parent with
  | some p => p
  | none => parentDefault

/-- `LoaderCache.get_pype_loader`: a falsy loader means `config.default_loader` -/
def effLoader (l : Option String) : String :=
  match l with
  | some s => if s.isEmpty then fileLoader else s
  | none => fileLoader

/-- a loaded pipeline, as far as resolution of its children is concerned -/
inductive Loaded where
  /-- the file loader found this file -/
  | file (path : Path)
  /-- a custom loader was handed `(name, parent)`; it declared these cascade flags -/
  | custom (loader : String) (name : String) (parent : Option Path) (parentCasc loaderCasc : Bool)
  deriving Repr

/-- `PipelineFileInfo(parent=path.parent, loader=__name__)` with the cascading defaults (True);
    `Loader._load_pipeline` wraps a bare mapping into `PipelineInfo(name, loader, parent)`. -/
def infoOf : Loaded → Info
  | .file p => { loader := fileLoader, parent := some (dirOf p), isLoaderCascading := true,
                 isParentCascading := true }
  | .custom l _ par pc lc => { loader := l, parent := par, isLoaderCascading := lc, isParentCascading := pc }

/-- one hop of a pype chain: the child's name and its steering keys -/
structure Hop where
  nameStr : String
  name : Name
  pype : PypeIn
  /-- `py_dir` of the `Pipeline` object of this hop: `pipelinerunner.run(py_dir=)` / `--dir` for the
      root, `pype.pyDir` for a child (not inherited). Read by the `…R` layer only. -/
  pyDir : Option Path := none

/-- `Pipeline.load_and_run_pipeline`'s loading part for one pipeline. `custom l` tells the cascade
    flags a custom loader module declares (`none` = no such loader: outside the domain). -/
def loadOne (fs : Fs) (custom : String → Option (Bool × Bool)) (st : LoadState)
    (loader : Option String) (h : Hop) (parent : Option Path) :
    Except String Loaded × LoadState :=
  let l := effLoader loader
  if l = fileLoader then
    match getPipelineDefinition fs st h.name parent with
    | (.ok p, st') => (.ok (.file p), st')
    | (.error e, st') => (.error e, st')
  else match custom l with
    | some (pc, lc) => (.ok (.custom l h.nameStr parent pc lc), st)
    | none => (.error ("no such loader " ++ l), st)

/-- pypyr's own built-in pipelines contain no pype step: a chain ends there -/
def endsChain (fs : Fs) : Loaded → Bool
  | .file p => dirOf p == fs.builtin
  | _ => false

/-- a root pipeline followed by pype children, each invoked from the previous one. Returns what
    was loaded, in order, and the error that ended the chain (if any). -/
def runChain (fs : Fs) (custom : String → Option (Bool × Bool)) :
    LoadState → Option Info → Option String → List Hop → List Loaded × Option String × LoadState
  | st, _, _, [] => ([], none, st)
  | st, caller, rootLoader, h :: hs =>
    let (loader, parent) := match caller with
      | none => (rootLoader, (none : Option Path))
      | some info => (childLoader h.pype info, childParent h.pype info)
    match loadOne fs custom st loader h parent with
    | (.error e, st') => ([], some e, st')
    | (.ok ld, st') =>
      if endsChain fs ld then ([ld], none, st')
      else
        let (rest, err, st'') := runChain fs custom st' (some (infoOf ld)) rootLoader hs
        (ld :: rest, err, st'')

/-! ### the `…R` layer: `Path.resolve()`, `py_dir`, imports

  `find_pipeline`: `return path.resolve()`; absolute branch: `return abs_candidate.resolve()`;
  `get_pipeline_path`: `parent = parent.resolve()` before `parent.exists()` /
  `parent.samefile(config.cwd)` (same file ⇔ same real path; `config.cwd` is real). The candidates
  themselves are NOT resolved before `is_file()`: `fs.isFile` is asked about `dir/name.yaml` as
  written (the OS follows links and `..` while answering), and the error text shows the resolved
  parent. -/

/-- `get_pipeline_path(pipeline_name, parent)` on any tree -/
def getPipelinePathR (fs : Fs) (name : Name) (parent : Option Path) : Except String Path :=
  match getPipelinePath fs name (parent.map fs.realpath) with
  | .ok p => .ok (fs.realpath p)
  | .error e => .error e

/-- `get_pipeline_definition` on any tree: `file_cache` is keyed by `str` of the RESOLVED path and
    `load_pipeline_from_file` puts the resolved file's directory on `sys.path`. -/
def getPipelineDefinitionR (fs : Fs) (st : LoadState) (name : Name) (parent : Option Path) :
    Except String Path × LoadState :=
  match getPipelinePathR fs name parent with
  | .error e => (.error e, st)
  | .ok p =>
    if p ∈ st.fileCache then (.ok p, st)
    else (.ok p, addSysPath fs { st with fileCache := p :: st.fileCache } (dirOf p))

/-- `importlib.import_module(m)` as far as "which file": a name already in `sys.modules`
    (`loaded`: name ↦ directory it was first imported from) is served from there whatever
    `sys.path` says now; otherwise the FIRST entry of `sys.path` that holds a top-level `m`
    (`has d m`: `d/m.py` or `d/m/__init__.py` exists). `add_sys_path` APPENDS, so every entry that
    was there before (the interpreter's own, the cwd under `--dir`, earlier pipelines'
    directories) is asked first. -/
def resolveModule (sysPath : List Path) (has : Path → String → Bool) (loaded : List (String × Path))
    (m : String) : Option Path :=
  match loaded.lookup m with
  | some d => some d
  | none => sysPath.find? (fun d => has d m)

/-- the import, with its effect on `sys.modules` (a failed import binds nothing) -/
def importModule (sysPath : List Path) (has : Path → String → Bool) (loaded : List (String × Path))
    (m : String) : Option Path × List (String × Path) :=
  match resolveModule sysPath has loaded m with
  | some d => (some d, if (loaded.lookup m).isSome then loaded else (m, d) :: loaded)
  | none => (none, loaded)

/-- the imports of one pipeline, in order; stops at the first module that is not found -/
def importAll (sysPath : List Path) (has : Path → String → Bool) :
    List (String × Path) → List String → List (String × Option Path) × List (String × Path)
  | loaded, [] => ([], loaded)
  | loaded, m :: ms =>
    match importModule sysPath has loaded m with
    | (some d, loaded') =>
      let r := importAll sysPath has loaded' ms
      ((m, some d) :: r.1, r.2)
    | (none, loaded') => ([(m, none)], loaded')

/-- what persists in the process between loads: the loader state and `sys.modules` -/
structure Proc where
  load : LoadState
  modules : List (String × Path) := []
  deriving Repr

/-- `if self.py_dir: add_sys_path(self.py_dir)` -/
def addPyDir (fs : Fs) (st : LoadState) : Option Path → LoadState
  | some d => addSysPath fs st d
  | none => st

/-- `Pipeline.load_and_run_pipeline`'s loading part on any tree: `add_sys_path(self.py_dir)` first
    (also ahead of a custom loader), then the loader. -/
def loadOneR (fs : Fs) (custom : String → Option (Bool × Bool)) (st : LoadState)
    (loader : Option String) (h : Hop) (parent : Option Path) :
    Except String Loaded × LoadState :=
  let st := addPyDir fs st h.pyDir
  let l := effLoader loader
  if l = fileLoader then
    match getPipelineDefinitionR fs st h.name parent with
    | (.ok p, st') => (.ok (.file p), st')
    | (.error e, st') => (.error e, st')
  else match custom l with
    | some (pc, lc) => (.ok (.custom l h.nameStr parent pc lc), st)
    | none => (.error ("no such loader " ++ l), st)

def modNotFoundMsg (m : String) : String := "module not found: " ++ m

/-- the loader and the parent a hop is looked up with: the root gets the runner's loader and no
    parent, a pype child what `get_arguments` derives from its caller's `PipelineInfo` -/
def hopArgs (rootLoader : Option String) (caller : Option Info) (h : Hop) : Option String × Option Path :=
  match caller with
  | none => (rootLoader, none)
  | some info => (childLoader h.pype info, childParent h.pype info)

/-- a root pipeline followed by pype children on any tree, each pipeline importing its step
    modules (`importsOf`: the modules the loaded pipeline's steps import BEFORE its pype step runs,
    in order — a matter of the pipeline's content; with `sys.path` as it is right after ITS load)
    before it calls the next. Returns what
    was loaded with the directory every import was bound from, the error that ended the chain,
    the process state. -/
def runChainR (fs : Fs) (custom : String → Option (Bool × Bool)) (has : Path → String → Bool)
    (importsOf : Loaded → List String) :
    Proc → Option Info → Option String → List Hop →
    List (Loaded × List (String × Option Path)) × Option String × Proc
  | st, _, _, [] => ([], none, st)
  | st, caller, rootLoader, h :: hs =>
    match loadOneR fs custom st.load (hopArgs rootLoader caller h).1 h (hopArgs rootLoader caller h).2 with
    | (.error e, ld') => ([], some e, { st with load := ld' })
    | (.ok ld, ld') =>
      if endsChain fs ld then ([(ld, [])], none, { st with load := ld' })
      else
        let imp := importAll ld'.sysPath has st.modules (importsOf ld)
        let st' : Proc := { load := ld', modules := imp.2 }
        match imp.1.find? (fun x => x.2.isNone) with
        | some x => ([(ld, imp.1)], some (modNotFoundMsg x.1), st')
        | none =>
          let r := runChainR fs custom has importsOf st' (some (infoOf ld)) rootLoader hs
          ((ld, imp.1) :: r.1, r.2.1, r.2.2)

/-! ### a relative `parent`

  `get_pipeline_path`: `parent = Path(parent).resolve()` — a relative parent is read against the OS
  working directory OF THE MOMENT (`os.getcwd()`), whereas the cwd candidates come from
  `config.cwd`, fixed when `pypyr.config` was imported. The two differ once the process has
  changed directory. (A relative `py_dir` goes to `sys.path` as the relative string it is: outside
  the domain.) -/

/-- a `parent` as the caller wrote it -/
inductive PathArg where
  | abs (p : Path)
  | rel (parts : List String)
  deriving Repr

def PathArg.against (osCwd : Path) : PathArg → Path
  | .abs p => p
  | .rel parts => osCwd ++ parts

/-- `get_pipeline_path` with the parent as written and the OS working directory at the call -/
def getPipelinePathA (fs : Fs) (osCwd : Path) (name : Name) (parent : Option PathArg) : Except String Path :=
  getPipelinePathR fs name (parent.map (·.against osCwd))

/-! ### sequences of look-ups in one process: the warm pipeline cache above `get_pipeline_path`

  `Pipeline.load_and_run_pipeline(context, parent)`:
      loader_instance.get_pipeline(name=self.name, parent=parent)
  `Loader.get_pipeline`: key `(str(parent), name) if parent else name`; on a miss the file loader's
  `get_pipeline_definition(name, parent)` runs (look-up in the file system as it is now, then
  `file_cache`). A hit returns the definition made from the file found THEN.

  `str` of an absolute, normalised path determines the path, so the model keeps the component list
  where the code keeps the string; the name part of the key is the raw string the caller wrote,
  `parse` (total on the domain; the driver rejects everything else first) splits it into a `Name`.
  Which `Pipeline` object issues a look-up is carried along (`obj`) and — as in the code — plays
  no part in it. -/

/-- `(str(parent), name)` / bare `name` for a falsy parent -/
abbrev SKey := Option Path × String

structure Req where
  /-- which `pypyr.pipeline.Pipeline` object is run (objects may be run any number of times) -/
  obj : Nat
  nameStr : String
  parent : Option Path
  deriving Repr

structure Sess where
  /-- the file loader's `Loader._pipeline_cache`: key ↦ the file its definition was parsed from -/
  pipes : List (SKey × Path)
  load : LoadState
  deriving Repr

def Sess.init (sysPath : List Path) : Sess :=
  { pipes := [], load := { fileCache := [], sysPath := sysPath, known := [] } }

def Sess.lookup (s : Sess) (k : SKey) : Option Path := (s.pipes.find? (fun e => e.1 == k)).map (·.2)

/-- one look-up through `Loader.get_pipeline`; `noCache` = `config.no_cache` at that moment -/
def request (parse : String → Name) (fs : Fs) (noCache : Bool) (s : Sess) (r : Req) : Except String Path × Sess :=
  if noCache then
    match getPipelinePath fs (parse r.nameStr) r.parent with
    | .error e => (.error e, s)
    | .ok p => (.ok p, { s with load := addSysPath fs s.load (dirOf p) })
  else match s.lookup (r.parent, r.nameStr) with
    | some p => (.ok p, s)
    | none =>
      match getPipelineDefinition fs s.load (parse r.nameStr) r.parent with
      | (.ok p, ld) => (.ok p, { pipes := ((r.parent, r.nameStr), p) :: s.pipes, load := ld })
      | (.error e, ld) => (.error e, { s with load := ld })

/-- `pypyr.cache.admin.clear_all()` (as far as resolution goes: the loaders with their pipeline
    caches and `file_cache`; `sys.path` and `_known_dirs` are not caches and stay) -/
def Sess.clear (s : Sess) : Sess := { pipes := [], load := { s.load with fileCache := [] } }

inductive SOp where
  | req (r : Req)
  /-- the file system changes (files appear / disappear) -/
  | fs (fs : Fs)
  | clear
  | noCache (b : Bool)
  /-- a pipeline is constructed with `py_dir=d`: `add_sys_path(d)` runs before its look-up -/
  | pyDir (d : Path)

def Sess.pyDir (fs : Fs) (s : Sess) (d : Path) : Sess := { s with load := addSysPath fs s.load d }

/-- a session: for every look-up its result, "was every cache layer cleared since the file system
    last changed (or is caching off)", and what a look-up in a cold process yields at that moment -/
def runSess (parse : String → Name) : Fs → Bool → Bool → Sess → List SOp →
    List (Except String Path × Bool × Except String Path)
  | _, _, _, _, [] => []
  | fs, nc, dirty, s, .req r :: ops =>
    ((request parse fs nc s r).1, (!dirty || nc), getPipelinePath fs (parse r.nameStr) r.parent) ::
      runSess parse fs nc dirty (request parse fs nc s r).2 ops
  | _, nc, _, s, .fs fs' :: ops => runSess parse fs' nc true s ops
  | fs, nc, _, s, .clear :: ops => runSess parse fs nc false s.clear ops
  | fs, _, dirty, s, .noCache b :: ops => runSess parse fs b dirty s ops
  | fs, nc, dirty, s, .pyDir d :: ops => runSess parse fs nc dirty (s.pyDir fs d) ops

/-- a session, observing after every look-up its result and `sys.path` as it is then -/
def runSessPath (parse : String → Name) : Fs → Bool → Sess → List SOp → List (Except String Path × List Path)
  | _, _, _, [] => []
  | fs, nc, s, .req r :: ops =>
    ((request parse fs nc s r).1, (request parse fs nc s r).2.load.sysPath) ::
      runSessPath parse fs nc (request parse fs nc s r).2 ops
  | _, nc, s, .fs fs' :: ops => runSessPath parse fs' nc s ops
  | fs, nc, s, .clear :: ops => runSessPath parse fs nc s.clear ops
  | fs, _, s, .noCache b :: ops => runSessPath parse fs b s ops
  | fs, nc, s, .pyDir d :: ops => runSessPath parse fs nc (s.pyDir fs d) ops

/-- NOT pypyr: the key `os.path.join(str(parent), name)` — only the FIRST candidate of the look-up.
    Different requests with the same first candidate but different fall-through share it
    (`Props/C19.lean`, `joined_key_collides`). -/
def joinedKey (parse : String → Name) (r : Req) : Path :=
  match parse r.nameStr, r.parent with
  | .abs parts, _ => parts
  | .rel parts, some p => p ++ parts
  | .rel parts, none => parts

/-! ### the configured pipelines sub-directory (`config.pipelines_subdir`)

`pypyr/loaders/file.py` sets the module constant
`cwd_pipelines_dir = config.cwd.joinpath(config.pipelines_subdir)` ONCE, when the module is imported:
the sub-directory of step 4 is the value `config.pipelines_subdir` has AT THAT MOMENT. pypyr imports
that module lazily - `loader_cache.get_pype_loader(None)` → `moduleloader.get_module('pypyr.loaders.file')`
on the first pipeline load of the process - which is after `cli.main` ran `config.init()` / after an API
client configured `config`. Nothing that `import pypyr.cli` or `import pypyr.pipelinerunner` pulls in
imports it (checked on the tree under test by the harness). The layers above (`searchDirs`,
`cwdPipelines`) are the instance `sub = ["pipelines"]` (the default). -/

/-- `search_locations` with the sub-directory `sub` (a relative path) for step 4 -/
def searchDirsS (fs : Fs) (sub : List String) (parent : Option Path) : List Path :=
  (match parent with
   | some p => if fs.dirExists p then (if p = fs.cwd then [] else [p]) else []
   | none => []) ++ [fs.cwd, fs.cwd ++ sub, fs.builtin]

/-- `get_pipeline_path` when `cwd_pipelines_dir = cwd/sub` -/
def getPipelinePathS (fs : Fs) (sub : List String) (name : Name) (parent : Option Path) : Except String Path :=
  match name with
  | .abs parts =>
    let f := fileParts parts
    if fs.isFile f then .ok f else .error (pathStr f ++ " does not exist.")
  | .rel parts =>
    let dirs := searchDirsS fs sub parent
    match findPipeline fs (fileParts parts) dirs with
    | some p => .ok p
    | none => .error (notFoundMsg ("/".intercalate (fileParts parts)) dirs)

/-- what the process knows about the sub-directory -/
structure SubProc where
  /-- `config.pipelines_subdir` now -/
  configSubdir : List String := ["pipelines"]
  /-- the sub-directory inside `pypyr.loaders.file.cwd_pipelines_dir`, once that module is imported -/
  frozen : Option (List String) := none
  /-- the pipeline file the last successful look-up found (the caller of a pype child) -/
  last : Option Path := none
  deriving Repr, DecidableEq

inductive SubOp where
  /-- `config.init()` merged a file that sets it / the client assigned `config.pipelines_subdir` -/
  | setConfig (sub : List String)
  /-- something imports `pypyr.loaders.file` -/
  | importLoader
  /-- a root pipeline is loaded through the file loader (no parent) -/
  | lookup (name : Name)
  /-- a pype child of the pipeline found last: its parent is that file's directory -/
  | lookupChild (name : Name)
  deriving Repr, DecidableEq

/-- `import pypyr.loaders.file`: the first import fixes the constant -/
def SubProc.imported (p : SubProc) : SubProc :=
  match p.frozen with
  | some _ => p
  | none => { p with frozen := some p.configSubdir }

/-- the sub-directory a look-up uses -/
def SubProc.sub (p : SubProc) : List String := p.imported.frozen.getD p.configSubdir

def runSub (fs : Fs) : SubProc → List SubOp → List (Except String Path)
  | _, [] => []
  | p, .setConfig s :: rest => runSub fs { p with configSubdir := s } rest
  | p, .importLoader :: rest => runSub fs p.imported rest
  | p, .lookup n :: rest =>
    let r := getPipelinePathS fs p.sub n none
    r :: runSub fs { p.imported with last := match r with | .ok f => some f | .error _ => p.last } rest
  | p, .lookupChild n :: rest =>
    let r := getPipelinePathS fs p.sub n (p.last.map dirOf)
    r :: runSub fs { p.imported with last := match r with | .ok f => some f | .error _ => p.last } rest

/-! ### pipeline names as ARBITRARY strings

`get_pipeline_path`: `file_name = f'{pipeline_name}.yaml'` — the suffix is APPENDED to whatever the caller
wrote: `build.v2` ↦ `build.v2.yaml`, `p.yaml` ↦ `p.yaml.yaml`, `a/` ↦ `a/.yaml`, `.hidden` ↦ `.hidden.yaml`;
nothing of the name is cut off or replaced. `Path(file_name)` / `dir.joinpath(file_name)` then read that
string the way pathlib does: split on `/`, empty and `.` segments dropped, `..` kept (the OS walks it);
absolute iff it starts with `/`. The not-found text of `find_pipeline` carries `file_name` AS WRITTEN (not
the pathlib reading), the absolute branch `str(Path(file_name))`. The layers above are the instance where
the name has no empty / `.` segment (`fileParts`: `.yaml` appended to the last component —
`fileParts_singleton`, `Props/C19.lean` `getPipelinePathN_eq_S`). A name starting with `//` (pathlib keeps
exactly two leading slashes) is rejected by the driver. -/

/-- `f'{pipeline_name}.yaml'` -/
def fileNameOf (name : String) : String := name ++ ".yaml"

/-- the existing layers build the file name of a one-component name the same way -/
theorem fileParts_singleton (x : String) : fileParts [x] = [fileNameOf x] := rfl

/-- split on `/` (on characters: structurally recursive, so it computes in proofs) -/
def splitSlash : List Char → List Char → List (List Char)
  | acc, [] => [acc.reverse]
  | acc, c :: cs => if c = '/' then acc.reverse :: splitSlash [] cs else splitSlash (c :: acc) cs

/-- the components pathlib keeps of a posix path string: empty and `.` segments are dropped -/
def partsOfStr (s : String) : List String :=
  ((splitSlash [] s.toList).map String.ofList).filter (fun x => !(x.isEmpty || x == "."))

/-- `get_pipeline_path(pipeline_name, parent)` for any string `pipeline_name`, with `cwd_pipelines_dir = cwd/sub` -/
def getPipelinePathN (fs : Fs) (sub : List String) (name : String) (parent : Option Path) : Except String Path :=
  if (fileNameOf name).startsWith "/" then
    if fs.isFile (partsOfStr (fileNameOf name)) then .ok (partsOfStr (fileNameOf name))
    else .error (pathStr (partsOfStr (fileNameOf name)) ++ " does not exist.")
  else
    match findPipeline fs (partsOfStr (fileNameOf name)) (searchDirsS fs sub parent) with
    | some p => .ok p
    | none => .error (notFoundMsg (fileNameOf name) (searchDirsS fs sub parent))

/-- … on any tree (`parent.resolve()` first, `.resolve()` on what is returned) -/
def getPipelinePathNR (fs : Fs) (sub : List String) (name : String) (parent : Option Path) : Except String Path :=
  match getPipelinePathN fs sub name (parent.map fs.realpath) with
  | .ok p => .ok (fs.realpath p)
  | .error e => .error e

/-! ### what sits at a candidate path: file kinds

`find_pipeline` asks `path.is_file()` of every candidate `dir/<name>.yaml`, the absolute branch asks
`abs_candidate.is_file()`: true iff the path names a REGULAR FILE once symlinks are followed. A directory
that happens to be called `<name>.yaml`, a symlink to a directory, a dangling symlink, a fifo: all of them
are passed over exactly like an absent entry - the search carries on to the next location, and when no
location holds a regular file the outcome is the not-found error listing the places. (`Path.exists()` -
NOT what the look-up asks - would say yes to a directory / a link to one / a fifo.) -/

/-- what the entry `<dir>/<name>.yaml` is -/
inductive FKind where
  | absent
  | file
  | dir
  /-- a symlink (chain) ending at a regular file -/
  | linkFile
  /-- a symlink (chain) ending at a directory -/
  | linkDir
  /-- a symlink whose target does not exist (or a link loop) -/
  | dangling
  | fifo
  deriving DecidableEq, Repr

/-- `Path.is_file()`: a regular file, following symlinks -/
def FKind.isFile : FKind → Bool
  | .file => true
  | .linkFile => true
  | _ => false

/-- `Path.exists()` - NOT what the look-up asks; here to say what the difference is -/
def FKind.pathExists : FKind → Bool
  | .absent => false
  | .dangling => false
  | _ => true

/-- the file system whose "is a file" answers come from a kind map -/
def Fs.withKinds (fs : Fs) (kind : Path → FKind) : Fs := { fs with isFile := fun p => (kind p).isFile }

/-- the loop of `find_pipeline` over a kind map -/
def findPipelineK (kind : Path → FKind) (file : List String) : List Path → Option Path
  | [] => none
  | d :: ds => if (kind (d ++ file)).isFile then some (d ++ file) else findPipelineK kind file ds

/-- `get_pipeline_path` over a kind map (location ↦ kind of the entry there), with `cwd_pipelines_dir = cwd/sub`.
    `fs` supplies `cwd`, `builtin` and which directories exist (for the parent); its `isFile` is not read. -/
def getPipelinePathK (fs : Fs) (kind : Path → FKind) (sub : List String) (name : Name) (parent : Option Path) :
    Except String Path :=
  match name with
  | .abs parts =>
    if (kind (fileParts parts)).isFile then .ok (fileParts parts)
    else .error (pathStr (fileParts parts) ++ " does not exist.")
  | .rel parts =>
    match findPipelineK kind (fileParts parts) (searchDirsS fs sub parent) with
    | some p => .ok p
    | none => .error (notFoundMsg ("/".intercalate (fileParts parts)) (searchDirsS fs sub parent))

/-- NOT pypyr: the loop with `path.exists()` as the hit test -/
def findPipelineExists (kind : Path → FKind) (file : List String) : List Path → Option Path
  | [] => none
  | d :: ds => if (kind (d ++ file)).pathExists then some (d ++ file) else findPipelineExists kind file ds

end Pypyr.Resolve
