/-
  Where the DEFINITIONS of `PypyrModel/Heap.lean` come from (C12).

  `Heap.init defs cfg` takes "what the loaders produced" as given.  In the process that list is the
  outcome of a HISTORY of cache look-ups: `Loader.get_pipeline` (pypyr/cache/loadercache.py) calls the
  loader function (`pypyr.loaders.file.get_pipeline_definition` / `pypyr.loaders.string…`, both through
  `pypyr.yaml.get_pipeline_yaml`) on a cache miss and hands out the stored `PipelineDefinition` on a
  hit; `pypyr.cache.admin.clear_all` empties the caches but not the process.

  A loader is modelled with the HIDDEN STATE it may carry from one call to the next
  (`Loader.load : σ → τ → Block × σ`: module-level objects such as a parser kept between calls,
  memo tables, class attributes of a third-party library).  "The loader is a function of the file
  text alone" is `Loader.TextOnly` – an ASSUMPTION about the code under test, not a theorem about it
  (the model does not contain ruamel.yaml): `Props/C12.lean` section 11 proves what follows from it
  (every cached definition is the fresh-process load of its file after every history of look-ups and
  cache clears, the definition arena does not depend on the order of the loads), and the harness checks
  the assumption itself on the real loaders (stream `loads`: definitions loaded after a history in one
  process against a load of the file alone in a pristine process).

  `YText` / `parseY` / `perCallParser` / `sharedParser`: the smallest text format in which the
  assumption can fail the way it once did in pypyr.steps.fileformatyaml (fix 8411d76) – a document
  is an optional `%YAML` directive plus plain scalars whose reading depends on the yaml version.
  `get_pipeline_yaml` as it is builds a parser per call (`perCallParser`); `sharedParser` is one
  module-level parser object that remembers the version of the last directive it saw.
-/
import PypyrModel.Heap

namespace Pypyr.RunHeap

/-- A pipeline loader as the process sees it: `σ` is whatever survives from one call to the next
    outside the caches, `τ` the source text. `init` is the state of a process in which nothing has
    been loaded. -/
structure Loader (σ τ : Type) where
  init : σ
  load : σ → τ → Block × σ

/-- What the loader produces for a text in a process where nothing was loaded before. -/
def Loader.fresh {σ τ : Type} (L : Loader σ τ) (t : τ) : Block := (L.load L.init t).1

/-- THE ASSUMPTION: the definition a load produces depends on the text alone, not on what was loaded
    before in the process. -/
def Loader.TextOnly {σ τ : Type} (L : Loader σ τ) : Prop := ∀ s t, (L.load s t).1 = L.fresh t

/-- One event of a process as far as definitions are concerned.
    * `get p`   – `Loader.get_pipeline` for source number `p` (a run of it, a `pype` of it, the harness asking);
    * `clear`   – `pypyr.cache.admin.clear_all()`;
    * `bypass p` – the loader function called directly (`load_pipeline_from_file`): parses, caches nothing. -/
inductive Req where
  | get (p : Nat)
  | clear
  | bypass (p : Nat)
  deriving DecidableEq, Repr, Inhabited

def cacheGet? (c : List (Nat × Block)) (p : Nat) : Option Block :=
  match c with
  | [] => none
  | (q, b) :: rest => if q = p then some b else cacheGet? rest p

/-- The loader's hidden state and the pipeline cache. -/
structure LoadSt (σ : Type) where
  st : σ
  cache : List (Nat × Block)

def LoadSt.req {σ τ : Type} (L : Loader σ τ) (files : Nat → τ) (x : LoadSt σ) : Req → LoadSt σ
  | .get p =>
    match cacheGet? x.cache p with
    | some _ => x
    | none => ⟨(L.load x.st (files p)).2, (p, (L.load x.st (files p)).1) :: x.cache⟩
  | .clear => ⟨x.st, []⟩
  | .bypass p => ⟨(L.load x.st (files p)).2, x.cache⟩

def LoadSt.run {σ τ : Type} (L : Loader σ τ) (files : Nat → τ) (x : LoadSt σ) : List Req → LoadSt σ
  | [] => x
  | r :: rest => LoadSt.run L files (x.req L files r) rest

/-- The process after a history of look-ups, starting from nothing. -/
def loadHist {σ τ : Type} (L : Loader σ τ) (files : Nat → τ) (h : List Req) : LoadSt σ :=
  LoadSt.run L files ⟨L.init, []⟩ h

/-- The `defs` list of `Heap.init` after a history: definition `p` is what the cache holds for source `p`
    (`[]` = not loaded). -/
def defsAfter {σ τ : Type} (L : Loader σ τ) (files : Nat → τ) (n : Nat) (h : List Req) : List Block :=
  (List.range n).map fun p => (cacheGet? (loadHist L files h).cache p).getD []

/-- The `defs` list in which every source was loaded alone in a pristine process. -/
def defsFresh {σ τ : Type} (L : Loader σ τ) (files : Nat → τ) (n : Nat) : List Block :=
  (List.range n).map fun p => L.fresh (files p)

/-! ### a text format whose reading depends on parser state -/

inductive YVer where
  | v11
  | v12
  deriving DecidableEq, Repr, Inhabited

/-- A pipeline text: an optional `%YAML` directive and the plain scalars of its body. -/
structure YText where
  directive : Option YVer
  scalars : List String
  deriving DecidableEq, Repr, Inhabited

/-- How a plain scalar resolves (the three readings the two yaml versions disagree on, anything else a
    string): `no` is False in 1.1 and the string in 1.2, `1:30` is sexagesimal 90 in 1.1, `0755` octal 493 in 1.1
    and decimal 755 in 1.2. -/
def resolveY : YVer → String → Val
  | .v11, "no" => .bool false
  | .v11, "yes" => .bool true
  | .v11, "1:30" => .int 90
  | .v11, "0755" => .int 493
  | .v12, "0755" => .int 755
  | _, s => .str s

def leavesY (v : YVer) (ss : List String) : List BCell := ss.map fun s => .leaf (resolveY v s)

/-- The parsed document: a list object (cell 0) of the resolved scalars. -/
def parseY (v : YVer) (t : YText) : Block :=
  .list ((List.range t.scalars.length).map (· + 1)) :: leavesY v t.scalars

/-- `get_pipeline_yaml` as it is: a parser object per call, which starts at yaml 1.2. -/
def perCallParser : Loader Unit YText :=
  ⟨(), fun _ t => (parseY (t.directive.getD .v12) t, ())⟩

/-- One parser object for every load: a directive sets the version, a document without one is read by
    whatever version the parser was left in. -/
def sharedParser : Loader YVer YText :=
  ⟨.v12, fun s t => (parseY (t.directive.getD s) t, t.directive.getD s)⟩

end Pypyr.RunHeap
