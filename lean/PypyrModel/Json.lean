/-
  JSON wire encoding of `Val` / `PyExpr` / `Exc` for the driver protocol
  (DESIGN.md appendix E, simplified: JSON null/bool/number/string/array stand
  for None/bool/int/str/list directly; every other kind is a one-key object).
-/
import Lean.Data.Json
import PypyrModel.Val

namespace Pypyr
open Lean (Json JsonNumber)

def PyConst.toJson : PyConst → Json
  | .none => Json.null
  | .bool b => Json.bool b
  | .int i => Json.num (JsonNumber.fromInt i)
  | .str s => Json.str s

def PyOp.toStr : PyOp → String
  | .eq => "==" | .ne => "!=" | .lt => "<" | .le => "<=" | .gt => ">" | .ge => ">="
  | .and => "and" | .or => "or" | .add => "+" | .sub => "-" | .mul => "*" | .isIn => "in"

def PyOp.ofStr? : String → Option PyOp
  | "==" => some .eq | "!=" => some .ne | "<" => some .lt | "<=" => some .le
  | ">" => some .gt | ">=" => some .ge | "and" => some .and | "or" => some .or
  | "+" => some .add | "-" => some .sub | "*" => some .mul | "in" => some .isIn
  | _ => none

def PyExpr.toJson : PyExpr → Json
  | .name n => Json.mkObj [("n", Json.str n)]
  | .const c => Json.mkObj [("c", c.toJson)]
  | .not a => Json.mkObj [("not", a.toJson)]
  | .binop op a b => Json.mkObj [("op", Json.str op.toStr), ("a", a.toJson), ("b", b.toJson)]
  | .len a => Json.mkObj [("len", a.toJson)]
  | .idx a i => Json.mkObj [("idx", Json.arr #[a.toJson, i.toJson])]

def jsonInt? (j : Json) : Except String Int :=
  match j with
  | .num n => if n.exponent == 0 then .ok n.mantissa else .error s!"not an integer: {j.compress}"
  | _ => .error s!"not a number: {j.compress}"

def jsonNat? (j : Json) : Except String Nat := do
  let i ← jsonInt? j
  if i < 0 then .error "negative" else pure i.toNat

def PyConst.ofJson : Json → Except String PyConst
  | .null => pure .none
  | .bool b => pure (.bool b)
  | .str s => pure (.str s)
  | j@(.num _) => do pure (.int (← jsonInt? j))
  | j => .error s!"bad py const {j.compress}"

partial def PyExpr.ofJson (j : Json) : Except String PyExpr := do
  if let .ok n := j.getObjVal? "n" then
    return .name (← n.getStr?)
  if let .ok c := j.getObjVal? "c" then
    return .const (← PyConst.ofJson c)
  if let .ok a := j.getObjVal? "not" then
    return .not (← PyExpr.ofJson a)
  if let .ok a := j.getObjVal? "len" then
    return .len (← PyExpr.ofJson a)
  if let .ok ai := j.getObjVal? "idx" then
    match ai with
    | .arr #[a, i] => return .idx (← PyExpr.ofJson a) (← PyExpr.ofJson i)
    | _ => throw "bad idx"
  if let .ok op := j.getObjVal? "op" then
    let s ← op.getStr?
    match PyOp.ofStr? s with
    | some o =>
      let a ← PyExpr.ofJson (← j.getObjVal? "a")
      let b ← PyExpr.ofJson (← j.getObjVal? "b")
      return .binop o a b
    | none => throw s!"bad op {s}"
  throw s!"bad py expr {j.compress}"

mutual
partial def Val.toJson : Val → Json
  | .none => Json.null
  | .bool b => Json.bool b
  | .int i => Json.num (JsonNumber.fromInt i)
  | .flt n k => Json.mkObj [("f", Json.arr #[Json.num (JsonNumber.fromInt n), Json.num (JsonNumber.fromNat k)])]
  | .str s => Json.str s
  | .bytes s => Json.mkObj [("b", Json.str s)]
  | .list xs => Json.arr (xs.map Val.toJson).toArray
  | .tuple xs => Json.mkObj [("t", Json.arr (xs.map Val.toJson).toArray)]
  | .dict kvs => Json.mkObj [("d", Json.arr (kvs.map fun (k, v) => Json.arr #[k.toJson, v.toJson]).toArray)]
  | .set xs => Json.mkObj [("set", Json.arr (xs.map Val.toJson).toArray)]
  | .sic s => Json.mkObj [("sic", Json.str s)]
  | .py e => Json.mkObj [("py", e.toJson)]
  | .jsonify v => Json.mkObj [("jsonify", v.toJson)]
  | .obj id => Json.mkObj [("o", Json.num (JsonNumber.fromNat id))]
end

partial def Val.ofJson (j : Json) : Except String Val := do
  match j with
  | .null => return .none
  | .bool b => return .bool b
  | .num _ => return .int (← jsonInt? j)
  | .str s => return .str s
  | .arr xs => return .list (← xs.toList.mapM Val.ofJson)
  | .obj _ =>
    if let .ok f := j.getObjVal? "f" then
      match f with
      | .arr #[n, k] => return .flt (← jsonInt? n) (← jsonNat? k)
      | _ => throw "bad f"
    if let .ok b := j.getObjVal? "b" then return .bytes (← b.getStr?)
    if let .ok t := j.getObjVal? "t" then
      return .tuple (← (← t.getArr?).toList.mapM Val.ofJson)
    if let .ok s := j.getObjVal? "set" then
      return .set (← (← s.getArr?).toList.mapM Val.ofJson)
    if let .ok d := j.getObjVal? "d" then
      let prs ← (← d.getArr?).toList.mapM fun p => do
        match p with
        | .arr #[k, v] => pure ((← Val.ofJson k), (← Val.ofJson v))
        | _ => throw "bad dict pair"
      return .dict prs
    if let .ok s := j.getObjVal? "sic" then return .sic (← s.getStr?)
    if let .ok e := j.getObjVal? "py" then return .py (← PyExpr.ofJson e)
    if let .ok v := j.getObjVal? "jsonify" then return .jsonify (← Val.ofJson v)
    if let .ok o := j.getObjVal? "o" then return .obj (← jsonNat? o)
    throw s!"bad val object {j.compress}"

def Exc.toJson (e : Exc) : Json := Json.mkObj [("name", Json.str e.name), ("msg", Json.str e.msg)]

/-- A context on the wire is a `{"d": [[{"s"…}…]]}`-style dict whose keys are JSON strings. -/
def Ctx.ofJson (j : Json) : Except String Ctx := do
  match ← Val.ofJson j with
  | .dict kvs => kvs.mapM fun (k, v) => match k with
      | .str s => pure (s, v)
      | _ => throw "context key must be a string"
  | _ => throw "context must be a dict"

def Ctx.toJson (c : Ctx) : Json := (Ctx.toVal c).toJson

/-- `Except Exc α` observations: `{"ok": …}` or `{"err": {"name", "msg"}}`. -/
def resultToJson {α} (f : α → Json) : Except Exc α → Json
  | .ok a => Json.mkObj [("ok", f a)]
  | .error e => Json.mkObj [("err", e.toJson)]

end Pypyr
