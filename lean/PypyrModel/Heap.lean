/-
  Heap-level model of pipeline RUNS, in which object identity, aliasing and in-place mutation
  are observable (C12: runs are independent; a run never alters shared definitions/config; the
  object-level part of C11: what a child pipeline with a context of its own can do to its parent).

  An object of the Python program is one `Cell`; `id(obj)` is its `Ref`. A `Ref` is an address
  `(region, index)`: every region has its own arena (address space), so an allocation made by
  one run never moves the addresses another run will get.  Regions:

    * `defn p`  – the object graph of the cached `PipelineDefinition.pipeline` number `p`
                  (what `pypyr.loaders.file.load_pipeline_from_file` produced; held by
                  `loader_cache` / `file_cache` and shared by every run of that pipeline);
    * `config`  – `config.vars` (cell 0) and `config.shortcuts` (process-wide configuration);
    * `run r`   – everything run `r` allocates; cell 0 is run r's `Context` object (its root).

  `Cell := leaf v | list refs | tuple refs | set refs | dict [(key, ref)] | obj class [(attr, ref)]`
  (see `CellOf`).  A `leaf` is an immutable atom (None, bool, int, float, str, bytes): it has no
  outgoing references and no operation writes to it.  Python shares atoms between a deep copy and its
  original; because atoms cannot be mutated that sharing is unobservable, and the model gives every
  copy its own leaf cells.  A `tuple` is an immutable container, `obj` an opaque mutable object that
  formatting hands back by reference.

  The operation language mirrors what the code does to OBJECTS (names of the mirrored Python
  in the doc comment of each constructor of `Op`).  Every operation is ONE batch of allocations in
  the running run's own arena plus AT MOST ONE in-place write to an existing cell, the cell reached
  by following a path from the run's context root (`effect` computes that, `apply` performs it).
  An operation whose Python counterpart raises before touching anything (missing key, wrong
  kind of object on the path) has NO effect (`effect … = none`), and the exception ENDS THE RUN: `step`
  marks the run as dead and every later operation of that run in the schedule is skipped (`State`).

  On top of the operations: `Instr` / `opsOf` – the object-level READING of the step kinds the
  harness generates, as a function of the step's configuration and the heap at the moment the step
  starts (which operations `pypyr.steps.append` performs depends on whether `context.get(list)` is
  truthy, `Context.merge` walks the current value, …); `KSched` = schedules at STEP granularity.

  No imports beyond `Val`: the driver links this file.
-/
import PypyrModel.Val

namespace Pypyr.RunHeap

inductive Region where
  | defn (p : Nat)
  | config
  | run (r : Nat)
  deriving DecidableEq, Repr, Inhabited

/-- Shared, cached state (definitions, configuration) as opposed to a run's own objects. -/
def Region.isShared : Region → Bool
  | .run _ => false
  | _ => true

structure Ref where
  reg : Region
  idx : Nat
  deriving DecidableEq, Repr, Inhabited

/-- One object.  `ρ` is what a reference is: an address (`Cell`) or a position inside a block of
    objects that is about to be allocated (`BCell`).

    * `leaf`  – immutable atom (None, bool, int, float, str, bytes, date…): no outgoing references,
                no operation writes to it;
    * `list` / `set` / `dict` – the mutable containers (`append`/`extend`, `add`, `__setitem__`);
    * `tuple` – IMMUTABLE container: it has outgoing references (and can be read through by index) but no
                operation writes to it (`frozenset` is a tuple cell too);
    * `obj`   – an opaque MUTABLE object that is not one of the containers formatting iterates: a
                `bytearray` (class `bytearray`, its content under the attribute `data`), an instance of a
                user class with attributes.  `copy.deepcopy` copies it, FORMATTING RETURNS IT AS IT IS
                (`_get_formatted_iterable`: "any other type of object: returns it as is"); `setattr` /
                `bytearray.extend` write to it (`Op.attrSetAt`); paths lead through attributes by `Seg.attr`.
                A yaml TAG object (`!jsonify` …) is an `obj` too, with its payload under `value` - see `isTagClass`. -/
inductive CellOf (ρ : Type) where
  | leaf (v : Val)
  | list (rs : List ρ)
  | tuple (rs : List ρ)
  | set (rs : List ρ)
  | dict (kvs : List (String × ρ))
  | obj (cls : String) (attrs : List (String × ρ))
  deriving DecidableEq, Repr, Inhabited

abbrev Cell := CellOf Ref

/-- Outgoing references of an object. -/
def CellOf.refs {ρ : Type} : CellOf ρ → List ρ
  | .leaf _ => []
  | .list rs => rs
  | .tuple rs => rs
  | .set rs => rs
  | .dict kvs => kvs.map (·.2)
  | .obj _ attrs => attrs.map (·.2)

/-- The same object with every outgoing reference replaced. -/
def CellOf.mapRefs {ρ σ : Type} (f : ρ → σ) : CellOf ρ → CellOf σ
  | .leaf v => .leaf v
  | .list rs => .list (rs.map f)
  | .tuple rs => .tuple (rs.map f)
  | .set rs => .set (rs.map f)
  | .dict kvs => .dict (kvs.map fun kv => (kv.1, f kv.2))
  | .obj cls attrs => .obj cls (attrs.map fun kv => (kv.1, f kv.2))

/-- The classes of pypyr's yaml TAG objects (`pypyr.dsl.SpecialTagDirective`: `!jsonify` / `!py` / `!sic`).  A tag
    object is an `obj` cell with ONE attribute `value`: for `!py` / `!sic` an atom (the expression / the string),
    for `!jsonify` whatever the tag was put on — a scalar, or a MAPPING / SEQUENCE of the definition (a ruamel
    CommentedMap / CommentedSeq, nested, other tags inside).  It is a mutable object like any other
    (`copy.deepcopy` copies it AND its payload: `copyArena`; `tag.value[...] = …` / `.append` reach the payload
    through the attribute: `Seg.attr`).  FORMATTING does not hand a tag back: it calls `tag.get_value(context)` and
    puts the RESULT (a new `str` for `!jsonify` / `!sic`) in its place — a fresh value; the model keeps the shape
    (a rebuilt copy in the run's arena) because only identity matters here: nothing of the source is shared. -/
def isTagClass (cls : String) : Bool :=
  cls == "Jsonify" || cls == "PyString" || cls == "SicString"

/-- OPAQUE to formatting: an `obj` that `_get_formatted_iterable` returns as it is (a `bytearray`, an instance of
    a user class).  Tag objects are not: see `isTagClass`. -/
def CellOf.isObj {ρ : Type} : CellOf ρ → Bool
  | .obj cls _ => !isTagClass cls
  | _ => false

def CellOf.isLeaf {ρ : Type} : CellOf ρ → Bool
  | .leaf _ => true
  | _ => false

abbrev Arena := List Cell

/-- Finite map `Ref ↦ (Region × Cell)`: the region of a cell is the region of its address. -/
structure Heap where
  arena : Region → Arena

def Heap.get? (h : Heap) (x : Ref) : Option Cell := (h.arena x.reg)[x.idx]?

/-- Allocation: new objects go to the end of the allocating region's arena. -/
def Heap.alloc (h : Heap) (reg : Region) (cs : List Cell) : Heap :=
  ⟨fun g => if g = reg then h.arena g ++ cs else h.arena g⟩

/-- In-place mutation of the object at `x` (no effect on a dangling address). -/
def Heap.set (h : Heap) (x : Ref) (c : Cell) : Heap :=
  ⟨fun g => if g = x.reg then (h.arena g).set x.idx c else h.arena g⟩

/-- Run r's `Context` object. -/
def root (r : Nat) : Ref := ⟨.run r, 0⟩

/-- `config.vars` is the first object of the config region. -/
def varsRef : Ref := ⟨.config, 0⟩

/-! ### association lists with string keys (`dict.__setitem__`, `.get`, `.pop`, `.update`) -/

def kvGet? (kvs : List (String × Ref)) (k : String) : Option Ref :=
  match kvs with
  | [] => none
  | (k', v) :: rest => if k' = k then some v else kvGet? rest k

def kvSet (kvs : List (String × Ref)) (k : String) (v : Ref) : List (String × Ref) :=
  match kvs with
  | [] => [(k, v)]
  | (k', v') :: rest => if k' = k then (k, v) :: rest else (k', v') :: kvSet rest k v

def kvErase (kvs : List (String × Ref)) (k : String) : List (String × Ref) :=
  match kvs with
  | [] => []
  | (k', v') :: rest => if k' = k then kvErase rest k else (k', v') :: kvErase rest k

def kvUpdate (kvs add : List (String × Ref)) : List (String × Ref) :=
  match add with
  | [] => kvs
  | (k, v) :: rest => kvUpdate (kvSet kvs k v) rest

/-! ### fresh values -/

/-- One object of a value that is about to be allocated; references are positions inside the
    block it belongs to. -/
abbrev BCell := CellOf Nat

/-- A fresh value (the result of formatting, of `json`/yaml parsing, of a literal in `py` code,
    the `dict_in` of a run): a closed group of new objects, object 0 is the value itself. -/
abbrev Block := List BCell

def BCell.toCell (reg : Region) (base : Nat) (b : BCell) : Cell :=
  b.mapRefs fun j => ⟨reg, base + j⟩

def Block.relocate (b : Block) (reg : Region) (base : Nat) : List Cell :=
  b.map (BCell.toCell reg base)

/-- Allocate several fresh values one after the other: the cells and the address of each value. -/
def relocAll (reg : Region) (base : Nat) : List Block → List Cell × List Ref
  | [] => ([], [])
  | b :: bs =>
    let rest := relocAll reg (base + b.length) bs
    (Block.relocate b reg base ++ rest.1, ⟨reg, base⟩ :: rest.2)

/-! ### `copy.deepcopy` -/

def shiftRef (src dst : Region) (base : Nat) (x : Ref) : Ref :=
  if x.reg = src then ⟨dst, base + x.idx⟩ else x

def Cell.shift (src dst : Region) (base : Nat) (c : Cell) : Cell :=
  c.mapRefs (shiftRef src dst base)

/-- `copy.deepcopy(obj)` for an object of the region `src`: deepcopy copies the object graph
    reachable from `obj`, keeping sharing and cycles (its `memo`); `obj` cells are copied too
    (`__deepcopy__` / `__reduce_ex__`).  The model copies the WHOLE arena
    of `src` to addresses `base…` of `dst` (a superset of the reachable graph with exactly the same
    sharing; the surplus objects are unreachable from the copy and therefore unobservable).  The copy
    of the object at `⟨src, i⟩` is `⟨dst, base + i⟩`. -/
def copyArena (h : Heap) (src dst : Region) (base : Nat) : List Cell :=
  (h.arena src).map (Cell.shift src dst base)

/-! ### formatting (`Context.get_formatted_value`, `RecursiveFormatter._get_formatted_iterable`) -/

/-- Where a reference inside a formatted object points.  Formatting walks the object graph with a
    `memo` (sharing is kept, like `deepcopy`) and for every object either REBUILDS it
    (`obj.__class__(formatted children…)`: a new object in the run's arena) or RETURNS IT AS IT IS (the
    very same object).  `keep` = the objects (indices in `src`'s arena) that are returned as they are.
    The code as it is: strings without `{` and all other non-container leaves are returned as they
    are, EVERY container (list, tuple, set, dict) - also an empty one - is rebuilt, an `obj` (anything
    that is not one of these containers) is returned as it is: `objIdx`.  Leaves are immutable atoms
    here, a leaf handed back as it is cannot be told from a copy, and like `deepcopy`'s the model gives
    the result its own leaf cells.  A `keep` that names a container is a formatter that hands a
    container of `src` to the run by reference. -/
def shiftKeep (keep : List Nat) (src dst : Region) (base : Nat) (x : Ref) : Ref :=
  if x.reg = src && keep.contains x.idx then x else shiftRef src dst base x

def Cell.shiftKeep (keep : List Nat) (src dst : Region) (base : Nat) (c : Cell) : Cell :=
  c.mapRefs (RunHeap.shiftKeep keep src dst base)

/-- The positions of the opaque objects (`obj` cells) of an arena, counted from `i`. -/
def objIdxFrom (i : Nat) : Arena → List Nat
  | [] => []
  | c :: rest => if c.isObj then i :: objIdxFrom (i + 1) rest else objIdxFrom (i + 1) rest

/-- The objects of region `src` the formatter AS IT IS returns by reference: every `obj` cell. -/
def objIdx (h : Heap) (src : Region) : List Nat := objIdxFrom 0 (h.arena src)

/-- The formatted copy of the object graph of the region `src` (brace-free values, so
    formatting changes no leaf), at addresses `base…` of `dst`; as for `copyArena` the whole arena is
    rebuilt - a superset of the graph reachable from the formatted object, with the same sharing.
    The formatted value of the object at `⟨src, i⟩` is `shiftKeep keep src dst base ⟨src, i⟩`. -/
def fmtArena (h : Heap) (keep : List Nat) (src dst : Region) (base : Nat) : List Cell :=
  (h.arena src).map (Cell.shiftKeep keep src dst base)

/-! ### paths -/

inductive Seg where
  | key (k : String)
  | idx (i : Nat)
  /-- `obj.k` — through an attribute of an object (`context['body'].value`: the payload of a tag object). -/
  | attr (k : String)
  deriving DecidableEq, Repr, Inhabited

abbrev Path := List Seg

def Cell.follow (c : Cell) (s : Seg) : Option Ref :=
  match c, s with
  | .dict kvs, .key k => kvGet? kvs k
  | .list rs, .idx i => rs[i]?
  | .tuple rs, .idx i => rs[i]?
  | .obj _ attrs, .attr k => kvGet? attrs k
  | _, _ => none

/-- `context['a']['b'][0].value['c']…`: follow a path of dict keys / list indices / attributes from the object `a`. -/
def resolve (h : Heap) (a : Ref) : Path → Option Ref
  | [] => some a
  | s :: rest =>
    match h.get? a with
    | none => none
    | some c =>
      match c.follow s with
      | none => none
      | some b => resolve h b rest

/-! ### operations -/

inductive Op where
  /-- `Context(dict_in)` in `pipelinerunner.run`: the run's context object and its initial content,
      all fresh. Only on a run that has not started. -/
  | start (b : Block)
  /-- `Step.set_step_input_context` AS IT IS NOW: `context.update(copy.deepcopy(self.in_parameters))`,
      one `in` key: deep-copy the definition object `src` into the run, bind the copy at
      `context[key]`. -/
  | inCopy (key : String) (src : Ref)
  /-- The OLD `context.update(self.in_parameters)`: binds the definition object itself.  The same
      shape of defect: any code path that stores a shared object in the context by reference. -/
  | inAlias (key : String) (src : Ref)
  /-- `pypyr.steps.configvars` as it is now: `context.update(copy.deepcopy(config.vars))`. -/
  | configvarsCopy
  /-- The old `context.update(config.vars)`. -/
  | configvarsAlias
  /-- `Step.unset_step_input_context`: `context.pop(key, None)`. -/
  | unsetIn (key : String)
  /-- `pypyr.steps.set` / `contextsetf` / `default` on a missing key / `py` + `save`:
      `context[key] = <formatted value>`; formatting allocates new containers. -/
  | setKey (key : String) (v : Block)
  /-- `pypyr.steps.append` on an existing list, `list.append` in `py` code. -/
  | appendAt (path : Path) (v : Block)
  /-- `pypyr.steps.append` with `unpack`, `Context.merge` on an existing list
      (`current[k].extend(formatted)`): in-place extension of the list cell at `path`. -/
  | extendAt (path : Path) (vs : List Block)
  /-- `pypyr.steps.add`: `the_set.add(v)` on the `set` cell at `path` (an atom already present is not
      added again). -/
  | addAt (path : Path) (v : Block)
  /-- `Context.merge` / `set_defaults` into an existing nested dict, `d['k'] = v` in `py` code. -/
  | dictSetAt (path : Path) (k : String) (v : Block)
  /-- `setattr(obj, k, v)` / `bytearray.extend` (attribute `data`) on the opaque object at `path`. -/
  | attrSetAt (path : Path) (k : String) (v : Block)
  /-- `pypyr.steps.contextcopy` (`context[dst] = context[src]`), `set` with `'{src:ff}'`:
      binds the SAME object under another key – aliasing inside the run's own region. -/
  | copyKey (src dst : String)
  /-- `Pipeline.new_pipe_and_args`: `sc_dict = copy.deepcopy(shortcut['args'])`, which then
      initialises the context: deep-copy the config dict `src`, bind all its keys. -/
  | shortcutArgsCopy (src : Ref)
  /-- A decorator input / step attribute of the cached definition that is COPIED BY FORMATTING and
      then stored in the run: `Step.foreach_loop` (`foreach = context.get_formatted_value(self.foreach_items)`,
      `context['i'] = item`: `path = []`, `k = "i"`, `src` = the item in the definition),
      `Step.save_error` (`failure['customError'] = context.get_formatted_value(self.on_error)`, kept
      under `context['runErrors'][n]`).  `d[k] = formatted(src)` for the dict `d` at `path`; `keep`:
      the CONTAINERS the formatter hands back as they are instead of rebuilding them (see `shiftKeep`;
      `[]` for the code as it is); the opaque objects of the region (`objIdx`) are always handed back. -/
  | fmtSetAt (path : Path) (k : String) (src : Ref) (keep : List Nat)
  /-- A value of ANOTHER RUN's context, formatted and stored in this run: the two directions of
      `pypyr.steps.pype` with a context of its own.  `d[k] = f(context_of_run_src[sp…])` for the dict `d`
      at `path` of this run.  `byRef = true`: `'{key:ff}'` – flat formatting returns THE OBJECT ITSELF (an
      atom: indistinguishable from a copy, the model allocates a leaf); `byRef = false`: `'{key}'` as a
      single expression, `Context.get_formatted(key)` in `write_child_context_to_parent` – the object is
      formatted again: containers are rebuilt (with sharing), opaque objects handed back by reference. -/
  | fmtFrom (src : Nat) (sp : Path) (path : Path) (k : String) (byRef : Bool)
  /-- A step body that raises (`raise …` in `py` code, any step function that fails). -/
  | fail
  deriving Repr, Inhabited

/-- The operation language of the code as it is now FOR ONE RUN ON ITS OWN (no aliasing of shared
    objects, nothing read from another run's region). -/
def Op.fixed : Op → Bool
  | .inAlias _ _ => false
  | .configvarsAlias => false
  | .fmtSetAt _ _ _ keep => keep.isEmpty
  | .fmtFrom _ _ _ _ _ => false
  | _ => true

/-- What one operation does: new objects for the run's own arena, at most one in-place write. -/
structure Effect where
  allocs : List Cell
  write : Option (Ref × Cell)

/-- Is the atom `b` already a member of the set whose members are `rs`? -/
def isPresent (h : Heap) (rs : List Ref) (b : Block) : Bool :=
  match b with
  | [.leaf v] => rs.any fun y => match h.get? y with
      | some (.leaf w) => decide (w = v)
      | _ => false
  | _ => false

/-- `context.update(copy.deepcopy(d))` for the shared dict object `src`. -/
def updateCopy (h : Heap) (r : Nat) (src : Ref) : Option Effect :=
  if src.reg.isShared then
    match h.get? (root r), h.get? src with
    | some (.dict kvs), some (.dict skvs) =>
      let base := (h.arena (.run r)).length
      some ⟨copyArena h src.reg (.run r) base,
            some (root r, .dict (kvUpdate kvs (skvs.map fun kv => (kv.1, shiftRef src.reg (.run r) base kv.2))))⟩
    | _, _ => none
  else none

/-- In-place extension of the list at `path` by freshly allocated values. -/
def extendEffect (h : Heap) (r : Nat) (path : Path) (vs : List Block) : Option Effect :=
  match resolve h (root r) path with
  | none => none
  | some x =>
    match h.get? x with
    | some (.list rs) =>
      let new := relocAll (.run r) (h.arena (.run r)).length vs
      some ⟨new.1, some (x, .list (rs ++ new.2))⟩
    | _ => none

def dictSetEffect (h : Heap) (r : Nat) (path : Path) (k : String) (v : Block) : Option Effect :=
  if v.isEmpty then none else
  match resolve h (root r) path with
  | none => none
  | some x =>
    match h.get? x with
    | some (.dict kvs) =>
      let base := (h.arena (.run r)).length
      some ⟨Block.relocate v (.run r) base, some (x, .dict (kvSet kvs k ⟨.run r, base⟩))⟩
    | _ => none

/-- `d[k] = <formatted copy of the object y of region g>` for the dict `d` at `path`. -/
def fmtBind (h : Heap) (r : Nat) (path : Path) (k : String) (g : Region) (y : Ref) (keep : List Nat) :
    Option Effect :=
  match resolve h (root r) path with
  | none => none
  | some x =>
    match h.get? x with
    | some (.dict kvs) =>
      let base := (h.arena (.run r)).length
      let kp := keep ++ objIdx h g
      some ⟨fmtArena h kp g (.run r) base, some (x, .dict (kvSet kvs k (shiftKeep kp g (.run r) base y)))⟩
    | _ => none

def effect (h : Heap) (r : Nat) : Op → Option Effect
  | .start b =>
    if (h.arena (.run r)).isEmpty then
      match b with
      | .dict _ :: _ => some ⟨Block.relocate b (.run r) 0, none⟩
      | _ => none
    else none
  | .inCopy key src =>
    if src.reg.isShared then
      match h.get? (root r) with
      | some (.dict kvs) =>
        let base := (h.arena (.run r)).length
        some ⟨copyArena h src.reg (.run r) base,
              some (root r, .dict (kvSet kvs key ⟨.run r, base + src.idx⟩))⟩
      | _ => none
    else none
  | .inAlias key src =>
    match h.get? (root r) with
    | some (.dict kvs) => some ⟨[], some (root r, .dict (kvSet kvs key src))⟩
    | _ => none
  | .configvarsCopy => updateCopy h r varsRef
  | .shortcutArgsCopy src => updateCopy h r src
  | .configvarsAlias =>
    match h.get? (root r), h.get? varsRef with
    | some (.dict kvs), some (.dict skvs) => some ⟨[], some (root r, .dict (kvUpdate kvs skvs))⟩
    | _, _ => none
  | .unsetIn key =>
    match h.get? (root r) with
    | some (.dict kvs) => some ⟨[], some (root r, .dict (kvErase kvs key))⟩
    | _ => none
  | .setKey key v => dictSetEffect h r [] key v
  | .dictSetAt path k v => dictSetEffect h r path k v
  | .appendAt path v => extendEffect h r path [v]
  | .extendAt path vs => extendEffect h r path vs
  | .addAt path v =>
    match resolve h (root r) path with
    | none => none
    | some x =>
      match h.get? x with
      | some (.set rs) =>
        if isPresent h rs v then some ⟨[], none⟩
        else
          let new := relocAll (.run r) (h.arena (.run r)).length [v]
          some ⟨new.1, some (x, .set (rs ++ new.2))⟩
      | _ => none
  | .attrSetAt path k v =>
    if v.isEmpty then none else
    match resolve h (root r) path with
    | none => none
    | some x =>
      match h.get? x with
      | some (.obj cls attrs) =>
        let base := (h.arena (.run r)).length
        some ⟨Block.relocate v (.run r) base, some (x, .obj cls (kvSet attrs k ⟨.run r, base⟩))⟩
      | _ => none
  | .copyKey src dst =>
    match h.get? (root r) with
    | some (.dict kvs) =>
      match kvGet? kvs src with
      | some y => some ⟨[], some (root r, .dict (kvSet kvs dst y))⟩
      | none => none
    | _ => none
  | .fmtSetAt path k src keep =>
    if src.reg.isShared then fmtBind h r path k src.reg src keep else none
  | .fmtFrom src sp path k byRef =>
    if src = r then none else
    match resolve h (root src) sp with
    | none => none
    | some y =>
      if byRef then
        match h.get? y, resolve h (root r) path with
        | some c, some x =>
          match h.get? x with
          | some (.dict kvs) =>
            match c with
            | .leaf v => some ⟨[.leaf v], some (x, .dict (kvSet kvs k ⟨.run r, (h.arena (.run r)).length⟩))⟩
            | _ => some ⟨[], some (x, .dict (kvSet kvs k y))⟩
          | _ => none
        | _, _ => none
      else fmtBind h r path k (.run src) y []
  | .fail => none

def apply (h : Heap) (r : Nat) (e : Effect) : Heap :=
  let h1 := h.alloc (.run r) e.allocs
  match e.write with
  | none => h1
  | some (x, c) => h1.set x c

/-- The heap and the runs that are over because an operation of theirs raised. -/
structure State where
  heap : Heap
  dead : Nat → Bool

def State.init (h : Heap) : State := ⟨h, fun _ => false⟩

def kill (dead : Nat → Bool) (r : Nat) : Nat → Bool := fun r' => decide (r' = r) || dead r'

/-- One operation of run `r`: nothing if the run is over; an operation without effect RAISES and ends
    the run (the heap stays as it is); otherwise the effect is applied. -/
def step (st : State) (r : Nat) (op : Op) : State :=
  if st.dead r then st else
  match effect st.heap r op with
  | none => ⟨st.heap, kill st.dead r⟩
  | some e => ⟨apply st.heap r e, st.dead⟩

/-- A schedule: the global order in which the operations of all runs are executed. Every
    interleaving of per-run operation sequences at operation granularity is such a list. -/
abbrev Sched := List (Nat × Op)

def exec (s : Sched) (st : State) : State :=
  match s with
  | [] => st
  | e :: rest => exec rest (step st e.1 e.2)

/-- The operations of run `r` in a schedule, in order: run r's own program. -/
def proj (r : Nat) (s : Sched) : Sched := s.filter fun e => e.1 = r

/-- Run `r` executing `ops` on its own. -/
def solo (r : Nat) (ops : List Op) : Sched := ops.map fun o => (r, o)

/-- What the loaders produced: definitions and configuration, no run has started. Each shared
    arena is one closed object graph (a parsed yaml document / the config mapping). -/
def Heap.init (defs : List Block) (cfg : Block) : Heap :=
  ⟨fun g => match g with
    | .defn p => match defs[p]? with
        | some b => Block.relocate b (.defn p) 0
        | none => []
    | .config => Block.relocate cfg .config 0
    | .run _ => []⟩

/-- The process right after loading: nothing has run, nothing has failed. -/
def State.loaded (defs : List Block) (cfg : Block) : State := State.init (Heap.init defs cfg)

/-! ### objects that outlive a run: `pypyr.pipeline.Pipeline` -/

/-- What a `pypyr.pipeline.Pipeline` object keeps from one call of `run(context)` to the next:
    `steps_runner`, a `StepsRunner`, which is bound to the `Context` it was constructed with
    (`runner = some r`: bound to run r's context; `none`: never run), and `groups`: constructor
    inputs – `Pipeline.new_pipe_and_args` stores `shortcut.get('groups')`, THE CONFIGURATION'S OWN LIST,
    on the object (`held = some x`: a shared object held by reference; the runner only reads it; no
    operation has a `Pipeline` object as its target).  `pipeline_definition` is fetched from the loader
    cache again on every call. -/
structure PipeObj where
  runner : Option Nat
  held : Option Ref := none
  deriving DecidableEq, Repr, Inhabited

/-- `Pipeline._run_pipeline(context)`: which `StepsRunner` executes the step groups of a call. -/
inductive RunnerRule where
  /-- as it is: `steps_runner = StepsRunner(pipeline_body=…, context=context)` on EVERY call -/
  | perCall
  /-- a runner kept on the object and used again by the later calls -/
  | keepFirst
  deriving DecidableEq, Repr, Inhabited

/-- One call `obj.run(context)` where `context` is run `run`'s `Context`.  `pre`: what is done to the
    context handed in, not through the runner (`Context(dict_in)` by the caller, `_prepare_context`:
    `context.update(<parser result>)`); `steps`: the operations of the step groups.  `(none, op)` is
    executed by the call's `StepsRunner` on the context THAT RUNNER is bound to; `(some r', op)` acts
    on the context of the nested run `r'` – a child pipeline that `pypyr.steps.pype` runs with a
    context of its own (`useParentContext: false`): that `Context`, its `Pipeline` object and its
    runner are all made by the step while it runs.  `α`: operations (`Call`) or instructions
    (`KCall`). -/
structure CallOf (α : Type) where
  obj : Nat
  run : Nat
  pre : List α
  steps : List (Option Nat × α)
  deriving Repr, Inhabited

abbrev Call := CallOf Op

/-- The operations of a call whose runner is bound to the context of run `target`. -/
def CallOf.sched {α : Type} (c : CallOf α) (target : Nat) : List (Nat × α) :=
  (c.pre.map fun o => (c.run, o)) ++ c.steps.map fun s => (s.1.getD target, s.2)

/-- The object after a call for run `r`, and the run whose context the call's steps act on. -/
def PipeObj.call (rule : RunnerRule) (p : PipeObj) (r : Nat) : PipeObj × Nat :=
  match rule, p.runner with
  | .keepFirst, some r0 => (p, r0)
  | _, _ => ({ p with runner := some r }, r)

/-- All `Pipeline` objects of the process, by number. -/
abbrev Objs := Nat → PipeObj

def Objs.fresh : Objs := fun _ => ⟨none, none⟩

def Objs.put (objs : Objs) (o : Nat) (p : PipeObj) : Objs := fun o' => if o' = o then p else objs o'

/-- The operations a history of calls (on the same or on different objects, in this order)
    performs. -/
def callsSched {α : Type} (rule : RunnerRule) (objs : Objs) : List (CallOf α) → List (Nat × α)
  | [] => []
  | c :: rest =>
    let pt := (objs c.obj).call rule c.run
    c.sched pt.2 ++ callsSched rule (objs.put c.obj pt.1) rest

/-- The objects after a history of calls. -/
def callsObjs {α : Type} (rule : RunnerRule) (objs : Objs) : List (CallOf α) → Objs
  | [] => objs
  | c :: rest => callsObjs rule (objs.put c.obj ((objs c.obj).call rule c.run).1) rest

/-! ### observations (driver, examples) -/

/-- The tree value of the object at `x` (what `==` / a deep snapshot sees). `obj 0`: out of fuel
    (cyclic), `obj 1`: dangling address.  An opaque object shows as the mapping of its attributes
    with its class under `__obj__`. -/
def deepVal : Nat → Heap → Ref → Val
  | 0, _, _ => .obj 0
  | n + 1, h, x =>
    match h.get? x with
    | none => .obj 1
    | some (.leaf v) => v
    | some (.list rs) => .list (rs.map (deepVal n h))
    | some (.tuple rs) => .tuple (rs.map (deepVal n h))
    | some (.set rs) => .set (rs.map (deepVal n h))
    | some (.dict kvs) => .dict (kvs.map fun kv => (.str kv.1, deepVal n h kv.2))
    | some (.obj cls attrs) =>
      .dict ((.str "__obj__", .str cls) :: attrs.map fun kv => (.str kv.1, deepVal n h kv.2))

/-- The addresses reachable from `todo` (fuel-bounded graph search). -/
def reachFrom : Nat → Heap → List Ref → List Ref → List Ref
  | 0, _, _, seen => seen
  | _ + 1, _, [], seen => seen
  | n + 1, h, x :: todo, seen =>
    if seen.contains x then reachFrom n h todo seen
    else reachFrom n h ((match h.get? x with | some c => c.refs | none => []) ++ todo) (x :: seen)

/-- Non-atom objects of other regions that run `r`'s context can reach: the model's prediction
    of the `id()`-sharing between a context and the cached definitions / config / other contexts. -/
def foreignReach (fuel : Nat) (h : Heap) (r : Nat) : List Ref :=
  (reachFrom fuel h [root r] []).reverse.filter fun x =>
    x.reg ≠ .run r && (match h.get? x with | some (.leaf _) => false | _ => true)

/-! ### the object-level READING of steps

  Which operations a step performs on objects is a function of the step's configuration AND of what
  the context holds when the step starts: `pypyr.steps.append` extends the list in place if
  `context.get(list)` is truthy and binds a new list otherwise, `Context.merge` walks the current value
  and extends lists / recurses into mappings where both sides agree, `Step.save_error` appends to
  `runErrors` if it is there.  `Instr` = one step-level unit of a run as the harness generates it (the
  step kind + its configuration, values as `Val` trees); `opsOf` = its reading.  The heap is read
  through `kindAt` only (what KIND of object sits at a path of the run's own context, how many members
  it has, whether it is truthy): nothing else of the heap can influence which operations are done. -/

/-- Python `str(key)` of a mapping key of a step's configuration (keys are strings in the domain). -/
def keyStr : Val → String
  | .str s => s
  | _ => "\x00"

mutual
/-- The objects of a literal value, the value itself first, children after it (positions relative to
    `base`): what formatting a brace-free literal allocates. -/
def cellsOf (base : Nat) : Val → List BCell
  | .list xs => let r := cellsOfList (base + 1) xs; .list r.2 :: r.1
  | .tuple xs => let r := cellsOfList (base + 1) xs; .tuple r.2 :: r.1
  | .set xs => let r := cellsOfList (base + 1) xs; .set r.2 :: r.1
  | .dict kvs => let r := cellsOfPairs (base + 1) kvs; .dict r.2 :: r.1
  | v => [.leaf v]
def cellsOfList (base : Nat) : List Val → List BCell × List Nat
  | [] => ([], [])
  | x :: xs =>
    let c := cellsOf base x
    let r := cellsOfList (base + c.length) xs
    (c ++ r.1, base :: r.2)
def cellsOfPairs (base : Nat) : List (Val × Val) → List BCell × List (String × Nat)
  | [] => ([], [])
  | (k, v) :: rest =>
    let c := cellsOf base v
    let r := cellsOfPairs (base + c.length) rest
    (c ++ r.1, (keyStr k, base) :: r.2)
end

def Block.ofVal (v : Val) : Block := cellsOf 0 v

/-- What a step can learn about the object at a path by `isinstance`, `bool()` and `len()`. -/
inductive Kind where
  | leaf (truthy : Bool)
  | list (n : Nat)
  | tuple (n : Nat)
  | set (n : Nat)
  | dict (n : Nat)
  | obj
  deriving DecidableEq, Repr, Inhabited

def Cell.kind : Cell → Kind
  | .leaf v => .leaf v.truthy
  | .list rs => .list rs.length
  | .tuple rs => .tuple rs.length
  | .set rs => .set rs.length
  | .dict kvs => .dict kvs.length
  | .obj _ _ => .obj

def Kind.truthy : Kind → Bool
  | .leaf t => t
  | .list n | .tuple n | .set n | .dict n => n != 0
  | .obj => true

/-- The kind of the object at `path` of run r's context (`none`: no such path). -/
def kindAt (h : Heap) (r : Nat) (path : Path) : Option Kind :=
  match resolve h (root r) path with
  | none => none
  | some x => (h.get? x).map Cell.kind

/-- The two operations `Context.merge` / `set_defaults` perform. -/
inductive MOp where
  | set (path : Path) (k : String) (v : Block)
  | extend (path : Path) (vs : List Block)
  deriving Repr, Inhabited

def MOp.toOp : MOp → Op
  | .set [] k v => .setKey k v
  | .set path k v => .dictSetAt path k v
  | .extend path vs => .extendAt path vs

mutual
/-- `Context.merge` → `merge_recurse(current, add_me)` with `current` = the mapping at `path`; `rd` reads
    the context.  `none`: outside the modelled domain (tuple + tuple, set + set build a new object out of
    the members of the old one). -/
def mergeWalk (rd : Path → Option Kind) (path : Path) : List (Val × Val) → Option (List MOp)
  | [] => some []
  | (k, v) :: rest =>
    match mergeOne rd path (keyStr k) v, mergeWalk rd path rest with
    | some a, some b => some (a ++ b)
    | _, _ => none
def mergeOne (rd : Path → Option Kind) (path : Path) (k : String) : Val → Option (List MOp)
  | .dict kvs =>
    match rd (path ++ [.key k]) with
    | some (.dict _) => mergeWalk rd (path ++ [.key k]) kvs
    | _ => some [.set path k (cellsOf 0 (.dict kvs))]
  | .list xs =>
    match rd (path ++ [.key k]) with
    | some (.list _) => some [.extend (path ++ [.key k]) (cellsOfEach xs)]
    | _ => some [.set path k (cellsOf 0 (.list xs))]
  | .tuple xs =>
    match rd (path ++ [.key k]) with
    | some (.tuple _) => none
    | _ => some [.set path k (cellsOf 0 (.tuple xs))]
  | .set xs =>
    match rd (path ++ [.key k]) with
    | some (.set _) => none
    | _ => some [.set path k (cellsOf 0 (.set xs))]
  | v => some [.set path k (cellsOf 0 v)]
/-- one fresh value per member -/
def cellsOfEach : List Val → List Block
  | [] => []
  | x :: xs => cellsOf 0 x :: cellsOfEach xs
end

mutual
/-- `Context.set_defaults` → `defaults_recurse(current, defaults)`: a key that is there is left alone
    (both mappings: recurse), a key that is not is bound. -/
def defaultWalk (rd : Path → Option Kind) (path : Path) : List (Val × Val) → List MOp
  | [] => []
  | (k, v) :: rest => defaultOne rd path (keyStr k) v ++ defaultWalk rd path rest
def defaultOne (rd : Path → Option Kind) (path : Path) (k : String) : Val → List MOp
  | .dict kvs =>
    match rd (path ++ [.key k]) with
    | some (.dict _) => defaultWalk rd (path ++ [.key k]) kvs
    | some _ => []
    | none => [.set path k (cellsOf 0 (.dict kvs))]
  | v =>
    match rd (path ++ [.key k]) with
    | some _ => []
    | none => [.set path k (cellsOf 0 v)]
end

/-- The forms of `py` code the generator renders. -/
inductive PyForm where
  /-- `<path>.append(<w>)` -/
  | append (path : Path) (w : Val)
  /-- `<path>.extend(<ws>)` -/
  | extend (path : Path) (ws : List Val)
  /-- `<path>[k] = <w>` -/
  | setItem (path : Path) (k : String) (w : Val)
  /-- `<path>.add(<a>)` -/
  | add (path : Path) (a : Val)
  /-- `dst = src` + `save('dst')` -/
  | alias (src dst : String)
  /-- `raise …` inside a step whose failure is swallowed or retried: the failure itself changes no
      object (its record is `Instr.saveError`; a failure that ends the run is `Instr.raise`) -/
  | raise
  deriving Repr, Inhabited

def PyForm.ops : PyForm → List Op
  | .append [] _ => [.fail]
  | .append path w => [.appendAt path (Block.ofVal w)]
  | .extend path ws => [.extendAt path (ws.map Block.ofVal)]
  | .setItem [] k w => [.setKey k (Block.ofVal w)]
  | .setItem path k w => [.dictSetAt path k (Block.ofVal w)]
  | .add path a => [.addAt path (Block.ofVal a)]
  | .alias src dst => [.copyKey src dst]
  | .raise => []

/-- One step-level unit of a run. -/
inductive Instr where
  /-- `Context(dict_in)` (the caller of a run; `pypyr.steps.pype` for a child with a context of its own,
      from its brace-free `args`) -/
  | ctxStart (v : Val)
  /-- `Pipeline.new_pipe_and_args` for a shortcut with `args`: `copy.deepcopy(shortcut['args'])` updated
      with the caller's `dict_in` -/
  | shortcutArgs (src : Ref) (dictIn : List (String × Val))
  /-- `pypyr.parser.list`: `{'argList': [args…]}` (a new list, `list(parser_args)`) -/
  | parserList (args : List String)
  /-- `Step.set_step_input_context`: one deep copy per `in` key (`src`: the definition object) -/
  | enter (ins : List (String × Ref))
  /-- `Step.unset_step_input_context` -/
  | leave (keys : List String)
  /-- `Step.foreach_loop`: `context['i'] = <formatted item>` (`src`: the item in the definition) -/
  | foreachItem (src : Ref)
  /-- `retryCounter` / `whileCounter` -/
  | counter (name : String) (n : Nat)
  /-- `pypyr.steps.append` with `list: K` (a key) -/
  | append (K : String) (W : Val) (unpack : Bool)
  /-- `pypyr.steps.add` with `set: K` (a key), an atom to add -/
  | add (K : String) (a : Val)
  /-- `pypyr.steps.set` (pops its own argument first) -/
  | set (pairs : List (String × Val))
  /-- `pypyr.steps.contextsetf`; `context.update(args)` of a pype into the parent context; the `out` keys
      of a pype with a context of its own (values read from the child) -/
  | setf (pairs : List (String × Val))
  /-- `pypyr.steps.set` with `dst: '{src:ff}'` -/
  | setff (dst src : String)
  /-- `pypyr.steps.contextcopy` `{dst: src}` -/
  | contextcopy (dst src : String)
  /-- `pypyr.steps.default` -/
  | default (v : Val)
  /-- `pypyr.steps.contextmerge` -/
  | merge (v : Val)
  /-- `pypyr.steps.py` -/
  | py (forms : List PyForm)
  /-- `pypyr.steps.configvars` -/
  | configvars
  /-- `Step.save_error`: `context.setdefault('runErrors', []).append(failure)`, `failure['customError']` =
      the formatted `onError` of the definition (`src`) or `{}` -/
  | saveError (failure : Val) (onError : Option Ref)
  /-- a failure that is not swallowed: the run ends -/
  | raise
  deriving Repr, Inhabited

def bindAll (pairs : List (String × Val)) : List Op := pairs.map fun kv => .setKey kv.1 (Block.ofVal kv.2)

/-- The reading, given a reader of the context. -/
def opsOfK (rd : Path → Option Kind) : Instr → Option (List Op)
  | .ctxStart v => some [.start (Block.ofVal v)]
  | .shortcutArgs src dictIn => some (.start [.dict []] :: .shortcutArgsCopy src :: bindAll dictIn)
  | .parserList args => some [.setKey "argList" (Block.ofVal (.list (args.map Val.str)))]
  | .enter ins => some (ins.map fun kv => .inCopy kv.1 kv.2)
  | .leave keys => some (keys.map .unsetIn)
  | .foreachItem src => some [.fmtSetAt [] "i" src []]
  | .counter name n => some [.setKey name [.leaf (.int n)]]
  | .append K W unpack =>
    let truthy := match rd [.key K] with | some k => k.truthy | none => false
    match unpack, W with
    | false, _ => some [if truthy then .appendAt [.key K] (Block.ofVal W) else .setKey K (Block.ofVal (.list [W]))]
    | true, .list ws => some [if truthy then .extendAt [.key K] (ws.map Block.ofVal) else .setKey K (Block.ofVal (.list ws))]
    | true, _ => none
  | .add K a =>
    let truthy := match rd [.key K] with | some k => k.truthy | none => false
    some [if truthy then .addAt [.key K] (Block.ofVal a) else .setKey K (Block.ofVal (.set [a]))]
  | .set pairs => some (.unsetIn "set" :: bindAll pairs)
  | .setf pairs => some (bindAll pairs)
  | .setff dst src => some [.unsetIn "set", .copyKey src dst]
  | .contextcopy dst src => some [.copyKey src dst]
  | .default (.dict kvs) => some ((defaultWalk rd [] kvs).map MOp.toOp)
  | .default _ => none
  | .merge (.dict kvs) => (mergeWalk rd [] kvs).map fun ms => ms.map MOp.toOp
  | .merge _ => none
  | .py forms => some (forms.flatMap PyForm.ops)
  | .configvars => some [.configvarsCopy]
  | .saveError failure onError =>
    let (pre, n) : List Op × Nat := match rd [.key "runErrors"] with
      | some (.list n) => ([], n)
      | some _ => ([], 0)
      | none => ([.setKey "runErrors" [.list []]], 0)
    some (pre ++ [.appendAt [.key "runErrors"] (Block.ofVal failure),
      match onError with
      | some src => .fmtSetAt [.key "runErrors", .idx n] "customError" src []
      | none => .dictSetAt [.key "runErrors", .idx n] "customError" [.dict []]])
  | .raise => some [.fail]

/-- The operations `instr` performs when run r executes it on heap `h`. -/
def opsOf (h : Heap) (r : Nat) (i : Instr) : Option (List Op) := opsOfK (kindAt h r) i

/-- One step-level unit of run `r`: read, then perform (a unit outside the modelled domain does
    nothing; the driver rejects it). -/
def stepK (st : State) (r : Nat) (i : Instr) : State :=
  match opsOf st.heap r i with
  | none => st
  | some ops => exec (solo r ops) st

/-- A schedule at STEP granularity. -/
abbrev KSched := List (Nat × Instr)

def execK (s : KSched) (st : State) : State :=
  match s with
  | [] => st
  | e :: rest => execK rest (stepK st e.1 e.2)

def projK (r : Nat) (s : KSched) : KSched := s.filter fun e => e.1 = r

def soloK (r : Nat) (is : List Instr) : KSched := is.map fun i => (r, i)

/-- What an observer of run `r` sees after a unit: the context's deep value and whether the run is over. -/
def obsOf (n : Nat) (st : State) (r : Nat) : Val × Bool := (deepVal n st.heap (root r), st.dead r)

/-- The step trace of run `r` executing `is` on its own. -/
def traceK (n : Nat) (r : Nat) : List Instr → State → List (Val × Bool)
  | [], _ => []
  | i :: is, st => obsOf n (stepK st r i) r :: traceK n r is (stepK st r i)

/-- The observations made in a schedule, after every unit, of the run that moved. -/
def logK (n : Nat) : KSched → State → List (Nat × Val × Bool)
  | [], _ => []
  | e :: rest, st => (e.1, obsOf n (stepK st e.1 e.2) e.1) :: logK n rest (stepK st e.1 e.2)

/-- Calls on `Pipeline` objects whose programs are step-level units. -/
abbrev KCall := CallOf Instr

end Pypyr.RunHeap
