/-
  Heap-level model of pipeline RUNS, in which object identity, aliasing and in-place mutation
  are observable (C12: runs are independent; a run never alters shared definitions/config).

  An object of the Python program is one `Cell`; `id(obj)` is its `Ref`. A `Ref` is an address
  `(region, index)`: every region has its own arena (address space), so an allocation made by
  one run never moves the addresses another run will get.  Regions:

    * `defn p`  – the object graph of the cached `PipelineDefinition.pipeline` number `p`
                  (what `pypyr.loaders.file.load_pipeline_from_file` produced; held by
                  `loader_cache` / `file_cache` and shared by every run of that pipeline);
    * `config`  – `config.vars` (cell 0) and `config.shortcuts` (process-wide configuration);
    * `run r`   – everything run `r` allocates; cell 0 is run r's `Context` object (its root).

  `Cell := leaf v | list refs | dict [(key, ref)]`.  A `leaf` is an immutable atom (None, bool,
  int, float, str, bytes): it has no outgoing references and no operation writes to it.  Python
  shares atoms between a deep copy and its original; because atoms cannot be mutated that sharing
  is unobservable, and the model gives every copy its own leaf cells.  Python `set`s are `list`
  cells here (the harness canonicalises the order).

  The operation language mirrors what the code does to OBJECTS (names of the mirrored Python
  in the doc comment of each constructor of `Op`).  Every operation is ONE batch of allocations in
  the running run's own arena plus AT MOST ONE in-place write to an existing cell, the cell reached
  by following a path from the run's context root (`effect` computes that, `apply` performs it).
  An operation whose Python counterpart raises before touching anything (missing key, wrong
  kind of object on the path) leaves the heap unchanged.

  No imports beyond `Val`: the driver links this file.
-/
import PypyrModel.Val

namespace Pypyr.RunHeap

inductive Region where
  | defn (p : Nat)
  | config
  | run (r : Nat)
  deriving DecidableEq, Repr, Inhabited

/-- Shared, cached state (definitions, configuration) as opposed to a run's own objects. -/
def Region.isShared : Region → Bool
  | .run _ => false
  | _ => true

structure Ref where
  reg : Region
  idx : Nat
  deriving DecidableEq, Repr, Inhabited

inductive Cell where
  | leaf (v : Val)
  | list (rs : List Ref)
  | dict (kvs : List (String × Ref))
  deriving DecidableEq, Repr, Inhabited

/-- Outgoing references of an object. -/
def Cell.refs : Cell → List Ref
  | .leaf _ => []
  | .list rs => rs
  | .dict kvs => kvs.map (·.2)

abbrev Arena := List Cell

/-- Finite map `Ref ↦ (Region × Cell)`: the region of a cell is the region of its address. -/
structure Heap where
  arena : Region → Arena

def Heap.get? (h : Heap) (x : Ref) : Option Cell := (h.arena x.reg)[x.idx]?

/-- Allocation: new objects go to the end of the allocating region's arena. -/
def Heap.alloc (h : Heap) (reg : Region) (cs : List Cell) : Heap :=
  ⟨fun g => if g = reg then h.arena g ++ cs else h.arena g⟩

/-- In-place mutation of the object at `x` (no effect on a dangling address). -/
def Heap.set (h : Heap) (x : Ref) (c : Cell) : Heap :=
  ⟨fun g => if g = x.reg then (h.arena g).set x.idx c else h.arena g⟩

/-- Run r's `Context` object. -/
def root (r : Nat) : Ref := ⟨.run r, 0⟩

/-- `config.vars` is the first object of the config region. -/
def varsRef : Ref := ⟨.config, 0⟩

/-! ### association lists with string keys (`dict.__setitem__`, `.get`, `.pop`, `.update`) -/

def kvGet? (kvs : List (String × Ref)) (k : String) : Option Ref :=
  match kvs with
  | [] => none
  | (k', v) :: rest => if k' = k then some v else kvGet? rest k

def kvSet (kvs : List (String × Ref)) (k : String) (v : Ref) : List (String × Ref) :=
  match kvs with
  | [] => [(k, v)]
  | (k', v') :: rest => if k' = k then (k, v) :: rest else (k', v') :: kvSet rest k v

def kvErase (kvs : List (String × Ref)) (k : String) : List (String × Ref) :=
  match kvs with
  | [] => []
  | (k', v') :: rest => if k' = k then kvErase rest k else (k', v') :: kvErase rest k

def kvUpdate (kvs add : List (String × Ref)) : List (String × Ref) :=
  match add with
  | [] => kvs
  | (k, v) :: rest => kvUpdate (kvSet kvs k v) rest

/-! ### fresh values -/

/-- One object of a value that is about to be allocated; references are positions inside the
    block it belongs to. -/
inductive BCell where
  | leaf (v : Val)
  | list (js : List Nat)
  | dict (kjs : List (String × Nat))
  deriving DecidableEq, Repr, Inhabited

/-- A fresh value (the result of formatting, of `json`/yaml parsing, of a literal in `py` code,
    the `dict_in` of a run): a closed group of new objects, object 0 is the value itself. -/
abbrev Block := List BCell

def BCell.toCell (reg : Region) (base : Nat) : BCell → Cell
  | .leaf v => .leaf v
  | .list js => .list (js.map fun j => ⟨reg, base + j⟩)
  | .dict kjs => .dict (kjs.map fun kj => (kj.1, ⟨reg, base + kj.2⟩))

def Block.relocate (b : Block) (reg : Region) (base : Nat) : List Cell :=
  b.map (BCell.toCell reg base)

/-- Allocate several fresh values one after the other: the cells and the address of each value. -/
def relocAll (reg : Region) (base : Nat) : List Block → List Cell × List Ref
  | [] => ([], [])
  | b :: bs =>
    let rest := relocAll reg (base + b.length) bs
    (Block.relocate b reg base ++ rest.1, ⟨reg, base⟩ :: rest.2)

/-! ### `copy.deepcopy` -/

def shiftRef (src dst : Region) (base : Nat) (x : Ref) : Ref :=
  if x.reg = src then ⟨dst, base + x.idx⟩ else x

def Cell.shift (src dst : Region) (base : Nat) : Cell → Cell
  | .leaf v => .leaf v
  | .list rs => .list (rs.map (shiftRef src dst base))
  | .dict kvs => .dict (kvs.map fun kv => (kv.1, shiftRef src dst base kv.2))

/-- `copy.deepcopy(obj)` for an object of the shared region `src`: deepcopy copies the object graph
    reachable from `obj`, keeping sharing and cycles (its `memo`).  The model copies the WHOLE arena
    of `src` to addresses `base…` of `dst` (a superset of the reachable graph with exactly the same
    sharing; the surplus objects are unreachable from the copy and therefore unobservable).  The copy
    of the object at `⟨src, i⟩` is `⟨dst, base + i⟩`. -/
def copyArena (h : Heap) (src dst : Region) (base : Nat) : List Cell :=
  (h.arena src).map (Cell.shift src dst base)

/-! ### formatting (`Context.get_formatted_value`, `RecursiveFormatter._get_formatted_iterable`) -/

/-- Where a reference inside a formatted object points.  Formatting walks the object graph with a
    `memo` (sharing is kept, like `deepcopy`) and for every object either REBUILDS it
    (`obj.__class__(formatted children…)`: a new object in the run's arena) or RETURNS IT AS IT IS (the
    very same object).  `keep` = the objects (indices in `src`'s arena) that are returned as they are.
    The code as it is: strings without `{` and all other non-container leaves are returned as they
    are, EVERY container - also an empty one - is rebuilt.  Leaves are immutable atoms here, a leaf
    handed back as it is cannot be told from a copy, and like `deepcopy`'s the model gives the result
    its own leaf cells: so the code as it is has `keep = []`; a `keep` that names a container is a
    formatter that hands a shared container to the run by reference. -/
def shiftKeep (keep : List Nat) (src dst : Region) (base : Nat) (x : Ref) : Ref :=
  if x.reg = src && keep.contains x.idx then x else shiftRef src dst base x

def Cell.shiftKeep (keep : List Nat) (src dst : Region) (base : Nat) : Cell → Cell
  | .leaf v => .leaf v
  | .list rs => .list (rs.map (RunHeap.shiftKeep keep src dst base))
  | .dict kvs => .dict (kvs.map fun kv => (kv.1, RunHeap.shiftKeep keep src dst base kv.2))

/-- The formatted copy of the object graph of the shared region `src` (brace-free values, so
    formatting changes no leaf), at addresses `base…` of `dst`; as for `copyArena` the whole arena is
    rebuilt - a superset of the graph reachable from the formatted object, with the same sharing.
    The formatted value of the object at `⟨src, i⟩` is `shiftKeep keep src dst base ⟨src, i⟩`. -/
def fmtArena (h : Heap) (keep : List Nat) (src dst : Region) (base : Nat) : List Cell :=
  (h.arena src).map (Cell.shiftKeep keep src dst base)

/-! ### paths -/

inductive Seg where
  | key (k : String)
  | idx (i : Nat)
  deriving DecidableEq, Repr, Inhabited

abbrev Path := List Seg

def Cell.follow (c : Cell) (s : Seg) : Option Ref :=
  match c, s with
  | .dict kvs, .key k => kvGet? kvs k
  | .list rs, .idx i => rs[i]?
  | _, _ => none

/-- `context['a']['b'][0]…`: follow a path of dict keys / list indices from the object `a`. -/
def resolve (h : Heap) (a : Ref) : Path → Option Ref
  | [] => some a
  | s :: rest =>
    match h.get? a with
    | none => none
    | some c =>
      match c.follow s with
      | none => none
      | some b => resolve h b rest

/-! ### operations -/

inductive Op where
  /-- `Context(dict_in)` in `pipelinerunner.run`: the run's context object and its initial content,
      all fresh. Only on a run that has not started. -/
  | start (b : Block)
  /-- `Step.set_step_input_context` AS IT IS NOW: `context.update(copy.deepcopy(self.in_parameters))`,
      one `in` key: deep-copy the definition object `src` into the run, bind the copy at
      `context[key]`. -/
  | inCopy (key : String) (src : Ref)
  /-- The OLD `context.update(self.in_parameters)`: binds the definition object itself.  The same
      shape of defect: any code path that stores a shared object in the context by reference. -/
  | inAlias (key : String) (src : Ref)
  /-- `pypyr.steps.configvars` as it is now: `context.update(copy.deepcopy(config.vars))`. -/
  | configvarsCopy
  /-- The old `context.update(config.vars)`. -/
  | configvarsAlias
  /-- `Step.unset_step_input_context`: `context.pop(key, None)`. -/
  | unsetIn (key : String)
  /-- `pypyr.steps.set` / `contextsetf` / `default` on a missing key / `py` + `save`:
      `context[key] = <formatted value>`; formatting allocates new containers. -/
  | setKey (key : String) (v : Block)
  /-- `pypyr.steps.append` on an existing list, `list.append` in `py` code. -/
  | appendAt (path : Path) (v : Block)
  /-- `pypyr.steps.append` with `unpack`, `Context.merge` on an existing list
      (`current[k].extend(formatted)`): in-place extension of the list cell at `path`. -/
  | extendAt (path : Path) (vs : List Block)
  /-- `pypyr.steps.add`: `the_set.add(v)` (set modelled as a list cell; an atom already present
      is not added again). -/
  | addAt (path : Path) (v : Block)
  /-- `Context.merge` / `set_defaults` into an existing nested dict, `d['k'] = v` in `py` code. -/
  | dictSetAt (path : Path) (k : String) (v : Block)
  /-- `pypyr.steps.contextcopy` (`context[dst] = context[src]`), `set` with `'{src:ff}'`:
      binds the SAME object under another key – aliasing inside the run's own region. -/
  | copyKey (src dst : String)
  /-- `Pipeline.new_pipe_and_args`: `sc_dict = copy.deepcopy(shortcut['args'])`, which then
      initialises the context: deep-copy the config dict `src`, bind all its keys. -/
  | shortcutArgsCopy (src : Ref)
  /-- A decorator input / step attribute of the cached definition that is COPIED BY FORMATTING and
      then stored in the run: `Step.foreach_loop` (`foreach = context.get_formatted_value(self.foreach_items)`,
      `context['i'] = item`: `path = []`, `k = "i"`, `src` = the item in the definition),
      `Step.save_error` (`failure['customError'] = context.get_formatted_value(self.on_error)`, kept
      under `context['runErrors'][n]`).  `d[k] = formatted(src)` for the dict `d` at `path`; `keep`:
      the objects the formatter hands back as they are instead of rebuilding them (see `shiftKeep`;
      `[]` for the code as it is). -/
  | fmtSetAt (path : Path) (k : String) (src : Ref) (keep : List Nat)
  deriving Repr, Inhabited

/-- The operation language of the code as it is now (no aliasing of shared objects). -/
def Op.fixed : Op → Bool
  | .inAlias _ _ => false
  | .configvarsAlias => false
  | .fmtSetAt _ _ _ keep => keep.isEmpty
  | _ => true

/-- What one operation does: new objects for the run's own arena, at most one in-place write. -/
structure Effect where
  allocs : List Cell
  write : Option (Ref × Cell)

/-- Is the atom `b` already a member of the "set" whose members are `rs`? -/
def isPresent (h : Heap) (rs : List Ref) (b : Block) : Bool :=
  match b with
  | [.leaf v] => rs.any fun y => match h.get? y with
      | some (.leaf w) => decide (w = v)
      | _ => false
  | _ => false

/-- `context.update(copy.deepcopy(d))` for the shared dict object `src`. -/
def updateCopy (h : Heap) (r : Nat) (src : Ref) : Option Effect :=
  if src.reg.isShared then
    match h.get? (root r), h.get? src with
    | some (.dict kvs), some (.dict skvs) =>
      let base := (h.arena (.run r)).length
      some ⟨copyArena h src.reg (.run r) base,
            some (root r, .dict (kvUpdate kvs (skvs.map fun kv => (kv.1, shiftRef src.reg (.run r) base kv.2))))⟩
    | _, _ => none
  else none

/-- In-place extension of the list at `path` by freshly allocated values. -/
def extendEffect (h : Heap) (r : Nat) (path : Path) (vs : List Block) : Option Effect :=
  match resolve h (root r) path with
  | none => none
  | some x =>
    match h.get? x with
    | some (.list rs) =>
      let new := relocAll (.run r) (h.arena (.run r)).length vs
      some ⟨new.1, some (x, .list (rs ++ new.2))⟩
    | _ => none

def dictSetEffect (h : Heap) (r : Nat) (path : Path) (k : String) (v : Block) : Option Effect :=
  if v.isEmpty then none else
  match resolve h (root r) path with
  | none => none
  | some x =>
    match h.get? x with
    | some (.dict kvs) =>
      let base := (h.arena (.run r)).length
      some ⟨Block.relocate v (.run r) base, some (x, .dict (kvSet kvs k ⟨.run r, base⟩))⟩
    | _ => none

def effect (h : Heap) (r : Nat) : Op → Option Effect
  | .start b =>
    if (h.arena (.run r)).isEmpty then
      match b with
      | .dict _ :: _ => some ⟨Block.relocate b (.run r) 0, none⟩
      | _ => none
    else none
  | .inCopy key src =>
    if src.reg.isShared then
      match h.get? (root r) with
      | some (.dict kvs) =>
        let base := (h.arena (.run r)).length
        some ⟨copyArena h src.reg (.run r) base,
              some (root r, .dict (kvSet kvs key ⟨.run r, base + src.idx⟩))⟩
      | _ => none
    else none
  | .inAlias key src =>
    match h.get? (root r) with
    | some (.dict kvs) => some ⟨[], some (root r, .dict (kvSet kvs key src))⟩
    | _ => none
  | .configvarsCopy => updateCopy h r varsRef
  | .shortcutArgsCopy src => updateCopy h r src
  | .configvarsAlias =>
    match h.get? (root r), h.get? varsRef with
    | some (.dict kvs), some (.dict skvs) => some ⟨[], some (root r, .dict (kvUpdate kvs skvs))⟩
    | _, _ => none
  | .unsetIn key =>
    match h.get? (root r) with
    | some (.dict kvs) => some ⟨[], some (root r, .dict (kvErase kvs key))⟩
    | _ => none
  | .setKey key v => dictSetEffect h r [] key v
  | .dictSetAt path k v => dictSetEffect h r path k v
  | .appendAt path v => extendEffect h r path [v]
  | .extendAt path vs => extendEffect h r path vs
  | .addAt path v =>
    match resolve h (root r) path with
    | none => none
    | some x =>
      match h.get? x with
      | some (.list rs) => if isPresent h rs v then some ⟨[], none⟩ else extendEffect h r path [v]
      | _ => none
  | .copyKey src dst =>
    match h.get? (root r) with
    | some (.dict kvs) =>
      match kvGet? kvs src with
      | some y => some ⟨[], some (root r, .dict (kvSet kvs dst y))⟩
      | none => none
    | _ => none
  | .fmtSetAt path k src keep =>
    if src.reg.isShared then
      match resolve h (root r) path with
      | none => none
      | some x =>
        match h.get? x with
        | some (.dict kvs) =>
          let base := (h.arena (.run r)).length
          some ⟨fmtArena h keep src.reg (.run r) base,
                some (x, .dict (kvSet kvs k (shiftKeep keep src.reg (.run r) base src)))⟩
        | _ => none
    else none

def apply (h : Heap) (r : Nat) (e : Effect) : Heap :=
  let h1 := h.alloc (.run r) e.allocs
  match e.write with
  | none => h1
  | some (x, c) => h1.set x c

/-- One operation of run `r`. -/
def step (h : Heap) (r : Nat) (op : Op) : Heap :=
  match effect h r op with
  | none => h
  | some e => apply h r e

/-- A schedule: the global order in which the operations of all runs are executed. Every
    interleaving of per-run operation sequences at operation granularity is such a list. -/
abbrev Sched := List (Nat × Op)

def exec (s : Sched) (h : Heap) : Heap :=
  match s with
  | [] => h
  | e :: rest => exec rest (step h e.1 e.2)

/-- The operations of run `r` in a schedule, in order: run r's own program. -/
def proj (r : Nat) (s : Sched) : Sched := s.filter fun e => e.1 = r

/-- Run `r` executing `ops` on its own. -/
def solo (r : Nat) (ops : List Op) : Sched := ops.map fun o => (r, o)

/-- What the loaders produced: definitions and configuration, no run has started. Each shared
    arena is one closed object graph (a parsed yaml document / the config mapping). -/
def Heap.init (defs : List Block) (cfg : Block) : Heap :=
  ⟨fun g => match g with
    | .defn p => match defs[p]? with
        | some b => Block.relocate b (.defn p) 0
        | none => []
    | .config => Block.relocate cfg .config 0
    | .run _ => []⟩

/-! ### objects that outlive a run: `pypyr.pipeline.Pipeline` -/

/-- What a `pypyr.pipeline.Pipeline` object keeps from one call of `run(context)` to the next:
    `steps_runner`, a `StepsRunner`, which is bound to the `Context` it was constructed with
    (`runner = some r`: bound to run r's context; `none`: never run).  `pipeline_definition` is
    fetched from the loader cache again on every call and the other slots are constructor inputs,
    which belong to the caller. -/
structure PipeObj where
  runner : Option Nat
  deriving DecidableEq, Repr, Inhabited

/-- `Pipeline._run_pipeline(context)`: which `StepsRunner` executes the step groups of a call. -/
inductive RunnerRule where
  /-- as it is: `steps_runner = StepsRunner(pipeline_body=…, context=context)` on EVERY call -/
  | perCall
  /-- a runner kept on the object and used again by the later calls -/
  | keepFirst
  deriving DecidableEq, Repr, Inhabited

/-- One call `obj.run(context)` where `context` is run `run`'s `Context`.  `pre`: what is done to the
    context handed in, not through the runner (`Context(dict_in)` by the caller, `_prepare_context`:
    `context.update(<parser result>)`); `steps`: the operations of the step groups.  `(none, op)` is
    executed by the call's `StepsRunner` on the context THAT RUNNER is bound to; `(some r', op)` acts
    on the context of the nested run `r'` – a child pipeline that `pypyr.steps.pype` runs with a
    context of its own (`useParentContext: false`): that `Context`, its `Pipeline` object and its
    runner are all made by the step while it runs. -/
structure Call where
  obj : Nat
  run : Nat
  pre : List Op
  steps : List (Option Nat × Op)
  deriving Repr, Inhabited

/-- The operations of a call whose runner is bound to the context of run `target`. -/
def Call.sched (c : Call) (target : Nat) : Sched :=
  solo c.run c.pre ++ c.steps.map fun s => (s.1.getD target, s.2)

/-- The object after a call for run `r`, and the run whose context the call's steps act on. -/
def PipeObj.call (rule : RunnerRule) (p : PipeObj) (r : Nat) : PipeObj × Nat :=
  match rule, p.runner with
  | .keepFirst, some r0 => (p, r0)
  | _, _ => (⟨some r⟩, r)

/-- All `Pipeline` objects of the process, by number. -/
abbrev Objs := Nat → PipeObj

def Objs.fresh : Objs := fun _ => ⟨none⟩

def Objs.put (objs : Objs) (o : Nat) (p : PipeObj) : Objs := fun o' => if o' = o then p else objs o'

/-- The operations a history of calls (on the same or on different objects, in this order)
    performs. -/
def callsSched (rule : RunnerRule) (objs : Objs) : List Call → Sched
  | [] => []
  | c :: rest =>
    let pt := (objs c.obj).call rule c.run
    c.sched pt.2 ++ callsSched rule (objs.put c.obj pt.1) rest

/-! ### observations (driver, examples) -/

/-- The tree value of the object at `x` (what `==` / a deep snapshot sees). `obj 0`: out of fuel
    (cyclic), `obj 1`: dangling address. -/
def deepVal : Nat → Heap → Ref → Val
  | 0, _, _ => .obj 0
  | n + 1, h, x =>
    match h.get? x with
    | none => .obj 1
    | some (.leaf v) => v
    | some (.list rs) => .list (rs.map (deepVal n h))
    | some (.dict kvs) => .dict (kvs.map fun kv => (.str kv.1, deepVal n h kv.2))

/-- The addresses reachable from `todo` (fuel-bounded graph search). -/
def reachFrom : Nat → Heap → List Ref → List Ref → List Ref
  | 0, _, _, seen => seen
  | _ + 1, _, [], seen => seen
  | n + 1, h, x :: todo, seen =>
    if seen.contains x then reachFrom n h todo seen
    else reachFrom n h ((match h.get? x with | some c => c.refs | none => []) ++ todo) (x :: seen)

/-- Non-atom objects of other regions that run `r`'s context can reach: the model's prediction
    of the `id()`-sharing between a context and the cached definitions / config. -/
def foreignReach (fuel : Nat) (h : Heap) (r : Nat) : List Ref :=
  (reachFrom fuel h [root r] []).reverse.filter fun x =>
    x.reg ≠ .run r && (match h.get? x with | some (.leaf _) => false | _ => true)

end Pypyr.RunHeap
