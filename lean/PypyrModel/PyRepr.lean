/-
  `str()` / `repr()` / `json.dumps()` of the modelled values, mirroring CPython
  on the stated domain: ASCII control characters escaped as CPython does,
  every other character treated as printable; floats are dyadic n/2^k with
  k ≤ 10 and |n| < 2^40 (so `repr` is the exact decimal expansion).
-/
import PypyrModel.Val

namespace Pypyr

def hexDigit (n : Nat) : Char :=
  if n < 10 then Char.ofNat (48 + n) else Char.ofNat (87 + n)

def hex2 (n : Nat) : String := String.ofList [hexDigit (n / 16 % 16), hexDigit (n % 16)]
def hex4 (n : Nat) : String :=
  String.ofList [hexDigit (n / 4096 % 16), hexDigit (n / 256 % 16), hexDigit (n / 16 % 16), hexDigit (n % 16)]

/-- `str.__repr__`: single quotes unless the text has a `'` and no `"`. -/
def strRepr (s : String) : String :=
  let cs := s.toList
  let useDouble := cs.contains '\'' && !cs.contains '"'
  let q : Char := if useDouble then '"' else '\''
  let body := cs.foldl (fun acc c =>
    if c == q then acc ++ "\\" ++ String.singleton c
    else if c == '\\' then acc ++ "\\\\"
    else if c == '\n' then acc ++ "\\n"
    else if c == '\r' then acc ++ "\\r"
    else if c == '\t' then acc ++ "\\t"
    else if c.toNat < 32 || c.toNat == 127 then acc ++ "\\x" ++ hex2 c.toNat
    else acc ++ String.singleton c) ""
  String.singleton q ++ body ++ String.singleton q

def intStr (i : Int) : String := toString i

def padLeftZeros (s : String) (n : Nat) : String :=
  String.ofList (List.replicate (n - s.length) '0') ++ s

/-- `float.__repr__` for n / 2^k on the stated domain. -/
def fltRepr (n : Int) (k : Nat) : String :=
  let neg := n < 0
  let a := n.natAbs
  let p := 2 ^ k
  let ip := a / p
  let fr := a % p
  -- fr / 2^k = fr * 5^k / 10^k : exactly k decimal digits
  let digits := padLeftZeros (toString (fr * 5 ^ k)) k
  -- strip trailing zeros, keep at least one digit
  let stripped := (digits.toList.reverse.dropWhile (· == '0')).reverse
  let fracS := if stripped.isEmpty then "0" else String.ofList stripped
  (if neg then "-" else "") ++ toString ip ++ "." ++ fracS

def pyOpStr : PyOp → String
  | .eq => "==" | .ne => "!=" | .lt => "<" | .le => "<=" | .gt => ">" | .ge => ">="
  | .and => "and" | .or => "or" | .add => "+" | .sub => "-" | .mul => "*" | .isIn => "in"

def PyConst.src : PyConst → String
  | .none => "None"
  | .bool true => "True"
  | .bool false => "False"
  | .int i => if i < 0 then "(" ++ intStr i ++ ")" else intStr i
  | .str s => strRepr s

/-- The Python source the harness renders for a `!py` expression (fully parenthesised). -/
def PyExpr.src : PyExpr → String
  | .name n => n
  | .const c => c.src
  | .not a => "(not " ++ a.src ++ ")"
  | .binop op a b => "(" ++ a.src ++ " " ++ pyOpStr op ++ " " ++ b.src ++ ")"
  | .len a => "len(" ++ a.src ++ ")"
  | .idx a i => a.src ++ "[" ++ i.src ++ "]"

def joinSep (sep : String) : List String → String
  | [] => ""
  | [x] => x
  | x :: xs => x ++ sep ++ joinSep sep xs

mutual
/-- `repr(v)`. -/
def pyRepr : Val → String
  | .none => "None"
  | .bool true => "True"
  | .bool false => "False"
  | .int i => intStr i
  | .flt n k => fltRepr n k
  | .str s => strRepr s
  | .bytes s => "b<" ++ s ++ ">"            -- bytes repr is outside the compared domain
  | .list xs => "[" ++ joinSep ", " (reprList xs) ++ "]"
  | .tuple xs => match reprList xs with
      | [s] => "(" ++ s ++ ",)"
      | ss => "(" ++ joinSep ", " ss ++ ")"
  | .dict kvs => "{" ++ joinSep ", " (reprPairs kvs) ++ "}"
  | .set xs => match reprList xs with
      | [] => "set()"
      | ss => "{" ++ joinSep ", " ss ++ "}"
  | .sic s => "SicString(" ++ strRepr s ++ ")"
  | .py e => "PyString(" ++ strRepr e.src ++ ")"
  | .jsonify v => "Jsonify(" ++ pyRepr v ++ ")"
  | .obj id => "<obj " ++ toString id ++ ">"
def reprList : List Val → List String
  | [] => []
  | x :: xs => pyRepr x :: reprList xs
def reprPairs : List (Val × Val) → List String
  | [] => []
  | (k, v) :: xs => (pyRepr k ++ ": " ++ pyRepr v) :: reprPairs xs
end

/-- `str(v)`: differs from `repr` only on str (and on special tags: `str(self.value)`). -/
def pyStr : Val → String
  | .str s => s
  | .sic s => s
  | .py e => e.src
  | .jsonify v => match v with
      | .str s => s
      | w => pyRepr w
  | v => pyRepr v

/-- JSON string literal as `json.dumps` (ensure_ascii=True) writes it. -/
def jsonStr (s : String) : String :=
  let body := s.toList.foldl (fun acc c =>
    let n := c.toNat
    if c == '"' then acc ++ "\\\""
    else if c == '\\' then acc ++ "\\\\"
    else if c == '\n' then acc ++ "\\n"
    else if c == '\r' then acc ++ "\\r"
    else if c == '\t' then acc ++ "\\t"
    else if n == 8 then acc ++ "\\b"
    else if n == 12 then acc ++ "\\f"
    else if n < 32 || (n ≥ 127 && n < 65536) then acc ++ "\\u" ++ hex4 n
    else if n ≥ 65536 then
      let m := n - 65536
      acc ++ "\\u" ++ hex4 (0xD800 + m / 1024) ++ "\\u" ++ hex4 (0xDC00 + m % 1024)
    else acc ++ String.singleton c) ""
  "\"" ++ body ++ "\""

mutual
/-- `json.dumps(v)` with default separators; `none` where Python raises TypeError. -/
def jsonDumps : Val → Option String
  | .none => some "null"
  | .bool true => some "true"
  | .bool false => some "false"
  | .int i => some (intStr i)
  | .flt n k => some (fltRepr n k)
  | .str s => some (jsonStr s)
  | .list xs => (dumpsList xs).map fun ss => "[" ++ joinSep ", " ss ++ "]"
  | .tuple xs => (dumpsList xs).map fun ss => "[" ++ joinSep ", " ss ++ "]"
  | .dict kvs => (dumpsPairs kvs).map fun ss => "{" ++ joinSep ", " ss ++ "}"
  | _ => none
def dumpsList : List Val → Option (List String)
  | [] => some []
  | x :: xs => match jsonDumps x, dumpsList xs with
      | some a, some b => some (a :: b)
      | _, _ => none
def dumpsPairs : List (Val × Val) → Option (List String)
  | [] => some []
  | (k, v) :: xs =>
      let ks : Option String := match k with
        | .str s => some (jsonStr s)
        | .int i => some (jsonStr (intStr i))
        | .bool true => some "\"true\""
        | .bool false => some "\"false\""
        | .none => some "\"null\""
        | _ => none
      match ks, jsonDumps v, dumpsPairs xs with
      | some a, some b, some c => some ((a ++ ": " ++ b) :: c)
      | _, _, _ => none
end

end Pypyr
