/-
  Sessions of formatting calls on ONE context, and the `!py` sub-language with assignment
  expressions (PEP 572), for C08 ("!py values evaluate as Python with context keys as variables").

  `Context.get_eval_string(src)` is (since /repo 2f08756)

      namespace = _EvalNamespace(*self._pystring_namespace.maps)
      eval(src, namespace, namespace)

  ONE throw-away namespace object per evaluation serves as globals and locals. It reads its own
  dict first and only then the maps (context, then imports; builtins last), and every store of the
  expression — STORE_NAME at the top level of the expression via `__setitem__`, STORE_GLOBAL from
  a comprehension straight into the dict — lands in that own dict, never in the maps. The object
  is dropped when `eval` returns. `evalPyW` mirrors that: a `Scratch` association list plays the
  namespace's own dict; it starts empty for every evaluation (`getEvalString`), is consulted
  before the context, takes every store, and is discarded. (Before 2f08756 the code used
  `eval(src, ns, ns.new_child())`: the same observable behaviour at the top level of an
  expression, which is all `PyW` has.)

  `PyW` is `PyExpr` (PypyrModel/Val.lean, shared with the flow model and therefore left alone)
  plus `walrus`. `PyW.ofPy` embeds `PyExpr`; Props/C08.lean proves that on the embedding
  `evalPyW` with an empty scratch is `evalPy` (so `Val.py` inside formatted values and a top-level
  `Call.py` agree wherever both are defined).

  Not modelled here: comprehensions, lambdas (the name-binding model of C14,
  `PypyrModel/PyNs.lean`, covers those; the C08 harness runs them as implementation-only calls of
  a session, judged against plain Python), calls other than `len`, imports.

  A *session* (`runCalls`) is what a pipeline does with its context between steps: formatting
  calls interleaved with context updates. Formatting calls return a result and leave nothing
  behind: only `set`/`del` change what later calls see.
-/
import PypyrModel.PyEval
import PypyrModel.Format

namespace Pypyr.Format

/-- `!py` source: the `PyExpr` sub-language plus the assignment expression `(x := a)`. -/
inductive PyW where
  | name (n : String)
  | const (c : PyConst)
  | not (a : PyW)
  | binop (op : PyOp) (a b : PyW)
  | len (a : PyW)
  | idx (a i : PyW)
  | walrus (x : String) (a : PyW)
  deriving Repr, Inhabited

/-- The embedding of the walrus-free sub-language. -/
def PyW.ofPy : PyExpr → PyW
  | .name n => .name n
  | .const c => .const c
  | .not a => .not (PyW.ofPy a)
  | .binop op a b => .binop op (PyW.ofPy a) (PyW.ofPy b)
  | .len a => .len (PyW.ofPy a)
  | .idx a i => .idx (PyW.ofPy a) (PyW.ofPy i)

/-- Does the expression contain an assignment expression? -/
def PyW.hasWalrus : PyW → Bool
  | .name _ | .const _ => false
  | .not a | .len a => a.hasWalrus
  | .binop _ a b | .idx a b => a.hasWalrus || b.hasWalrus
  | .walrus _ _ => true

/-- The throw-away namespace's own dict of one evaluation: what assignment expressions have bound so far. -/
abbrev Scratch := List (String × Val)

def nameError (n : String) : Exc := ⟨"NameError", "name '" ++ n ++ "' is not defined"⟩

/-- LOAD_NAME: the evaluation's own bindings first, then the context. -/
def lookupName (ctx : Ctx) (s : Scratch) (n : String) : Except Exc Val :=
  match Ctx.get? s n with
  | some v => .ok v
  | none =>
    match Ctx.get? ctx n with
    | some v => .ok v
    | none => .error (nameError n)

/-- The strict binary operators of `evalPy`, applied to evaluated operands
    (`and` / `or` short-circuit and are handled by the evaluator). -/
def applyBin (op : PyOp) (v w : Val) : Except Exc Val :=
  match op with
  | .eq => .ok (.bool (pyEq v w))
  | .ne => .ok (.bool (!pyEq v w))
  | .lt => match cmpVals v w with | .error e => .error e | .ok o => .ok (.bool (o == .lt))
  | .le => match cmpVals v w with | .error e => .error e | .ok o => .ok (.bool (o != .gt))
  | .gt => match cmpVals v w with | .error e => .error e | .ok o => .ok (.bool (o == .gt))
  | .ge => match cmpVals v w with | .error e => .error e | .ok o => .ok (.bool (o != .lt))
  | .add => pyAdd v w
  | .sub => match v.num?, w.num? with
    | some x, some y => .ok (x.sub y).toVal
    | _, _ => .error (typeError "unsupported operand type(s) for -")
  | .mul => match v.num?, w.num? with
    | some x, some y => .ok (x.mul y).toVal
    | _, _ => .error (typeError "unsupported operand type(s) for *")
  | .isIn => match pyIn v w with | .error e => .error e | .ok b => .ok (.bool b)
  | .and => .ok w
  | .or => .ok w

/-- One evaluation, left to right, threading the evaluation's own bindings. -/
def evalPyW (ctx : Ctx) : Scratch → PyW → Except Exc (Val × Scratch)
  | s, .name n =>
    match lookupName ctx s n with
    | .error e => .error e
    | .ok v => .ok (v, s)
  | s, .const c => .ok (c.toVal, s)
  | s, .not a =>
    match evalPyW ctx s a with
    | .error e => .error e
    | .ok (v, s1) => .ok (.bool (!v.truthy), s1)
  | s, .len a =>
    match evalPyW ctx s a with
    | .error e => .error e
    | .ok (v, s1) =>
      match pyLen v with
      | .error e => .error e
      | .ok r => .ok (r, s1)
  | s, .idx a i =>
    match evalPyW ctx s a with
    | .error e => .error e
    | .ok (v, s1) =>
      match evalPyW ctx s1 i with
      | .error e => .error e
      | .ok (j, s2) =>
        match pyIdx v j with
        | .error e => .error e
        | .ok r => .ok (r, s2)
  | s, .walrus x a =>
    match evalPyW ctx s a with
    | .error e => .error e
    | .ok (v, s1) => .ok (v, Ctx.set s1 x v)           -- STORE_NAME into the namespace's own dict
  | s, .binop op a b =>
    match evalPyW ctx s a with
    | .error e => .error e
    | .ok (v, s1) =>
      match op with
      | .and => if v.truthy then evalPyW ctx s1 b else .ok (v, s1)
      | .or => if v.truthy then .ok (v, s1) else evalPyW ctx s1 b
      | op =>
        match evalPyW ctx s1 b with
        | .error e => .error e
        | .ok (w, s2) =>
          match applyBin op v w with
          | .error e => .error e
          | .ok r => .ok (r, s2)

/-- `Context.get_eval_string(src)`: a fresh namespace per evaluation, dropped afterwards. -/
def getEvalString (ctx : Ctx) (e : PyW) : Except Exc Val :=
  match evalPyW ctx [] e with
  | .error x => .error x
  | .ok (v, _) => .ok v

/-- One thing a pipeline does with its context. -/
inductive Call where
  /-- `context.get_formatted_value(v)` -/
  | fmt (v : Val)
  /-- `context.get_formatted_value(PyString(src))` with `src` in the `PyW` sub-language -/
  | py (e : PyW)
  /-- `context[k] = v` -/
  | set (k : String) (v : Val)
  /-- `context.pop(k, None)` -/
  | del (k : String)
  /-- a formatting call on a value outside the modelled sub-language (comprehensions, lambdas):
      the model has no opinion on its result, and it leaves nothing behind -/
  | opaque
  deriving Repr, Inhabited

/-- Is the call a formatting call (as opposed to a context update)? -/
def Call.isEval : Call → Bool
  | .fmt _ | .py _ | .opaque => true
  | .set _ _ | .del _ => false

/-- The context after the updates among `cs`. -/
def ctxAfter : Ctx → List Call → Ctx
  | ctx, [] => ctx
  | ctx, .set k v :: rest => ctxAfter (Ctx.set ctx k v) rest
  | ctx, .del k :: rest => ctxAfter (Ctx.erase ctx k) rest
  | ctx, _ :: rest => ctxAfter ctx rest

/-- The results of the formatting calls of a session, in order (`none` for updates and opaque calls). -/
def runCalls (fuel : Nat) : Ctx → List Call → List (Option (Except Exc Val))
  | _, [] => []
  | ctx, .fmt v :: rest => some (fmtVal fuel ctx v) :: runCalls fuel ctx rest
  | ctx, .py e :: rest => some (getEvalString ctx e) :: runCalls fuel ctx rest
  | ctx, .set k v :: rest => none :: runCalls fuel (Ctx.set ctx k v) rest
  | ctx, .del k :: rest => none :: runCalls fuel (Ctx.erase ctx k) rest
  | ctx, .opaque :: rest => none :: runCalls fuel ctx rest

end Pypyr.Format
