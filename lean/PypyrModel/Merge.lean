/-
  Model of `Context.merge` (`merge_recurse`), `Context.set_defaults`
  (`defaults_recurse`) and of the steps `pypyr.steps.contextmerge` /
  `pypyr.steps.default` (C10).

  The code mutates `self` while it formats incoming keys and values against
  `self`; for nested levels `current` is a sub-dict *of self*, so a nested write
  changes what later formatting expressions see. The model threads the ROOT
  through the recursion as a zipper: `rebuild cur` is the root context in which
  the dict being merged into (`current`) has the content `cur`; every
  formatting call is made against `ctxOf (rebuild cur)` — the context AS IT IS AT
  THAT MOMENT of the fold.

  The formatter is a parameter `fmt : Ctx → Val → Except Exc Val`
  (`Context.get_formatted_value`); `merge`/`setDefaults` instantiate it with
  `fmtVal fuel` of `PypyrModel/Fmt.lean`.

  Besides the new content each function returns a *trace*: one entry per
  incoming node visited — its path (the FORMATTED keys from the level where the
  merge started) and whether the node was written (`true`) or only descended
  into (`false`: mapping × mapping). The trace is ghost output: nothing reads it
  back; the frame theorems of `Props/C10.lean` are stated with it.

  Objects are trees here: aliasing between context values, or between the
  incoming mapping and the context, is outside this model (see `Props/C10.lean`,
  section "outside the model", and the check's alias streams).
-/
import PypyrModel.Val
import PypyrModel.Fmt
import PypyrModel.FmtHeap

namespace Pypyr.Merge

abbrev Pairs := List (Val × Val)
abbrev Fmt := Ctx → Val → Except Exc Val
abbrev Trace := List (List Val × Bool)

/-- What `{name}` expressions can see of a dict used as context: its string keys. -/
def ctxOf (root : Pairs) : Ctx :=
  root.filterMap fun kv => match kv.1 with
    | .str s => some (s, kv.2)
    | _ => none

/-- `isinstance(v, (str, SpecialTagDirective))`. -/
def isStrLike : Val → Bool
  | .str _ | .sic _ | .py _ | .jsonify _ => true
  | _ => false

/-- `hash(k)` succeeds. `Val.set` stands for a mutable `set` here (unhashable);
    special tags define `__eq__` without `__hash__`. -/
def hashable : Val → Bool
  | .none | .bool _ | .int _ | .flt _ _ | .str _ | .bytes _ | .obj _ => true
  | .tuple xs => hashableL xs
  | _ => false
where hashableL : List Val → Bool
  | [] => true
  | x :: xs => hashable x && hashableL xs

def unhashable : Exc := ⟨"TypeError", "unhashable type"⟩

def under (fk : Val) (t : Trace) : Trace := t.map fun w => (fk :: w.1, w.2)

/-- `for k, v in add_me.items(): …` — the fold over the incoming items, left to right,
    the first exception ends it. -/
def foldItems (step : Pairs → Val → Val → Except Exc (Pairs × Trace)) :
    Pairs → Pairs → Except Exc (Pairs × Trace)
  | cur, [] => .ok (cur, [])
  | cur, (k, v) :: rest =>
    match step cur k v with
    | .error e => .error e
    | .ok (cur1, t1) =>
      match foldItems step cur1 rest with
      | .error e => .error e
      | .ok (cur2, t2) => .ok (cur2, t1 ++ t2)

/-- Body of the `for` loop of `merge_recurse(current, add_me)` for one item `(k, v)`.
    `recur rebuild' csub sub` is `merge_recurse(current[k], v)`. -/
def mergeItem (fmt : Fmt) (recur : (Pairs → Pairs) → Pairs → Pairs → Except Exc (Pairs × Trace))
    (rebuild : Pairs → Pairs) (cur : Pairs) (k v : Val) : Except Exc (Pairs × Trace) :=
  let ctx := ctxOf (rebuild cur)
  -- k = self.get_formatted_value(k)
  match fmt ctx k with
  | .error e => .error e
  | .ok fk =>
    if isStrLike v then
      -- current[k] = self.get_formatted_value(v)
      match fmt ctx v with
      | .error e => .error e
      | .ok fv => if hashable fk then .ok (dictSet cur fk fv, [([fk], true)]) else .error unhashable
    else
      match v with
      | .bytes _ =>
        -- current[k] = v
        if hashable fk then .ok (dictSet cur fk v, [([fk], true)]) else .error unhashable
      | _ =>
        -- elif k in current:
        if !hashable fk then .error unhashable
        else match dictGet? cur fk with
          | some old =>
            match old, v with
            | .dict csub, .dict sub =>
              -- merge_recurse(current[k], v)
              match recur (fun s => rebuild (dictSet cur fk (.dict s))) csub sub with
              | .error e => .error e
              | .ok (csub', t) => .ok (dictSet cur fk (.dict csub'), ([fk], false) :: under fk t)
            | .list xs, .list _ =>
              -- current[k].extend(self.get_formatted_value(v))
              match fmt ctx v with
              | .error e => .error e
              | .ok (.list ys) => .ok (dictSet cur fk (.list (xs ++ ys)), [([fk], true)])
              | .ok _ => .error (outOfDomain "formatted list is not a list")
            | .tuple xs, .tuple _ =>
              -- current[k] = current[k] + self.get_formatted_value(v)
              match fmt ctx v with
              | .error e => .error e
              | .ok (.tuple ys) => .ok (dictSet cur fk (.tuple (xs ++ ys)), [([fk], true)])
              | .ok _ => .error (outOfDomain "formatted tuple is not a tuple")
            | .set xs, .set _ =>
              -- current[k] = current[k] | self.get_formatted_value(v)
              match fmt ctx v with
              | .error e => .error e
              | .ok (.set ys) => .ok (dictSet cur fk (.set (ys.foldl setInsert xs)), [([fk], true)])
              | .ok _ => .error (outOfDomain "formatted set is not a set")
            | _, _ =>
              -- not mergable: current[k] = self.get_formatted_value(v)
              match fmt ctx v with
              | .error e => .error e
              | .ok fv => .ok (dictSet cur fk fv, [([fk], true)])
          | none =>
            -- not in context: current[k] = self.get_formatted_value(v)
            match fmt ctx v with
            | .error e => .error e
            | .ok fv => .ok (dictSet cur fk fv, [([fk], true)])

/-- `merge_recurse(current, add_me)`; fuel bounds the nesting depth of `add_me`. -/
def mergeRec (fmt : Fmt) : Nat → (Pairs → Pairs) → Pairs → Pairs → Except Exc (Pairs × Trace)
  | 0, _, _, _ => .error outOfFuel
  | fuel + 1, rebuild, cur, add => foldItems (mergeItem fmt (mergeRec fmt fuel) rebuild) cur add

/-- Body of the `for` loop of `defaults_recurse(current, defaults)` for one item. -/
def defaultsItem (fmt : Fmt) (recur : (Pairs → Pairs) → Pairs → Pairs → Except Exc (Pairs × Trace))
    (rebuild : Pairs → Pairs) (cur : Pairs) (k v : Val) : Except Exc (Pairs × Trace) :=
  let ctx := ctxOf (rebuild cur)
  match fmt ctx k with
  | .error e => .error e
  | .ok fk =>
    if !hashable fk then .error unhashable
    else match dictGet? cur fk with
      | some old =>
        match old, v with
        | .dict csub, .dict sub =>
          match recur (fun s => rebuild (dictSet cur fk (.dict s))) csub sub with
          | .error e => .error e
          | .ok (csub', t) => .ok (dictSet cur fk (.dict csub'), ([fk], false) :: under fk t)
        | _, _ => .ok (cur, [])                     -- exists: leave it alone
      | none =>
        match fmt ctx v with
        | .error e => .error e
        | .ok fv => .ok (dictSet cur fk fv, [([fk], true)])

/-- `defaults_recurse(current, defaults)`. -/
def defaultsRec (fmt : Fmt) : Nat → (Pairs → Pairs) → Pairs → Pairs → Except Exc (Pairs × Trace)
  | 0, _, _, _ => .error outOfFuel
  | fuel + 1, rebuild, cur, add => foldItems (defaultsItem fmt (defaultsRec fmt fuel) rebuild) cur add

def noItems (v : Val) : Exc :=
  ⟨"AttributeError", "'" ++ (match v with
      | .list _ => "list" | .tuple _ => "tuple" | .set _ => "set" | .str _ => "str" | .int _ => "int"
      | .bool _ => "bool" | .flt _ _ => "float" | .bytes _ => "bytes" | .none => "NoneType"
      | _ => "object") ++ "' object has no attribute 'items'"⟩

/-- `Context.merge(add_me)` with an abstract formatter. -/
def mergeWith (fmt : Fmt) (fuel : Nat) (root : Pairs) (add : Val) : Except Exc (Pairs × Trace) :=
  match add with
  | .dict kvs => mergeRec fmt fuel id root kvs
  | other => .error (noItems other)

/-- `Context.set_defaults(defaults)` with an abstract formatter. -/
def setDefaultsWith (fmt : Fmt) (fuel : Nat) (root : Pairs) (add : Val) : Except Exc (Pairs × Trace) :=
  match add with
  | .dict kvs => defaultsRec fmt fuel id root kvs
  | other => .error (noItems other)

/-- `Context.merge(add_me)`. -/
def merge (fuel : Nat) (root : Pairs) (add : Val) : Except Exc (Pairs × Trace) :=
  mergeWith (fmtVal fuel) fuel root add

/-- `Context.set_defaults(defaults)`. -/
def setDefaults (fuel : Nat) (root : Pairs) (add : Val) : Except Exc (Pairs × Trace) :=
  setDefaultsWith (fmtVal fuel) fuel root add

/-- `len(x)` does not raise. -/
def hasLen : Val → Bool
  | .str _ | .bytes _ | .list _ | .tuple _ | .dict _ | .set _ => true
  | _ => false

/-- `context.assert_key_has_value(key, caller)`. -/
def assertKeyHasValue (root : Pairs) (key caller : String) : Except Exc Val :=
  match dictGet? root (.str key) with
  | none => .error ⟨"pypyr.errors.KeyNotInContextError",
      "context['" ++ key ++ "'] doesn't exist. It must exist for " ++ caller ++ "."⟩
  | some .none => .error ⟨"pypyr.errors.KeyInContextHasNoValueError",
      "context['" ++ key ++ "'] must have a value for " ++ caller ++ "."⟩
  | some v => .ok v

/-- The step passes `context[key]` — an object that is itself a value of the context — as the
    incoming mapping. When the incoming tree names `key` itself with a mapping, the code merges
    into the very dict it is iterating: an aliasing effect the tree model cannot express. -/
def aliasesIncoming (key : String) (t : Trace) : Bool :=
  t.any fun w => w.2 == false && w.1 == [.str key]

/-- `pypyr.steps.contextmerge.run_step` / `pypyr.steps.default.run_step`
    (`useDefaults` chooses which): assert, merge, then `len(context[key])` for the log line. -/
def runStep (useDefaults : Bool) (fuel : Nat) (root : Pairs) : Except Exc Pairs :=
  let key := if useDefaults then "defaults" else "contextMerge"
  let caller := if useDefaults then "pypyr.steps.default" else "pypyr.steps.contextmerge"
  match assertKeyHasValue root key caller with
  | .error e => .error e
  | .ok add =>
    match (if useDefaults then setDefaults fuel root add else merge fuel root add) with
    | .error e => .error e
    | .ok (root', t) =>
      if aliasesIncoming key t then .error (outOfDomain "incoming mapping is merged into itself")
      else match dictGet? root' (.str key) with
        | none => .error (keyNotInContext key)
        | some x => if hasLen x then .ok root' else .error ⟨"TypeError", "object has no len()"⟩

/-! ### Sequences of operations on ONE context

  A pipeline applies `merge` / `set_defaults` / the two steps one after the other to the same context
  object; what one operation stored is what the next one merges into. -/

/-- One operation on the context. `step useDefaults add?`: the step as a pipeline runs it — its input
    mapping (`in:` argument) is first put under the step's own key (`add? = none`: the key is what the
    context already holds). -/
inductive Op where
  | merge (add : Val)
  | defaults (add : Val)
  | step (useDefaults : Bool) (add : Option Val)
  deriving Repr, Inhabited

def stepKey (useDefaults : Bool) : String := if useDefaults then "defaults" else "contextMerge"

/-- The context on which a step op runs: `context[key] = add` first. -/
def withInput (root : Pairs) (useDefaults : Bool) : Option Val → Pairs
  | none => root
  | some add => dictSet root (.str (stepKey useDefaults)) add

def runOp (fuel : Nat) (root : Pairs) : Op → Except Exc Pairs
  | .merge add => (merge fuel root add).map (·.1)
  | .defaults add => (setDefaults fuel root add).map (·.1)
  | .step d add => runStep d fuel (withInput root d add)

/-- Run the operations in order on one context; the first failure ends the sequence and reports the
    index of the failing operation (the context keeps whatever that operation had already written:
    not modelled, only the index and the error are compared). -/
def runOpsFrom (fuel : Nat) : Nat → Pairs → List Op → Except (Nat × Exc) Pairs
  | _, root, [] => .ok root
  | i, root, op :: rest =>
    match runOp fuel root op with
    | .error e => .error (i, e)
    | .ok root1 => runOpsFrom fuel (i + 1) root1 rest

def runOps (fuel : Nat) (root : Pairs) (ops : List Op) : Except (Nat × Exc) Pairs :=
  runOpsFrom fuel 0 root ops

/-! ### What a FAILED operation leaves behind; sequences that go on after a failure

  `merge_recurse` / `defaults_recurse` write `current` entry by entry; an exception ends the walk where it is.
  A step with `swallow: True`, the retry decorator, a failure handler or a `while` loop then runs further
  operations on the context AS THE FAILED ONE LEFT IT. What is left: every entry before the failing one is
  written; the failing entry itself has written nothing — every write of one entry is the LAST thing the entry
  does (`current[k] = formatted`, `current[k].extend(formatted list)`: the value is formatted as a whole
  first) — unless it is mapping × mapping, where the sub-mapping is left as ITS failed walk left it.
  The `…S` functions return that state next to the exception; `Props/C10.lean` (section "failed
  operations") proves they agree with the `Except` functions above and that the state left is exactly a
  SUCCESSFUL merge of a truncation of the incoming tree. -/

abbrev Rec := (Pairs → Pairs) → Pairs → Pairs → Except Exc (Pairs × Trace)
abbrev RecS := (Pairs → Pairs) → Pairs → Pairs → Pairs × Option Exc
/-- `mergeItem fmt` / `defaultsItem fmt` -/
abbrev Item := Rec → (Pairs → Pairs) → Pairs → Val → Val → Except Exc (Pairs × Trace)

/-- The entry `(k, v)` DESCENDS: its key formats to a hashable `fk`, `current[fk]` is a mapping `csub` and `v`
    is a mapping `sub` (`merge_recurse(current[k], v)` / `defaults_recurse(current[k], v)`). -/
def descends (fmt : Fmt) (rebuild : Pairs → Pairs) (cur : Pairs) (k v : Val) : Option (Val × Pairs × Pairs) :=
  match fmt (ctxOf (rebuild cur)) k with
  | .error _ => none
  | .ok fk =>
    if !hashable fk then none
    else match dictGet? cur fk, v with
      | some (.dict csub), .dict sub => some (fk, csub, sub)
      | _, _ => none

/-- the loop with the state it ends in: normally (`none`) or by the first exception -/
def foldItemsS (step : Pairs → Val → Val → Pairs × Option Exc) : Pairs → Pairs → Pairs × Option Exc
  | cur, [] => (cur, none)
  | cur, (k, v) :: rest =>
    match step cur k v with
    | (cur1, some e) => (cur1, some e)
    | (cur1, none) => foldItemsS step cur1 rest

/-- one entry with the state it leaves: a failing entry leaves `current` as it was, except that a descending one
    leaves `current[k]` as the failed walk of the sub-mapping left it -/
def itemS (fmt : Fmt) (item : Item) (recur : Rec) (recurS : RecS) (rebuild : Pairs → Pairs) (cur : Pairs)
    (k v : Val) : Pairs × Option Exc :=
  match item recur rebuild cur k v with
  | .ok (cur', _) => (cur', none)
  | .error e =>
    match descends fmt rebuild cur k v with
    | some (fk, csub, sub) =>
      (dictSet cur fk (.dict (recurS (fun s => rebuild (dictSet cur fk (.dict s))) csub sub).1), some e)
    | none => (cur, some e)

/-- the recursion of `mergeRec` / `defaultsRec` over an abstract loop body -/
def genRec (item : Item) : Nat → Rec
  | 0, _, _, _ => .error outOfFuel
  | fuel + 1, rebuild, cur, add => foldItems (item (genRec item fuel) rebuild) cur add

def genRecS (fmt : Fmt) (item : Item) : Nat → RecS
  | 0, _, cur, _ => (cur, some outOfFuel)
  | fuel + 1, rebuild, cur, add =>
    foldItemsS (itemS fmt item (genRec item fuel) (genRecS fmt item fuel) rebuild) cur add

/-- `merge_recurse` with the state it leaves -/
def mergeRecS (fmt : Fmt) : Nat → RecS := genRecS fmt (mergeItem fmt)
/-- `defaults_recurse` with the state it leaves -/
def defaultsRecS (fmt : Fmt) : Nat → RecS := genRecS fmt (defaultsItem fmt)

/-- the context a failed (or successful) `Context.merge(add)` leaves -/
def mergeLeft (fuel : Nat) (root : Pairs) : Val → Pairs
  | .dict kvs => (mergeRecS (fmtVal fuel) fuel id root kvs).1
  | _ => root

/-- the context a failed (or successful) `Context.set_defaults(add)` leaves -/
def defaultsLeft (fuel : Nat) (root : Pairs) : Val → Pairs
  | .dict kvs => (defaultsRecS (fmtVal fuel) fuel id root kvs).1
  | _ => root

/-- one operation with the context it leaves, failed or not -/
def runOpS (fuel : Nat) (root : Pairs) : Op → Pairs × Option Exc
  | .merge add =>
    match merge fuel root add with
    | .ok (r, _) => (r, none)
    | .error e => (mergeLeft fuel root add, some e)
  | .defaults add =>
    match setDefaults fuel root add with
    | .ok (r, _) => (r, none)
    | .error e => (defaultsLeft fuel root add, some e)
  | .step d add =>
    let root0 := withInput root d add
    match runStep d fuel root0 with
    | .ok r => (r, none)
    | .error e =>
      let caller := if d then "pypyr.steps.default" else "pypyr.steps.contextmerge"
      match assertKeyHasValue root0 (stepKey d) caller with
      | .error _ => (root0, some e)
      | .ok a => ((if d then defaultsLeft fuel root0 a else mergeLeft fuel root0 a), some e)

/-- may a failed operation be followed by further ones in the model? (not when the model itself gave up) -/
def swallowable (e : Exc) : Bool := e.name != "OutOfFuel" && e.name != "OutOfDomain"

/-- Operations in order on one context; an operation flagged `true` (`swallow`) that fails is recorded
    (index, exception) and the sequence GOES ON with the context it left; an unflagged failure ends it. -/
def runOpsSFrom (fuel : Nat) : Nat → Pairs → List (Op × Bool) → Except (Nat × Exc) (Pairs × List (Nat × Exc))
  | _, root, [] => .ok (root, [])
  | i, root, (op, sw) :: rest =>
    match runOpS fuel root op with
    | (root1, none) => runOpsSFrom fuel (i + 1) root1 rest
    | (root1, some e) =>
      if sw && swallowable e then
        match runOpsSFrom fuel (i + 1) root1 rest with
        | .error x => .error x
        | .ok (r, errs) => .ok (r, (i, e) :: errs)
      else .error (i, e)

def runOpsS (fuel : Nat) (root : Pairs) (ops : List (Op × Bool)) : Except (Nat × Exc) (Pairs × List (Nat × Exc)) :=
  runOpsSFrom fuel 0 root ops

end Pypyr.Merge

/-!
  ## Heap level: merge / set_defaults on OBJECTS

  The tree model above cannot say "the incoming mapping is left unmodified": there an incoming mapping is
  an immutable value. Here the context, every incoming mapping and everything they hold are cells of a
  `FmtHeap.Heap`; `Context.merge` WRITES to cells — `current[k] = …` rewrites the dict cell `current`,
  `current[k].extend(…)` rewrites the list cell `current[k]` — and `get_formatted_value` is
  `FmtHeap.fmtHeap` (allocates only, hands some objects back by reference). What an operation stores in
  the context is an object; the next operation of a sequence merges INTO that object. If it were an
  object of an earlier incoming mapping, that mapping would change (C10: "leave the incoming mapping
  itself unmodified" — theorems `Props/C10.lean`, section "heap level").
-/
namespace Pypyr.MergeHeap
open Pypyr.FmtHeap

/-- The context as the formatter sees it: the string keys of the dict object `root`, as it is now. -/
def hctxOf (h : Heap) (root : Ref) : HCtx :=
  match h[root]? with
  | some (.dict _ kvs) => kvs.filterMap fun (kv : Ref × Ref) =>
      match h[kv.1]? with
      | some (Cell.str s) => some (s, kv.2)
      | _ => none
  | _ => []

/-- `self.get_formatted_value(x)`: a top-level formatting call against the context as it is now. -/
def fmtAt (fuel : Nat) (h : Heap) (root x : Ref) : Except Exc (Ref × Heap) :=
  fmtHeap fuel (hctxOf h root) h x

/-- `k in current` / `current[k]`: the value object under the key that reads as `kv`. -/
def lookupH (h : Heap) : List (Ref × Ref) → Val → Option Ref
  | [], _ => none
  | (k, v) :: rest, kv => if deepVal h k = some kv then some v else lookupH h rest kv

/-- `dict.__setitem__`: an equal key keeps the first key object and its position, else append. -/
def setPairH (h : Heap) : List (Ref × Ref) → Val → Ref → Ref → List (Ref × Ref)
  | [], _, k, v => [(k, v)]
  | (k', v') :: rest, kv, k, v =>
    if deepVal h k' = some kv then (k', v) :: rest else (k', v') :: setPairH h rest kv k v

def dangling : Exc := outOfDomain "dangling reference or not a dict"

def pairsOf (h : Heap) (d : Ref) : Option (Nat × List (Ref × Ref)) :=
  match h[d]? with
  | some (.dict tag kvs) => some (tag, kvs)
  | _ => none

/-- `current[k] = v` where `current` is the dict object `cur` (the ONLY kind of write to a dict). -/
def writeKey (h : Heap) (cur : Ref) (kv : Val) (k v : Ref) : Except Exc Heap :=
  match pairsOf h cur with
  | none => .error dangling
  | some (tag, kvs) => .ok (h.set cur (.dict tag (setPairH h kvs kv k v)))

/-- `isinstance(v, (str, SpecialTagDirective))` -/
def isStrLikeCell : Cell → Bool
  | .str _ | .sic _ | .pyName _ | .jsonify _ => true
  | _ => false

/-- `isinstance(v, (bytes, bytearray))` -/
def isBinaryCell : Cell → Bool
  | .leaf (.bytes _) | .mbytes _ => true
  | _ => false

/-- members of `old | new`: the existing ones, then the new ones not yet present (by value) -/
def unionH (h : Heap) (xs ys : List Ref) : List Ref :=
  ys.foldl (fun acc y =>
    if acc.any (fun x => deepVal h x == deepVal h y) then acc else acc ++ [y]) xs

def unhashableE : Exc := ⟨"TypeError", "unhashable type"⟩

/-- `current[k] = self.get_formatted_value(v)` -/
def storeFormatted (fuel : Nat) (root cur : Ref) (fkv : Val) (fk v : Ref) (h : Heap) : Except Exc Heap :=
  match fmtAt fuel h root v with
  | .error e => .error e
  | .ok (fv, h2) => writeKey h2 cur fkv fk fv

/-- Body of the `for k, v in add_me.items()` loop of `merge_recurse(current, add_me)` on objects.
    `recur cur' add' h` is `merge_recurse(current[k], v)`. -/
def mergeItemH (fuel : Nat) (recur : Ref → Ref → Heap → Except Exc Heap)
    (root cur k v : Ref) (h : Heap) : Except Exc Heap :=
  -- k = self.get_formatted_value(k)
  match fmtAt fuel h root k with
  | .error e => .error e
  | .ok (fk, h1) =>
    match deepVal h1 fk, h1[v]? with
    | some fkv, some vc =>
      let hashOk := hashableH (h1.length + 1) h1 fk
      if isStrLikeCell vc then
        match fmtAt fuel h1 root v with
        | .error e => .error e
        | .ok (fv, h2) => if hashOk then writeKey h2 cur fkv fk fv else .error unhashableE
      else if isBinaryCell vc then
        if hashOk then writeKey h1 cur fkv fk v else .error unhashableE      -- current[k] = v: by reference
      else if !hashOk then .error unhashableE
      else
        match pairsOf h1 cur with
        | none => .error dangling
        | some (_, kvs) =>
          match lookupH h1 kvs fkv with
          | none => storeFormatted fuel root cur fkv fk v h1
          | some old =>
            match h1[old]?, vc with
            | some (.dict _ _), .dict _ _ => recur old v h1
            | some (.list _ _), .list _ _ =>
              -- current[k].extend(self.get_formatted_value(v)): the list OBJECT grows in place
              match fmtAt fuel h1 root v with
              | .error e => .error e
              | .ok (fv, h2) =>
                match h2[old]?, h2[fv]? with
                | some (.list t xs), some (.list _ ys) => .ok (h2.set old (.list t (xs ++ ys)))
                | _, _ => .error (outOfDomain "formatted list is not a list")
            | some (.tuple _ _), .tuple _ _ =>
              -- current[k] = current[k] + formatted: a NEW tuple object (plain tuple)
              match fmtAt fuel h1 root v with
              | .error e => .error e
              | .ok (fv, h2) =>
                match h2[old]?, h2[fv]? with
                | some (.tuple tx xs), some (.tuple ty ys) =>
                  -- CPython's tuple concatenation hands back an operand itself when the other one is
                  -- empty and it is an exact `tuple`
                  if ys.isEmpty && tx == 0 then writeKey h2 cur fkv fk old
                  else if xs.isEmpty && ty == 0 then writeKey h2 cur fkv fk fv
                  else
                    let (h3, nr) := alloc h2 (.tuple 0 (xs ++ ys))
                    writeKey h3 cur fkv fk nr
                | _, _ => .error (outOfDomain "formatted tuple is not a tuple")
            | some (.set _ _), .set _ _ =>
              -- current[k] = current[k] | formatted: a NEW set object (frozenset stays frozenset)
              match fmtAt fuel h1 root v with
              | .error e => .error e
              | .ok (fv, h2) =>
                match h2[old]?, h2[fv]? with
                | some (.set t xs), some (.set _ ys) =>
                  let (h3, nr) := alloc h2 (.set (if t == 1 then 1 else 0) (unionH h2 xs ys))
                  writeKey h3 cur fkv fk nr
                | _, _ => .error (outOfDomain "formatted set is not a set")
            | _, _ => storeFormatted fuel root cur fkv fk v h1
    | _, _ => .error dangling

/-- the fold over the incoming items (the pair list of the incoming dict object as read when the loop
    starts), left to right, the first exception ends it -/
def foldItemsH (step : Ref → Ref → Heap → Except Exc Heap) : List (Ref × Ref) → Heap → Except Exc Heap
  | [], h => .ok h
  | (k, v) :: rest, h =>
    match step k v h with
    | .error e => .error e
    | .ok h1 => foldItemsH step rest h1

def noItemsE : Exc := ⟨"AttributeError", "object has no attribute 'items'"⟩

/-- `merge_recurse(current, add_me)` on objects; fuel bounds the nesting depth of `add_me`. Python raises
    RuntimeError when the dict being iterated changes size: only possible when the incoming mapping is
    itself reachable from the context (outside the domain: reject). -/
def mergeRecH (fuel : Nat) (root : Ref) : Nat → Ref → Ref → Heap → Except Exc Heap
  | 0, _, _, _ => .error outOfFuel
  | n + 1, cur, add, h =>
    match pairsOf h add with
    | none => .error noItemsE
    | some (_, items) =>
      match foldItemsH (fun k v hh => mergeItemH fuel (mergeRecH fuel root n) root cur k v hh) items h with
      | .error e => .error e
      | .ok h' =>
        match pairsOf h' add with
        | some (_, items') =>
          if items'.length == items.length then .ok h'
          else .error (outOfDomain "the incoming dict changed size during iteration")
        | none => .error dangling

/-- Body of the loop of `defaults_recurse(current, defaults)` on objects. -/
def defaultsItemH (fuel : Nat) (recur : Ref → Ref → Heap → Except Exc Heap)
    (root cur k v : Ref) (h : Heap) : Except Exc Heap :=
  match fmtAt fuel h root k with
  | .error e => .error e
  | .ok (fk, h1) =>
    match deepVal h1 fk, h1[v]? with
    | some fkv, some vc =>
      if !hashableH (h1.length + 1) h1 fk then .error unhashableE
      else
        match pairsOf h1 cur with
        | none => .error dangling
        | some (_, kvs) =>
          match lookupH h1 kvs fkv with
          | none => storeFormatted fuel root cur fkv fk v h1
          | some old =>
            match h1[old]?, vc with
            | some (.dict _ _), .dict _ _ => recur old v h1
            | _, _ => .ok h1
    | _, _ => .error dangling

def defaultsRecH (fuel : Nat) (root : Ref) : Nat → Ref → Ref → Heap → Except Exc Heap
  | 0, _, _, _ => .error outOfFuel
  | n + 1, cur, add, h =>
    match pairsOf h add with
    | none => .error noItemsE
    | some (_, items) =>
      match foldItemsH (fun k v hh => defaultsItemH fuel (defaultsRecH fuel root n) root cur k v hh) items h with
      | .error e => .error e
      | .ok h' =>
        match pairsOf h' add with
        | some (_, items') =>
          if items'.length == items.length then .ok h'
          else .error (outOfDomain "the incoming dict changed size during iteration")
        | none => .error dangling

/-- `Context.merge(add_me)` on the context object `root`. -/
def mergeH (fuel : Nat) (root add : Ref) (h : Heap) : Except Exc Heap := mergeRecH fuel root fuel root add h

/-- `Context.set_defaults(defaults)` on the context object `root`. -/
def setDefaultsH (fuel : Nat) (root add : Ref) (h : Heap) : Except Exc Heap := defaultsRecH fuel root fuel root add h

/-- One operation of a sequence; the incoming mapping is the object `add`. -/
inductive OpH where
  | merge (add : Ref)
  | defaults (add : Ref)
  | step (useDefaults : Bool) (add : Option Ref)
  deriving Repr, Inhabited

def hasLenCell : Cell → Bool
  | .str _ | .leaf (.bytes _) | .mbytes _ | .list _ _ | .tuple _ _ | .dict _ _ | .set _ _ => true
  | _ => false

/-- the step: `context[key] = add` (the `in:` argument), `assert_key_has_value`, merge / set_defaults with
    `context[key]` as the incoming mapping, then `len(context[key])` for the log line -/
def runStepH (fuel : Nat) (useDefaults : Bool) (root : Ref) (add? : Option Ref) (h : Heap) : Except Exc Heap :=
  let key := Merge.stepKey useDefaults
  let caller := if useDefaults then "pypyr.steps.default" else "pypyr.steps.contextmerge"
  let h0 : Except Exc Heap := match add? with
    | none => .ok h
    | some a =>
      let (h1, kr) := alloc h (.str key)
      writeKey h1 root (.str key) kr a
  match h0 with
  | .error e => .error e
  | .ok h1 =>
    match pairsOf h1 root with
    | none => .error dangling
    | some (_, kvs) =>
      match lookupH h1 kvs (.str key) with
      | none => .error ⟨"pypyr.errors.KeyNotInContextError",
          "context['" ++ key ++ "'] doesn't exist. It must exist for " ++ caller ++ "."⟩
      | some a =>
        if isNoneCell h1 a then .error ⟨"pypyr.errors.KeyInContextHasNoValueError",
          "context['" ++ key ++ "'] must have a value for " ++ caller ++ "."⟩
        else
          match (if useDefaults then setDefaultsH fuel root a h1 else mergeH fuel root a h1) with
          | .error e => .error e
          | .ok h2 =>
            match pairsOf h2 root with
            | none => .error dangling
            | some (_, kvs2) =>
              match lookupH h2 kvs2 (.str key) with
              | none => .error (keyNotInContext key)
              | some x => match h2[x]? with
                | some c => if hasLenCell c then .ok h2 else .error ⟨"TypeError", "object has no len()"⟩
                | none => .error dangling

def runOpH (fuel : Nat) (root : Ref) (h : Heap) : OpH → Except Exc Heap
  | .merge a => mergeH fuel root a h
  | .defaults a => setDefaultsH fuel root a h
  | .step d a => runStepH fuel d root a h

/-- the operations in order on the one context object; the first failure ends the sequence -/
def runOpsHFrom (fuel : Nat) (root : Ref) : Nat → Heap → List OpH → Except (Nat × Exc) Heap
  | _, h, [] => .ok h
  | i, h, op :: rest =>
    match runOpH fuel root h op with
    | .error e => .error (i, e)
    | .ok h1 => runOpsHFrom fuel root (i + 1) h1 rest

def runOpsH (fuel : Nat) (root : Ref) (h : Heap) (ops : List OpH) : Except (Nat × Exc) Heap :=
  runOpsHFrom fuel root 0 h ops

end Pypyr.MergeHeap
