/-
  Model of `Context.merge` (`merge_recurse`), `Context.set_defaults`
  (`defaults_recurse`) and of the steps `pypyr.steps.contextmerge` /
  `pypyr.steps.default` (C10).

  The code mutates `self` while it formats incoming keys and values against
  `self`; for nested levels `current` is a sub-dict *of self*, so a nested write
  changes what later formatting expressions see. The model threads the ROOT
  through the recursion as a zipper: `rebuild cur` is the root context in which
  the dict being merged into (`current`) has the content `cur`; every
  formatting call is made against `ctxOf (rebuild cur)` — the context AS IT IS AT
  THAT MOMENT of the fold.

  The formatter is a parameter `fmt : Ctx → Val → Except Exc Val`
  (`Context.get_formatted_value`); `merge`/`setDefaults` instantiate it with
  `fmtVal fuel` of `PypyrModel/Fmt.lean`.

  Besides the new content each function returns a *trace*: one entry per
  incoming node visited — its path (the FORMATTED keys from the level where the
  merge started) and whether the node was written (`true`) or only descended
  into (`false`: mapping × mapping). The trace is ghost output: nothing reads it
  back; the frame theorems of `Props/C10.lean` are stated with it.

  Objects are trees here: aliasing between context values, or between the
  incoming mapping and the context, is outside this model (see `Props/C10.lean`,
  section "outside the model", and the check's alias streams).
-/
import PypyrModel.Val
import PypyrModel.Fmt

namespace Pypyr.Merge

abbrev Pairs := List (Val × Val)
abbrev Fmt := Ctx → Val → Except Exc Val
abbrev Trace := List (List Val × Bool)

/-- What `{name}` expressions can see of a dict used as context: its string keys. -/
def ctxOf (root : Pairs) : Ctx :=
  root.filterMap fun kv => match kv.1 with
    | .str s => some (s, kv.2)
    | _ => none

/-- `isinstance(v, (str, SpecialTagDirective))`. -/
def isStrLike : Val → Bool
  | .str _ | .sic _ | .py _ | .jsonify _ => true
  | _ => false

/-- `hash(k)` succeeds. `Val.set` stands for a mutable `set` here (unhashable);
    special tags define `__eq__` without `__hash__`. -/
def hashable : Val → Bool
  | .none | .bool _ | .int _ | .flt _ _ | .str _ | .bytes _ | .obj _ => true
  | .tuple xs => hashableL xs
  | _ => false
where hashableL : List Val → Bool
  | [] => true
  | x :: xs => hashable x && hashableL xs

def unhashable : Exc := ⟨"TypeError", "unhashable type"⟩

def under (fk : Val) (t : Trace) : Trace := t.map fun w => (fk :: w.1, w.2)

/-- `for k, v in add_me.items(): …` — the fold over the incoming items, left to right,
    the first exception ends it. -/
def foldItems (step : Pairs → Val → Val → Except Exc (Pairs × Trace)) :
    Pairs → Pairs → Except Exc (Pairs × Trace)
  | cur, [] => .ok (cur, [])
  | cur, (k, v) :: rest =>
    match step cur k v with
    | .error e => .error e
    | .ok (cur1, t1) =>
      match foldItems step cur1 rest with
      | .error e => .error e
      | .ok (cur2, t2) => .ok (cur2, t1 ++ t2)

/-- Body of the `for` loop of `merge_recurse(current, add_me)` for one item `(k, v)`.
    `recur rebuild' csub sub` is `merge_recurse(current[k], v)`. -/
def mergeItem (fmt : Fmt) (recur : (Pairs → Pairs) → Pairs → Pairs → Except Exc (Pairs × Trace))
    (rebuild : Pairs → Pairs) (cur : Pairs) (k v : Val) : Except Exc (Pairs × Trace) :=
  let ctx := ctxOf (rebuild cur)
  -- k = self.get_formatted_value(k)
  match fmt ctx k with
  | .error e => .error e
  | .ok fk =>
    if isStrLike v then
      -- current[k] = self.get_formatted_value(v)
      match fmt ctx v with
      | .error e => .error e
      | .ok fv => if hashable fk then .ok (dictSet cur fk fv, [([fk], true)]) else .error unhashable
    else
      match v with
      | .bytes _ =>
        -- current[k] = v
        if hashable fk then .ok (dictSet cur fk v, [([fk], true)]) else .error unhashable
      | _ =>
        -- elif k in current:
        if !hashable fk then .error unhashable
        else match dictGet? cur fk with
          | some old =>
            match old, v with
            | .dict csub, .dict sub =>
              -- merge_recurse(current[k], v)
              match recur (fun s => rebuild (dictSet cur fk (.dict s))) csub sub with
              | .error e => .error e
              | .ok (csub', t) => .ok (dictSet cur fk (.dict csub'), ([fk], false) :: under fk t)
            | .list xs, .list _ =>
              -- current[k].extend(self.get_formatted_value(v))
              match fmt ctx v with
              | .error e => .error e
              | .ok (.list ys) => .ok (dictSet cur fk (.list (xs ++ ys)), [([fk], true)])
              | .ok _ => .error (outOfDomain "formatted list is not a list")
            | .tuple xs, .tuple _ =>
              -- current[k] = current[k] + self.get_formatted_value(v)
              match fmt ctx v with
              | .error e => .error e
              | .ok (.tuple ys) => .ok (dictSet cur fk (.tuple (xs ++ ys)), [([fk], true)])
              | .ok _ => .error (outOfDomain "formatted tuple is not a tuple")
            | .set xs, .set _ =>
              -- current[k] = current[k] | self.get_formatted_value(v)
              match fmt ctx v with
              | .error e => .error e
              | .ok (.set ys) => .ok (dictSet cur fk (.set (ys.foldl setInsert xs)), [([fk], true)])
              | .ok _ => .error (outOfDomain "formatted set is not a set")
            | _, _ =>
              -- not mergable: current[k] = self.get_formatted_value(v)
              match fmt ctx v with
              | .error e => .error e
              | .ok fv => .ok (dictSet cur fk fv, [([fk], true)])
          | none =>
            -- not in context: current[k] = self.get_formatted_value(v)
            match fmt ctx v with
            | .error e => .error e
            | .ok fv => .ok (dictSet cur fk fv, [([fk], true)])

/-- `merge_recurse(current, add_me)`; fuel bounds the nesting depth of `add_me`. -/
def mergeRec (fmt : Fmt) : Nat → (Pairs → Pairs) → Pairs → Pairs → Except Exc (Pairs × Trace)
  | 0, _, _, _ => .error outOfFuel
  | fuel + 1, rebuild, cur, add => foldItems (mergeItem fmt (mergeRec fmt fuel) rebuild) cur add

/-- Body of the `for` loop of `defaults_recurse(current, defaults)` for one item. -/
def defaultsItem (fmt : Fmt) (recur : (Pairs → Pairs) → Pairs → Pairs → Except Exc (Pairs × Trace))
    (rebuild : Pairs → Pairs) (cur : Pairs) (k v : Val) : Except Exc (Pairs × Trace) :=
  let ctx := ctxOf (rebuild cur)
  match fmt ctx k with
  | .error e => .error e
  | .ok fk =>
    if !hashable fk then .error unhashable
    else match dictGet? cur fk with
      | some old =>
        match old, v with
        | .dict csub, .dict sub =>
          match recur (fun s => rebuild (dictSet cur fk (.dict s))) csub sub with
          | .error e => .error e
          | .ok (csub', t) => .ok (dictSet cur fk (.dict csub'), ([fk], false) :: under fk t)
        | _, _ => .ok (cur, [])                     -- exists: leave it alone
      | none =>
        match fmt ctx v with
        | .error e => .error e
        | .ok fv => .ok (dictSet cur fk fv, [([fk], true)])

/-- `defaults_recurse(current, defaults)`. -/
def defaultsRec (fmt : Fmt) : Nat → (Pairs → Pairs) → Pairs → Pairs → Except Exc (Pairs × Trace)
  | 0, _, _, _ => .error outOfFuel
  | fuel + 1, rebuild, cur, add => foldItems (defaultsItem fmt (defaultsRec fmt fuel) rebuild) cur add

def noItems (v : Val) : Exc :=
  ⟨"AttributeError", "'" ++ (match v with
      | .list _ => "list" | .tuple _ => "tuple" | .set _ => "set" | .str _ => "str" | .int _ => "int"
      | .bool _ => "bool" | .flt _ _ => "float" | .bytes _ => "bytes" | .none => "NoneType"
      | _ => "object") ++ "' object has no attribute 'items'"⟩

/-- `Context.merge(add_me)` with an abstract formatter. -/
def mergeWith (fmt : Fmt) (fuel : Nat) (root : Pairs) (add : Val) : Except Exc (Pairs × Trace) :=
  match add with
  | .dict kvs => mergeRec fmt fuel id root kvs
  | other => .error (noItems other)

/-- `Context.set_defaults(defaults)` with an abstract formatter. -/
def setDefaultsWith (fmt : Fmt) (fuel : Nat) (root : Pairs) (add : Val) : Except Exc (Pairs × Trace) :=
  match add with
  | .dict kvs => defaultsRec fmt fuel id root kvs
  | other => .error (noItems other)

/-- `Context.merge(add_me)`. -/
def merge (fuel : Nat) (root : Pairs) (add : Val) : Except Exc (Pairs × Trace) :=
  mergeWith (fmtVal fuel) fuel root add

/-- `Context.set_defaults(defaults)`. -/
def setDefaults (fuel : Nat) (root : Pairs) (add : Val) : Except Exc (Pairs × Trace) :=
  setDefaultsWith (fmtVal fuel) fuel root add

/-- `len(x)` does not raise. -/
def hasLen : Val → Bool
  | .str _ | .bytes _ | .list _ | .tuple _ | .dict _ | .set _ => true
  | _ => false

/-- `context.assert_key_has_value(key, caller)`. -/
def assertKeyHasValue (root : Pairs) (key caller : String) : Except Exc Val :=
  match dictGet? root (.str key) with
  | none => .error ⟨"pypyr.errors.KeyNotInContextError",
      "context['" ++ key ++ "'] doesn't exist. It must exist for " ++ caller ++ "."⟩
  | some .none => .error ⟨"pypyr.errors.KeyInContextHasNoValueError",
      "context['" ++ key ++ "'] must have a value for " ++ caller ++ "."⟩
  | some v => .ok v

/-- The step passes `context[key]` — an object that is itself a value of the context — as the
    incoming mapping. When the incoming tree names `key` itself with a mapping, the code merges
    into the very dict it is iterating: an aliasing effect the tree model cannot express. -/
def aliasesIncoming (key : String) (t : Trace) : Bool :=
  t.any fun w => w.2 == false && w.1 == [.str key]

/-- `pypyr.steps.contextmerge.run_step` / `pypyr.steps.default.run_step`
    (`useDefaults` chooses which): assert, merge, then `len(context[key])` for the log line. -/
def runStep (useDefaults : Bool) (fuel : Nat) (root : Pairs) : Except Exc Pairs :=
  let key := if useDefaults then "defaults" else "contextMerge"
  let caller := if useDefaults then "pypyr.steps.default" else "pypyr.steps.contextmerge"
  match assertKeyHasValue root key caller with
  | .error e => .error e
  | .ok add =>
    match (if useDefaults then setDefaults fuel root add else merge fuel root add) with
    | .error e => .error e
    | .ok (root', t) =>
      if aliasesIncoming key t then .error (outOfDomain "incoming mapping is merged into itself")
      else match dictGet? root' (.str key) with
        | none => .error (keyNotInContext key)
        | some x => if hasLen x then .ok root' else .error ⟨"TypeError", "object has no len()"⟩

end Pypyr.Merge
