/-
  Model of pypyr's command line and argument-to-context contract (C18).

  Mirrors, as the code is now:
    * `pypyr.cli.main` (the `try/except` ladder and its return values; the three calls it makes after
      argument parsing - `config.init()`, `set_root_logger(…)`, `pipelinerunner.run(…)` - each of which
      may raise, and where each sits relative to the `try`: §1b), `pypyr.__main__.main`
      (`sys.exit(main())`), `pypyr.pipeline.Pipeline.run` (the `except Stop` clause), and what the
      interpreter does with an exception no handler of `main` clauseCatches (`SystemExit`, other
      `BaseException`s): §1.
    * `pypyr.cli.get_parser` / `get_args`: argparse (CPython 3.12 `ArgumentParser._parse_optional`,
      `_get_option_tuples`, `_parse_known_args`, `_get_values`) as configured there - exact option
      strings, unique-prefix abbreviations of long options (`allow_abbrev=True`), `--opt=value`,
      `-h`/`--help`/`--version`, strings that start with `-` (negative-number matcher, the blank rule,
      unknown options), `--`: §2.
    * the seven built-in context parsers `pypyr.parser.{keyvaluepairs,argskwargs,dict,list,string,
      keys,json}.get_parsed_context`: §3.
    * `Pipeline._get_parse_input`, `Pipeline._prepare_context`, `pipelinerunner.run`
      (`Context(args) if args else Context()`): §4.
    * `Pipeline.new_pipe_and_args`: the `config.shortcuts` rewrite of every argument of a run: §5.

  argparse, `int()`, `str.partition`, `str.join`, `json.loads`, `pathlib.Path` are CPython; what the
  model assumes of them is validated by the correspondence harness on generated inputs.

  OUT OF DOMAIN (the driver rejects, the model says `outside`):
    * a string of argv that starts with `-`, matches no option and contains a non-ASCII character
      (argparse's negative-number matcher uses `\d`, which accepts every Unicode decimal digit);
    * an explicit option argument that is exactly `--` (`--success=--`: CPython 3.12's `_get_values`
      removes it and stores the empty *list*);
    * a `--log` value with a non-ASCII character, a control character other than `\t \n \v \f \r`, or
      longer than 4000 characters (`int()` accepts Unicode digits/blanks; `sys.set_int_max_str_digits`);
    * `SystemExit` codes that are ints outside `[-2^63, 2^63)`.
-/
import PypyrModel.Val

namespace Pypyr.Cli

/-! ## 1. Exit status -/

/-- The argument of `SystemExit` as the interpreter's exit handling distinguishes it
    (`handle_system_exit`). -/
inductive ExitCode where
  | absent                 -- `sys.exit()` / `sys.exit(None)`
  | int (n : Int)          -- an `int` (`bool` included): the status is `n & 0xFF`
  | other (text : String)  -- any other object: `str(obj)` is written to stderr, the status is 1
  deriving Repr, DecidableEq, Inhabited

/-- What escapes `Pipeline.load_and_run_pipeline` (or `config.init` / logger set-up). -/
inductive Raised where
  | nothing
  | stop
  | stopPipeline
  | stopStepGroup
  | keyboardInterrupt
  | error (ty : String) (msg : String)     -- any other `Exception`: `type(e).__name__`, `str(e)`
  | systemExit (code : ExitCode)           -- `SystemExit(code)`: `sys.exit(…)` inside a step
  | baseOther (ty : String) (msg : String) -- a `BaseException` that is neither an `Exception`, nor
                                           -- `KeyboardInterrupt`, nor `SystemExit` (`GeneratorExit`, own subclass)
  deriving Repr, DecidableEq, Inhabited

/-- A `BaseException` outside `Exception` and other than `KeyboardInterrupt`. Nothing in pypyr
    clauseCatches these: the step decorators (`swallow`, `retry`), the failure handler of a step group,
    `pype`, `Pipeline._run_pipeline`, `Pipeline.run` and `cli.main` all say `except Exception`
    (or `except Stop`), so such an exception leaves the run at the point where it is raised -
    no later step, no `on_failure`, no `on_success`. -/
def Raised.isBase : Raised → Bool
  | .systemExit _ | .baseOther _ _ => true
  | _ => false

/-- An `Exception` (the Stop family derives from `Exception`). -/
def Raised.isException : Raised → Bool
  | .stop | .stopPipeline | .stopStepGroup | .error _ _ => true
  | _ => false

/-- `Pipeline.run`: `try: self.load_and_run_pipeline(context) except Stop: …` —
    `StopPipeline` and `StopStepGroup` are subclasses of `Stop`. -/
def pipelineRun : Raised → Raised
  | .stop | .stopPipeline | .stopStepGroup => .nothing
  | r => r

structure MainResult where
  ret    : Option Nat      -- return value of `cli.main` (`None` when the `try` block falls through)
  stdout : String          -- written by `main` itself
  stderr : String          -- written by `main` itself, before any traceback
  deriving Repr, DecidableEq, Inhabited

/-- The `try/except` ladder of `pypyr.cli.main` applied to what its `try` body raised.
    `none`: no handler matches (`except KeyboardInterrupt` / `except Exception`) - the exception
    propagates out of `main`. -/
def cliMain : Raised → Option MainResult
  | .keyboardInterrupt => some ⟨some (128 + 2), "\n", ""⟩
  | .error ty msg => some ⟨some 255, "", "\n" ++ "\x1b[91m" ++ ty ++ ": " ++ msg ++ "\x1b[0;0m" ++ "\n"⟩
  -- a `Stop` cannot reach `main` through `Pipeline.run`; raised from elsewhere it is an `Exception`
  | .stop => some ⟨some 255, "", "\n" ++ "\x1b[91m" ++ "Stop" ++ ": " ++ "" ++ "\x1b[0;0m" ++ "\n"⟩
  | .stopPipeline => some ⟨some 255, "", "\n" ++ "\x1b[91m" ++ "StopPipeline" ++ ": " ++ "" ++ "\x1b[0;0m" ++ "\n"⟩
  | .stopStepGroup => some ⟨some 255, "", "\n" ++ "\x1b[91m" ++ "StopStepGroup" ++ ": " ++ "" ++ "\x1b[0;0m" ++ "\n"⟩
  | .nothing => some ⟨none, "", ""⟩
  | .systemExit _ => none
  | .baseOther _ _ => none

/-- `sys.exit(x)`: `None` is status 0. -/
def sysExit : Option Nat → Nat
  | none => 0
  | some n => n

/-- Status the interpreter exits with for an unhandled `SystemExit(code)`: 0 for `None`,
    `n & 0xFF` for an int that fits a C `long`, 1 for anything else. -/
def ExitCode.status : ExitCode → Nat
  | .absent => 0
  | .int n => (n % 256).toNat
  | .other _ => 1

/-- What the interpreter writes to stderr for an unhandled `SystemExit(code)`. -/
def ExitCode.stderr : ExitCode → String
  | .other t => t ++ "\n"
  | _ => ""

/-- How a call of `main` ends. -/
inductive Outcome where
  | returned (m : MainResult)   -- `sys.exit(main())` then gives `sysExit m.ret`
  | escaped (r : Raised)        -- raised out of `main` (and out of `__main__`): the interpreter deals with it
  deriving Repr, DecidableEq, Inhabited

/-- The `try` statement of `main` as a whole: a handler returns, or the exception goes on. -/
def tryMain (r : Raised) : Outcome :=
  match cliMain r with
  | some m => .returned m
  | none => .escaped r

/-- Exit status of the process. `none`: not a status - an unhandled `KeyboardInterrupt` makes the
    interpreter kill itself with SIGINT (and `.escaped .nothing` does not occur). An unhandled
    `SystemExit(code)` is the status `code` asks for; any other unhandled exception is status 1. -/
def Outcome.status : Outcome → Option Nat
  | .returned m => some (sysExit m.ret)
  | .escaped (.systemExit c) => some c.status
  | .escaped .keyboardInterrupt => none
  | .escaped .nothing => none
  | .escaped _ => some 1

/-- What `main` or the interpreter's exit handling writes to stderr, any traceback aside. -/
def Outcome.stderr : Outcome → String
  | .returned m => m.stderr
  | .escaped (.systemExit c) => c.stderr
  | .escaped _ => ""

/-- Does the *interpreter* print `Traceback (most recent call last): …` (an exception other than
    `SystemExit` left `__main__`)? The last line of that traceback (`module.QualName: message`) is
    not modelled. -/
def Outcome.interpreterTraceback : Outcome → Bool
  | .returned _ => false
  | .escaped (.systemExit _) => false
  | .escaped .nothing => false
  | .escaped _ => true

/-- `if parsed_args.log_level: if parsed_args.log_level < 10: traceback.print_exc()` in the
    `except Exception` handler of `main`: a traceback follows the `type: message` line exactly for a
    non-zero log level below 10 (negative levels included; 0 and "not given" do not). -/
def showsTraceback (log : Option Int) : Bool :=
  match log with
  | none => false
  | some n => n != 0 && n < 10

/-- Does `main` itself print a traceback for what its `try` body raised? -/
def mainTraceback (log : Option Int) (r : Raised) : Bool := r.isException && showsTraceback log

/-- Exit status of the `pypyr` process given what escaped the pipeline run. -/
def exitStatus (r : Raised) : Option Nat := (tryMain (pipelineRun r)).status

/-! ## 1b. The phases of `main`

After `parsed_args = get_args(args)` the body of `pypyr.cli.main` is three calls, all inside one
`try` whose handlers are `except KeyboardInterrupt: … return 128 + signal.SIGINT` and
`except Exception as e: … return 255`:

    try:
        config.init()
        pypyr.log.logger.set_root_logger(log_level=…, log_path=…)
        pypyr.pipelinerunner.run(pipeline_name=…, …)
    except KeyboardInterrupt: …
    except Exception as e: …

Each call may raise. *Where* each call sits relative to the `try` is data (`MainShape`), tied to the
source by `Generated/CliMain.lean` (harness/extract_c18.py) and `Props/C18.lean: main_shape_agrees`.
-/

/-- A call `pypyr.cli.main` makes once the arguments are parsed. -/
inductive Phase where
  | configInit       -- `config.init()`: config-file look-up and merge
  | setRootLogger    -- `pypyr.log.logger.set_root_logger(log_level=…, log_path=…)`
  | runPipeline      -- `pypyr.pipelinerunner.run(…)`: load + run
  deriving Repr, DecidableEq, Inhabited

/-- Dotted name of the called function as written in the source. -/
def Phase.callName : Phase → String
  | .configInit => "config.init"
  | .setRootLogger => "pypyr.log.logger.set_root_logger"
  | .runPipeline => "pypyr.pipelinerunner.run"

/-- Source order of the calls. -/
def Phase.idx : Phase → Nat
  | .configInit => 0
  | .setRootLogger => 1
  | .runPipeline => 2

/-- What the body of each call raises (`.nothing`: it returns). For `.runPipeline` this is what
    escapes `Pipeline.load_and_run_pipeline`; `Pipeline.run`'s `except Stop` is applied by
    `callRaises`. -/
abbrev Faults := Phase → Raised

/-- What escapes the call itself, as `main` sees it. Only the runner sits below `Pipeline.run`. -/
def callRaises (f : Faults) : Phase → Raised
  | .runPipeline => pipelineRun (f .runPipeline)
  | p => f p

/-- Statements in sequence: the first call that raises ends the sequence. -/
def seqRaises (f : Faults) : List Phase → Raised
  | [] => .nothing
  | p :: ps =>
    match callRaises f p with
    | .nothing => seqRaises f ps
    | r => r

/-- Where `main` makes its calls: before the `try` statement, or in its body. (There is no `else`,
    no `finally` and nothing after the `try`; the extractor reports calls in any of these positions
    and `main_shape_agrees` requires there to be none.) -/
structure MainShape where
  beforeTry : List Phase
  inTry     : List Phase
  deriving Repr, DecidableEq, Inhabited

/-- `main` for a given placement of the calls: anything raised before the `try` leaves `main`;
    what the `try` body raises goes down the handler ladder `cliMain` (`tryMain`). -/
def mainOf (s : MainShape) (f : Faults) : Outcome :=
  match seqRaises f s.beforeTry with
  | .nothing => tryMain (seqRaises f s.inTry)
  | r => .escaped r

/-- `pypyr.cli.main` as it is: all three calls inside the `try`. -/
def mainShape : MainShape := ⟨[], [.configInit, .setRootLogger, .runPipeline]⟩

/-- The handler ladder of that `try`, as the extractor renders it: caught classes and the source
    text of the returned expression. `cliMain` transliterates it (`128 + signal.SIGINT` = 130). -/
def mainHandlers : List (List String × String) :=
  [(["KeyboardInterrupt"], "128 + signal.SIGINT"), (["Exception"], "255")]

/-- The `sys.stderr.write(…)` arguments of the `except Exception as e` handler that come before
    anything else in it, source order; each argument as its f-string pieces:
    `(false, text)` literal text, `(true, src)` a `{src}` replacement field. -/
def mainStderrWrites : List (List (Bool × String)) :=
  [[(false, "\n")],
   [(false, "\x1b[91m"), (true, "type(e).__name__"), (false, ": "), (true, "str(e)"), (false, "\x1b[0;0m")],
   [(false, "\n")]]

/-- What follows those writes in the `except Exception` handler, as the extractor renders it
    ("<nesting depth>:<source>" per statement): the guard of the traceback (`showsTraceback`
    transliterates it: `log_level` truthy - not `None`, not 0 - and `< 10`), the guarded call, the return. -/
def mainTracebackGuard : List String :=
  ["0:if parsed_args.log_level", "1:if parsed_args.log_level < 10", "2:traceback.print_exc()", "0:return 255"]

/-- Evaluate those pieces for an exception of type name `ty` and `str(e) = msg`; a replacement
    field the model does not know renders as `none`. -/
def renderPieces (ty msg : String) : List (Bool × String) → Option String
  | [] => some ""
  | (false, t) :: rest => (renderPieces ty msg rest).map (t ++ ·)
  | (true, src) :: rest =>
    if src = "type(e).__name__" then (renderPieces ty msg rest).map (ty ++ ·)
    else if src = "str(e)" then (renderPieces ty msg rest).map (msg ++ ·)
    else none

def renderWrites (ty msg : String) : List (List (Bool × String)) → Option String
  | [] => some ""
  | w :: ws => match renderPieces ty msg w, renderWrites ty msg ws with
    | some a, some b => some (a ++ b)
    | _, _ => none

/-- `pypyr.cli.main` after argument parsing. -/
def mainPhases (f : Faults) : Outcome := mainOf mainShape f

/-- A fault in one phase only. -/
def faultAt (p : Phase) (r : Raised) : Faults := fun q => if q = p then r else .nothing

/-! ## 2. argv

`get_parser()` registers, in this order, the option strings of `optionTable` (argparse adds
`-h`, `--help` first). `Props/C18.lean: option_table_agrees` ties the table (option strings, dest,
nargs, type, action of every `add_argument`, and `allow_abbrev`) to `Generated/CliOptions.lean`,
extracted from the source on every run. -/

inductive OptName where
  | groups | success | failure | dir | log | logpath | help | version
  deriving Repr, DecidableEq, Inhabited

/-- `parser._option_string_actions`, insertion order, as characters. -/
def optionTableChars : List (List Char × OptName) :=
  [(['-', 'h'], .help),
   (['-', '-', 'h', 'e', 'l', 'p'], .help),
   (['-', '-', 'g', 'r', 'o', 'u', 'p', 's'], .groups),
   (['-', '-', 's', 'u', 'c', 'c', 'e', 's', 's'], .success),
   (['-', '-', 'f', 'a', 'i', 'l', 'u', 'r', 'e'], .failure),
   (['-', '-', 'd', 'i', 'r'], .dir),
   (['-', '-', 'l', 'o', 'g'], .log),
   (['-', '-', 'l', 'o', 'g', 'l', 'e', 'v', 'e', 'l'], .log),
   (['-', '-', 'l', 'o', 'g', 'p', 'a', 't', 'h'], .logpath),
   (['-', '-', 'v', 'e', 'r', 's', 'i', 'o', 'n'], .version)]

/-- The same with the option strings as strings. -/
def optionTable : List (String × OptName) := optionTableChars.map fun p => (String.ofList p.1, p.2)

/-- One row of the parser definition: what `add_argument` was given (source text of each keyword;
    `"-"` when absent). Positionals have no option strings. -/
structure ArgRow where
  optionStrings : List String
  dest    : String
  nargs   : String
  type    : String
  default : String
  action  : String
  other   : List String := []     -- any further keyword (`const`, `choices`, `required`, …): none
  deriving Repr, DecidableEq, Inhabited

/-- A row as the extractor writes it (a plain tuple). -/
def ArgRow.ofTuple (t : List String × String × String × String × String × String × List String) : ArgRow :=
  ⟨t.1, t.2.1, t.2.2.1, t.2.2.2.1, t.2.2.2.2.1, t.2.2.2.2.2.1, t.2.2.2.2.2.2⟩

/-- The parser definition the model assumes (`get_parser`, source order). -/
def parserRows : List ArgRow :=
  [⟨[], "pipeline_name", "-", "-", "-", "-", []⟩,
   ⟨[], "context_args", "'*'", "-", "None", "-", []⟩,
   ⟨["--groups"], "groups", "'*'", "-", "None", "-", []⟩,
   ⟨["--success"], "success_group", "-", "-", "None", "-", []⟩,
   ⟨["--failure"], "failure_group", "-", "-", "None", "-", []⟩,
   ⟨["--dir"], "py_dir", "-", "-", "config.cwd", "-", []⟩,
   ⟨["--log", "--loglevel"], "log_level", "-", "int", "None", "-", []⟩,
   ⟨["--logpath"], "log_path", "-", "-", "-", "-", []⟩,
   ⟨["--version"], "-", "-", "-", "-", "'version'", []⟩]

/-- The option a row of the parser definition stands for in the model (by `dest` / action). -/
def ArgRow.optName (r : ArgRow) : Option OptName :=
  if r.action = "'version'" then some .version
  else if r.dest = "groups" then some .groups
  else if r.dest = "success_group" then some .success
  else if r.dest = "failure_group" then some .failure
  else if r.dest = "py_dir" then some .dir
  else if r.dest = "log_level" then some .log
  else if r.dest = "log_path" then some .logpath
  else none

/-- The option-string table a list of rows gives rise to: `-h`, `--help` first (`add_help`), then
    every option string of every row in order. -/
def tableOfRows (rows : List ArgRow) : List (String × OptName) :=
  [("-h", .help), ("--help", .help)] ++
    (rows.map fun r => match r.optName with
      | some o => r.optionStrings.map fun s => (s, o)
      | none => []).flatten

/-- How argparse classifies one argv string *before* a `--` (`ArgumentParser._parse_optional`). -/
inductive Cls where
  | pos                                          -- 'A'
  | opt (o : OptName) (explicit : Option String) -- 'O': an option of this parser, with the `=value` part if any
  | unknown                                      -- 'O' without action: the string goes to the "extras"
  | ambiguous                                    -- an abbreviation of several option strings: `error()`
  | dd                                           -- the `--` separator
  | outside                                      -- not modelled (see the file header)
  deriving Repr, DecidableEq, Inhabited

def startsWithDash (s : String) : Bool :=
  match s.toList with
  | '-' :: _ => true
  | _ => false

/-- `option_string in self._option_string_actions`. -/
def lookupOpt (cs : List Char) : Option OptName :=
  (optionTableChars.find? fun p => p.1 = cs).map (·.2)

/-- `str.startswith`. -/
def isPrefixChars : List Char → List Char → Bool
  | [], _ => true
  | _ :: _, [] => false
  | a :: as, b :: bs => a = b && isPrefixChars as bs

/-- `s.split('=', 1)` for a string that may have no `=`: the text before the first `=` and, if there
    is one, the text after it. -/
def splitEq : List Char → List Char × Option (List Char)
  | [] => ([], none)
  | c :: cs =>
    if c = '=' then ([], some cs)
    else let r := splitEq cs; (c :: r.1, r.2)

/-- `_get_option_tuples` for a string that starts with two dashes (`allow_abbrev=True`): every
    registered option string that starts with the text before the first `=`. -/
def longTuples (cs : List Char) : List (List Char × OptName × Option (List Char)) :=
  let pe := splitEq cs
  (optionTableChars.filter fun p => isPrefixChars pe.1 p.1).map fun p => (p.1, p.2, pe.2)

/-- `_get_option_tuples` for a string that starts with one dash: the two-character option string
    with the rest as its explicit argument, or an option string that starts with the whole string. -/
def shortTuples (cs : List Char) : List (List Char × OptName × Option (List Char)) :=
  optionTableChars.filterMap fun p =>
    if p.1 = cs.take 2 then some (p.1, p.2, some (cs.drop 2))
    else if isPrefixChars cs p.1 then some (p.1, p.2, none)
    else none

def allDigits (cs : List Char) : Bool := cs.all Char.isDigit

/-- `_negative_number_matcher = re.compile(r'^-\d+$|^-\d*\.\d+$')` on ASCII text (`$` also matches
    before a final newline). -/
def negNumber : List Char → Bool
  | '-' :: r =>
    let r := if r.getLast? = some '\n' then r.dropLast else r
    (!r.isEmpty && allDigits r) ||
      (match r.dropWhile (· ≠ '.') with
       | '.' :: d => allDigits (r.takeWhile (· ≠ '.')) && !d.isEmpty && allDigits d
       | _ => false)
  | _ => false

def hasNonAscii (cs : List Char) : Bool := cs.any fun c => c.toNat ≥ 128

/-- An option found with its explicit argument. The single-dash chain of `consume_optional`
    (`-hh`, `-h=h`: each further character must again be a no-argument short option, i.e. `h`)
    is resolved here: a non-empty explicit argument of `-h` made of `h`s only is more `-h`s. -/
def optCls (flag : List Char) (o : OptName) (e : Option (List Char)) : Cls :=
  match e with
  | none => .opt o none
  | some x =>
    if flag = ['-', 'h'] && !x.isEmpty && x.all (· = 'h') then .opt o none
    else .opt o (some (String.ofList x))

/-- `_parse_optional` (called for every string before the first `--`). -/
def classifyChars (cs : List Char) : Cls :=
  match cs with
  | [] => .pos
  | c :: rest =>
    if c ≠ '-' then .pos
    else if cs = ['-', '-'] then .dd
    else match lookupOpt cs with
      | some o => .opt o none
      | none =>
        if rest.isEmpty then .pos
        else
          let pe := splitEq cs
          match (if pe.2.isSome then lookupOpt pe.1 else none) with
          | some o => optCls pe.1 o pe.2
          | none =>
            match (if rest.head? = some '-' then longTuples cs else shortTuples cs) with
            | [t] => optCls t.1 t.2.1 t.2.2
            | _ :: _ :: _ => .ambiguous
            | [] =>
              if hasNonAscii cs then .outside
              else if negNumber cs then .pos          -- `_has_negative_number_optionals` is empty
              else if cs.contains ' ' then .pos
              else .unknown

def classify (s : String) : Cls := classifyChars s.toList

inductive Tok where
  | pos (s : String)
  | opt (o : OptName) (explicit : Option String)
  | unknown
  | dd
  deriving Repr, DecidableEq, Inhabited

/-- Why the pattern pass stops. -/
inductive TokStop where
  | ambiguous     -- `error()`: status 2, before any action is taken
  | outside
  deriving Repr, DecidableEq, Inhabited

inductive TokR where
  | stop (s : TokStop)
  | toks (ts : List Tok)
  deriving Repr, DecidableEq, Inhabited

def TokR.map (f : List Tok → List Tok) : TokR → TokR
  | .stop s => .stop s
  | .toks ts => .toks (f ts)

/-- The pattern pass of `_parse_known_args`, left to right: after the first `--` every string is an
    argument; the first ambiguous abbreviation ends the parse with `error()`. -/
def tokenize : Bool → List String → TokR
  | _, [] => .toks []
  | true, s :: rest => (tokenize true rest).map (Tok.pos s :: ·)
  | false, s :: rest =>
    match classify s with
    | .pos => (tokenize false rest).map (Tok.pos s :: ·)
    | .opt o e => (tokenize false rest).map (Tok.opt o e :: ·)
    | .unknown => (tokenize false rest).map (Tok.unknown :: ·)
    | .dd => (tokenize true rest).map (Tok.dd :: ·)
    | .ambiguous => .stop .ambiguous
    | .outside => .stop .outside

/-- The namespace `get_args` returns. `dir = none` stands for the default of `--dir`:
    `config.cwd`, a property that returns the module constant `pypyr.config.CWD = Path.cwd()` taken
    when `pypyr.config` was imported - the same `Path` object for every parser built afterwards,
    whatever the working directory is by then. -/
structure Args where
  name    : String := ""
  ctx     : List String := []
  groups  : Option (List String) := none
  success : Option String := none
  failure : Option String := none
  dir     : Option String := none
  log     : Option Int := none
  logpath : Option String := none
  deriving Repr, DecidableEq, Inhabited

inductive Mode where
  | idle
  | needArg (o : OptName)    -- a one-argument option is waiting for its value
  | inGroups                 -- `--groups` is collecting ('A*')
  | afterDD                  -- `--` seen before the positionals: the next string is the name
  | afterName                -- pipeline_name matched ('-*A-*'): a directly following `--` belongs to it
  | inCtx                    -- context_args is collecting ('-*[A-]*')
  deriving Repr, DecidableEq, Inhabited

structure PSt where
  mode    : Mode := .idle
  hasName : Bool := false
  extras  : Bool := false    -- some string went to the "extras": `parse_args` will call `error()` at the end
  args    : Args := {}
  deriving Repr, DecidableEq, Inhabited

inductive IntParse where
  | outside
  | invalid               -- `ValueError`
  | ok (n : Int)
  deriving Repr, DecidableEq, Inhabited

/-- Blanks `int()` strips (ASCII). -/
def pyWs (c : Char) : Bool :=
  c = ' ' || c = '\t' || c = '\n' || c = '\r' || c = '\x0b' || c = '\x0c'

/-- Decimal digits with single underscores *between* digits (`prevUs`: the previous character was
    an underscore or there was none yet). -/
def digitsUs : List Char → Bool → Nat → Option Nat
  | [], prevUs, acc => if prevUs then none else some acc
  | c :: cs, prevUs, acc =>
    if c = '_' then (if prevUs then none else digitsUs cs true acc)
    else if c.isDigit then digitsUs cs false (acc * 10 + (c.toNat - '0'.toNat))
    else none

/-- `type=int` of `--log`: `int(s)` for ASCII text - blanks stripped at both ends, an optional sign
    directly before the digits, digits with single underscores between them (`'+5'`, `' 5 '`,
    `'5_0'`, `'-5'`, `'007'` are all ints). -/
def parseInt (s : String) : IntParse :=
  let cs := s.toList
  if cs.any (fun c => c.toNat ≥ 128 || (c.toNat < 32 && !pyWs c)) || cs.length > 4000 then .outside
  else
    let t := ((cs.dropWhile pyWs).reverse.dropWhile pyWs).reverse
    let sd : Bool × List Char := match t with
      | '+' :: r => (false, r)
      | '-' :: r => (true, r)
      | r => (false, r)
    match digitsUs sd.2 true 0 with
    | none => .invalid
    | some n => .ok (if sd.1 then -(n : Int) else (n : Int))

/-- Why the consumption of argv stops early. -/
inductive Stop where
  | usage      -- argparse `error()`: SystemExit(2)
  | exit0      -- `-h` / `--help` / `--version`: the action prints and calls `parser.exit()` - SystemExit(0)
  | outside
  deriving Repr, DecidableEq, Inhabited

inductive StepR where
  | stop (s : Stop)
  | next (st : PSt)
  deriving Repr, DecidableEq, Inhabited

/-- `take_action` of a one-argument option (`explicit`: the value came joined with `=`). -/
def setOpt (a : Args) (o : OptName) (s : String) : Except Stop Args :=
  match o with
  | .success => .ok { a with success := some s }
  | .failure => .ok { a with failure := some s }
  | .dir => .ok { a with dir := some s }
  | .logpath => .ok { a with logpath := some s }
  | .log => match parseInt s with
    | .ok n => .ok { a with log := some n }
    | .invalid => .error .usage              -- "invalid int value"
    | .outside => .error .outside
  | .groups | .help | .version => .error .outside     -- not one-argument options: not reached

/-- An option string at a point where argparse is between actions (`consume_optional`). -/
def stepOpt (st : PSt) (o : OptName) (e : Option String) : StepR :=
  match o, e with
  | .help, none => .stop .exit0
  | .version, none => .stop .exit0
  | .help, some _ => .stop .usage            -- "ignored explicit argument"
  | .version, some _ => .stop .usage
  | .groups, none => .next { st with mode := .inGroups, args := { st.args with groups := some [] } }
  | .groups, some x =>
    if x = "--" then .stop .outside
    else .next { st with mode := .idle, args := { st.args with groups := some [x] } }
  | o, none => .next { st with mode := .needArg o }
  | o, some x =>
    if x = "--" then .stop .outside
    else match setOpt st.args o x with
      | .ok a => .next { st with mode := .idle, args := a }
      | .error s => .stop s

/-- What happens at an option string or at a positional when no option is collecting. -/
def stepIdle (st : PSt) (t : Tok) : StepR :=
  match t with
  | .opt o e => stepOpt st o e
  | .unknown => .next { st with mode := .idle, extras := true }
  | .pos s =>
    if st.hasName then .next { st with mode := .idle, extras := true }   -- both positionals are consumed together
    else .next { st with mode := .afterName, hasName := true, args := { st.args with name := s } }
  | .dd => if st.hasName then .next { st with mode := .idle, extras := true } else .next { st with mode := .afterDD }

/-- One argv string. -/
def step (st : PSt) (t : Tok) : StepR :=
  match st.mode, t with
  | .idle, t => stepIdle st t
  | .needArg o, .pos s =>
    (match setOpt st.args o s with
     | .ok a => .next { st with mode := .idle, args := a }
     | .error e => .stop e)
  | .needArg _, _ => .stop .usage                                   -- "expected one argument"
  | .inGroups, .pos s =>
    .next { st with args := { st.args with groups := some ((st.args.groups.getD []) ++ [s]) } }
  | .inGroups, t => stepIdle st t
  | .afterDD, .pos s => .next { st with mode := .afterName, hasName := true, args := { st.args with name := s } }
  | .afterDD, _ => .stop .usage
  | .afterName, .dd => .next { st with mode := .inCtx }
  | .afterName, .pos s => .next { st with mode := .inCtx, args := { st.args with ctx := st.args.ctx ++ [s] } }
  | .afterName, t => stepIdle st t
  | .inCtx, .pos s => .next { st with args := { st.args with ctx := st.args.ctx ++ [s] } }
  | .inCtx, .dd => .next { st with args := { st.args with ctx := st.args.ctx ++ ["--"] } }
  | .inCtx, t => stepIdle st t

def run : PSt → List Tok → StepR
  | st, [] => .next st
  | st, t :: ts => match step st t with
    | .stop s => .stop s
    | .next st' => run st' ts

/-- End of argv: a pending one-argument option, a missing pipeline name or any "extra" is an error;
    `_get_values` removes the first `'--'` from the strings matched by `context_args`. -/
def finish (st : PSt) : Option Args :=
  match st.mode with
  | .needArg _ => none
  | .afterDD => none
  | _ => if st.hasName && !st.extras then some { st.args with ctx := st.args.ctx.erase "--" } else none

inductive ArgvResult where
  | outside                 -- not in the modelled domain
  | usage                   -- argparse `error()`: SystemExit(2)
  | exit0                   -- help / version printed: SystemExit(0); `main` does nothing else
  | ok (a : Args)
  deriving Repr, DecidableEq, Inhabited

/-- `pypyr.cli.get_args`. -/
def parseArgv (argv : List String) : ArgvResult :=
  match tokenize false argv with
  | .stop .outside => .outside
  | .stop .ambiguous => .usage
  | .toks toks =>
    match run {} toks with
    | .stop .usage => .usage
    | .stop .exit0 => .exit0
    | .stop .outside => .outside
    | .next st => match finish st with
      | none => .usage
      | some a => .ok a

/-- An option and its value(s): what it means. -/
inductive Opt where
  | groups (gs : List String)
  | success (s : String)
  | failure (s : String)
  | dir (s : String)
  | log (s : String)        -- as written: text `int()` accepts
  | logpath (s : String)
  deriving Repr, DecidableEq, Inhabited

def Opt.name : Opt → OptName
  | .groups _ => .groups
  | .success _ => .success
  | .failure _ => .failure
  | .dir _ => .dir
  | .log _ => .log
  | .logpath _ => .logpath

def Opt.values : Opt → List String
  | .groups gs => gs
  | .success s | .failure s | .dir s | .log s | .logpath s => [s]

/-- An option as written on a command line: the option string used (exact, or any abbreviation
    argparse accepts) and whether the value is joined to it with `=`. -/
structure WOpt where
  opt    : Opt
  flag   : String
  joined : Bool := false
  deriving Repr, DecidableEq, Inhabited

def WOpt.render (w : WOpt) : List String :=
  match w.joined, w.opt.values with
  | true, [v] => [w.flag ++ "=" ++ v]
  | _, vs => w.flag :: vs

def Opt.apply (a : Args) : Opt → Args
  | .groups gs => { a with groups := some gs }
  | .success s => { a with success := some s }
  | .failure s => { a with failure := some s }
  | .dir s => { a with dir := some s }
  | .log s => { a with log := match parseInt s with | .ok n => some n | _ => a.log }
  | .logpath s => { a with logpath := some s }

def renderOpts (ws : List WOpt) : List String := (ws.map WOpt.render).flatten

def applyOpts (a : Args) (os : List Opt) : Args := os.foldl Opt.apply a

/-- What `cli.main` hands to `pipelinerunner.run`. -/
structure RunCall where
  pipelineName : String
  argsIn       : List String
  parseArgs    : Option Bool
  groups       : Option (List String)
  successGroup : Option String
  failureGroup : Option String
  pyDir        : Option String
  deriving Repr, DecidableEq, Inhabited

/-- The call in `pypyr.cli.main`. -/
def runCallOf (a : Args) : RunCall :=
  { pipelineName := a.name, argsIn := a.ctx, parseArgs := some true, groups := a.groups,
    successGroup := a.success, failureGroup := a.failure, pyDir := a.dir }

/-- How the `pypyr` process ends for an argv and a given behaviour of the pipeline run, and the
    call `main` made (`none`: the runner was not called).
    Outer `none`: argv outside the modelled domain. -/
def cliProcess (argv : List String) (runs : RunCall → Raised) : Option (Option Nat × Option RunCall) :=
  match parseArgv argv with
  | .outside => none
  | .usage => some (some 2, none)
  | .exit0 => some (some 0, none)
  | .ok a => some (exitStatus (runs (runCallOf a)), some (runCallOf a))

/-- The same with a fault possible in every phase of `main`: `cfg` / `log` are what `config.init()`
    / `set_root_logger(log_level, log_path)` raise, `runs` what escapes the pipeline run for the
    call `main` makes. -/
def cliProcessPhases (argv : List String) (cfg : Raised) (log : Option Int → Option String → Raised)
    (runs : RunCall → Raised) : Option Outcome :=
  match parseArgv argv with
  | .outside => none
  | .usage => some (.escaped (.systemExit (.int 2)))
  | .exit0 => some (.escaped (.systemExit (.int 0)))
  | .ok a => some (mainPhases fun
      | .configInit => cfg
      | .setRootLogger => log a.log a.logpath
      | .runPipeline => runs (runCallOf a))

/-! ## 3. Context parsers -/

/-- `str.partition('=')` on characters: text before the first `=`, whether there is one, text after. -/
def partitionEq : List Char → List Char × Bool × List Char
  | [] => ([], false, [])
  | c :: cs =>
    if c = '=' then ([], true, cs)
    else let r := partitionEq cs; (c :: r.1, r.2.1, r.2.2)

def keyOf (a : String) : String := String.ofList (partitionEq a.toList).1
def hasSep (a : String) : Bool := (partitionEq a.toList).2.1
def valOf (a : String) : String := String.ofList (partitionEq a.toList).2.2

/-- `' '.join(args)`. -/
def joinSp : List String → String
  | [] => ""
  | [a] => a
  | a :: b :: rest => a ++ " " ++ joinSp (b :: rest)

/-- `{k: v for k, _, v in (e.partition('=') for e in args)}`: a dict comprehension assigns left to
    right, so a repeated key keeps its first position and takes the later value. -/
def kvDict (args : List String) : List (Val × Val) :=
  args.foldl (fun d a => dictSet d (.str (keyOf a)) (.str (valOf a))) []

def strList (xs : List String) : Val := .list (xs.map Val.str)

inductive Parser where
  | keyvaluepairs | argskwargs | dict | list | string | keys | json
  deriving Repr, DecidableEq, Inhabited

/-- the TypeError of `pypyr.parser.json` for a top-level array / literal, with the message of the code
    (the translated parser, Props/Translated_C18, must produce exactly this). -/
def typeErrorJson : Exc := ⟨"TypeError", "json input should describe an object at the top level. You should have something like \n{\n\"key1\":\"value1\",\n\"key2\":\"value2\"\n}\nat the json top-level, not an [array] or literal."⟩

/-- The loop of `pypyr.parser.argskwargs.get_parsed_context`. -/
def argsKwargsLoop : List String → List (Val × Val) → List String → List (Val × Val) × List String
  | [], out, argList => (out, argList)
  | a :: rest, out, argList =>
    if hasSep a then argsKwargsLoop rest (dictSet out (.str (keyOf a)) (.str (valOf a))) argList
    else argsKwargsLoop rest out (argList ++ [a])

/-- `get_parsed_context(args)` of each built-in parser; `loads` stands for `json.loads`.
    Result `none` is Python `None`. -/
def parse (loads : String → Except Exc Val) (p : Parser) (args : List String) : Except Exc (Option Val) :=
  match p with
  | .keyvaluepairs => if args.isEmpty then .ok none else .ok (some (.dict (kvDict args)))
  | .argskwargs =>
    if args.isEmpty then .ok (some (.dict [(.str "argList", .list [])]))
    else
      let r := argsKwargsLoop args [] []
      .ok (some (.dict (dictSet r.1 (.str "argList") (strList r.2))))
  | .dict =>
    if args.isEmpty then .ok (some (.dict [(.str "argDict", .dict [])]))
    else .ok (some (.dict [(.str "argDict", .dict (kvDict args))]))
  | .list =>
    if args.isEmpty then .ok (some (.dict [(.str "argList", .list [])]))
    else .ok (some (.dict [(.str "argList", strList args)]))
  | .string =>
    if args.isEmpty then .ok (some (.dict [(.str "argString", .str "")]))
    else .ok (some (.dict [(.str "argString", .str (joinSp args))]))
  | .keys =>
    if args.isEmpty then .ok none
    else .ok (some (.dict (args.foldl (fun d a => dictSet d (.str a) (.bool true)) [])))
  | .json =>
    if args.isEmpty then .ok none
    else match loads (joinSp args) with
      | .error e => .error e
      | .ok (.dict d) => .ok (some (.dict d))
      | .ok _ => .error typeErrorJson

/-! ## 4. Does the parser run? -/

/-- Python truthiness of `args_in: list[str] | None`. -/
def argsTruthy : Option (List String) → Bool
  | none => false
  | some l => !l.isEmpty

/-- `Pipeline._get_parse_input(parse_args, args_in, dict_in)`; `dictGiven` is `dict_in is not None`. -/
def getParseInput (parseArgs : Option Bool) (argsIn : Option (List String)) (dictGiven : Bool) : Bool :=
  match parseArgs with
  | none => !(!argsTruthy argsIn && dictGiven)
  | some b => b

/-- `dict.update(parsed)` for a parsed mapping with string keys (others are outside the domain). -/
def updateFrom (c : Ctx) : List (Val × Val) → Option Ctx
  | [] => some c
  | (.str k, v) :: rest => updateFrom (c.set k v) rest
  | _ :: _ => none

/-- `pipelinerunner.run` up to the first step: `Context(dict_in) if dict_in else Context()`, then
    `Pipeline._prepare_context`: run the pipeline's `context_parser` (if it declares one) when
    `parse_input`, and `context.update(parsed)` when the result is truthy.
    Outer `none`: outside the modelled domain. -/
def initialContext (loads : String → Except Exc Val) (parser : Option Parser)
    (parseArgs : Option Bool) (argsIn : Option (List String)) (dictIn : Option Ctx) :
    Option (Except Exc Ctx) :=
  let ctx0 : Ctx := dictIn.getD []
  if getParseInput parseArgs argsIn dictIn.isSome then
    match parser with
    | none => some (.ok ctx0)
    | some p =>
      match parse loads p (argsIn.getD []) with
      | .error e => some (.error e)
      | .ok none => some (.ok ctx0)
      | .ok (some (.dict d)) => (updateFrom ctx0 d).map .ok
      | .ok (some _) => none
  else some (.ok ctx0)

/-! ## 5. Shortcuts

`Pipeline.new_pipe_and_args`: when `config.shortcuts` has a (truthy) entry under the pipeline name
the caller gave, every argument of the run is rewritten from it before `_get_parse_input` decides
whether the parser runs. `config.shortcuts` is a plain dict loaded from the config files; a
shortcut is a dict. Domain: string keys; `pipeline_name`, `success`, `failure`, `loader`, `py_dir`
absent / null / a string; `parser_args` absent / null / a string (a `ConfigError`) / a list of
strings; `skip_parse` absent / null / a bool; `args` absent / null / a dict with string keys;
`groups` absent / null / a string / a list of strings. Anything else is `none` (outside). -/

/-- The arguments of `Pipeline.new_pipe_and_args` (= those of `pipelinerunner.run`). -/
structure ApiCall where
  name        : String
  contextArgs : Option (List String) := none
  parseInput  : Option Bool := none
  dictIn      : Option Ctx := none
  loader      : Option String := none
  groups      : Option (List String) := none
  success     : Option String := none
  failure     : Option String := none
  pyDir       : Option String := none
  deriving Repr, DecidableEq, Inhabited

/-- `py_dir` of the new `Pipeline`: what the caller passed, or `Path(dir_str)` of the shortcut
    (`pathlib`'s normalisation of the text is CPython's). -/
inductive PyDir where
  | caller (d : Option String)
  | path (raw : String)
  deriving Repr, DecidableEq, Inhabited

/-- The new `Pipeline`'s attributes and the dict handed to `Context(…)`. -/
structure Resolved where
  name        : String
  contextArgs : Option (List String)
  parseInput  : Bool
  dictIn      : Option Ctx
  loader      : Option String
  groups      : Option (List String)
  success     : Option String
  failure     : Option String
  pyDir       : PyDir
  deriving Repr, DecidableEq, Inhabited

def configErrorNoName (shortcut : String) : Exc :=
  ⟨"pypyr.errors.ConfigError", "shortcut '" ++ shortcut ++ "' has no pipeline_name set. You must set pipeline_name " ++
    "for this shortcut in config so that pypyr knows which pipeline to run."⟩

def configErrorParserArgs (shortcut : String) : Exc :=
  ⟨"pypyr.errors.ConfigError", "shortcut '" ++ shortcut ++ "' parser_args should be a list, not a string."⟩

/-- A list of strings. -/
def strsOfVals : List Val → Option (List String)
  | [] => some []
  | .str s :: rest => (strsOfVals rest).map (s :: ·)
  | _ :: _ => none

/-- A dict with string keys as a context. -/
def ctxOfDict : List (Val × Val) → Option Ctx
  | [] => some []
  | (.str k, v) :: rest => (ctxOfDict rest).map ((k, v) :: ·)
  | _ :: _ => none

/-- `shortcut.get(key, default)` for a value that must be null or a string. Outer `none`: outside. -/
def getStrOr (sc : List (Val × Val)) (key : String) (default : Option String) : Option (Option String) :=
  match dictGet? sc (.str key) with
  | none => some default
  | some .none => some none
  | some (.str s) => some (some s)
  | some _ => none

/-- The case of no shortcut: the arguments as given, `parse_input` decided by `_get_parse_input`. -/
def resolveDirect (c : ApiCall) : Resolved :=
  { name := c.name, contextArgs := c.contextArgs,
    parseInput := getParseInput c.parseInput c.contextArgs c.dictIn.isSome,
    dictIn := c.dictIn, loader := c.loader, groups := c.groups, success := c.success, failure := c.failure,
    pyDir := .caller c.pyDir }

/-- `parser_args`: a non-empty list is put *before* the caller's arguments (always a new list); a
    non-empty string is a `ConfigError`; absent / null / empty leaves the caller's arguments (`None`
    or a list) as they are. -/
def scContextArgs (shortcutName : String) (sc : List (Val × Val)) (callerArgs : Option (List String)) :
    Option (Except Exc (Option (List String))) :=
  match dictGet? sc (.str "parser_args") with
  | none => some (.ok callerArgs)
  | some .none => some (.ok callerArgs)
  | some (.str s) => if s = "" then some (.ok callerArgs) else some (.error (configErrorParserArgs shortcutName))
  | some (.list xs) =>
    match strsOfVals xs with
    | none => none
    | some pa =>
      if pa.isEmpty then some (.ok callerArgs)
      else if argsTruthy callerArgs then some (.ok (some (pa ++ callerArgs.getD [])))
      else some (.ok (some pa))
  | some _ => none

/-- `skip_parse`: `parse_input = None if skip_parse is None else not skip_parse` - the caller's
    `parse_input` is dropped whenever a shortcut applies. -/
def scParseIn (sc : List (Val × Val)) : Option (Option Bool) :=
  match dictGet? sc (.str "skip_parse") with
  | none => some none
  | some .none => some none
  | some (.bool b) => some (some (!b))
  | some _ => none

/-- `args`: a non-empty dict is copied and the caller's `dict_in` (if truthy) `update`d over it;
    absent / null / empty leaves the caller's `dict_in` as it is. -/
def scDictIn (sc : List (Val × Val)) (callerDict : Option Ctx) : Option (Option Ctx) :=
  match dictGet? sc (.str "args") with
  | none => some callerDict
  | some .none => some callerDict
  | some (.dict kvs) =>
    match ctxOfDict kvs with
    | none => none
    | some scd =>
      if scd.isEmpty then some callerDict
      else match callerDict with
        | none => some (some scd)
        | some d => if d.isEmpty then some (some scd) else some (some (Ctx.update scd d))
  | some _ => none

/-- `groups`: `shortcut.get('groups', groups)`; a string means a single group; a key present with
    null *replaces* the caller's groups by `None`. -/
def scGroups (sc : List (Val × Val)) (callerGroups : Option (List String)) : Option (Option (List String)) :=
  match dictGet? sc (.str "groups") with
  | none => some callerGroups
  | some .none => some none
  | some (.str s) => some (some [s])
  | some (.list xs) => (strsOfVals xs).map some
  | some _ => none

/-- `py_dir`: only a truthy value overrides (`Path(dir_str)`). -/
def scPyDir (sc : List (Val × Val)) (callerDir : Option String) : Option PyDir :=
  match getStrOr sc "py_dir" none with
  | none => none
  | some none => some (.caller callerDir)
  | some (some s) => if s = "" then some (.caller callerDir) else some (.path s)

/-- The body of `if shortcut:` in `new_pipe_and_args` followed by `_get_parse_input` and the
    constructor call, statement by statement (an earlier `raise` wins over anything a later
    statement would do). Outer `none`: outside the modelled domain. -/
def resolveWith (shortcutName : String) (sc : List (Val × Val)) (c : ApiCall) : Option (Except Exc Resolved) :=
  -- name = shortcut.get('pipeline_name'); if not name: raise ConfigError
  match getStrOr sc "pipeline_name" none with
  | none => none
  | some none => some (.error (configErrorNoName shortcutName))
  | some (some name) =>
    if name = "" then some (.error (configErrorNoName shortcutName))
    else match scContextArgs shortcutName sc c.contextArgs with
      | none => none
      | some (.error e) => some (.error e)
      | some (.ok contextArgs) =>
        match scParseIn sc, scDictIn sc c.dictIn, scGroups sc c.groups, getStrOr sc "success" c.success,
              getStrOr sc "failure" c.failure, getStrOr sc "loader" c.loader, scPyDir sc c.pyDir with
        | some parseIn, some dictIn, some groups, some success, some failure, some loader, some pyDir =>
          some (.ok { name := name, contextArgs := contextArgs,
                      parseInput := getParseInput parseIn contextArgs dictIn.isSome,
                      dictIn := dictIn, loader := loader, groups := groups, success := success,
                      failure := failure, pyDir := pyDir })
        | _, _, _, _, _, _, _ => none

/-- `Pipeline.new_pipe_and_args` for a given `config.shortcuts` (name ↦ shortcut, in the order of
    the config dict; a later duplicate cannot exist in a dict). `if config.shortcuts:` and
    `if shortcut:` are truthiness tests: an empty table, a missing entry, a null entry and an
    *empty* shortcut dict all mean "no shortcut". Outer `none`: outside the modelled domain. -/
def applyShortcut (shortcuts : Ctx) (c : ApiCall) : Option (Except Exc Resolved) :=
  match shortcuts.get? c.name with
  | none => some (.ok (resolveDirect c))
  | some .none => some (.ok (resolveDirect c))
  | some (.dict []) => some (.ok (resolveDirect c))
  | some (.dict sc) => resolveWith c.name sc c
  | some _ => none

/-- The call `cli.main` makes, as `new_pipe_and_args` receives it (`pipelinerunner.run` passes
    `dict_in=None`, `loader=None`). -/
def RunCall.toApi (r : RunCall) : ApiCall :=
  { name := r.pipelineName, contextArgs := some r.argsIn, parseInput := r.parseArgs, dictIn := none,
    loader := none, groups := r.groups, success := r.successGroup, failure := r.failureGroup, pyDir := r.pyDir }

/-- `Context(args) if args else Context()` in `pipelinerunner.run`. -/
def contextOfDict (d : Option Ctx) : Ctx := d.getD []

/-! ## 6. The context parser raises: which handler `Pipeline._run_pipeline` runs

`_run_pipeline` first applies its defaulting rule to `(groups, success_group, failure_group)`, then
calls `_prepare_context` inside `try … except Exception:`; the handler of that `except` is
`steps_runner.run_failure_step_group(failure_group)` with the failure group AFTER the defaulting -
`None` when `--groups` and/or `--success` were given without `--failure`. -/

/-- `--groups`, `--success`, `--failure` as `Pipeline` holds them. -/
structure GroupArgs where
  groups : Option (List String) := none
  success : Option String := none
  failure : Option String := none
  deriving Repr, DecidableEq, Inhabited

/-- `bool(name)` -/
def strTruthy : Option String → Bool
  | some s => s != ""
  | none => false

/-- `bool(groups)` -/
def groupsTruthy : Option (List String) → Bool
  | some (_ :: _) => true
  | _ => false

/-- the top of `_run_pipeline`: `if not groups: groups = [default_group]; if not success and not
    failure: success, failure = default_success_group, default_failure_group`. -/
def effectiveArgs (g : GroupArgs) : List String × Option String × Option String :=
  if groupsTruthy g.groups then (g.groups.getD [], g.success, g.failure)
  else if !strTruthy g.success && !strTruthy g.failure then (["steps"], some "on_success", some "on_failure")
  else (["steps"], g.success, g.failure)

/-- the group handed to `run_failure_step_group` -/
def failureHandler (g : GroupArgs) : Option String := (effectiveArgs g).2.2

/-- How `StepsRunner.run_failure_step_group(name)` ends: nothing ran (no name, or the pipeline has no
    such group), the group ran to its end (an error inside it is logged and swallowed), or a
    Stop-family instruction inside it (re-raised). -/
inductive HandlerEnd where
  | nothingRan | completed | stopStepGroup | stopPipeline | stop
  deriving Repr, DecidableEq, Inhabited

/-- `body name`: how the group `name` of the pipeline ends when run as failure handler; `none`: the
    pipeline has no group of that name. -/
def runHandler (body : String → Option HandlerEnd) : Option String → HandlerEnd
  | none => .nothingRan
  | some n => (body n).getD .nothingRan

/-- the groups that ran when the parser failed: the handler, if it names a group of the pipeline -/
def ranOnParserFailure (body : String → Option HandlerEnd) (g : GroupArgs) : List String :=
  match failureHandler g with
  | some n => if (body n).isSome then [n] else []
  | none => []

/-- the `except Exception:` block around `_prepare_context`: `except StopStepGroup: pass`,
    `except StopPipeline: return`, a `Stop` goes on up, otherwise `raise` (the parser's error). -/
def parserFailed (e : Raised) : HandlerEnd → Raised
  | .stop => .stop
  | .stopPipeline => .nothing
  | _ => e

/-- what leaves `load_and_run_pipeline` when the context parser raised `e` -/
def parserFailure (body : String → Option HandlerEnd) (g : GroupArgs) (e : Raised) : Raised :=
  parserFailed e (runHandler body (failureHandler g))

/-! ## 7. Parser results are new objects

What a parser returns is `update()`d into the context: the TOP level is copied, the containers
below it (`argDict`, `argList`) are the very objects the parser built, and steps fill them in
place. "A function of the argument list" therefore needs every call to build its result anew: a
result (or part of one) that lives at module level would carry what earlier runs in the process
wrote into it. `Src` says where a call takes its result from. -/

inductive Src where
  | fresh               -- built by this call (dict display / comprehension / `json.loads`)
  | cell (k : Nat)      -- a module-level object, shared by all calls that return it
  deriving Repr, DecidableEq, Inhabited

/-- One thing that happens in a process. -/
inductive POp where
  | call (p : Parser) (args : List String)
  /-- a step rewrites the result object of the `i`-th call so far in place (through the context) -/
  | mutate (i : Nat) (v : Val)

/-- `objs`: the result object of every call so far - `(where it lives, its content NOW)`;
    `shared`: the module-level cells, created on first use with the value the parser computes. -/
structure ParserProc where
  objs : List (Src × Option Val) := []
  shared : List (Nat × Option Val) := []

def sharedGet (sh : List (Nat × Option Val)) (k : Nat) : Option (Option Val) := sh.lookup k

def sharedSet (sh : List (Nat × Option Val)) (k : Nat) (v : Option Val) : List (Nat × Option Val) :=
  (k, v) :: sh.filter (fun e => e.1 != k)

/-- a sequence of parser calls and in-place mutations in one process; the results of the calls in order -/
def runPOps (loads : String → Except Exc Val) (src : Parser → List String → Src) :
    ParserProc → List POp → List (Except Exc (Option Val))
  | _, [] => []
  | st, .call p args :: rest =>
    match parse loads p args with
    | .error e => .error e :: runPOps loads src st rest
    | .ok v =>
      match src p args with
      | .fresh => .ok v :: runPOps loads src { st with objs := st.objs ++ [(.fresh, v)] } rest
      | .cell k =>
        match sharedGet st.shared k with
        | some cur => .ok cur :: runPOps loads src { st with objs := st.objs ++ [(.cell k, cur)] } rest
        | none => .ok v :: runPOps loads src { objs := st.objs ++ [(.cell k, v)], shared := sharedSet st.shared k v } rest
  | st, .mutate i v :: rest =>
    match st.objs[i]? with
    | some (.cell k, _) => runPOps loads src { st with shared := sharedSet st.shared k (some v) } rest
    | _ => runPOps loads src st rest

/-- the parsers of the tree as it is: every `return` builds a new object (tied to the source by
    `Generated.CliMain.parserReturns`) -/
def parserSrc : Parser → List String → Src := fun _ _ => .fresh

/-! ## 8. The run phase: what the step groups raise × what the failure handler does

`StepsRunner.run_step_groups(groups, success_group, failure_group)`:

```
try:
    for step_group in groups: self.run_step_group(step_group)
    if success_group: self.run_step_group(success_group)
except (ControlOfFlowInstruction, Stop): raise
except Exception:
    do_raise = True
    if failure_group:
        try: self.run_failure_step_group(failure_group)
        except StopStepGroup: do_raise = False
    if do_raise: raise
```

`run_step_group(name, raise_stop=False)` swallows a `StopStepGroup` (the group ends, the next one starts);
`run_failure_step_group` calls it with `raise_stop=True` under `except Stop: raise / except Exception: swallow`.
An exception leaving the failure handler REPLACES the one being handled. Which `except` clause a raised object
meets is decided by its class: the clauses are data here (`RunLadders`), tied to the source by
`Props/C18.lean run_ladders_agree` (extracted: `Generated/Ladders.lean`). -/

/-- The classes on the MRO of what is raised, as far as pypyr's `except` clauses can name them. `.error` is
    any `Exception` outside the Stop family and outside `ControlOfFlowInstruction` (`Call`/`Jump` never leave
    a step group: `Step.invoke_step` / `run_step_group` deal with them). -/
def Raised.classes : Raised → List String
  | .nothing => []
  | .stop => ["Stop", "Error", "Exception", "BaseException"]
  | .stopPipeline => ["StopPipeline", "Stop", "Error", "Exception", "BaseException"]
  | .stopStepGroup => ["StopStepGroup", "Stop", "Error", "Exception", "BaseException"]
  | .keyboardInterrupt => ["KeyboardInterrupt", "BaseException"]
  | .error _ _ => ["Exception", "BaseException"]
  | .systemExit _ => ["SystemExit", "BaseException"]
  | .baseOther _ _ => ["BaseException"]

/-- `except (A, B, …):` matches what was raised. -/
def clauseCatches (clause : List String) (r : Raised) : Bool := clause.any fun c => r.classes.contains c

/-- The `except` clauses of the run phase, as class-name lists. -/
structure RunLadders where
  /-- `run_step_groups`, 1st clause: re-raise -/
  reraise : List String := ["ControlOfFlowInstruction", "Stop"]
  /-- `run_step_groups`, 2nd clause: run the failure handler -/
  toHandler : List String := ["Exception"]
  /-- `run_step_groups`, inner `try` around the handler: drop the original (`do_raise = False`) -/
  dropOriginal : List String := ["StopStepGroup"]
  /-- `run_failure_step_group`, 1st clause: re-raise -/
  handlerReraise : List String := ["Stop"]
  /-- `run_failure_step_group`, 2nd clause: log and swallow -/
  handlerSwallow : List String := ["Exception"]
  deriving Repr, DecidableEq, Inhabited

/-- The ladders as they are in pypyr/stepsrunner.py. -/
def codeLadders : RunLadders := {}

/-- `run_step_group(name, raise_stop)` given what leaves the group's steps (`.nothing`: all steps done). -/
def runStepGroup (raiseStop : Bool) (e : Raised) : Raised :=
  match e with
  | .stopStepGroup => if raiseStop then .stopStepGroup else .nothing
  | e => e

/-- the `for` over the main groups: the first group that does not end normally ends the loop -/
def runMainGroups : List Raised → Raised
  | [] => .nothing
  | e :: rest => match runStepGroup false e with
    | .nothing => runMainGroups rest
    | r => r

/-- number of main groups that were started -/
def mainGroupsStarted : List Raised → Nat
  | [] => 0
  | e :: rest => match runStepGroup false e with
    | .nothing => mainGroupsStarted rest + 1
    | _ => 1

/-- the `try` body of `run_step_groups`: main groups, then the success group (`none`: not given / the
    pipeline has no group of that name) -/
def tryBody (mains : List Raised) (success : Option Raised) : Raised :=
  match runMainGroups mains with
  | .nothing => match success with
    | some s => runStepGroup false s
    | none => .nothing
  | r => r

/-- did the success group start? -/
def successStarted (mains : List Raised) (success : Option Raised) : Bool :=
  runMainGroups mains = .nothing && success.isSome

/-- `run_failure_step_group(name)` given what leaves the handler group's steps. -/
def runFailureStepGroup (L : RunLadders) (h : Raised) : Raised :=
  match runStepGroup true h with
  | .nothing => .nothing
  | e => if clauseCatches L.handlerReraise e then e else if clauseCatches L.handlerSwallow e then .nothing else e

/-- does the failure handler run? (`failure = none`: no failure group given, or the pipeline has no group
    of that name - `run_step_group` then does nothing) -/
def handlerRuns (L : RunLadders) (mains : List Raised) (success : Option Raised) (failure : Option Raised) : Bool :=
  let b := tryBody mains success
  b != .nothing && !clauseCatches L.reraise b && clauseCatches L.toHandler b && failure.isSome

/-- `run_step_groups` over ladders `L`: what leaves it. `failure = some h`: the failure group exists and what
    leaves its steps is `h`. -/
def runStepGroupsL (L : RunLadders) (mains : List Raised) (success : Option Raised) (failure : Option Raised) : Raised :=
  let b := tryBody mains success
  if b = .nothing then .nothing
  else if clauseCatches L.reraise b then b
  else if clauseCatches L.toHandler b then
    match failure with
    | none => b
    | some h =>
      match runFailureStepGroup L h with
      | .nothing => b                                   -- `if do_raise: raise`: the original
      | hr => if clauseCatches L.dropOriginal hr then .nothing  -- `except StopStepGroup: do_raise = False`
              else hr                                   -- leaves the handler: replaces the original
  else b

/-- `run_step_groups` as it is in the code. -/
def runStepGroups (mains : List Raised) (success : Option Raised) (failure : Option Raised) : Raised :=
  runStepGroupsL codeLadders mains success failure

/-- exit status of `pypyr <pipeline>` whose run phase goes that way -/
def runPhaseStatus (mains : List Raised) (success : Option Raised) (failure : Option Raised) : Option Nat :=
  exitStatus (runStepGroups mains success failure)

/-- A counter-model for the static tie: the handler clause widened to `except BaseException`. -/
def wideLadders : RunLadders := { toHandler := ["BaseException"] }

end Pypyr.Cli
