/-
  Model of pypyr's command line and argument-to-context contract (C18).

  Mirrors, as the code is now:
    * `pypyr.cli.main` (the `try/except` ladder and its return values; the three calls it makes after
      argument parsing - `config.init()`, `set_root_logger(…)`, `pipelinerunner.run(…)` - each of which
      may raise, and where each sits relative to the `try`: §1b), `pypyr.__main__.main`
      (`sys.exit(main())`), `pypyr.pipeline.Pipeline.run` (the `except Stop` clause).
    * `pypyr.cli.get_parser` / `get_args`: argparse as configured there, on the argv grammar
      described at `classify` below (exact long options, no abbreviations, no `--opt=value`).
    * the seven built-in context parsers `pypyr.parser.{keyvaluepairs,argskwargs,dict,list,string,
      keys,json}.get_parsed_context`.
    * `Pipeline._get_parse_input`, `Pipeline._prepare_context`, `pipelinerunner.run`
      (`Context(args) if args else Context()`), without shortcuts.

  argparse, `str.partition`, `str.join`, `json.loads` are CPython; what the model assumes of them
  is validated by the correspondence harness on generated inputs.
-/
import PypyrModel.Val

namespace Pypyr.Cli

/-! ## 1. Exit status -/

/-- What escapes `Pipeline.load_and_run_pipeline` (or `config.init` / logger set-up). -/
inductive Raised where
  | nothing
  | stop
  | stopPipeline
  | stopStepGroup
  | keyboardInterrupt
  | error (ty : String) (msg : String)     -- any other `Exception`: `type(e).__name__`, `str(e)`
  deriving Repr, DecidableEq, Inhabited

/-- `Pipeline.run`: `try: self.load_and_run_pipeline(context) except Stop: …` —
    `StopPipeline` and `StopStepGroup` are subclasses of `Stop`. -/
def pipelineRun : Raised → Raised
  | .stop | .stopPipeline | .stopStepGroup => .nothing
  | r => r

structure MainResult where
  ret    : Option Nat      -- return value of `cli.main` (`None` when the `try` block falls through)
  stdout : String          -- written by `main` itself
  stderr : String          -- written by `main` itself, before any traceback
  deriving Repr, DecidableEq, Inhabited

/-- The `try/except` ladder of `pypyr.cli.main`. -/
def cliMain : Raised → MainResult
  | .keyboardInterrupt => ⟨some (128 + 2), "\n", ""⟩
  | .error ty msg => ⟨some 255, "", "\n" ++ "\x1b[91m" ++ ty ++ ": " ++ msg ++ "\x1b[0;0m" ++ "\n"⟩
  -- a `Stop` cannot reach `main` through `Pipeline.run`; raised from elsewhere it is an `Exception`
  | .stop => ⟨some 255, "", "\n" ++ "\x1b[91m" ++ "Stop" ++ ": " ++ "" ++ "\x1b[0;0m" ++ "\n"⟩
  | .stopPipeline => ⟨some 255, "", "\n" ++ "\x1b[91m" ++ "StopPipeline" ++ ": " ++ "" ++ "\x1b[0;0m" ++ "\n"⟩
  | .stopStepGroup => ⟨some 255, "", "\n" ++ "\x1b[91m" ++ "StopStepGroup" ++ ": " ++ "" ++ "\x1b[0;0m" ++ "\n"⟩
  | .nothing => ⟨none, "", ""⟩

/-- `sys.exit(x)`: `None` is status 0. -/
def sysExit : Option Nat → Nat
  | none => 0
  | some n => n

/-- Exit status of the `pypyr` process given what escaped the pipeline run. -/
def exitStatus (r : Raised) : Nat := sysExit (cliMain (pipelineRun r)).ret

/-! ## 1b. The phases of `main`

After `parsed_args = get_args(args)` the body of `pypyr.cli.main` is three calls, all inside one
`try` whose handlers are `except KeyboardInterrupt: … return 128 + signal.SIGINT` and
`except Exception as e: … return 255`:

    try:
        config.init()
        pypyr.log.logger.set_root_logger(log_level=…, log_path=…)
        pypyr.pipelinerunner.run(pipeline_name=…, …)
    except KeyboardInterrupt: …
    except Exception as e: …

Each call may raise. *Where* each call sits relative to the `try` is data (`MainShape`), tied to the
source by `Generated/CliMain.lean` (harness/extract_c18.py) and `Props/C18.lean: main_shape_agrees`.
-/

/-- A call `pypyr.cli.main` makes once the arguments are parsed. -/
inductive Phase where
  | configInit       -- `config.init()`: config-file look-up and merge
  | setRootLogger    -- `pypyr.log.logger.set_root_logger(log_level=…, log_path=…)`
  | runPipeline      -- `pypyr.pipelinerunner.run(…)`: load + run
  deriving Repr, DecidableEq, Inhabited

/-- Dotted name of the called function as written in the source. -/
def Phase.callName : Phase → String
  | .configInit => "config.init"
  | .setRootLogger => "pypyr.log.logger.set_root_logger"
  | .runPipeline => "pypyr.pipelinerunner.run"

/-- Source order of the calls. -/
def Phase.idx : Phase → Nat
  | .configInit => 0
  | .setRootLogger => 1
  | .runPipeline => 2

/-- What the body of each call raises (`.nothing`: it returns). For `.runPipeline` this is what
    escapes `Pipeline.load_and_run_pipeline`; `Pipeline.run`'s `except Stop` is applied by
    `callRaises`. -/
abbrev Faults := Phase → Raised

/-- What escapes the call itself, as `main` sees it. Only the runner sits below `Pipeline.run`. -/
def callRaises (f : Faults) : Phase → Raised
  | .runPipeline => pipelineRun (f .runPipeline)
  | p => f p

/-- Statements in sequence: the first call that raises ends the sequence. -/
def seqRaises (f : Faults) : List Phase → Raised
  | [] => .nothing
  | p :: ps =>
    match callRaises f p with
    | .nothing => seqRaises f ps
    | r => r

/-- Where `main` makes its calls: before the `try` statement, or in its body. (There is no `else`,
    no `finally` and nothing after the `try`; the extractor reports calls in any of these positions
    and `main_shape_agrees` requires there to be none.) -/
structure MainShape where
  beforeTry : List Phase
  inTry     : List Phase
  deriving Repr, DecidableEq, Inhabited

/-- How a call of `main` ends. -/
inductive Outcome where
  | returned (m : MainResult)   -- `sys.exit(main())` then gives `sysExit m.ret`
  | escaped (r : Raised)        -- raised out of `main`: the interpreter prints a traceback; the status is
                                -- the interpreter's (1; death by SIGINT for `KeyboardInterrupt`), not pypyr's
  deriving Repr, DecidableEq, Inhabited

/-- `main` for a given placement of the calls: anything raised before the `try` leaves `main`;
    what the `try` body raises goes down the handler ladder `cliMain`. -/
def mainOf (s : MainShape) (f : Faults) : Outcome :=
  match seqRaises f s.beforeTry with
  | .nothing => .returned (cliMain (seqRaises f s.inTry))
  | r => .escaped r

/-- `pypyr.cli.main` as it is: all three calls inside the `try`. -/
def mainShape : MainShape := ⟨[], [.configInit, .setRootLogger, .runPipeline]⟩

/-- The handler ladder of that `try`, as the extractor renders it: caught classes and the source
    text of the returned expression. `cliMain` transliterates it (`128 + signal.SIGINT` = 130). -/
def mainHandlers : List (List String × String) :=
  [(["KeyboardInterrupt"], "128 + signal.SIGINT"), (["Exception"], "255")]

/-- The `sys.stderr.write(…)` arguments of the `except Exception as e` handler that come before
    anything else in it, source order; each argument as its f-string pieces:
    `(false, text)` literal text, `(true, src)` a `{src}` replacement field. -/
def mainStderrWrites : List (List (Bool × String)) :=
  [[(false, "\n")],
   [(false, "\x1b[91m"), (true, "type(e).__name__"), (false, ": "), (true, "str(e)"), (false, "\x1b[0;0m")],
   [(false, "\n")]]

/-- Evaluate those pieces for an exception of type name `ty` and `str(e) = msg`; a replacement
    field the model does not know renders as `none`. -/
def renderPieces (ty msg : String) : List (Bool × String) → Option String
  | [] => some ""
  | (false, t) :: rest => (renderPieces ty msg rest).map (t ++ ·)
  | (true, src) :: rest =>
    if src = "type(e).__name__" then (renderPieces ty msg rest).map (ty ++ ·)
    else if src = "str(e)" then (renderPieces ty msg rest).map (msg ++ ·)
    else none

def renderWrites (ty msg : String) : List (List (Bool × String)) → Option String
  | [] => some ""
  | w :: ws => match renderPieces ty msg w, renderWrites ty msg ws with
    | some a, some b => some (a ++ b)
    | _, _ => none

/-- `pypyr.cli.main` after argument parsing. -/
def mainPhases (f : Faults) : Outcome := mainOf mainShape f

/-- Exit status of the process; `none`: not a status pypyr chose (uncaught exception). -/
def Outcome.status : Outcome → Option Nat
  | .returned m => some (sysExit m.ret)
  | .escaped _ => none

/-- A fault in one phase only. -/
def faultAt (p : Phase) (r : Raised) : Faults := fun q => if q = p then r else .nothing

/-! ## 2. argv -/

inductive OptName where
  | groups | success | failure | dir | log | logpath
  deriving Repr, DecidableEq, Inhabited

/-- How argparse classifies one argv string *before* a `--` (`ArgumentParser._parse_optional`). -/
inductive Cls where
  | pos                    -- 'A'
  | opt (o : OptName)      -- 'O', one of this parser's exact option strings
  | dd                     -- the `--` separator
  | outside                -- anything else that starts with '-': abbreviation, `--opt=value`,
                           -- `--version`, `-h`, negative numbers, unknown options: not modelled
  deriving Repr, DecidableEq, Inhabited

def startsWithDash (s : String) : Bool :=
  match s.toList with
  | '-' :: _ => true
  | _ => false

def classify (s : String) : Cls :=
  if s = "--" then .dd
  else if s = "--groups" then .opt .groups
  else if s = "--success" then .opt .success
  else if s = "--failure" then .opt .failure
  else if s = "--dir" then .opt .dir
  else if s = "--log" then .opt .log
  else if s = "--loglevel" then .opt .log
  else if s = "--logpath" then .opt .logpath
  else if s = "-" then .pos
  else if startsWithDash s then .outside
  else .pos

inductive Tok where
  | pos (s : String)
  | opt (o : OptName)
  | dd
  deriving Repr, DecidableEq, Inhabited

/-- The pattern pass of `_parse_known_args`: after the first `--` every string is an argument.
    `none`: some string is outside the modelled grammar. -/
def tokenize : Bool → List String → Option (List Tok)
  | _, [] => some []
  | true, s :: rest => (tokenize true rest).map (Tok.pos s :: ·)
  | false, s :: rest =>
    match classify s with
    | .pos => (tokenize false rest).map (Tok.pos s :: ·)
    | .opt o => (tokenize false rest).map (Tok.opt o :: ·)
    | .dd => (tokenize true rest).map (Tok.dd :: ·)
    | .outside => none

/-- The namespace `get_args` returns (`py_dir = none` stands for the default `config.cwd`). -/
structure Args where
  name    : String := ""
  ctx     : List String := []
  groups  : Option (List String) := none
  success : Option String := none
  failure : Option String := none
  dir     : Option String := none
  log     : Option Nat := none
  logpath : Option String := none
  deriving Repr, DecidableEq, Inhabited

inductive Mode where
  | idle
  | needArg (o : OptName)    -- a one-argument option is waiting for its value
  | inGroups                 -- `--groups` is collecting ('A*')
  | afterDD                  -- `--` seen before the positionals: the next string is the name
  | afterName                -- pipeline_name matched ('-*A-*'): a directly following `--` belongs to it
  | inCtx                    -- context_args is collecting ('-*[A-]*')
  deriving Repr, DecidableEq, Inhabited

structure PSt where
  mode    : Mode := .idle
  hasName : Bool := false
  args    : Args := {}
  deriving Repr, DecidableEq, Inhabited

/-- `type=int` of `--log`, on plain decimal digit strings (other spellings `int()` accepts are
    outside the modelled grammar and rejected by the driver). -/
def parseNat? (s : String) : Option Nat :=
  let cs := s.toList
  if cs.isEmpty || !cs.all Char.isDigit then none
  else some (cs.foldl (fun n c => n * 10 + (c.toNat - '0'.toNat)) 0)

def setOpt (a : Args) (o : OptName) (s : String) : Option Args :=
  match o with
  | .success => some { a with success := some s }
  | .failure => some { a with failure := some s }
  | .dir => some { a with dir := some s }
  | .logpath => some { a with logpath := some s }
  | .log => (parseNat? s).map fun n => { a with log := some n }
  | .groups => none

/-- What happens at an option string or at a positional when no option is collecting. -/
def stepIdle (st : PSt) (t : Tok) : Option PSt :=
  match t with
  | .opt .groups => some { st with mode := .inGroups, args := { st.args with groups := some [] } }
  | .opt o => some { st with mode := .needArg o }
  | .pos s => if st.hasName then none   -- both positionals are consumed together: this is an "extra"
              else some { st with mode := .afterName, hasName := true, args := { st.args with name := s } }
  | .dd => if st.hasName then none else some { st with mode := .afterDD }

/-- One argv string. `none` = argparse calls `error()` (exit status 2). -/
def step (st : PSt) (t : Tok) : Option PSt :=
  match st.mode, t with
  | .idle, t => stepIdle st t
  | .needArg o, .pos s => (setOpt st.args o s).map fun a => { st with mode := .idle, args := a }
  | .needArg _, _ => none                                   -- "expected one argument"
  | .inGroups, .pos s =>
    some { st with args := { st.args with groups := some ((st.args.groups.getD []) ++ [s]) } }
  | .inGroups, t => stepIdle st t
  | .afterDD, .pos s => some { st with mode := .afterName, hasName := true, args := { st.args with name := s } }
  | .afterDD, _ => none
  | .afterName, .dd => some { st with mode := .inCtx }
  | .afterName, .pos s => some { st with mode := .inCtx, args := { st.args with ctx := st.args.ctx ++ [s] } }
  | .afterName, t => stepIdle st t
  | .inCtx, .pos s => some { st with args := { st.args with ctx := st.args.ctx ++ [s] } }
  | .inCtx, .dd => some { st with args := { st.args with ctx := st.args.ctx ++ ["--"] } }
  | .inCtx, t => stepIdle st t

def run : PSt → List Tok → Option PSt
  | st, [] => some st
  | st, t :: ts => match step st t with
    | none => none
    | some st' => run st' ts

/-- End of argv: a pending one-argument option or a missing pipeline name is an error;
    `_get_values` removes the first `'--'` from the strings matched by `context_args`. -/
def finish (st : PSt) : Option Args :=
  match st.mode with
  | .needArg _ => none
  | .afterDD => none
  | _ => if st.hasName then some { st.args with ctx := st.args.ctx.erase "--" } else none

inductive ArgvResult where
  | outside                 -- not in the modelled grammar
  | usage                   -- argparse `error()`: SystemExit(2)
  | ok (a : Args)
  deriving Repr, DecidableEq, Inhabited

/-- `pypyr.cli.get_args`. -/
def parseArgv (argv : List String) : ArgvResult :=
  match tokenize false argv with
  | none => .outside
  | some toks =>
    match run {} toks with
    | none => .usage
    | some st => match finish st with
      | none => .usage
      | some a => .ok a

/-- An option as written on a command line. -/
inductive Opt where
  | groups (gs : List String)
  | success (s : String)
  | failure (s : String)
  | dir (s : String)
  | log (s : String)        -- as written: a decimal digit string
  | logpath (s : String)
  deriving Repr, DecidableEq, Inhabited

def Opt.render : Opt → List String
  | .groups gs => "--groups" :: gs
  | .success s => ["--success", s]
  | .failure s => ["--failure", s]
  | .dir s => ["--dir", s]
  | .log s => ["--log", s]
  | .logpath s => ["--logpath", s]

def Opt.apply (a : Args) : Opt → Args
  | .groups gs => { a with groups := some gs }
  | .success s => { a with success := some s }
  | .failure s => { a with failure := some s }
  | .dir s => { a with dir := some s }
  | .log s => { a with log := parseNat? s }
  | .logpath s => { a with logpath := some s }

def renderOpts (os : List Opt) : List String := (os.map Opt.render).flatten

def applyOpts (a : Args) (os : List Opt) : Args := os.foldl Opt.apply a

/-- What `cli.main` hands to `pipelinerunner.run`. -/
structure RunCall where
  pipelineName : String
  argsIn       : List String
  parseArgs    : Option Bool
  groups       : Option (List String)
  successGroup : Option String
  failureGroup : Option String
  pyDir        : Option String
  deriving Repr, DecidableEq, Inhabited

/-- The call in `pypyr.cli.main`. -/
def runCallOf (a : Args) : RunCall :=
  { pipelineName := a.name, argsIn := a.ctx, parseArgs := some true, groups := a.groups,
    successGroup := a.success, failureGroup := a.failure, pyDir := a.dir }

/-- Exit status of the process for an argv and a given behaviour of the pipeline run. -/
def cliProcess (argv : List String) (runs : RunCall → Raised) : Option Nat :=
  match parseArgv argv with
  | .outside => none
  | .usage => some 2
  | .ok a => some (exitStatus (runs (runCallOf a)))

/-- The same with a fault possible in every phase of `main`: `cfg` / `log` are what `config.init()`
    / `set_root_logger(log_level, log_path)` raise, `runs` what escapes the pipeline run for the
    call `main` makes. -/
def cliProcessPhases (argv : List String) (cfg : Raised) (log : Option Nat → Option String → Raised)
    (runs : RunCall → Raised) : Option Outcome :=
  match parseArgv argv with
  | .outside => none
  | .usage => some (.returned ⟨some 2, "", ""⟩)
  | .ok a => some (mainPhases fun
      | .configInit => cfg
      | .setRootLogger => log a.log a.logpath
      | .runPipeline => runs (runCallOf a))

/-! ## 3. Context parsers -/

/-- `str.partition('=')` on characters: text before the first `=`, whether there is one, text after. -/
def partitionEq : List Char → List Char × Bool × List Char
  | [] => ([], false, [])
  | c :: cs =>
    if c = '=' then ([], true, cs)
    else let r := partitionEq cs; (c :: r.1, r.2.1, r.2.2)

def keyOf (a : String) : String := String.ofList (partitionEq a.toList).1
def hasSep (a : String) : Bool := (partitionEq a.toList).2.1
def valOf (a : String) : String := String.ofList (partitionEq a.toList).2.2

/-- `' '.join(args)`. -/
def joinSp : List String → String
  | [] => ""
  | [a] => a
  | a :: b :: rest => a ++ " " ++ joinSp (b :: rest)

/-- `{k: v for k, _, v in (e.partition('=') for e in args)}`: a dict comprehension assigns left to
    right, so a repeated key keeps its first position and takes the later value. -/
def kvDict (args : List String) : List (Val × Val) :=
  args.foldl (fun d a => dictSet d (.str (keyOf a)) (.str (valOf a))) []

def strList (xs : List String) : Val := .list (xs.map Val.str)

inductive Parser where
  | keyvaluepairs | argskwargs | dict | list | string | keys | json
  deriving Repr, DecidableEq, Inhabited

def typeErrorJson : Exc := ⟨"TypeError", "json input should describe an object at the top level"⟩

/-- The loop of `pypyr.parser.argskwargs.get_parsed_context`. -/
def argsKwargsLoop : List String → List (Val × Val) → List String → List (Val × Val) × List String
  | [], out, argList => (out, argList)
  | a :: rest, out, argList =>
    if hasSep a then argsKwargsLoop rest (dictSet out (.str (keyOf a)) (.str (valOf a))) argList
    else argsKwargsLoop rest out (argList ++ [a])

/-- `get_parsed_context(args)` of each built-in parser; `loads` stands for `json.loads`.
    Result `none` is Python `None`. -/
def parse (loads : String → Except Exc Val) (p : Parser) (args : List String) : Except Exc (Option Val) :=
  match p with
  | .keyvaluepairs => if args.isEmpty then .ok none else .ok (some (.dict (kvDict args)))
  | .argskwargs =>
    if args.isEmpty then .ok (some (.dict [(.str "argList", .list [])]))
    else
      let r := argsKwargsLoop args [] []
      .ok (some (.dict (dictSet r.1 (.str "argList") (strList r.2))))
  | .dict =>
    if args.isEmpty then .ok (some (.dict [(.str "argDict", .dict [])]))
    else .ok (some (.dict [(.str "argDict", .dict (kvDict args))]))
  | .list =>
    if args.isEmpty then .ok (some (.dict [(.str "argList", .list [])]))
    else .ok (some (.dict [(.str "argList", strList args)]))
  | .string =>
    if args.isEmpty then .ok (some (.dict [(.str "argString", .str "")]))
    else .ok (some (.dict [(.str "argString", .str (joinSp args))]))
  | .keys =>
    if args.isEmpty then .ok none
    else .ok (some (.dict (args.foldl (fun d a => dictSet d (.str a) (.bool true)) [])))
  | .json =>
    if args.isEmpty then .ok none
    else match loads (joinSp args) with
      | .error e => .error e
      | .ok (.dict d) => .ok (some (.dict d))
      | .ok _ => .error typeErrorJson

/-! ## 4. Does the parser run? -/

/-- Python truthiness of `args_in: list[str] | None`. -/
def argsTruthy : Option (List String) → Bool
  | none => false
  | some l => !l.isEmpty

/-- `Pipeline._get_parse_input(parse_args, args_in, dict_in)`; `dictGiven` is `dict_in is not None`. -/
def getParseInput (parseArgs : Option Bool) (argsIn : Option (List String)) (dictGiven : Bool) : Bool :=
  match parseArgs with
  | none => !(!argsTruthy argsIn && dictGiven)
  | some b => b

/-- `dict.update(parsed)` for a parsed mapping with string keys (others are outside the domain). -/
def updateFrom (c : Ctx) : List (Val × Val) → Option Ctx
  | [] => some c
  | (.str k, v) :: rest => updateFrom (c.set k v) rest
  | _ :: _ => none

/-- `pipelinerunner.run` up to the first step: `Context(dict_in) if dict_in else Context()`, then
    `Pipeline._prepare_context`: run the pipeline's `context_parser` (if it declares one) when
    `parse_input`, and `context.update(parsed)` when the result is truthy.
    Outer `none`: outside the modelled domain. -/
def initialContext (loads : String → Except Exc Val) (parser : Option Parser)
    (parseArgs : Option Bool) (argsIn : Option (List String)) (dictIn : Option Ctx) :
    Option (Except Exc Ctx) :=
  let ctx0 : Ctx := dictIn.getD []
  if getParseInput parseArgs argsIn dictIn.isSome then
    match parser with
    | none => some (.ok ctx0)
    | some p =>
      match parse loads p (argsIn.getD []) with
      | .error e => some (.error e)
      | .ok none => some (.ok ctx0)
      | .ok (some (.dict d)) => (updateFrom ctx0 d).map .ok
      | .ok (some _) => none
  else some (.ok ctx0)

end Pypyr.Cli
