/-
  PyRt — the runtime library under the code that `harness/translate.py` GENERATES from the Python
  source (`Generated/Translated*.lean`). Every definition here states, in Lean, what one Python
  primitive (operator, builtin, `str`/`list`/`dict`/`deque` method) is *assumed* to do on the value
  kinds the translator admits. That makes this file part of the trusted base: the equality theorems
  `translated_*_eq_model` (Props/Translated_*.lean) are about the translated definitions, which are
  only as faithful to CPython as these primitives. `harness/translate_selftest.py` evaluates the
  generated definitions on random inputs against the real functions to validate both this file and the
  translator dynamically.

  Value kinds (the translator's static types):
    Num            exact dyadic number n / 2^k with an int/float flag (`PypyrModel/PyEval.lean`):
                   Python `int` and those `float`s whose arithmetic is exact — rounding, inf, nan are
                   OUTSIDE this semantics; the models make the same restriction
    Nat            a non-negative Python `int` (iteration counters)
    Bool, String   `bool`, `str` (sequence of Unicode code points)
    List α         `list` / `tuple` / `deque` / a `set` in its iteration order
    Option α       α or `None`
    List (κ × ν)   `dict` in insertion order with unique keys (`dictSet` keeps them unique)
    Val            any of the above, dynamically typed (`PypyrModel/Val.lean`)

  No Mathlib, no `partial`; everything total and computable.
-/
import PypyrModel.Val
import PypyrModel.PyEval

namespace Pypyr.PyRt
open Pypyr

instance : Inhabited Num := ⟨⟨0, 0, false⟩⟩

/-! ## numbers -/

/-- an `int` literal / `int` value as a number. -/
def numOfInt (i : Int) : Num := ⟨i, 0, false⟩

/-- a non-negative `int` (a counter) used in arithmetic with numbers. -/
def natToNum (n : Nat) : Num := ⟨n, 0, false⟩

/-- `a + b`, `a - b`, `a * b` on numbers: exact; the result is a `float` iff an operand is. -/
def add (a b : Num) : Num := a.add b
def sub (a b : Num) : Num := a.sub b
def mul (a b : Num) : Num := a.mul b

/-- `a < b` etc. on numbers (int/float compare by value). -/
def lt (a b : Num) : Bool := a.cmp b == .lt
def le (a b : Num) : Bool := a.cmp b != .gt
def gt (a b : Num) : Bool := a.cmp b == .gt
def ge (a b : Num) : Bool := a.cmp b != .lt
/-- `a == b` on numbers: by value (`1 == 1.0`). -/
def numEq (a b : Num) : Bool := a.cmp b == .eq

/-- builtin `min(a, b)` with two positional numbers: the FIRST argument unless the second is
    strictly smaller (so `min(1, 1.0)` is `1`). -/
def pyMin (a b : Num) : Num := if b.cmp a == .lt then b else a

/-- builtin `max(a, b)`: the first argument unless the second is strictly greater. -/
def pyMax (a b : Num) : Num := if b.cmp a == .gt then b else a

/-- `pow(b, n)` / `b ** n` for a non-negative `int` exponent: `n`-fold exact product (`pow(b, 0)` is
    the int `1`). For floats this is CPython's result only while every partial product is exact. -/
def numPow (b : Num) : Nat → Num
  | 0 => ⟨1, 0, false⟩
  | n + 1 => (numPow b n).mul b

/-- `bool(x)` of a number: non-zero. -/
def truthyNum (x : Num) : Bool := x.n != 0

/-- `random.uniform(a, b)` is `a + (b - a) * random.random()` (CPython `Lib/random.py`); `r` is the
    value that call of `random.random()` returns — the one external input, handed in as a parameter. -/
def randomUniform (a b r : Num) : Num := a.add ((b.sub a).mul r)

/-- The union `number | list-or-set of numbers` (`retry.sleep`). `isinstance(x, (list, set))` is
    true exactly on `seq`; a set is represented by its iteration order. -/
inductive NumOrSeq where
  | num (x : Num)
  | seq (xs : List Num)
  deriving Repr, DecidableEq

instance : Inhabited NumOrSeq := ⟨.num default⟩

/-! ## truthiness -/

/-- `bool(s)` of a `str`: non-empty. -/
def truthyStr (s : String) : Bool := s != ""

/-- `bool(xs)` of a list / tuple / deque / set / dict: non-empty. -/
def truthyList {α : Type} (xs : List α) : Bool := !xs.isEmpty

/-- `bool(x)` where `x` may be `None`: `None` is falsy, otherwise the value's own truthiness. -/
def truthyOpt {α : Type} (t : α → Bool) : Option α → Bool
  | none => false
  | some x => t x

/-! ## sequences -/

/-- `collections.deque(iterable, maxlen)`: the LAST `maxlen` items of the iterable, in order. -/
def deque {α : Type} (xs : List α) (maxlen : Nat) : List α := xs.drop (xs.length - maxlen)

/-- `xs[-1]`: the last item; `IndexError` on an empty sequence (the message is not modelled). -/
def seqLast {α : Type} : List α → Except Exc α
  | [] => .error ⟨"IndexError", ""⟩
  | [x] => .ok x
  | _ :: y :: ys => seqLast (y :: ys)

/-- `xs[0]`: the first item; `IndexError` on an empty sequence. -/
def seqFirst {α : Type} : List α → Except Exc α
  | [] => .error ⟨"IndexError", ""⟩
  | x :: _ => .ok x

/-- `deque.popleft()` / `list.pop(0)`: the first item and the remaining sequence (the object is
    mutated in Python: the translator rebinds the variable); `IndexError` when empty. -/
def popleft {α : Type} : List α → Except Exc (α × List α)
  | [] => .error ⟨"IndexError", ""⟩
  | x :: rest => .ok (x, rest)

/-- `x in [a, b, …]` / `x in (a, b, …)` for a literal sequence: `==` against each item. -/
def inList {α : Type} [BEq α] (x : α) (xs : List α) : Bool := xs.contains x

/-! ## strings -/

/-- `s.lower()`. ASSUMED ASCII-ONLY: `A`–`Z` map to `a`–`z`, every other code point is unchanged.
    CPython lower-cases by the Unicode tables (e.g. `'É'.lower() == 'é'`, `'K'` KELVIN SIGN → `'k'`);
    on such input this primitive differs. The translated functions only compare the result with
    ASCII literals made of letters no non-ASCII code point lower-cases to (see Props/Translated_C04). -/
def strLower (s : String) : String := s.map Char.toLower

def partitionChars (c : Char) : List Char → List Char × Bool × List Char
  | [] => ([], false, [])
  | x :: xs =>
    if x = c then ([], true, xs)
    else let r := partitionChars c xs; (x :: r.1, r.2.1, r.2.2)

/-- `s.partition(sep)` for a ONE-character separator: text before the first `sep`, `sep` itself if
    it occurs (else `''`), text after it (else `''`). -/
def partitionChar (s : String) (c : Char) : String × String × String :=
  let r := partitionChars c s.toList
  (String.ofList r.1, if r.2.1 then String.singleton c else "", String.ofList r.2.2)

def rpartitionChars (c : Char) (cs : List Char) : List Char × Bool × List Char :=
  let r := partitionChars c cs.reverse
  if r.2.1 then (r.2.2.reverse, true, r.1.reverse) else ([], false, cs)

/-- `s.rpartition(sep)` for a ONE-character separator: split at the LAST `sep`; when absent the
    whole text is the third component. -/
def rpartitionChar (s : String) (c : Char) : String × String × String :=
  let r := rpartitionChars c s.toList
  (String.ofList r.1, if r.2.1 then String.singleton c else "", String.ofList r.2.2)

/-- `sep.join(xs)` for a list of `str`. -/
def strJoin (sep : String) : List String → String
  | [] => ""
  | [a] => a
  | a :: b :: rest => a ++ sep ++ strJoin sep (b :: rest)

/-! ## dicts (insertion ordered, unique keys) -/

/-- `d[k] = v`: an existing key keeps its position and takes the new value, a new key goes last. -/
def dictSet {κ ν : Type} [DecidableEq κ] (d : List (κ × ν)) (k : κ) (v : ν) : List (κ × ν) :=
  match d with
  | [] => [(k, v)]
  | (k', v') :: rest => if k' = k then (k', v) :: rest else (k', v') :: dictSet rest k v

/-- `dict(pairs)` / `{k: v for …}`: the pairs are assigned left to right into an empty dict. -/
def dictOfPairs {κ ν : Type} [DecidableEq κ] (ps : List (κ × ν)) : List (κ × ν) :=
  ps.foldl (fun d kv => dictSet d kv.1 kv.2) []

/-- `d.get(k, default)`. -/
def dictGetD {κ ν : Type} [DecidableEq κ] (d : List (κ × ν)) (k : κ) (dflt : ν) : ν :=
  match d with
  | [] => dflt
  | (k', v) :: rest => if k' = k then v else dictGetD rest k dflt

/-! ## objects -/

/-- `type(x)` as far as `get_error_name` looks at it: `__module__` and `__name__`. -/
structure PyType where
  module : String
  name : String
  deriving Repr, DecidableEq, Inhabited

/-- any object of which only its class is inspected. -/
structure PyObj where
  type : PyType
  deriving Repr, DecidableEq, Inhabited

end Pypyr.PyRt
