/-
  Basic model of pypyr formatting (`Context.get_formatted_value`,
  `get_formatted_as_type`, `RecursiveFormatter._format_keep_type`,
  `._get_formatted_iterable`) on the *simple* expression grammar used by the flow,
  merge and heap models:

      piece  := literal text | "{{" | "}}" | "{" key "}" | "{" key ":rf}" | "{" key ":ff}"
      key    := a context key without  . [ ] ! : { }  that is not all digits

  Everything else a format string can contain (index/attribute paths,
  conversions, format specs, nested specs) is the business of the faithful
  model `PypyrModel/Format.lean` (C08); here such input yields the
  distinguished `OutOfDomain` error, which the driver turns into a reject.

  Recursion that may diverge in the code (`a: '{a}'`) is fuel-indexed;
  running out of fuel is the distinguished error `OutOfFuel`.
-/
import PypyrModel.Val
import PypyrModel.PyRepr
import PypyrModel.PyEval

namespace Pypyr

inductive Piece where
  | lit (s : String)
  | field (name : String) (spec : String)
  deriving Repr, DecidableEq, Inhabited

def outOfDomain (what : String) : Exc := ⟨"OutOfDomain", what⟩
def outOfFuel : Exc := ⟨"OutOfFuel", ""⟩
def valueError (msg : String) : Exc := ⟨"ValueError", msg⟩
def keyNotInContext (k : String) : Exc :=
  ⟨"pypyr.errors.KeyNotInContextError", k ++ " not found in the pypyr context."⟩

/-- Read the text of a replacement field up to its matching `}`.
    Returns the field text and the rest after the `}`. -/
def readField : Nat → List Char → List Char → Option (List Char × List Char)
  | _, [], _ => none
  | depth, c :: rest, acc =>
    if c == '{' then readField (depth + 1) rest (c :: acc)
    else if c == '}' then
      if depth == 0 then some (acc.reverse, rest) else readField (depth - 1) rest (c :: acc)
    else readField depth rest (c :: acc)

def badNameChar (c : Char) : Bool :=
  c == '.' || c == '[' || c == ']' || c == '!' || c == '{' || c == '}'

def mkField (txt : List Char) : Except Exc Piece :=
  let name := txt.takeWhile (· != ':')
  let rest := txt.dropWhile (· != ':')
  let spec := match rest with
    | [] => []
    | _ :: s => s
  if name.isEmpty || name.all Char.isDigit || name.any badNameChar then
    .error (outOfDomain ("field name " ++ String.ofList name))
  else if spec == [] || spec == ['r', 'f'] || spec == ['f', 'f'] then
    .ok (.field (String.ofList name) (String.ofList spec))
  else .error (outOfDomain ("format spec " ++ String.ofList spec))

def flushLit (lit : List Char) (acc : List Piece) : List Piece :=
  if lit.isEmpty then acc else .lit (String.ofList lit.reverse) :: acc

/-- `string.Formatter.parse` on the simple grammar (fuel = length of input). -/
def parsePiecesAux : Nat → List Char → List Char → List Piece → Except Exc (List Piece)
  | 0, _, lit, acc => .ok (flushLit lit acc).reverse
  | _ + 1, [], lit, acc => .ok (flushLit lit acc).reverse
  | fuel + 1, c :: rest, lit, acc =>
    if c == '{' then
      match rest with
      | [] => .error (valueError "Single '{' encountered in format string")
      | '{' :: rest' => parsePiecesAux fuel rest' ('{' :: lit) acc
      | _ =>
        match readField 0 rest [] with
        | none => .error (valueError "expected '}' before end of string")
        | some (txt, rest') =>
          match mkField txt with
          | .error e => .error e
          | .ok p => parsePiecesAux fuel rest' [] (p :: flushLit lit acc)
    else if c == '}' then
      match rest with
      | '}' :: rest' => parsePiecesAux fuel rest' ('}' :: lit) acc
      | _ => .error (valueError "Single '}' encountered in format string")
    else parsePiecesAux fuel rest (c :: lit) acc

def parsePieces (s : String) : Except Exc (List Piece) :=
  parsePiecesAux (s.length + 1) s.toList [] []

/-- Exception-map with the first error winning, left to right. -/
def mapE {α β} (f : α → Except Exc β) : List α → Except Exc (List β)
  | [] => .ok []
  | x :: xs => match f x with
    | .error e => .error e
    | .ok y => match mapE f xs with
      | .error e => .error e
      | .ok ys => .ok (y :: ys)

def rebuildDict (kvs : List (Val × Val)) : List (Val × Val) :=
  kvs.foldl (fun acc kv => dictSet acc kv.1 kv.2) []

def litText : List Piece → String
  | [] => ""
  | .lit s :: rest => s ++ litText rest
  | .field _ _ :: rest => litText rest

mutual
/-- `_get_formatted_iterable(obj, …, is_recursive)` (memo not modelled: unobservable on trees). -/
def fmtIter : Nat → Ctx → Bool → Val → Except Exc Val
  | 0, _, _, _ => .error outOfFuel
  | fuel + 1, ctx, isRec, v =>
    match v with
    | .sic s => .ok (.str s)
    | .py e => evalPy ctx e
    | .jsonify w =>
      match fmtIter fuel ctx false w with
      | .error e => .error e
      | .ok fw => match jsonDumps fw with
        | some s => .ok (.str s)
        | none => .error ⟨"TypeError", "Object is not JSON serializable"⟩
    | .str s => fmtKeepType fuel ctx isRec s
    | .dict kvs =>
      match mapE (fun (kv : Val × Val) =>
          match fmtIter fuel ctx isRec kv.1 with
          | .error e => .error e
          | .ok k => match fmtIter fuel ctx isRec kv.2 with
            | .error e => .error e
            | .ok w => .ok (k, w)) kvs with
      | .error e => .error e
      | .ok kvs' => .ok (.dict (rebuildDict kvs'))
    | .list xs => (mapE (fmtIter fuel ctx isRec) xs).map .list
    | .tuple xs => (mapE (fmtIter fuel ctx isRec) xs).map .tuple
    | .set xs => (mapE (fmtIter fuel ctx isRec) xs).map fun ys => .set (setOfList ys)
    | other => .ok other

/-- One replacement field inside `_format_keep_type`: look the object up, recurse
    when `rf` (or when inside a recursive format and not `ff`). Returns the object
    and whether it has been recursed. -/
def fmtField : Nat → Ctx → Bool → String → String → Except Exc (Val × Bool)
  | 0, _, _, _, _ => .error outOfFuel
  | fuel + 1, ctx, isRec, name, spec =>
    match Ctx.get? ctx name with
    | none => .error (keyNotInContext name)
    | some obj =>
      if spec == "rf" || (isRec && spec != "ff") then
        match fmtIter fuel ctx true obj with
        | .error e => .error e
        | .ok o => .ok (o, true)
      else .ok (obj, false)

/-- `_format_keep_type(format_string, …, is_recursive)`. -/
def fmtKeepType : Nat → Ctx → Bool → String → Except Exc Val
  | 0, _, _, _ => .error outOfFuel
  | fuel + 1, ctx, isRec, s =>
    match parsePieces s with
    | .error e => .error e
    | .ok pieces =>
      match pieces with
      | [] => .ok (.str "")
      | [.lit t] => .ok (.str t)
      | [.field name spec] =>
        match fmtField fuel ctx isRec name spec with
        | .error e => .error e
        | .ok (obj, recursed) =>
          if recursed || spec == "ff" then .ok obj
          else fmtIter fuel ctx (spec == "rf") obj
      | ps =>
        match mapE (fun p => match p with
            | Piece.lit t => Except.ok t
            | Piece.field name spec =>
              match fmtField fuel ctx isRec name spec with
              | .error e => .error e
              | .ok (obj, _) => .ok (pyStr obj)) ps with
        | .error e => .error e
        | .ok strs => .ok (.str (String.join strs))
end

/-- `Context.get_formatted_value(v)`. -/
def fmtVal (fuel : Nat) (ctx : Ctx) (v : Val) : Except Exc Val := fmtIter fuel ctx false v

/-- `bool(x)` as `cast_to_type(result, bool)` does for special-tag results. -/
def isSpecialTag : Val → Bool
  | .sic _ | .py _ | .jsonify _ => true
  | _ => false

/-- `Context.get_formatted_as_type(value, out_type=bool)` for a non-None value. -/
def fmtAsBool (fuel : Nat) (ctx : Ctx) (v : Val) : Except Exc Bool :=
  if isSpecialTag v then
    (fmtIter fuel ctx false v).map Val.truthy
  else match v with
    | .str _ =>
      match fmtIter fuel ctx false v with
      | .error e => .error e
      | .ok (.bool b) => .ok b
      | .ok r => .ok (castToBool r)
    | other => .ok other.truthy

end Pypyr
