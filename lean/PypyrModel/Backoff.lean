/-
  Back-off strategies of `pypyr/retries.py` over exact dyadic numbers (`Num`),
  and `pypyr.utils.poll.while_until_true`'s sleeping rule.

  `fixed`/`jitter` with a list keep the *stateful* deque exactly as coded
  (`BackoffState.queue`), so that the closed form "last entry repeats" is a
  theorem (C06) and not a definition.
-/
import PypyrModel.Val
import PypyrModel.PyEval

namespace Pypyr

inductive BackoffKind where
  | fixed | jitter | linear | linearjitter | exponential | exponentialjitter
  deriving Repr, DecidableEq, Inhabited

def BackoffKind.ofName? : String → Option BackoffKind
  | "fixed" => some .fixed
  | "jitter" => some .jitter
  | "linear" => some .linear
  | "linearjitter" => some .linearjitter
  | "exponential" => some .exponential
  | "exponentialjitter" => some .exponentialjitter
  | _ => none

def BackoffKind.isJitter : BackoffKind → Bool
  | .jitter | .linearjitter | .exponentialjitter => true
  | _ => false

/-- The constructed back-off callable (`BackoffBase.__init__` + subclass `__init__`). -/
structure BackoffState where
  kind : BackoffKind
  sleep : Num                      -- scalar sleep (for list sleeps: unused)
  queue : List Num                 -- `self.queue` (deque) for fixed/jitter with a list; [] when scalar
  fixedSleep : Num                 -- `self.fixed_sleep`
  maxSleep : Option Num
  jrc : Num
  base : Num
  deriving Repr

def numZero : Num := ⟨0, 0, false⟩

def Num.isZero (x : Num) : Bool := x.n == 0

def Num.min (a b : Num) : Num :=
  -- Python `min(a, b)` returns `a` unless `b < a`
  if b.cmp a == .lt then b else a

/-- `BackoffBase.min`: `min(sleep, max_sleep) if max_sleep else sleep`. -/
def capSleep (maxSleep : Option Num) (d : Num) : Num :=
  match maxSleep with
  | some m => if m.isZero then d else Num.min d m
  | none => d

def Num.pow (b : Num) : Nat → Num
  | 0 => ⟨1, 0, false⟩
  | n + 1 => (Num.pow b n).mul b

def Num.ofNat (n : Nat) : Num := ⟨n, 0, false⟩

/-- `random.uniform(a, b) = a + (b - a) * r` with the scripted `r`. -/
def uniform (a b r : Num) : Num := a.add ((b.sub a).mul r)

/-- `BackoffBase.randomize`. -/
def randomize (jrc d r : Num) : Num := uniform (d.mul jrc) d r

def lastOf (x : Num) : List Num → Num
  | [] => x
  | y :: ys => lastOf y ys

/-- `fixed.__init__` for a list sleep / a scalar sleep. -/
def mkBackoff (kind : BackoffKind) (sleep : Num) (sleepList : Option (List Num))
    (maxSleep : Option Num) (jrc base : Num) : BackoffState :=
  match kind, sleepList with
  | .fixed, some (x :: xs) | .jitter, some (x :: xs) =>
    { kind, sleep, queue := x :: xs, fixedSleep := capSleep maxSleep (lastOf x xs),
      maxSleep, jrc, base }
  | _, _ =>
    { kind, sleep, queue := [], fixedSleep := capSleep maxSleep sleep, maxSleep, jrc, base }

/-- `fixed.__call__`: pop the queue while it is non-empty, then the fixed value. -/
def fixedCall (b : BackoffState) : Num × BackoffState :=
  match b.queue with
  | x :: rest => (capSleep b.maxSleep x, { b with queue := rest })
  | [] => (b.fixedSleep, b)

/-- The un-jittered, capped duration for attempt `n` (and the new callable state). -/
def baseInterval (b : BackoffState) (n : Nat) : Num × BackoffState :=
  match b.kind with
  | .fixed | .jitter => fixedCall b
  | .linear | .linearjitter => (capSleep b.maxSleep ((Num.ofNat n).mul b.sleep), b)
  | .exponential | .exponentialjitter => (capSleep b.maxSleep ((b.base.pow n).mul b.sleep), b)

/-- `backoff_callable(n)`: jitter is applied to the capped duration; consumes one scripted
    random number when the strategy is a jitter one. -/
def interval (b : BackoffState) (n : Nat) (rs : List Num) : Num × BackoffState × List Num :=
  let (d, b') := baseInterval b n
  if b.kind.isJitter then
    match rs with
    | r :: rest => (randomize b.jrc d r, b', rest)
    | [] => (randomize b.jrc d numZero, b', [])
  else (d, b', rs)

end Pypyr
