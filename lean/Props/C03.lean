/-
  C03 — call returns, jump does not, switch takes the first true case.

  Model: `PypyrModel/Flow/Layers.lean` (`invokeStep` = `Step.invoke_step`, `resetCounters` =
  `Step.reset_context_counters` as repaired by fix c431c3f), `PypyrModel/Flow/Steps.lean`
  (`cofStep` = `pypyr.steps.call` / `jump`, `switchStep` / `switchScan` / `switchCase` =
  `pypyr.steps.switch`), `PypyrModel/Flow/Runner.lean` (`runStep`, `runSteps`, `runStepGroup`,
  `runGroupList`, `runGroups`).

  The call theorems are stated for an ARBITRARY callee `CofCfg → St → St × Res`: "whatever the
  called groups did" — overwrite or delete the counters and the call key, clear the whole context,
  run loops and calls of their own to any depth — is "whatever function the callee is".
  `call_restores_any_depth` instantiates the callee with the one `runStep` really uses, the
  complete interpreter `runGroups` (`groupsCallee`, Props/Lemmas/C03_Run.lean).
  Helper definitions: `countersBack`, `keyBack`, `invokeLayer`, `PassesOk`, `logCallee`,
  `calleeEvent` (Props/Lemmas/C03_Restore.lean); `stepCore`, `conditionalLayer` (C04_Cond.lean); `CaseIs`, `IsDefault`, `NoDefault`, `AllFalse`, `defaultOf`,
  `caseExpr`, `caseVerdict`, `takeResult` (Props/Lemmas/C03_Switch.lean); `stepBody`,
  `groupsCallee`, `Plain` (Props/Lemmas/C03_Run.lean); `itemOut`, `foreachFold`, `setI`
  (Props/Lemmas/C05_Loops.lean); `StepsChain`, `groupSteps` (C01_Runner.lean, FlowRunner.lean).
-/
import Props.Lemmas.C03_Run
import Props.Lemmas.C03_Frame

namespace Pypyr.C03
open Pypyr Pypyr.Flow Pypyr.C04 Pypyr.C05

/-! ## call: the caller's counters and call config are back -/

/-- **Whatever the callee is and however it ends, the caller's counters are back.**
    For every frame (the counters the calling `Step` object holds), every step body that raises
    `Call c`, every callee (any function at all — it may return normally, with an error, with a
    Stop / jump instruction, and may leave any context whatsoever) and every state: in the state
    `invoke_step` returns with, `whileCounter` / `i` / `retryCounter` hold the calling step's own
    values (for each decorator the step has) and the call key holds the caller's original config.

    The last conjunct is unconditional. The side conditions `c.key ≠ "<counter name>"` are
    needed because `reset_context_counters` writes the call key *last*: an instruction whose key
    were the name of a counter would overwrite that counter (example below). No real step
    produces such an instruction — `call_step_restores` discharges the side conditions for
    `pypyr.steps.call` and `pypyr.steps.switch`, the only bodies that raise a call. -/
theorem invokeStep_call_restores (fr : Frame) (body : Body) (callee : CofCfg → Body)
    (s s₁ : St) (c : CofCfg) (hb : body s = (s₁, .call c)) (hco : c.original.truthy = true) :
    let s' := (invokeStep fr body callee s).1
    (∀ w, fr.whileC = some w → c.key ≠ "whileCounter" → Ctx.get? s'.ctx "whileCounter" = some (.int w)) ∧
    (∀ x, fr.forI = some x → c.key ≠ "i" → Ctx.get? s'.ctx "i" = some x) ∧
    (∀ r, fr.retryC = some r → c.key ≠ "retryCounter" → Ctx.get? s'.ctx "retryCounter" = some (.int r)) ∧
    Ctx.get? s'.ctx c.key = some c.original := by
  simp only [invokeStep_call_eq fr body callee s s₁ c hb hco]
  exact resetCounters_restores fr c _

/-- `hco` above: the raw configuration under the instruction's key is truthy. The two falsy
    configurations a call step can carry, `call: ''` and `call: []`, never reach called groups at all (`''` is
    no group name, `[]` no list of groups: `C01.empty_group_name_raises`, `runGroups_empty`), and
    `reset_context_counters` - run in the `finally` - trips over its own `assert call.original_config[1]`
    AFTER writing the loop counters back and BEFORE restoring the call key: the step then ends with that
    AssertionError (not marked as handled, so it is recorded as this step's error), the three counters are
    the caller's again, the call key is left as the callee left it. -/
theorem invokeStep_call_falsy_config (fr : Frame) (body : Body) (callee : CofCfg → Body)
    (s s₁ : St) (c : CofCfg) (hb : body s = (s₁, .call c)) (hco : c.original.truthy = false)
    (hf : (callee c s₁).2 ≠ .outOfFuel) :
    let r := invokeStep fr body callee s
    r.2 = .err ⟨(callee c s₁).1.nextExc, "AssertionError", ""⟩ false ∧
    (∀ w, fr.whileC = some w → Ctx.get? r.1.ctx "whileCounter" = some (.int w)) ∧
    (∀ x, fr.forI = some x → Ctx.get? r.1.ctx "i" = some x) ∧
    (∀ k, fr.retryC = some k → Ctx.get? r.1.ctx "retryCounter" = some (.int k)) ∧
    (∀ k, k ≠ "whileCounter" → k ≠ "i" → k ≠ "retryCounter" → Ctx.get? r.1.ctx k = Ctx.get? (callee c s₁).1.ctx k) := by
  have h1 := invokeStep_call_assert fr body callee s s₁ (callee c s₁).1 c (callee c s₁).2 hb rfl hco hf
  simp only [h1]
  have hctx : (raiseNew (resetLoopCounters fr (callee c s₁).1) "AssertionError" "").1.ctx =
      countersBack fr (callee c s₁).1.ctx := rfl
  refine ⟨rfl, fun w hw => ?_, fun x hx => ?_, fun k hk => ?_, fun k h1 h2 h3 => ?_⟩
  · rw [hctx]; exact countersBack_while fr _ w hw
  · rw [hctx]; exact countersBack_i fr _ x hx
  · rw [hctx]; exact countersBack_retry fr _ k hk
  · rw [hctx]; exact countersBack_other fr _ k h1 h2 h3

/-- the hypotheses are satisfiable, on a callee that overwrites one counter, deletes the call key
    and everything else, and fails. -/
example :
    let fr : Frame := { whileC := some 2, forI := some (.str "b"), retryC := some 1 }
    let c : CofCfg := { groups := ["g"], success := none, failure := none, key := "call", original := .str "g" }
    let body : Body := fun s => (s, .call c)
    let callee : CofCfg → Body := fun _ s => ({ s with ctx := [("i", .int 99)] }, .err ⟨0, "E", "m"⟩ false)
    let s : St := { ctx := [("call", .str "g"), ("i", .str "b"), ("whileCounter", .int 2), ("retryCounter", .int 1)] }
    let r := invokeStep fr body callee s
    body s = (s, .call c) ∧ r.2 = .err ⟨0, "E", "m"⟩ true ∧
    Ctx.get? r.1.ctx "i" = some (.str "b") ∧ Ctx.get? r.1.ctx "whileCounter" = some (.int 2) ∧
    Ctx.get? r.1.ctx "retryCounter" = some (.int 1) ∧ Ctx.get? r.1.ctx "call" = some (.str "g") := by
  decide +kernel

/-- why the side conditions are there: an (artificial) instruction whose key is `i`. -/
example :
    let fr : Frame := { forI := some (.int 1) }
    let c : CofCfg := { groups := ["g"], success := none, failure := none, key := "i", original := .int 2 }
    Ctx.get? (invokeStep fr (fun s => (s, .call c)) (fun _ s => (s, .ok)) {}).1.ctx "i" = some (.int 2) := by
  decide +kernel

/-- **The real call-raising steps** (`pypyr.steps.call`, `pypyr.steps.switch`): the instruction's
    key is the step's own key `call` / `switch` — never a counter name — and its original config
    is exactly what the context held under that key when the step was entered. Hence, with no side
    condition: after `invoke_step`, for every callee and every way it ends, the counters are the
    calling step's and the context's `call` / `switch` entry is what it was on entry. -/
theorem call_step_restores (fr : Frame) (body : Body) (hbody : body = cofStep "call" true ∨ body = switchStep)
    (callee : CofCfg → Body) (s s₁ : St) (c : CofCfg) (hb : body s = (s₁, .call c))
    (hco : c.original.truthy = true) :
    let s' := (invokeStep fr body callee s).1
    (c.key = "call" ∨ c.key = "switch") ∧
    (∀ w, fr.whileC = some w → Ctx.get? s'.ctx "whileCounter" = some (.int w)) ∧
    (∀ x, fr.forI = some x → Ctx.get? s'.ctx "i" = some x) ∧
    (∀ r, fr.retryC = some r → Ctx.get? s'.ctx "retryCounter" = some (.int r)) ∧
    Ctx.get? s'.ctx c.key = Ctx.get? s.ctx c.key ∧ Ctx.get? s.ctx c.key = some c.original := by
  have hkey : (c.key = "call" ∨ c.key = "switch") ∧ Ctx.get? s.ctx c.key = some c.original := by
    rcases hbody with h | h <;> subst h
    · obtain ⟨hk, hg, _⟩ := cofStep_call_key s s₁ c hb
      exact ⟨.inl hk, by rw [hk]; exact hg⟩
    · obtain ⟨hk, hg, _⟩ := switchStep_call_key s s₁ c hb
      exact ⟨.inr hk, by rw [hk]; exact hg⟩
  obtain ⟨hk, hg⟩ := hkey
  have hne : c.key ≠ "whileCounter" ∧ c.key ≠ "i" ∧ c.key ≠ "retryCounter" := by
    rcases hk with h | h <;> rw [h] <;> decide
  obtain ⟨h1, h2, h3, h4⟩ := invokeStep_call_restores fr body callee s s₁ c hb hco
  exact ⟨hk, fun w hw => h1 w hw hne.1, fun x hx => h2 x hx hne.2.1, fun r hr => h3 r hr hne.2.2,
    by rw [hg]; exact h4, hg⟩

/-- the real call step on a context that has its config; the callee wipes the whole context. -/
example :
    let s : St := { ctx := [("call", .str "sg"), ("i", .int 3)] }
    let c : CofCfg := { groups := ["sg"], success := none, failure := none, key := "call", original := .str "sg" }
    cofStep "call" true s = (s, .call c) ∧
    Ctx.get? (invokeStep { forI := some (.int 3) } (cofStep "call" true)
      (fun _ s => ({ s with ctx := [] }, .stop)) s).1.ctx "i" = some (.int 3) := by
  decide +kernel

/-- **Nested calls and loops to any depth.** The callee `runStep` hands to `invoke_step` is
    `groupsCallee fuel prog pipe` = `run_step_groups` of the current pipeline — the complete
    interpreter, so the called groups may loop, call, jump, switch and run child pipelines to any
    depth (bounded only by the fuel), overwriting or removing the keys at every level. Because the
    restoration theorem holds for an arbitrary callee it holds for this one, for every program,
    pipeline, fuel, frame and state; `runStep_eq` (Props/Lemmas/C03_Run.lean) says that this very
    `invokeStep … (groupsCallee fuel prog pipe)` is the innermost layer of `runStep`, inside
    whatever loop iteration the decorators put around it. -/
theorem call_restores_any_depth (fuel : Nat) (prog : Program) (pipe : String) (fr : Frame) (kind : StepKind)
    (hkind : kind = .call ∨ kind = .switch) (s s₁ : St) (c : CofCfg)
    (hb : stepBody fuel prog kind s = (s₁, .call c)) (hco : c.original.truthy = true) :
    let s' := (invokeStep fr (stepBody fuel prog kind) (groupsCallee fuel prog pipe) s).1
    (∀ w, fr.whileC = some w → Ctx.get? s'.ctx "whileCounter" = some (.int w)) ∧
    (∀ x, fr.forI = some x → Ctx.get? s'.ctx "i" = some x) ∧
    (∀ r, fr.retryC = some r → Ctx.get? s'.ctx "retryCounter" = some (.int r)) ∧
    Ctx.get? s'.ctx c.key = Ctx.get? s.ctx c.key := by
  have hbody : stepBody fuel prog kind = cofStep "call" true ∨ stepBody fuel prog kind = switchStep := by
    rcases hkind with h | h <;> subst h
    · exact .inl rfl
    · exact .inr rfl
  obtain ⟨_, h1, h2, h3, h4, _⟩ :=
    call_step_restores fr _ hbody (groupsCallee fuel prog pipe) s s₁ c hb hco
  exact ⟨h1, h2, h3, h4⟩

/-- `runStep` is the decorator stack around exactly that `invokeStep` (for every step kind), after the
    up-front formatting of the step's `description` (if it has one) for the notification: when that
    raises nothing (`describe … = none`, e.g. no description: `describe_none`) the step is the decorator
    stack; when it raises, the step ends with that error before anything else of it is evaluated.
    (The hypothesis on `describe` is new: the model now covers `description`; `hin`: the step's `in` is a
    mapping, null or absent - for an `in` that is no mapping see `C04.in_not_a_mapping_escapes`.) -/
theorem runStep_is_decorated_invoke (fuel : Nat) (prog : Program) (pipe : String) (d : StepDef) (kind : StepKind)
    (s : St) (hk : stepInit d = .ok kind) (hin : d.inBad = none) :
    (describe d (setIn d s) = none →
      runStep (fuel + 1) prog pipe d s =
        runStepWith d (stepBody fuel prog kind) (groupsCallee fuel prog pipe) fuel s) ∧
    (∀ x, describe d (setIn d s) = some x → runStep (fuel + 1) prog pipe d s = raiseExc (setIn d s) x) :=
  ⟨fun hq => runStep_eq fuel prog pipe d kind s hk hq hin,
   fun x hq => by rw [runStep_eq_described fuel prog pipe d kind s hk, runStepDescribed_fails _ _ _ _ _ x hin hq]⟩

/-- **The counters come back by identity - value AND type.** Whatever the called groups left under `i`
    (also a value Python calls equal to the caller's item: `True` for `1`, `1.0` for `1`, `0.0` for `False`), what
    the context holds after the call IS the caller's own item; `whileCounter` / `retryCounter` are the caller's
    ints whatever equal-looking value (`True`, `1.0`) was left there. There is no "only if it differs" test:
    the statement is about `Ctx.get?` returning the very `Val`, and `Val` keeps `bool` / `int` / `flt` apart. -/
theorem call_restores_counters_by_identity (fr : Frame) (body : Body) (callee : CofCfg → Body)
    (s s₁ : St) (c : CofCfg) (hb : body s = (s₁, .call c)) (hco : c.original.truthy = true)
    (hki : c.key ≠ "i") (hkw : c.key ≠ "whileCounter") (hkr : c.key ≠ "retryCounter") :
    let s' := (invokeStep fr body callee s).1
    (∀ x y, fr.forI = some x → Ctx.get? s'.ctx "i" = some y → y = x) ∧
    (∀ w y, fr.whileC = some w → Ctx.get? s'.ctx "whileCounter" = some y → y = .int w) ∧
    (∀ r y, fr.retryC = some r → Ctx.get? s'.ctx "retryCounter" = some y → y = .int r) := by
  have h := invokeStep_call_restores fr body callee s s₁ c hb hco
  refine ⟨fun x y hx hy => ?_, fun w y hw hy => ?_, fun r y hr hy => ?_⟩
  · have := h.2.1 x hx hki; rw [this] at hy; exact (Option.some.inj hy).symm
  · have := h.1 w hw hkw; rw [this] at hy; exact (Option.some.inj hy).symm
  · have := h.2.2.1 r hr hkr; rw [this] at hy; exact (Option.some.inj hy).symm

/-- the values Python's `==` cannot tell apart are different values of the model. -/
example : Val.bool true ≠ Val.int 1 ∧ Val.int 1 ≠ Val.flt 1 0 ∧ Val.bool false ≠ Val.flt 0 0 ∧
    Val.str "" ≠ Val.int 0 ∧ Val.none ≠ Val.bool false := by
  refine ⟨?_, ?_, ?_, ?_, ?_⟩ <;> (intro h; cases h)

/-- **The write-back touches nothing else**: every context key other than the three counters and
    the call key, and every other component of the state (probe trace, pipeline stack, sleeps,
    exception ids), is exactly as the callee left it. -/
theorem restore_touches_only_counters (fr : Frame) (c : CofCfg) (s₂ : St) :
    (∀ k, k ≠ "whileCounter" → k ≠ "i" → k ≠ "retryCounter" → c.key ≠ k →
        Ctx.get? (resetCounters fr c s₂).ctx k = Ctx.get? s₂.ctx k) ∧
    (fr.whileC = none → c.key ≠ "whileCounter" →
        Ctx.get? (resetCounters fr c s₂).ctx "whileCounter" = Ctx.get? s₂.ctx "whileCounter") ∧
    (fr.forI = none → c.key ≠ "i" → Ctx.get? (resetCounters fr c s₂).ctx "i" = Ctx.get? s₂.ctx "i") ∧
    (fr.retryC = none → c.key ≠ "retryCounter" →
        Ctx.get? (resetCounters fr c s₂).ctx "retryCounter" = Ctx.get? s₂.ctx "retryCounter") ∧
    (resetCounters fr c s₂).trace = s₂.trace ∧ (resetCounters fr c s₂).stack = s₂.stack ∧
    (resetCounters fr c s₂).sleeps = s₂.sleeps ∧ (resetCounters fr c s₂).nextExc = s₂.nextExc := by
  refine ⟨fun k hw hi hr hk => resetCounters_other fr c s₂ k hw hi hr hk, fun h hk => ?_, fun h hk => ?_,
    fun h hk => ?_, rfl, rfl, rfl, rfl⟩ <;> rw [resetCounters_eq] <;>
    show Ctx.get? (keyBack c _) _ = _ <;> rw [keyBack_ne c _ _ hk]
  · exact (countersBack_absent fr _).1 h
  · exact (countersBack_absent fr _).2.1 h
  · exact (countersBack_absent fr _).2.2 h

/-! ## call: execution resumes right after the calling step -/

/-- **How the calling step ends**, for every frame, body, callee and state. The called groups
    ended normally ⇒ the step's `invoke_step` ends normally; they failed with `e` ⇒ it fails with
    the same exception object, marked as already handled (`HandledError`); a Stop-family or jump
    instruction passes unchanged. In each case the state is the callee's final state with the
    caller's counters and call config written back (`invokeStep_call_restores`). -/
theorem call_resumes (fr : Frame) (body : Body) (callee : CofCfg → Body) (s s₁ : St) (c : CofCfg)
    (hb : body s = (s₁, .call c)) (hco : c.original.truthy = true) :
    (∀ s₂, callee c s₁ = (s₂, .ok) → invokeStep fr body callee s = (resetCounters fr c s₂, .ok)) ∧
    (∀ s₂ e h, callee c s₁ = (s₂, .err e h) →
        invokeStep fr body callee s = (resetCounters fr c s₂, .err e true)) ∧
    (∀ s₂ σ, callee c s₁ = (s₂, σ) → σ.isSignal = true →
        invokeStep fr body callee s = (resetCounters fr c s₂, σ)) := by
  refine ⟨fun s₂ h => ?_, fun s₂ e h' h => ?_, fun s₂ σ h hσ => ?_⟩ <;>
    rw [invokeStep_call_eq fr body callee s s₁ c hb hco, h]
  · rfl
  · rfl
  · show (_, callOutcome σ) = _
    rw [callOutcome_signal hσ]

example :
    let c : CofCfg := { groups := ["g"], success := none, failure := none, key := "call", original := .str "g" }
    let body : Body := fun s => (s, .call c)
    body {} = ({}, .call c) ∧
    (invokeStep {} body (fun _ s => (s, .ok)) {}).2 = .ok ∧
    (invokeStep {} body (fun _ s => (s, .err ⟨4, "E", ""⟩ false)) {}).2 = .err ⟨4, "E", ""⟩ true ∧
    (invokeStep {} body (fun _ s => (s, .stopPipeline)) {}).2 = .stopPipeline := by
  decide +kernel

/-- **… and the next step runs**: whenever a step of a step list — in particular a call step with
    any decorators — ends normally, the rest of the list runs from the state it returned. -/
theorem call_then_next_step (fuel : Nat) (prog : Program) (pipe : String) (d : StepDef) (rest : List StepDef)
    (s s₁ : St) (h : runStep fuel prog pipe d s = (s₁, .ok)) :
    runSteps (fuel + 1) prog pipe (d :: rest) s = runSteps fuel prog pipe rest s₁ := by
  rw [runSteps_cons, h]

/-- The same, end to end, for a call step without loop / retry / run / skip decorators in any
    program: the real step body raises the call, the real `run_step_groups` serves it and ends
    normally in `s₂` ⇒ the step ends normally, and the steps after it run from `s₂` with the call
    config written back (and the step's `in` arguments removed). -/
theorem plain_call_step_resumes (fuel : Nat) (prog : Program) (pipe : String) (d : StepDef) (rest : List StepDef)
    (s s₁ s₂ : St) (c : CofCfg) (hk : stepInit d = .ok .call) (hp : Plain d)
    (hq : describe d (setIn d s) = none)    -- new: the description (if any) formats; see `runStep_eq`
    (hin : d.inBad = none)                  -- new: `in` is a mapping (or absent)
    (hb : cofStep "call" true (setIn d s) = (s₁, .call c))
    (hco : c.original.truthy = true)        -- new: not `call: ''` / `call: []`
    (hc : groupsCallee fuel prog pipe c s₁ = (s₂, .ok)) :
    runStep (fuel + 1) prog pipe d s = (unsetIn d (resetCounters {} c s₂), .ok) ∧
    runSteps (fuel + 2) prog pipe (d :: rest) s =
      runSteps (fuel + 1) prog pipe rest (unsetIn d (resetCounters {} c s₂)) := by
  have h1 : runStep (fuel + 1) prog pipe d s = (unsetIn d (resetCounters {} c s₂), .ok) := by
    rw [runStep_eq fuel prog pipe d .call s hk hq hin, runStepWith_plain d _ _ fuel s hp]
    show (match swallowWrap d (invokeStep {} (cofStep "call" true) (groupsCallee fuel prog pipe) (setIn d s)) with
      | (s1, Res.ok) => (unsetIn d s1, Res.ok)
      | other => other) = _
    rw [(call_resumes {} _ (groupsCallee fuel prog pipe) (setIn d s) s₁ c hb hco).1 s₂ hc,
      swallowWrap_nonerr d _ Res.ok rfl]
  exact ⟨h1, call_then_next_step (fuel + 1) prog pipe d rest s _ h1⟩

/-! ## call under `foreach`: once per item, `i` = the item on entry and again after return -/

/-- **A call step under `foreach [x₁ … xₙ]`, any `n`.** `body` is a step body that raises its call
    whenever the context holds config `v` under key `K` (the real `pypyr.steps.call` is such a
    body: `call_step_under_foreach`); `layer` is what `foreach` iterates over: `invoke_step` itself
    (`invokeLayer`) or `invoke_step` inside decorators that hand a normal completion on unchanged
    (`PassesOk`; the run / skip / swallow layer of `run_step` is one: `foreach_layer_of_run_step`);
    the callee is any function that ends normally — it may overwrite or delete `i`, delete the
    call key, clear the context. Then
    * every iteration ends normally and the loop is the left fold of the iterations over the
      items, in order, one iteration — hence one entry into the callee — per item;
    * in the iteration for item `x` (entered in the state `s₀` the previous iterations left) the
      step body, and therefore the callee, is entered with `i = x`; the iteration's final state
      is the callee's with the counters written back; `i` is `x` again;
    * the call config is back under `K` after every iteration and after the loop. -/
theorem call_under_foreach (fr : Frame) (layer : Frame → Body) (body : Body) (callee : CofCfg → Body)
    (hlayer : PassesOk layer body callee) (K : String) (v : Val) (hvt : v.truthy = true)
    (hK : K ≠ "i")
    (hb : ∀ s, Ctx.get? s.ctx K = some v → ∃ c, body s = (s, .call c) ∧ c.key = K ∧ c.original = v)
    (hc : ∀ c s, (callee c s).2 = .ok)
    (items : List Val) (s : St) (h0 : Ctx.get? s.ctx K = some v) :
    foreachItems fr layer items s = (foreachFold fr layer items s, .ok) ∧
    Ctx.get? (foreachFold fr layer items s).ctx K = some v ∧
    ∀ pre x post, items = pre ++ x :: post →
      ∃ c, body (setI x (foreachFold fr layer pre s)) = (setI x (foreachFold fr layer pre s), .call c) ∧
        Ctx.get? (setI x (foreachFold fr layer pre s)).ctx "i" = some x ∧
        itemOut fr layer x (foreachFold fr layer pre s) =
          (resetCounters { fr with forI := some x } c (callee c (setI x (foreachFold fr layer pre s))).1, .ok) ∧
        Ctx.get? (itemOut fr layer x (foreachFold fr layer pre s)).1.ctx "i" = some x ∧
        foreachFold fr layer (pre ++ [x]) s = (itemOut fr layer x (foreachFold fr layer pre s)).1 := by
  obtain ⟨hall, hKv⟩ := call_foreach_allOk fr layer body callee hlayer K v hvt hK hb hc items s h0
  refine ⟨foreachItems_allOk fr _ items s hall, hKv, ?_⟩
  intro pre x post _
  obtain ⟨_, hpreK⟩ := call_foreach_allOk fr layer body callee hlayer K v hvt hK hb hc pre s h0
  obtain ⟨c, h1, h2, h3, h4, _⟩ := call_iteration fr layer body callee hlayer K v hvt hK hb hc x _ hpreK
  exact ⟨c, h1, h2, h3, h4, foreachFold_append fr _ [x] pre s⟩

/-- **The same from facts about the VISITED states only** (`CallVisitOk`, Props/Lemmas/C03_Restore.lean): at
    the entry state of each iteration - the state the previous iterations left, with `i` set to the item - the
    body raises its call with key `K` and raw configuration `v` and the groups it names THERE end normally.
    Nothing is assumed about states the loop never reaches, nor about the callee in general; the instruction
    may differ from item to item (`call: 'g{i}'` - the raw configuration `v` is the same string, the groups it
    formats to depend on the current `i`: `call_group_names_from_counters`). Conclusions as in
    `call_under_foreach`: every iteration ends normally, one entry into the callee per item, `i` is the item on
    entry and again after the return, the call configuration is back under `K`. -/
theorem call_under_foreach_visited (fr : Frame) (layer : Frame → Body) (body : Body) (callee : CofCfg → Body)
    (hlayer : PassesOk layer body callee) (K : String) (v : Val) (hvt : v.truthy = true) (hK : K ≠ "i")
    (items : List Val) (s : St) (hv : CallVisitOk fr layer body callee K v items s) :
    foreachItems fr layer items s = (foreachFold fr layer items s, .ok) ∧
    (items ≠ [] → Ctx.get? (foreachFold fr layer items s).ctx K = some v) ∧
    ∀ pre x post, items = pre ++ x :: post →
      ∃ c, body (setI x (foreachFold fr layer pre s)) = (setI x (foreachFold fr layer pre s), .call c) ∧
        Ctx.get? (setI x (foreachFold fr layer pre s)).ctx "i" = some x ∧
        itemOut fr layer x (foreachFold fr layer pre s) =
          (resetCounters { fr with forI := some x } c (callee c (setI x (foreachFold fr layer pre s))).1, .ok) ∧
        Ctx.get? (itemOut fr layer x (foreachFold fr layer pre s)).1.ctx "i" = some x := by
  obtain ⟨hall, hKv⟩ := call_foreach_allOk_at fr layer body callee hlayer K v hvt hK items s hv
  refine ⟨foreachItems_allOk fr _ items s hall, hKv, ?_⟩
  intro pre x post hitems
  -- the facts of the iteration for `x`: walk `CallVisitOk` along `pre`
  have walk : ∀ (pre : List Val) (s : St), CallVisitOk fr layer body callee K v (pre ++ x :: post) s →
      ∃ c, body (setI x (foreachFold fr layer pre s)) = (setI x (foreachFold fr layer pre s), .call c) ∧ c.key = K ∧
        c.original = v ∧ (callee c (setI x (foreachFold fr layer pre s))).2 = .ok := by
    intro pre
    induction pre with
    | nil => intro s h; exact h.1
    | cons y ys ih => intro s h; exact ih _ h.2
  obtain ⟨c, hbc, hck, hco, hc⟩ := walk pre s (hitems ▸ hv)
  obtain ⟨hout, hi, _⟩ := call_iteration_at fr layer body callee hlayer K v hvt hK x _ c hbc hck hco hc
  exact ⟨c, hbc, setI_i x _, hout, hi⟩

/-- the real `pypyr.steps.call` body at ONE state: if the raw configuration `v` under `call` formats and
    parses THERE, it raises the call there (key `call`, original `v`, state untouched). With `v = 'g{i}'` the
    formatted groups are read off the counters of that very state. -/
theorem call_step_raises_at (v : Val) (hv : v ≠ .none) (s : St) (h : Ctx.get? s.ctx "call" = some v)
    (cfg : Val) (c : CofCfg) (hf : fmtAtKey s v = .ok cfg) (hi : instructionFromVal cfg "call" v = .ok c) :
    cofStep "call" true s = (s, .call c) ∧ c.key = "call" ∧ c.original = v := by
  obtain ⟨hk, ho⟩ := instructionFromVal_key _ _ _ _ hi
  refine ⟨?_, hk, ho⟩
  have hne : s.ctx.isEmpty = false := by
    cases hc : s.ctx with
    | nil => rw [hc] at h; simp [Ctx.get?] at h
    | cons _ _ => rfl
  unfold cofStep
  rw [assertKeyHasValue_of_get s "call" _ v h hv]
  simp only [hne, hf, hi, if_true, Bool.false_eq_true, if_false]

/-- **group names depending on the loop counter**: `call: 'g{i}'` under `foreach [1, 2]` enters `g1` with `i = 1`,
    then `g2` with `i = 2` - each called group overwrites `i` and deletes the call configuration; after each return
    both are the caller's again. (The instruction differs per item; the raw configuration is the one string.) -/
example :
    let prog : Program := ⟨[{ name := "main", groups := [
      ("steps", .steps [
        { name := some "pypyr.steps.call", inArgs := some [("call", .str "g{i}")],
          foreach := some (.list [.int 1, .int 2]) },
        { name := some "vprobe", inArgs := some [("p", .dict [(.str "tag", .str "after")])] }]),
      ("g1", .steps [{ name := some "vprobe", inArgs := some [("p", .dict [(.str "tag", .str "in-g1"),
          (.str "set", .dict [(.str "i", .str "X")]), (.str "del", .list [.str "call"])])] }]),
      ("g2", .steps [{ name := some "vprobe", inArgs := some [("p", .dict [(.str "tag", .str "in-g2"),
          (.str "set", .dict [(.str "i", .str "Y")]), (.str "del", .list [.str "call"])])] }])] }]⟩
    let r := runRoot 40 prog { name := "main" } {}
    r.2 = .ok ∧ r.1.trace.map (fun ev => (ev.tag, ev.i)) =
      [("in-g1", some (.int 1)), ("in-g2", some (.int 2)), ("after", some (.int 2))] := by
  decide +kernel

/-! ## frame and context agree at every application of `invoke_step` -/

/-- **`invoke_step` around the real call / switch bodies gives the counters back**: entered with the `Step`
    object's counters in the context (`FrameAgrees`), it ends with them in the context - whatever the called
    groups did and however they ended. (`hf`: the called groups end within the model's fuel.) -/
theorem call_step_restores_frame (body : Body) (hbody : body = cofStep "call" true ∨ body = switchStep)
    (callee : CofCfg → Body) (hf : ∀ c s, (callee c s).2 ≠ .outOfFuel) :
    Restores (fun fr => invokeStep fr body callee) := by
  intro fr s ha
  apply invokeStep_restores fr body callee s _ _ (fun s1 c _ => hf c s1) ha
  · intro s1 c hb
    rcases hbody with h | h <;> subst h
    · obtain ⟨hk, _, hs⟩ := cofStep_call_key s s1 c hb
      exact ⟨hs, by rw [hk]; decide, by rw [hk]; decide, by rw [hk]; decide⟩
    · obtain ⟨hk, _, hs⟩ := switchStep_call_key s s1 c hb
      exact ⟨hs, by rw [hk]; decide, by rw [hk]; decide, by rw [hk]; decide⟩
  · intro s1 r hb hne
    rcases hbody with h | h <;> subst h
    · have := cofStep_ctx' "call" true s
      rw [hb] at this; exact this
    · have := switchStep_ctx' s
      rw [hb] at this; exact this

/-- **At every application of `invoke_step` - under `while`, `foreach`, `retry`, any combination - the counters
    the calling `Step` holds are the counters in the context**, for a call / switch step: the decorator stack's
    result depends on `invoke_step` only at points `(fr, s₀)` with `FrameAgrees fr s₀` - any other invoker that
    coincides with it there yields the same step, from every entry state. -/
theorem frame_agrees_at_every_invoke (d : StepDef) (body : Body) (hbody : body = cofStep "call" true ∨ body = switchStep)
    (callee : CofCfg → Body) (hf : ∀ c s, (callee c s).2 ≠ .outOfFuel) (fuel : Nat)
    (I' : Frame → Body) (hI : ∀ fr s₀, FrameAgrees fr s₀ → I' fr s₀ = invokeStep fr body callee s₀) (s : St) :
    stepCore d body callee fuel s = stepCoreOf d I' fuel s := by
  rw [stepCore_eq_of]
  exact (stepCoreOf_agreeOn d _ I' fuel (call_step_restores_frame body hbody callee hf) hI s).symm

/-- the layer `foreach` really iterates over in `run_step`: for a step with a (truthy) `foreach`,
    no `while`, no `retry`, `run` / `skip` at their defaults, the decorator stack is
    `foreach_loop` over the run / skip / swallow layer, and that layer is `PassesOk`. -/
theorem foreach_layer_of_run_step (d : StepDef) (body : Body) (callee : CofCfg → Body) (fuel : Nat) (raw : Val)
    (hw : d.while_ = none) (hf : d.foreach = some raw) (ht : raw.truthy = true)
    (hr : d.retry = none) (hrun : d.run = .bool true) (hskip : d.skip = .bool false) :
    stepCore d body callee fuel = foreachLoop raw {} (conditionalLayer d body callee fuel) ∧
    PassesOk (conditionalLayer d body callee fuel) body callee := by
  refine ⟨?_, conditionalLayer_passesOk d body callee fuel hr hrun hskip⟩
  unfold stepCore foreachLayer foreachOrConditional
  simp only [hw, hf, ht, if_true]

/-- the real `pypyr.steps.call` body satisfies the hypothesis of `call_under_foreach` with
    `K = "call"`, for every config `v` that formats and parses (e.g. any literal config). -/
theorem call_step_under_foreach (fr : Frame) (layer : Frame → Body) (callee : CofCfg → Body)
    (hlayer : PassesOk layer (cofStep "call" true) callee) (v : Val) (hv : v ≠ .none) (hvt : v.truthy = true)
    (hfmt : ∀ s : St, Ctx.get? s.ctx "call" = some v →
      ∃ cfg c, fmtAtKey s v = .ok cfg ∧ instructionFromVal cfg "call" v = .ok c)
    (hc : ∀ c s, (callee c s).2 = .ok) (items : List Val) (s : St) (h0 : Ctx.get? s.ctx "call" = some v) :
    foreachItems fr layer items s = (foreachFold fr layer items s, .ok) ∧
    Ctx.get? (foreachFold fr layer items s).ctx "call" = some v ∧
    ∀ pre x post, items = pre ++ x :: post →
      Ctx.get? (setI x (foreachFold fr layer pre s)).ctx "i" = some x ∧
      Ctx.get? (itemOut fr layer x (foreachFold fr layer pre s)).1.ctx "i" = some x := by
  obtain ⟨h1, h2, h3⟩ := call_under_foreach fr layer (cofStep "call" true) callee hlayer "call" v hvt (by decide)
    (cofStep_call_raises v hv hfmt) hc items s h0
  refine ⟨h1, h2, fun pre x post hi => ?_⟩
  obtain ⟨_, _, ha, _, hb', _⟩ := h3 pre x post hi
  exact ⟨ha, hb'⟩

/-- **Observable form**: a callee that records the `i` it finds on entry and then does anything
    whatsoever (`g`) to the context is entered exactly once per item, in list order, each time
    with `i` = that item — although the previous entries may have overwritten or removed `i`
    and the call config. Any number of items. -/
theorem call_under_foreach_visits (g : Ctx → Ctx) (fr : Frame) (layer : Frame → Body) (body : Body)
    (hlayer : PassesOk layer body (logCallee g)) (K : String) (v : Val) (hvt : v.truthy = true)
    (hK : K ≠ "i")
    (hb : ∀ s, Ctx.get? s.ctx K = some v → ∃ c, body s = (s, .call c) ∧ c.key = K ∧ c.original = v)
    (items : List Val) (s : St) (h0 : Ctx.get? s.ctx K = some v) :
    (foreachItems fr layer items s).2 = .ok ∧
    (foreachItems fr layer items s).1.trace = s.trace ++ items.map (fun x => calleeEvent (some x)) :=
  call_foreach_trace g fr layer body hlayer K v hvt hK hb items s h0

/-- the hypotheses of the three foreach theorems hold for the real call step with the literal
    config `"sg"`; and the trace of a callee that wipes the whole context each time. -/
example :
    (Val.str "sg" ≠ .none) ∧
    (∀ s : St, Ctx.get? s.ctx "call" = some (.str "sg") →
      ∃ cfg c, fmtAtKey s (.str "sg") = .ok cfg ∧ instructionFromVal cfg "call" (.str "sg") = .ok c) ∧
    PassesOk (invokeLayer (cofStep "call" true) (logCallee fun _ => [])) (cofStep "call" true)
      (logCallee fun _ => []) ∧
    (let s : St := { ctx := [("call", .str "sg")] }
     Ctx.get? s.ctx "call" = some (.str "sg") ∧
     (foreachItems {} (invokeLayer (cofStep "call" true) (logCallee fun _ => []))
        [.int 1, .int 2, .int 3] s).1.trace.map (·.i) = [some (.int 1), some (.int 2), some (.int 3)]) :=
  ⟨by decide, fun _ _ => ⟨_, _, rfl, rfl⟩, invokeLayer_passesOk _ _, by decide +kernel⟩

/-- the hypotheses of `foreach_layer_of_run_step` on the inner call step of `demoProg` below. -/
example :
    let d : StepDef := { name := some "pypyr.steps.call", inArgs := some [("call", .str "sg2")],
                         foreach := some (.list [.int 7]) }
    d.while_ = none ∧ d.foreach = some (.list [.int 7]) ∧ (Val.list [.int 7]).truthy = true ∧
    d.retry = none ∧ d.run = .bool true ∧ d.skip = .bool false :=
  ⟨rfl, rfl, by decide +kernel, rfl, rfl, rfl⟩

/-! ## jump: the rest of the step-group is abandoned, the target groups run instead -/

/-- **A jump abandons the remaining steps of its step-group.** The steps `pre` ended normally and
    the next step ends with `jump c` (C02: a jump raised by the step body or by groups it called
    passes every decorator unchanged): the step list ends right there with that instruction, in
    that step's final state — for every `post`, so nothing of `post` runs and the probe trace is
    the one the jump step left. -/
theorem jump_abandons_rest (prog : Program) (pipe : String) (pre post : List StepDef) (d : StepDef)
    (fuel : Nat) (s s₀ s₁ : St) (c : CofCfg)
    (hpre : StepsChain prog pipe fuel pre s s₀) (hlen : pre.length < fuel)
    (hd : runStep (fuel - pre.length - 1) prog pipe d s₀ = (s₁, .jump c)) :
    runSteps fuel prog pipe (pre ++ d :: post) s = (s₁, .jump c) ∧
    (∀ post', runSteps fuel prog pipe (pre ++ d :: post') s = runSteps fuel prog pipe (pre ++ d :: post) s) ∧
    (runSteps fuel prog pipe (pre ++ d :: post) s).1.trace = s₁.trace := by
  have h := fun p => runSteps_jump prog pipe pre p d fuel s s₀ s₁ c hpre hlen hd
  exact ⟨h post, fun p => by rw [h p, h post], by rw [h post]⟩

/-- **… and the target groups run instead**: the step-group in which the jump occurred *is* the run
    of the jump's groups (with their own optional success and failure handlers) from the state of
    the jump — its result is theirs; nothing of the abandoned group follows. -/
theorem jump_runs_target_groups (prog : Program) (pipe g : String) (raiseStop : Bool)
    (pre post : List StepDef) (d : StepDef) (fuel : Nat) (s s₀ s₁ : St) (c : CofCfg)
    (hg : groupSteps prog pipe g = pre ++ d :: post) (hg0 : g ≠ "")
    (hpre : StepsChain prog pipe fuel pre s s₀) (hlen : pre.length < fuel)
    (hd : runStep (fuel - pre.length - 1) prog pipe d s₀ = (s₁, .jump c)) :
    runStepGroup (fuel + 1) prog pipe g raiseStop s =
      runGroups fuel prog pipe c.groups c.success c.failure s₁ := by
  refine runStepGroup_jump fuel prog pipe g raiseStop s s₁ c ?_ hg0
  rw [hg]
  exact runSteps_jump prog pipe pre post d fuel s s₀ s₁ c hpre hlen hd

/-- **The enclosing activation continues with its next requested group** exactly when the groups
    jumped to ended normally, and from the state they left; any other outcome of theirs (error,
    Stop, …) is the outcome of the enclosing loop over the groups. -/
theorem jump_then_next_requested_group (prog : Program) (pipe g : String) (rest : List String)
    (pre post : List StepDef) (d : StepDef) (fuel : Nat) (s s₀ s₁ : St) (c : CofCfg)
    (hg : groupSteps prog pipe g = pre ++ d :: post) (hg0 : g ≠ "")
    (hpre : StepsChain prog pipe fuel pre s s₀) (hlen : pre.length < fuel)
    (hd : runStep (fuel - pre.length - 1) prog pipe d s₀ = (s₁, .jump c)) :
    (∀ s₂, runGroups fuel prog pipe c.groups c.success c.failure s₁ = (s₂, .ok) →
        runGroupList (fuel + 2) prog pipe (g :: rest) s = runGroupList (fuel + 1) prog pipe rest s₂) ∧
    (∀ s₂ r, runGroups fuel prog pipe c.groups c.success c.failure s₁ = (s₂, r) → r ≠ .ok →
        runGroupList (fuel + 2) prog pipe (g :: rest) s = (s₂, r)) := by
  have hj : runSteps fuel prog pipe (groupSteps prog pipe g) s = (s₁, .jump c) := by
    rw [hg]; exact runSteps_jump prog pipe pre post d fuel s s₀ s₁ c hpre hlen hd
  constructor
  · intro s₂ h
    rw [runGroupList_jump fuel prog pipe g rest s s₁ c hj hg0, h]
  · intro s₂ r h hr
    rw [runGroupList_jump fuel prog pipe g rest s s₁ c hj hg0, h]
    cases r <;> simp_all

/-- the real `pypyr.steps.jump` body: the instruction's key is `jump`, the state is untouched, and
    a jump step never raises a call (so nothing is written back and nothing returns). -/
theorem jump_step_raises (s s₁ : St) (r : Res) (h : cofStep "jump" false s = (s₁, r)) (hr : r.isErr = false) :
    ∃ c, r = .jump c ∧ c.key = "jump" ∧ Ctx.get? s.ctx "jump" = some c.original ∧ s₁ = s := by
  obtain ⟨c, hc, hk, hg, _, hs⟩ := cofStep_instr "jump" false s s₁ r h hr
  exact ⟨c, by simpa using hc, hk, hg, hs⟩

/-! ## switch: the first true case, else the default, and no other case -/

/-- **The first true case wins.** The entries before `e` are well-formed cases whose expression
    evaluates false (`AllFalse`), `e`'s expression evaluates true and its raw call config is
    `rc`: the step's result is `rc` formatted against the current state and turned into the call
    (`takeResult`) — for every `post`: no later entry is evaluated or called, whatever it is, and
    no call config of an earlier entry is used. (`hl`: if `e` is the very last entry it must not
    also carry a `default` — the code looks at `default` first there, see `switch_default`.) -/
theorem switch_first_true (s : St) (original : Val) (pre post : List Val) (e rc : Val) (idx : Nat)
    (hpre : AllFalse s pre) (he : CaseIs s e true rc) (hl : post = [] → NoDefault e) :
    switchScan s original (pre ++ e :: post) idx = takeResult s original rc := by
  rw [switchScan_at s original pre e post idx hpre,
    switchCase_of_true s e post.isEmpty _ rc he (fun h => hl (by simpa using h))]

/-- **`default` only when no case is true**: all entries before the trailing `default` entry are
    false cases ⇒ the default's call config is the one formatted and called. (A `default` key in
    any entry but the last is not looked at: such an entry is judged by its `case`.) -/
theorem switch_default (s : St) (original : Val) (pre : List Val) (e d : Val) (idx : Nat)
    (hpre : AllFalse s pre) (he : IsDefault e d) :
    switchScan s original (pre ++ [e]) idx = takeResult s original d := by
  rw [switchScan_at s original pre e [] idx hpre]
  show (match switchCase s e true (idx + pre.length) with
    | .fail n m => raiseNew s n m
    | .next => switchScan s original [] (idx + pre.length + 1)
    | .take rawCall => takeResult s original rawCall) = _
  rw [switchCase_of_default s e _ d he]

/-- **No case true and no default ⇒ the step completes normally and calls nothing**
    (any number of entries, including none); the state is untouched. -/
theorem switch_no_match_calls_nothing (s : St) (cases : List Val)
    (hsw : Ctx.get? s.ctx "switch" = some (.list cases))
    (hall : AllFalse s cases) (hl : ∀ e, cases.getLast? = some e → NoDefault e) :
    switchStep s = (s, .ok) := by
  rw [switchStep_list s cases hsw]
  exact switchScan_allFalse s _ cases 0 hall hl

/-- **Conversely — of no other case**: whenever the switch step raises a call `c`, the context
    holds a list under `switch`, that list splits as `pre ++ e :: post` with every entry of `pre` a
    false case, and `c` is the (formatted, parsed) call config `rc` of `e` alone, where `e` is
    either a case evaluating true or — only as the last entry — the default. The instruction's
    original config is the whole list; the state is untouched. -/
theorem switch_call_is_first_true (s s₁ : St) (c : CofCfg) (h : switchStep s = (s₁, .call c)) :
    ∃ cases pre e post rc cfg,
      Ctx.get? s.ctx "switch" = some (.list cases) ∧ cases = pre ++ e :: post ∧ AllFalse s pre ∧
      ((CaseIs s e true rc ∧ (post = [] → NoDefault e)) ∨ (post = [] ∧ IsDefault e rc)) ∧
      fmtV s rc = .ok cfg ∧ instructionFromVal cfg "switch" (.list cases) = .ok c ∧ s₁ = s := by
  obtain ⟨cs, hg⟩ := switchStep_nonerr_list s s₁ _ h rfl
  rw [switchStep_list s cs hg] at h
  rcases switchScan_classify s (.list cs) cs 0 with ⟨_, _, hr⟩ | ⟨pre, e, post, hcs, hpre, hres⟩
  · rw [hr] at h; injection h with _ h2; cases h2
  · rcases hres with ⟨rc, hsc, hr⟩ | ⟨n, m, _, hr⟩
    · rw [hr] at h
      obtain ⟨cfg, hf, hi, hs⟩ := takeResult_call_inv s s₁ _ rc c h
      refine ⟨cs, pre, e, post, rc, cfg, hg, hcs, hpre, ?_, hf, hi, hs⟩
      rcases switchCase_take_inv s e post.isEmpty _ rc hsc with ⟨h1, h2⟩ | ⟨h1, h2⟩
      · exact .inl ⟨h1, fun hp => h2 (by rw [hp]; rfl)⟩
      · exact .inr ⟨by simpa using h1, h2⟩
    · rw [hr] at h
      have := raiseNew_isErr s n m
      rw [h] at this; cases this

/-- … and whenever it completes normally, no case was true and there was no default. -/
theorem switch_ok_means_no_case (s s₁ : St) (h : switchStep s = (s₁, .ok)) :
    ∃ cases, Ctx.get? s.ctx "switch" = some (.list cases) ∧ AllFalse s cases ∧
      (∀ e, cases.getLast? = some e → NoDefault e) ∧ s₁ = s := by
  obtain ⟨cs, hg⟩ := switchStep_nonerr_list s s₁ _ h rfl
  rw [switchStep_list s cs hg] at h
  rcases switchScan_classify s (.list cs) cs 0 with ⟨hall, hl, hr⟩ | ⟨pre, e, post, _, _, hres⟩
  · rw [hr] at h; injection h with h1 _
    exact ⟨cs, hg, hall, hl, h1.symm⟩
  · rcases hres with ⟨rc, _, hr⟩ | ⟨n, m, _, hr⟩
    · rw [hr] at h; exact absurd h (takeResult_ne_ok s s₁ _ rc)
    · rw [hr] at h
      have := raiseNew_isErr s n m
      rw [h] at this; cases this

/-- **What "evaluates true / false" means** for one entry, as the model has it: the entry is a
    mapping with a `case` and a truthy `call`; `case: null` is false without formatting, anything
    else is `get_formatted_as_type(case, out_type=bool)` on the current state. -/
theorem switch_case_semantics (s : St) (kvs : List (Val × Val)) (raw rc : Val) (b : Bool)
    (hcase : dictGet? kvs (.str "case") = some raw) (hcall : dictGet? kvs (.str "call") = some rc)
    (ht : rc.truthy = true) :
    (CaseIs s (.dict kvs) b rc ↔ (if raw = .none then Except.ok false else fmtB s raw) = .ok b) := by
  constructor
  · rintro ⟨kvs', raw', he, h1, _, _, h4⟩
    injection he with he; subst he
    rw [hcase] at h1; injection h1 with h1; subst h1
    exact h4
  · intro h
    exact ⟨kvs, raw, rfl, hcase, hcall, ht, h⟩

/-- **Error table** (as the model has it). Step level: `switch` missing from the context /
    present but `None` / not a list. Entry level — for the first entry `e` that is not a skipped
    false case, at position `idx + pre.length`: not a mapping; no `case`; no `call`; falsy `call`;
    the `case` expression fails to format. Selected call config: fails to format; does not parse
    into an instruction. In every case the state is the entry state (plus the fresh exception). -/
theorem switch_error_table (s : St) (original : Val) (pre post : List Val) (idx : Nat)
    (hpre : AllFalse s pre) :
    (Ctx.get? s.ctx "switch" = none →
      switchStep s = raiseNew s "pypyr.errors.KeyNotInContextError"
        "~context['switch'] doesn't exist. It must exist for pypyr.steps.switch.") ∧
    (Ctx.get? s.ctx "switch" = some .none →
      switchStep s = raiseNew s "pypyr.errors.KeyInContextHasNoValueError"
        "~context['switch'] must have a value for pypyr.steps.switch.") ∧
    (∀ e, (∀ kvs, e ≠ .dict kvs) →
      switchScan s original (pre ++ e :: post) idx = raiseNew s "OutOfDomain" "switch case must be a mapping") ∧
    (∀ kvs, (post = [] → defaultOf kvs = none) →
      switchScan s original (pre ++ .dict kvs :: post) idx =
        (match caseVerdict s kvs (idx + pre.length) with
         | .fail n m => raiseNew s n m
         | .next => switchScan s original post (idx + pre.length + 1)
         | .take rc => takeResult s original rc)) ∧
    (∀ kvs i, dictGet? kvs (.str "case") = none →
      caseVerdict s kvs i = .fail "pypyr.errors.KeyNotInContextError"
        ("~'case' not found in `switch` index " ++ toString i)) ∧
    (∀ kvs i raw, dictGet? kvs (.str "case") = some raw → dictGet? kvs (.str "call") = none →
      caseVerdict s kvs i = .fail "pypyr.errors.KeyNotInContextError"
        ("~'call' not found in `switch` index " ++ toString i)) ∧
    (∀ kvs i raw rc, dictGet? kvs (.str "case") = some raw → dictGet? kvs (.str "call") = some rc →
      rc.truthy = false →
      caseVerdict s kvs i = .fail "pypyr.errors.KeyInContextHasNoValueError" "~'call' does not have a value") ∧
    (∀ kvs i raw rc x, dictGet? kvs (.str "case") = some raw → dictGet? kvs (.str "call") = some rc →
      rc.truthy = true → caseExpr s raw = .error x → caseVerdict s kvs i = .fail x.name x.msg) ∧
    (∀ rc x, fmtV s rc = .error x → takeResult s original rc = raiseExc s x) ∧
    (∀ rc cfg n m, fmtV s rc = .ok cfg → instructionFromVal cfg "switch" original = .error (n, m) →
      takeResult s original rc = raiseNew s n m) := by
  refine ⟨fun h => ?_, fun h => ?_, fun e he => ?_, fun kvs hd => ?_, fun kvs i h => ?_,
    fun kvs i raw h1 h2 => ?_, fun kvs i raw rc h1 h2 h3 => ?_, fun kvs i raw rc x h1 h2 h3 h4 => ?_,
    fun rc x h => ?_, fun rc cfg n m h1 h2 => ?_⟩
  · unfold switchStep assertKeyHasValue; simp only [h]; rfl
  · unfold switchStep assertKeyHasValue; simp only [h]; rfl
  · rw [switchScan_at s original pre e post idx hpre, switchCase_nondict s e _ _ he]
  · rw [switchScan_at s original pre _ post idx hpre, switchCase_dict]
    cases post with
    | nil => simp only [List.isEmpty_nil, if_true, hd rfl]; rfl
    | cons p ps => rfl
  · unfold caseVerdict; simp only [h]
  · unfold caseVerdict; simp only [h1, h2]
  · unfold caseVerdict; simp only [h1, h2, h3, Bool.not_false, if_true]
  · unfold caseVerdict; simp only [h1, h2, h3, h4, Bool.not_true, Bool.false_eq_true, if_false]
  · unfold takeResult; simp only [h]
  · unfold takeResult; simp only [h1, h2]

/-! ## non-vacuity: concrete switch lists and a concrete run -/

def swCase (case call : Val) : Val := .dict [(.str "case", case), (.str "call", call)]

/-- `x == 1` as a `!py` expression. -/
def xIs1 : Val := .py (.binop .eq (.name "x") (.const (.int 1)))

/-- two false cases, then the first true one, then another true one and a default. -/
def swList : List Val :=
  [swCase (.bool false) (.str "a"), swCase (.str "{no}") (.str "b"), swCase xIs1 (.str "c"),
   swCase (.bool true) (.str "d"), .dict [(.str "default", .str "e")]]

def swState : St := { ctx := [("x", .int 1), ("no", .bool false), ("switch", .list swList)] }

/-- hypotheses of `switch_first_true` on `swList` (first true case = third entry), and the result. -/
example :
    AllFalse swState [swCase (.bool false) (.str "a"), swCase (.str "{no}") (.str "b")] ∧
    CaseIs swState (swCase xIs1 (.str "c")) true (.str "c") ∧
    switchStep swState = (swState, .call { groups := ["c"], success := none, failure := none,
                                           key := "switch", original := .list swList }) := by
  refine ⟨?_, ⟨_, _, rfl, rfl, rfl, rfl, by decide +kernel⟩, by decide +kernel⟩
  intro e he
  simp only [List.mem_cons, List.not_mem_nil, or_false] at he
  rcases he with rfl | rfl
  · exact ⟨.str "a", _, _, rfl, rfl, rfl, rfl, by decide +kernel⟩
  · exact ⟨.str "b", _, _, rfl, rfl, rfl, rfl, by decide +kernel⟩

/-- hypotheses of `switch_default` / `switch_no_match_calls_nothing` on a context where `x ≠ 1`. -/
example :
    let s : St := { ctx := [("x", .int 2)] }
    AllFalse s [swCase xIs1 (.str "c")] ∧ IsDefault (.dict [(.str "default", .str "e")]) (.str "e") ∧
    NoDefault (swCase xIs1 (.str "c")) ∧
    (switchScan s .none [swCase xIs1 (.str "c"), .dict [(.str "default", .str "e")]] 0).2 =
      .call { groups := ["e"], success := none, failure := none, key := "switch", original := .none } ∧
    switchScan s .none [swCase xIs1 (.str "c")] 0 = (s, .ok) := by
  refine ⟨?_, ⟨_, rfl, by decide +kernel⟩, ?_, by decide +kernel, by decide +kernel⟩
  · intro e he
    simp only [List.mem_cons, List.not_mem_nil, or_false] at he
    subst he
    exact ⟨.str "c", _, _, rfl, rfl, rfl, rfl, by decide +kernel⟩
  · intro kvs he
    injection he with he; subst he
    decide +kernel

def probe (tag : String) (extra : List (Val × Val) := []) : StepDef :=
  { name := some "vprobe", inArgs := some [("p", .dict ((.str "tag", .str tag) :: extra))] }

/-- `steps`: a call step under `while (max 2) > foreach [a, b] > retry`, whose callee `sg`
    overwrites all three counters and deletes the call config, then itself calls `sg2` under a
    foreach of its own, which clears the whole context; then a probe. `sw`: a switch whose second
    case is the first true one and whose target jumps away in mid-group. -/
def demoProg : Program := ⟨[{ name := "main", groups := [
  ("steps", .steps [
    { name := some "pypyr.steps.call", inArgs := some [("call", .str "sg")],
      foreach := some (.list [.str "a", .str "b"]),
      while_ := some { max := some (.int 2) },
      retry := some { max := some (.int 2) } },
    probe "after"]),
  ("sg", .steps [
    probe "in" [(.str "set", .dict [(.str "i", .str "X"), (.str "whileCounter", .int 99),
                                     (.str "retryCounter", .int 77)]),
                (.str "del", .list [.str "call"])],
    { name := some "pypyr.steps.call", inArgs := some [("call", .str "sg2")], foreach := some (.list [.int 7]) },
    probe "back"]),
  ("sg2", .steps [probe "deep" [(.str "clearAll", .bool true)]]),
  ("sw", .steps [
    { name := some "pypyr.steps.switch", inArgs := some [("switch", .list [
        swCase (.bool false) (.str "ga"), swCase (.bool true) (.str "gb"), swCase (.bool true) (.str "gc"),
        .dict [(.str "default", .str "gd")]])] },
    probe "after-switch"]),
  ("ga", .steps [probe "A"]),
  ("gb", .steps [probe "B1", { name := some "pypyr.steps.jump", inArgs := some [("jump", .str "gj")] }, probe "B2"]),
  ("gc", .steps [probe "C"]),
  ("gd", .steps [probe "D"]),
  ("gj", .steps [probe "J"]),
  ("next", .steps [probe "N"])] }]⟩

/-- the callee is entered once per (while, foreach) iteration with the caller's counters, two
    levels of callee clobber them, and after each return — and after the step — they are the
    caller's again (`after`: `i = b`, `whileCounter = 2`, `retryCounter = 1`). -/
example :
    let r := runRoot 60 demoProg { name := "main" } {}
    r.2 = .ok ∧
    r.1.trace.map (fun ev => (ev.tag, ev.i, ev.w, ev.r)) =
      [("in", some (.str "a"), some (.int 1), some (.int 1)), ("deep", some (.int 7), some (.int 99), some (.int 77)),
       ("back", some (.int 7), none, none),
       ("in", some (.str "b"), some (.int 1), some (.int 1)), ("deep", some (.int 7), some (.int 99), some (.int 77)),
       ("back", some (.int 7), none, none),
       ("in", some (.str "a"), some (.int 2), some (.int 1)), ("deep", some (.int 7), some (.int 99), some (.int 77)),
       ("back", some (.int 7), none, none),
       ("in", some (.str "b"), some (.int 2), some (.int 1)), ("deep", some (.int 7), some (.int 99), some (.int 77)),
       ("back", some (.int 7), none, none),
       ("after", some (.str "b"), some (.int 2), some (.int 1))] := by
  decide +kernel

/-- switch calls only the first true case (`gb`, not `ga`, `gc`, `gd`); inside it the jump abandons
    `B2` and runs `gj` instead; the call returns and the step after the switch runs; then the next
    requested group. -/
example :
    let r := runRoot 60 demoProg { name := "main", groups := some ["sw", "next"] } {}
    r.2 = .ok ∧ r.1.trace.map (·.tag) = ["B1", "J", "after-switch", "N"] := by
  decide +kernel

/-- the hypotheses of `jump_abandons_rest` / `jump_runs_target_groups` on group `gb` of the demo
    (`pre` = the probe `B1`, `d` = the jump step, `post` = the probe `B2`). -/
example :
    let s : St := { stack := ["main"] }
    groupSteps demoProg "main" "gb" =
      [probe "B1"] ++ { name := some "pypyr.steps.jump", inArgs := some [("jump", .str "gj")] } :: [probe "B2"] ∧
    (∃ s₀, StepsChain demoProg "main" 30 [probe "B1"] s s₀ ∧
      (runStep 28 demoProg "main" { name := some "pypyr.steps.jump", inArgs := some [("jump", .str "gj")] } s₀).2 =
        .jump { groups := ["gj"], success := none, failure := none, key := "jump", original := .str "gj" }) ∧
    (runStepGroup 31 demoProg "main" "gb" false s).1.trace.map (·.tag) = ["B1", "J"] := by
  refine ⟨by decide +kernel, ⟨(runStep 29 demoProg "main" (probe "B1") { stack := ["main"] }).1, ?_, ?_⟩, ?_⟩
  · exact ⟨_, by decide +kernel, rfl⟩
  · decide +kernel
  · decide +kernel

/-- the hypotheses of `plain_call_step_resumes` on a plain call step of the demo. -/
example :
    let d : StepDef := { name := some "pypyr.steps.call", inArgs := some [("call", .str "sg2")] }
    let s : St := { stack := ["main"] }
    let c : CofCfg := { groups := ["sg2"], success := none, failure := none, key := "call", original := .str "sg2" }
    stepInit d = .ok .call ∧ Plain d ∧ describe d (setIn d s) = none ∧
    cofStep "call" true (setIn d s) = (setIn d s, .call c) ∧
    (groupsCallee 20 demoProg "main" c (setIn d s)).2 = .ok := by
  refine ⟨by decide +kernel, ⟨rfl, rfl, rfl, rfl, rfl⟩, rfl, by decide +kernel, by decide +kernel⟩


/-! ## group names given as a sequence of any kind -/

theorem strList_of_names (names : List String) : strList? (.list (names.map .str)) = some names := by
  unfold strList?
  simp [List.filterMap_map, Function.comp_def]

/-- the `groups` entry of the MAP form names the same groups, in the same order, whether it is a list or
    a TUPLE of names (what `groups: !py ('prep', 'build_' + i)` evaluates to); one name alone is that one
    group (`isinstance(groups, str)`) -/
theorem groupNames_any_sequence (names : List String) (n : String) :
    groupNames? (.tuple (names.map .str)) = some names ∧
    groupNames? (.list (names.map .str)) = some names ∧
    groupNames? (.str n) = some [n] :=
  ⟨strList_of_names names, strList_of_names names, rfl⟩

/-- **The map form with a tuple of names is the map form with the list of those names**: for every
    configuration mapping `kvs` (whatever its `success` / `failure` / other entries), instruction key and
    original configuration, replacing a `groups` tuple by the list of the same items gives the same
    instruction - the same groups, in the same order, the same handlers - or the same rejection. -/
theorem instruction_map_tuple_is_list (kvs kvs' : List (Val × Val)) (xs : List Val) (key : String) (original : Val)
    (hg : dictGet? kvs (.str "groups") = some (.tuple xs)) (hg' : dictGet? kvs' (.str "groups") = some (.list xs))
    (hs : dictGet? kvs (.str "success") = dictGet? kvs' (.str "success"))
    (hf : dictGet? kvs (.str "failure") = dictGet? kvs' (.str "failure")) :
    instructionFromVal (.dict kvs) key original = instructionFromVal (.dict kvs') key original := by
  unfold instructionFromVal
  simp only [hg, hg', hs, hf]
  rfl

/-- **… and it names exactly those groups**: `{groups: (n₁, …, nₖ), success: su, failure: fa}` (k ≥ 1) is
    the instruction to run `n₁ … nₖ` in that order with those handlers. -/
theorem instruction_map_tuple_names (names : List String) (hne : names ≠ []) (su fa : Option String)
    (kvs : List (Val × Val)) (key : String) (original : Val)
    (hg : dictGet? kvs (.str "groups") = some (.tuple (names.map .str)))
    (hs : dictGet? kvs (.str "success") = su.map .str) (hf : dictGet? kvs (.str "failure") = fa.map .str) :
    instructionFromVal (.dict kvs) key original =
      .ok { groups := names, success := su, failure := fa, key, original } := by
  have ht : (Val.tuple (names.map .str)).truthy = true := by
    cases names with
    | nil => exact absurd rfl hne
    | cons n rest => rfl
  unfold instructionFromVal
  simp only [hg, ht, (groupNames_any_sequence names "").1, hs, hf, Bool.not_true, Bool.false_eq_true, if_false]
  cases su <;> cases fa <;> rfl

/-- a call step in the map form whose `groups` is the tuple `('sg2',)` held in the context: the step hands
    over to exactly the group `sg2` (hypotheses of `instruction_map_tuple_names` satisfiable: k = 1) -/
example :
    let s : St := { ctx := [("call", .dict [(.str "groups", .str "{names}"), (.str "success", .str "ok")]),
                            ("names", .tuple [.str "sg2"])] }
    (cofStep "call" true s).2 =
      .call { groups := ["sg2"], success := some "ok", failure := none, key := "call",
              original := .dict [(.str "groups", .str "{names}"), (.str "success", .str "ok")] } := by
  decide +kernel


/-! ## the caller's configuration is restored for EVERY caller shape -/

/-- **A calling step without any loop decorator** (frame `{}`: no while, no foreach, no retry - a bare
    `- pypyr.steps.call` whose configuration lives in the context rather than in `in`) gets its `call` /
    `switch` configuration back like any other: whatever the called groups did to the key (a nested call
    with `in: {call: …}` removes it when it completes; a step overwrites it; the context is cleared), the
    context holds the caller's original configuration when `invoke_step` returns - so the next step, or
    the same step used a second time, finds it. Instance of `call_step_restores` (which is for every frame). -/
theorem undecorated_caller_config_restored (body : Body) (hbody : body = cofStep "call" true ∨ body = switchStep)
    (callee : CofCfg → Body) (s s₁ : St) (c : CofCfg) (hb : body s = (s₁, .call c))
    (hco : c.original.truthy = true) :
    Ctx.get? (invokeStep {} body callee s).1.ctx c.key = Ctx.get? s.ctx c.key ∧
    Ctx.get? s.ctx c.key = some c.original :=
  let h := call_step_restores {} body hbody callee s s₁ c hb hco
  ⟨h.2.2.2.2.1, h.2.2.2.2.2⟩

/-- two bare call steps in a row on the configuration `call: g` kept in the context; `g` contains a call
    step with `in: {call: h}`, whose completion REMOVES `call`: both bare steps run `g` (tags G, H twice),
    the run succeeds, `call` is `g` at the end. -/
example :
    let bare : StepDef := { name := some "pypyr.steps.call", simple := true }
    let prog : Program := ⟨[{ name := "main", groups := [
      ("steps", .steps [bare, bare, probe "Z"]),
      ("g", .steps [probe "G", { name := some "pypyr.steps.call", inArgs := some [("call", .str "h")] }]),
      ("h", .steps [probe "H"])] }]⟩
    let r := runRoot 40 prog { name := "main" } { ctx := [("call", .str "g")] }
    r.2 = .ok ∧ r.1.trace.map (·.tag) = ["G", "H", "G", "H", "Z"] ∧ Ctx.get? r.1.ctx "call" = some (.str "g") := by
  decide +kernel

end Pypyr.C03
