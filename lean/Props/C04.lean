/-
  C04 — run/skip/swallow decide execution per iteration; `in` arguments are step-scoped.

  Model: `PypyrModel/Flow/Layers.lean` (`runConditional` = `Step.run_conditional_decorators`,
  `setIn`/`unsetIn` = `set_step_input_context`/`unset_step_input_context`, `runStepWith` =
  `Step.run_step`) and `PypyrModel/Fmt.lean` (`fmtAsBool` = `get_formatted_as_type(.., bool)`).
  Every theorem is for arbitrary step definitions, arbitrary inner bodies (whatever the retry /
  invoke layers and the step module do), arbitrary states, fuel and item lists.
  Property theorems only; helper lemmas live in Props/Lemmas/C04_*.lean.
-/
import Props.Lemmas.C05_Loops
import Props.Lemmas.C07_Save
import Props.Lemmas.C04_ExecSet

namespace Pypyr.C04
open Pypyr Pypyr.Flow Pypyr.C05 Pypyr.C07

/-! ## the truth rule -/

/-- pypyr's truth rule, stated outright: a string is true exactly when its
    lower-cased text is `true`, `1` or `1.0`; everything else by Python truthiness. -/
theorem castToBool_spec (v : Val) :
    castToBool v = (match v with
      | .str s => (lowerAscii s == "true" || lowerAscii s == "1" || lowerAscii s == "1.0")
      | w => w.truthy) := by
  cases v <;> simp [castToBool, castStrToBool]

example : castToBool (.str "TRUE") = true ∧ castToBool (.str "yes") = false ∧
    castToBool (.str "1.0") = true ∧ castToBool (.list []) = false ∧ castToBool (.int 2) = true := by
  decide +kernel

/-- How a raw decorator value (`run`, `skip`, `swallow`, `stop`, `errorOnMax`) becomes a bool,
    by kind of the raw value: a special tag (`!sic`, `!py`, `!jsonify`) is evaluated and the
    result judged by Python truthiness; a string is formatted, a bool result is kept as is, any
    other result is judged by the string rule `castToBool` (so a formatted string `'False'` is
    false, `'1'` is true); every other raw value is judged by Python truthiness. -/
theorem fmtAsBool_spec (fuel : Nat) (ctx : Ctx) (v : Val) :
    fmtAsBool fuel ctx v = (match v with
      | .sic _ | .py _ | .jsonify _ => (fmtVal fuel ctx v).map Val.truthy
      | .str _ =>
        match fmtVal fuel ctx v with
        | .error e => .error e
        | .ok (.bool b) => .ok b
        | .ok r => .ok (castToBool r)
      | other => .ok other.truthy) := by
  cases v <;> rfl

/-- `None`, `0`, empty containers are false; literal bools are themselves — no formatting
    involved, whatever the context. -/
theorem fmtAsBool_literals (fuel : Nat) (ctx : Ctx) (b : Bool) (i : Int) :
    fmtAsBool fuel ctx .none = .ok false ∧ fmtAsBool fuel ctx (.bool b) = .ok b ∧
    fmtAsBool fuel ctx (.int i) = .ok (i != 0) ∧ fmtAsBool fuel ctx (.list []) = .ok false ∧
    fmtAsBool fuel ctx (.dict []) = .ok false :=
  ⟨rfl, rfl, rfl, rfl, rfl⟩

example : fmtAsBool 100 [("a", .str "TRUE"), ("n", .int 0)] (.str "{a}") = .ok true ∧
    fmtAsBool 100 [("a", .str "TRUE"), ("n", .int 0)] (.str "{n}") = .ok false ∧
    fmtAsBool 100 [("a", .str "TRUE"), ("n", .int 0)] (.str "yes") = .ok false ∧
    fmtAsBool 100 [] (.sic "false") = .ok true ∧
    fmtAsBool 100 [("n", .int 0)] (.py (.binop .eq (.name "n") (.const (.int 0)))) = .ok true := by
  decide +kernel

/-- **The dispatch of `get_formatted_as_type(value, out_type=bool)`, as a decision table** on the
    kind of the raw value (the three branches of the Python function, in its order):

    1. `isinstance(value, SpecialTagDirective)` (`!sic`, `!py`, `!jsonify`): the tag is evaluated and
       the result goes through `cast_to_type(result, bool)` = `bool(result)`: **plain truthiness** —
       a `!py` expression yielding the string `'false'` is TRUE;
    2. `isinstance(value, str)`: the string is formatted; an error propagates; a result that already
       is a bool is returned as is; every other result goes through `cast_to_bool` (`castToBool`,
       `castToBool_spec`: a string is true iff its lower-cased text is `true`, `1` or `1.0`,
       anything else by truthiness);
    3. anything else: `bool(value)`, plain truthiness, no formatting. -/
theorem fmtAsBool_dispatch (fuel : Nat) (ctx : Ctx) (v : Val) :
    (isSpecialTag v = true → fmtAsBool fuel ctx v = (fmtVal fuel ctx v).map Val.truthy) ∧
    (∀ t, v = .str t →
      (∀ e, fmtVal fuel ctx v = .error e → fmtAsBool fuel ctx v = .error e) ∧
      (∀ b, fmtVal fuel ctx v = .ok (.bool b) → fmtAsBool fuel ctx v = .ok b) ∧
      (∀ r, fmtVal fuel ctx v = .ok r → (∀ b, r ≠ .bool b) → fmtAsBool fuel ctx v = .ok (castToBool r))) ∧
    (isSpecialTag v = false → (∀ t, v ≠ .str t) → fmtAsBool fuel ctx v = .ok v.truthy) := by
  refine ⟨fun h => ?_, fun t ht => ?_, fun h hs => ?_⟩
  · unfold fmtAsBool; rw [h]; rfl
  · subst ht
    refine ⟨fun e he => ?_, fun b hb => ?_, fun r hr hnb => ?_⟩
    · have he' : fmtIter fuel ctx false (.str t) = .error e := he
      simp [fmtAsBool, isSpecialTag, he']
    · have hb' : fmtIter fuel ctx false (.str t) = .ok (.bool b) := hb
      simp [fmtAsBool, isSpecialTag, hb']
    · have hr' : fmtIter fuel ctx false (.str t) = .ok r := hr
      cases r <;> first | exact absurd rfl (hnb _) | simp [fmtAsBool, isSpecialTag, hr']
  · cases v <;> first | exact absurd rfl (hs _) | rfl | cases h

/-- the three rows on concrete values: a `!py` expression yielding the string `'false'` is true
    (row 1), the format expression `'{a}'` resolving to the same string is false, to `'1.0'` true, to
    the empty list false, to the bool `False` false (row 2), and the raw list `['false']` is true
    (row 3). -/
example :
    fmtAsBool 100 [] (.py (.const (.str "false"))) = .ok true ∧
    fmtAsBool 100 [("a", .str "false")] (.str "{a}") = .ok false ∧
    fmtAsBool 100 [("a", .str "1.0")] (.str "{a}") = .ok true ∧
    fmtAsBool 100 [("a", .list [])] (.str "{a}") = .ok false ∧
    fmtAsBool 100 [("a", .bool false)] (.str "{a}") = .ok false ∧
    fmtAsBool 100 [] (.list [.str "false"]) = .ok true := by
  decide +kernel

/-! ## every form of a decorator value (round 5) -/

/-- **A container literal is judged as written - its members are never looked at.** For every context, every
    fuel and every list of members (strings with formatting expressions that cannot be resolved, stray braces,
    `!py` tags whose evaluation would fail or have side effects - anything): a list / tuple / set / mapping
    given for `run`, `skip`, `swallow`, `stop`, `errorOnMax` or a switch `case` evaluates WITHOUT error to
    "is it non-empty". -/
theorem fmtAsBool_container_literal (fuel : Nat) (ctx : Ctx) (xs : List Val) (kvs : List (Val × Val)) :
    fmtAsBool fuel ctx (.list xs) = .ok (!xs.isEmpty) ∧ fmtAsBool fuel ctx (.tuple xs) = .ok (!xs.isEmpty) ∧
    fmtAsBool fuel ctx (.set xs) = .ok (!xs.isEmpty) ∧ fmtAsBool fuel ctx (.dict kvs) = .ok (!kvs.isEmpty) :=
  ⟨rfl, rfl, rfl, rfl⟩

/-- **A value that is neither a special tag nor a string never depends on the context** (nor on the fuel):
    nothing is formatted, the verdict is the value's own truthiness and there is no error case. -/
theorem fmtAsBool_literal_ignores_context (fuel fuel' : Nat) (ctx ctx' : Ctx) (v : Val)
    (ht : isSpecialTag v = false) (hs : ∀ t, v ≠ .str t) :
    fmtAsBool fuel ctx v = .ok v.truthy ∧ fmtAsBool fuel ctx v = fmtAsBool fuel' ctx' v := by
  have h := fun f c => (fmtAsBool_dispatch f c v).2.2 ht hs
  exact ⟨h fuel ctx, by rw [h fuel ctx, h fuel' ctx']⟩

/-- **A special tag (`!py`, `!sic`, `!jsonify`) whose result is a string is true iff that string is
    non-empty** - the text rule (`true` / `1` / `1.0`) is for decorators WRITTEN as strings only: a mode name
    taken from context through `!py mode` is true whatever its text (unless empty). -/
theorem fmtAsBool_tag_yielding_text (fuel : Nat) (ctx : Ctx) (v : Val) (t : String)
    (ht : isSpecialTag v = true) (hv : fmtVal fuel ctx v = .ok (.str t)) :
    fmtAsBool fuel ctx v = .ok (t != "") := by
  rw [(fmtAsBool_dispatch fuel ctx v).1 ht, hv]; rfl

/-- ... and the same text reached through a string expression goes by the text rule. -/
theorem fmtAsBool_expr_yielding_text (fuel : Nat) (ctx : Ctx) (e t : String)
    (hv : fmtVal fuel ctx (.str e) = .ok (.str t)) :
    fmtAsBool fuel ctx (.str e) = .ok (castToBool (.str t)) :=
  ((fmtAsBool_dispatch fuel ctx (.str e)).2.1 e rfl).2.2 _ hv (fun b h => by cases h)

/-- the forms side by side on one context: `!py mode` with mode = 'ignore' is true, `'{mode}'` is false;
    a list literal holding an unresolvable expression, a stray brace, a `!py` of an unknown name is true and no
    error; the empty containers are false; `!sic 'false'` is true. -/
example :
    let ctx : Ctx := [("mode", .str "ignore"), ("flag", .str "TRUE")]
    fmtAsBool 100 ctx (.py (.name "mode")) = .ok true ∧ fmtAsBool 100 ctx (.str "{mode}") = .ok false ∧
    fmtAsBool 100 ctx (.py (.name "flag")) = .ok true ∧ fmtAsBool 100 ctx (.str "{flag}") = .ok true ∧
    fmtAsBool 100 ctx (.list [.str "{no_such_key}"]) = .ok true ∧ fmtAsBool 100 ctx (.list [.str "{"]) = .ok true ∧
    fmtAsBool 100 ctx (.list [.py (.name "no_such_name")]) = .ok true ∧
    fmtAsBool 100 ctx (.dict [(.str "a", .str "{no_such_key}")]) = .ok true ∧
    fmtAsBool 100 ctx (.list []) = .ok false ∧ fmtAsBool 100 ctx (.dict []) = .ok false ∧
    fmtAsBool 100 ctx (.sic "false") = .ok true := by
  decide +kernel

/-! ## run and skip decide, at the moment of each execution -/

/-- **The body executes iff `run` evaluates true and `skip` evaluates false**, both evaluated on
    the state `s` in which this execution is about to happen: in that case the layer's result is
    the body's result post-processed by the swallow logic (`swallowWrap`); otherwise the body is
    not applied at all and the state is returned untouched. `skip` only needs a value when `run`
    is true. -/
theorem body_runs_iff (d : StepDef) (inner : Body) (s : St) (r k : Bool)
    (hrun : fmtB s d.run = .ok r) (hskip : r = true → fmtB s d.skip = .ok k) :
    runConditional d inner s = (if r && !k then swallowWrap d (inner s) else (s, .ok)) := by
  rw [runConditional_eq, hrun]
  cases r with
  | false => rfl
  | true =>
    simp only [hskip rfl]
    cases k <;> rfl

/-- … `skip` is not even evaluated when `run` is false: the result is the same whatever the
    step's `skip` is — even an expression that cannot be formatted. -/
theorem skip_not_evaluated_when_run_false (d : StepDef) (inner : Body) (s : St) (anySkip : Val)
    (hrun : fmtB s d.run = .ok false) :
    runConditional { d with skip := anySkip } inner s = (s, .ok) :=
  runConditional_run_false _ inner s hrun

/-- The same as an observable equivalence: for a body that leaves a mark in the trace when it
    executes, the mark is there after the layer iff `run ∧ ¬skip`. -/
theorem body_runs_iff_trace (d : StepDef) (inner : Body) (s : St) (r k : Bool)
    (hrun : fmtB s d.run = .ok r) (hskip : r = true → fmtB s d.skip = .ok k)
    (hmark : (inner s).1.trace ≠ s.trace) :
    (runConditional d inner s).1.trace ≠ s.trace ↔ (r && !k) = true := by
  rw [body_runs_iff d inner s r k hrun hskip]
  by_cases h : (r && !k) = true
  · simp only [h, if_true, swallowWrap_trace, iff_true]; exact hmark
  · simp [h]

/-- an error while evaluating `run` (or `skip`) is raised by the step; the body does not run. -/
theorem run_expression_error_raises (d : StepDef) (inner : Body) (s : St) (x : Exc)
    (hrun : fmtB s d.run = .error x) : runConditional d inner s = raiseExc s x := by
  rw [runConditional_eq, hrun]

/-- **Per iteration**: inside a foreach the decision is taken afresh for every item, on the state
    the previous iterations left with `i` bound to the current item. -/
theorem decision_is_per_iteration (d : StepDef) (fr : Frame) (inner : Frame → Body) (x : Val)
    (rest : List Val) (s : St) :
    foreachItems fr (fun fr' => runConditional d (inner fr')) (x :: rest) s =
      (match runConditional d (inner { fr with forI := some x }) { s with ctx := Ctx.set s.ctx "i" x } with
       | (s1, .ok) => foreachItems fr (fun fr' => runConditional d (inner fr')) rest s1
       | other => other) :=
  foreachItems_cons fr _ x rest s

/-- … and likewise for every iteration of a while loop (`whileCounter` = the iteration number). -/
theorem decision_is_per_while_iteration (d : StepDef) (cfg : WhileCfg) (fr : Frame) (inner : Frame → Body)
    (max : Option Nat) (sleep : Num) (eom : Bool) (fuel k : Nat) (s : St) :
    whileIter cfg fr (fun fr' => runConditional d (inner fr')) max sleep eom (fuel + 1) k s =
      (match runConditional d (inner { fr with whileC := some k })
              { s with ctx := Ctx.set s.ctx "whileCounter" (.int k) } with
       | (s1, .ok) => whileAfter cfg fr (fun fr' => runConditional d (inner fr')) max sleep eom fuel k s1
       | other => other) :=
  whileIter_succ cfg fr _ max sleep eom fuel k s

/-- the mark the demonstration body leaves. -/
def markEvent : Event := { tag := "body", i := none, w := none, r := none, nerr := 0, pipe := "", depth := 0, keys := [] }

/-- a body that records that it ran and switches the flag `go` off. -/
def flipBody : Frame → Body := fun _ s =>
  ({ s with ctx := Ctx.set s.ctx "go" (.bool false), trace := s.trace ++ [markEvent] }, .ok)

theorem parse_go : parsePieces "{go}" = .ok [.field "go" ""] := by decide +kernel

theorem fmtB_false_lit (s : St) : fmtB s (.bool false) = .ok false := rfl

/-- Corollary (decisions change between iterations): a step with `run: '{go}'` whose body switches
    `go` off runs its body for the first item and for none of the others — for every non-empty
    item list, any frame, any state in which `go` is true. -/
theorem decision_changes_between_iterations (d : StepDef) (hr : d.run = .str "{go}") (hk : d.skip = .bool false)
    (fr : Frame) (x : Val) (rest : List Val) (s : St) (hgo : Ctx.get? s.ctx "go" = some (.bool true)) :
    ∃ s', foreachItems fr (fun fr' => runConditional d (flipBody fr')) (x :: rest) s = (s', .ok) ∧
      s'.trace = s.trace ++ [markEvent] ∧ Ctx.get? s'.ctx "go" = some (.bool false) := by
  -- once `go` is false nothing runs any more
  have off : ∀ (items : List Val) (t : St), Ctx.get? t.ctx "go" = some (.bool false) →
      ∃ t', foreachItems fr (fun fr' => runConditional d (flipBody fr')) items t = (t', .ok) ∧
        t'.trace = t.trace ∧ Ctx.get? t'.ctx "go" = some (.bool false) := by
    intro items
    induction items with
    | nil => intro t ht; exact ⟨t, rfl, rfl, ht⟩
    | cons y ys ih =>
      intro t ht
      have hg : Ctx.get? (setI y t).ctx "go" = some (.bool false) := by
        show Ctx.get? (Ctx.set t.ctx "i" y) "go" = _
        rw [ctx_get_set_ne _ _ _ _ (by decide)]; exact ht
      have hrun : fmtB (setI y t) d.run = .ok false := by
        rw [hr]; exact fmtB_key_bool _ _ _ _ parse_go hg
      have h1 : itemOut fr (fun fr' => runConditional d (flipBody fr')) y t = (setI y t, .ok) :=
        runConditional_run_false d (flipBody { fr with forI := some y }) (setI y t) hrun
      rw [foreachItems_cons_of_ok _ _ _ _ _ (by rw [h1]), h1]
      obtain ⟨t', e1, e2, e3⟩ := ih (setI y t) hg
      exact ⟨t', e1, e2, e3⟩
  have hg : Ctx.get? (setI x s).ctx "go" = some (.bool true) := by
    show Ctx.get? (Ctx.set s.ctx "i" x) "go" = _
    rw [ctx_get_set_ne _ _ _ _ (by decide)]; exact hgo
  have hrun : fmtB (setI x s) d.run = .ok true := by
    rw [hr]; exact fmtB_key_bool _ _ _ _ parse_go hg
  have hskip : fmtB (setI x s) d.skip = .ok false := by rw [hk]; rfl
  have h1 : itemOut fr (fun fr' => runConditional d (flipBody fr')) x s =
      ({ (setI x s) with ctx := Ctx.set (setI x s).ctx "go" (.bool false),
                         trace := (setI x s).trace ++ [markEvent] }, .ok) :=
    runConditional_nonerr d (flipBody { fr with forI := some x }) (setI x s) _ .ok hrun hskip rfl rfl
  rw [foreachItems_cons_of_ok _ _ _ _ _ (by rw [h1]), h1]
  obtain ⟨t', e1, e2, e3⟩ := off rest
    { (setI x s) with ctx := Ctx.set (setI x s).ctx "go" (.bool false),
                      trace := (setI x s).trace ++ [markEvent] } (ctx_get_set_self _ _ _)
  exact ⟨t', e1, e2, e3⟩

/-- **The execution set.** A step with arbitrary `run` / `skip` expressions under a foreach over the
    items `xs`, around a body (`noteThen g`) that leaves one event per execution and then changes the
    context in any way `g` whatsoever — in particular the keys `run` and `skip` depend on. Thread
    the state through the items by recursion (`condStates d g xs s`: each item `x` paired with the
    state `sₓ` in which its iteration starts — the previous iterations done, `i := x`; an iteration
    transforms the state by `g` iff it executes, `condItem`). If at each of these states the
    decision can be taken (`decides`: `run` formats, and `skip` formats whenever `run` is true), then
    the loop completes normally in the threaded state and **the trace it appended is exactly the
    events of those items `x` for which `run` evaluates true and `skip` evaluates false at `sₓ`**
    (`willRun d sₓ`, `willRun_iff`), in order:

        trace = s.trace ++ [ event x | (x, sₓ) ← condStates d g xs s, run(sₓ) ∧ ¬skip(sₓ) ].

    Any list, any frame, any start state. (`swallow` plays no part: this body raises no error. When
    the decision can NOT be taken at some item: `foreach_execution_set_error`.) -/
theorem foreach_execution_set (d : StepDef) (g : Ctx → Ctx) (fr : Frame) (xs : List Val) (s : St)
    (hev : ∀ p, p ∈ condStates d g xs s → decides d p.2 = true) :
    foreachItems fr (fun fr' => runConditional d (noteThen g fr')) xs s = (condFold d g xs s, .ok) ∧
    (foreachItems fr (fun fr' => runConditional d (noteThen g fr')) xs s).1.trace =
      s.trace ++ (condStates d g xs s).filterMap
        (fun p => if willRun d p.2 then some (noteEvent (some p.1) (some p.1)) else none) := by
  obtain ⟨hall, hfold⟩ := cond_allOk d g fr xs s hev
  have e := foreachItems_allOk fr _ xs s hall
  rw [hfold] at e
  refine ⟨e, ?_⟩
  rw [e]
  exact condFold_trace d g xs s

/-- the vocabulary of `foreach_execution_set`, spelled out: the state sequence is defined by
    recursion on the items — first state: `i` bound to the first item; next state: the previous one
    transformed by the body (event appended, `g` applied) iff `run ∧ ¬skip` held on it, then `i`
    re-bound —, and `willRun` is literally "`run` evaluates true and `skip` evaluates false". -/
theorem execution_states_spec (d : StepDef) (g : Ctx → Ctx) (x : Val) (rest : List Val) (s : St) :
    condStates d g [] s = [] ∧
    condStates d g (x :: rest) s =
      (x, { s with ctx := Ctx.set s.ctx "i" x }) ::
        condStates d g rest
          (if willRun d { s with ctx := Ctx.set s.ctx "i" x } then
            { s with ctx := g (Ctx.set s.ctx "i" x), trace := s.trace ++ [noteEvent (some x) (some x)] }
           else { s with ctx := Ctx.set s.ctx "i" x }) ∧
    (∀ s0, willRun d s0 = true ↔ fmtB s0 d.run = .ok true ∧ fmtB s0 d.skip = .ok false) ∧
    (∀ s0, decides d s0 = true ↔
      ∃ r, fmtB s0 d.run = .ok r ∧ (r = true → ∃ k, fmtB s0 d.skip = .ok k)) := by
  refine ⟨rfl, rfl, willRun_iff d, fun s0 => ?_⟩
  unfold decides
  cases fmtB s0 d.run with
  | error e => simp
  | ok r =>
    cases r with
    | false => simp
    | true => cases fmtB s0 d.skip <;> simp

/-- **… and when `run` or `skip` cannot be evaluated**: with `xs = pre ++ x :: post`, the decision
    taken at every item of `pre`, and at `x` — on the state `sₓ` reached then — `run` failing to
    format, or `run` true and `skip` failing to format, with error `e`: the loop ends right there
    with `e` raised on `sₓ`; the trace holds exactly the events of the executions that took place
    among `pre`; the body ran neither for `x` nor for anything of `post`. -/
theorem foreach_execution_set_error (d : StepDef) (g : Ctx → Ctx) (fr : Frame) (pre post : List Val) (x : Val)
    (s : St) (e : Exc)
    (hev : ∀ p, p ∈ condStates d g pre s → decides d p.2 = true)
    (herr : fmtB (setI x (condFold d g pre s)) d.run = .error e ∨
      (fmtB (setI x (condFold d g pre s)) d.run = .ok true ∧
       fmtB (setI x (condFold d g pre s)) d.skip = .error e)) :
    foreachItems fr (fun fr' => runConditional d (noteThen g fr')) (pre ++ x :: post) s =
      raiseExc (setI x (condFold d g pre s)) e ∧
    (foreachItems fr (fun fr' => runConditional d (noteThen g fr')) (pre ++ x :: post) s).1.trace =
      s.trace ++ (condStates d g pre s).filterMap
        (fun p => if willRun d p.2 then some (noteEvent (some p.1) (some p.1)) else none) := by
  obtain ⟨hall, hfold⟩ := cond_allOk d g fr pre s hev
  have hde : decisionError d (setI x (condFold d g pre s)) = some e := by
    unfold decisionError
    rcases herr with h | ⟨h1, h2⟩
    · rw [h]
    · rw [h1]; simp only []; rw [h2]
  have hx := itemOut_cond_error d g fr x (condFold d g pre s) e hde
  have e1 : foreachItems fr (fun fr' => runConditional d (noteThen g fr')) (pre ++ x :: post) s =
      raiseExc (setI x (condFold d g pre s)) e := by
    rw [foreachItems_append fr _ _ pre s hall, hfold,
        foreachItems_cons_of_nonok fr _ x post _ (by rw [hx]; simp [raiseExc, raiseNew]), hx]
  refine ⟨e1, ?_⟩
  rw [e1]
  show (condFold d g pre s).trace = _
  exact condFold_trace d g pre s

/-- `run: '{go}'`, `skip: !py i == 2`. -/
def gatedStep : StepDef :=
  { name := some "x", run := .str "{go}", skip := .py (.binop .eq (.name "i") (.const (.int 2))) }

/-- a body effect that switches `go` off when it executes for item 3. -/
def offAt3 : Ctx → Ctx := fun c =>
  if Ctx.get? c "i" = some (.int 3) then Ctx.set c "go" (.bool false) else c

/-- the hypothesis of `foreach_execution_set` holds on a concrete loop over `[1, 2, 3, 4]` whose
    decisions change with the state: item 1 executes, item 2 is skipped (`skip` true), item 3
    executes and switches `go` off, item 4 does not run (`run` false by then) — the execution set
    is `{1, 3}`. -/
example :
    let s : St := { ctx := [("go", .bool true)] }
    (∀ p, p ∈ condStates gatedStep offAt3 [.int 1, .int 2, .int 3, .int 4] s → decides gatedStep p.2 = true) ∧
    (foreachItems {} (fun fr' => runConditional gatedStep (noteThen offAt3 fr')) [.int 1, .int 2, .int 3, .int 4] s).1.trace.map
      (·.i) = [some (.int 1), some (.int 3)] ∧
    (condStates gatedStep offAt3 [.int 1, .int 2, .int 3, .int 4] s).map (fun p => willRun gatedStep p.2) =
      [true, false, true, false] := by
  decide +kernel

/-- the hypotheses of `foreach_execution_set_error` on a concrete loop: `run: '{go}'` and a body that
    deletes `go` — item 1 executes, at item 2 `run` cannot be formatted: the loop ends with
    KeyNotInContextError, one event in the trace, item 3 never visited. -/
example :
    let s : St := { ctx := [("go", .bool true)] }
    let d : StepDef := { name := some "x", run := .str "{go}" }
    let g : Ctx → Ctx := fun c => Ctx.erase c "go"
    (∀ p, p ∈ condStates d g [.int 1] s → decides d p.2 = true) ∧
    fmtB (setI (.int 2) (condFold d g [.int 1] s)) d.run = .error (keyNotInContext "go") ∧
    (foreachItems {} (fun fr' => runConditional d (noteThen g fr')) ([.int 1] ++ .int 2 :: [.int 3]) s).2 =
      .err ⟨0, "pypyr.errors.KeyNotInContextError", "go not found in the pypyr context."⟩ false ∧
    (foreachItems {} (fun fr' => runConditional d (noteThen g fr')) ([.int 1] ++ .int 2 :: [.int 3]) s).1.trace.map
      (·.i) = [some (.int 1)] := by
  decide +kernel

/-! ## swallow -/

/-- **swallow true**: an error raised by the body is suppressed — `swallow` being evaluated
    *after* the body, on the state `s1` the body left — the failure is recorded once in
    `runErrors` with `swallowed = true`, and the layer completes normally. -/
theorem swallow_true_suppresses (d : StepDef) (inner : Body) (s s1 s2 : St) (e : ExcV)
    (hrun : fmtB s d.run = .ok true) (hskip : fmtB s d.skip = .ok false)
    (hi : inner s = (s1, .err e false))
    (hsw : fmtB s1 d.swallow = .ok true) (hsave : saveError d (logEscape d s1 e false) e true = (s2, .ok)) :
    runConditional d inner s = (s2, .ok) ∧
    ∃ ce, customError d s1 = .ok ce ∧ runErrorsOf s2 = runErrorsOf s1 ++ [entry d e true ce] := by
  constructor
  · rw [body_runs_iff d inner s true false hrun (fun _ => hskip), hi]
    simp [swallowWrap, fmtB_logEscape, hsw, hsave]
  · obtain ⟨ce, hc, hs2⟩ := saveError_ok d _ s2 e true hsave
    rw [customError_logEscape] at hc
    exact ⟨ce, hc, by rw [hs2, runErrorsOf_set, runErrorsOf_logEscape]⟩

/-- … so a foreach goes on with the next item from the state after recording, -/
theorem swallow_true_foreach_continues (d : StepDef) (fr : Frame) (inner : Frame → Body) (x : Val)
    (rest : List Val) (s s1 s2 : St) (e : ExcV)
    (hrun : fmtB (setI x s) d.run = .ok true) (hskip : fmtB (setI x s) d.skip = .ok false)
    (hi : inner { fr with forI := some x } (setI x s) = (s1, .err e false))
    (hsw : fmtB s1 d.swallow = .ok true) (hsave : saveError d (logEscape d s1 e false) e true = (s2, .ok)) :
    foreachItems fr (fun fr' => runConditional d (inner fr')) (x :: rest) s =
      foreachItems fr (fun fr' => runConditional d (inner fr')) rest s2 := by
  have h := (swallow_true_suppresses d _ _ s1 s2 e hrun hskip hi hsw hsave).1
  exact foreachItems_cons_ok fr _ x rest s s2 h

/-- … and a while loop goes on to its post-iteration `stop` check and the next iteration. -/
theorem swallow_true_while_continues (d : StepDef) (cfg : WhileCfg) (fr : Frame) (inner : Frame → Body)
    (max : Option Nat) (sleep : Num) (eom : Bool) (fuel k : Nat) (s s1 s2 : St) (e : ExcV)
    (hrun : fmtB (setW k s) d.run = .ok true) (hskip : fmtB (setW k s) d.skip = .ok false)
    (hi : inner { fr with whileC := some k } (setW k s) = (s1, .err e false))
    (hsw : fmtB s1 d.swallow = .ok true) (hsave : saveError d (logEscape d s1 e false) e true = (s2, .ok)) :
    whileIter cfg fr (fun fr' => runConditional d (inner fr')) max sleep eom (fuel + 1) k s =
      whileAfter cfg fr (fun fr' => runConditional d (inner fr')) max sleep eom fuel k s2 := by
  have h := (swallow_true_suppresses d _ _ s1 s2 e hrun hskip hi hsw hsave).1
  have h' : iterOut fr (fun fr' => runConditional d (inner fr')) k s = (s2, .ok) := h
  rw [whileIter_succ_of_ok _ _ _ _ _ _ _ _ _ (by rw [h']), h']

/-- **swallow false**: the error is recorded (with `swallowed = false`) and propagates. -/
theorem swallow_false_propagates (d : StepDef) (inner : Body) (s s1 s2 : St) (e : ExcV)
    (hrun : fmtB s d.run = .ok true) (hskip : fmtB s d.skip = .ok false)
    (hi : inner s = (s1, .err e false))
    (hsw : fmtB s1 d.swallow = .ok false) (hsave : saveError d (logEscape d s1 e false) e false = (s2, .ok)) :
    runConditional d inner s = (s2, .err e false) ∧
    ∃ ce, customError d s1 = .ok ce ∧ runErrorsOf s2 = runErrorsOf s1 ++ [entry d e false ce] := by
  constructor
  · rw [body_runs_iff d inner s true false hrun (fun _ => hskip), hi]
    simp [swallowWrap, fmtB_logEscape, hsw, hsave]
  · obtain ⟨ce, hc, hs2⟩ := saveError_ok d _ s2 e false hsave
    rw [customError_logEscape] at hc
    exact ⟨ce, hc, by rw [hs2, runErrorsOf_set, runErrorsOf_logEscape]⟩

/-- … out of a foreach (no further item) and out of a while loop (no `stop` check, no sleep, no
    further iteration). -/
theorem swallow_false_ends_loops (d : StepDef) (cfg : WhileCfg) (fr : Frame) (inner : Frame → Body)
    (max : Option Nat) (sleep : Num) (eom : Bool) (fuel k : Nat) (x : Val) (rest : List Val)
    (s s1 s2 : St) (e : ExcV) :
    (fmtB (setI x s) d.run = .ok true → fmtB (setI x s) d.skip = .ok false →
     inner { fr with forI := some x } (setI x s) = (s1, .err e false) →
     fmtB s1 d.swallow = .ok false → saveError d (logEscape d s1 e false) e false = (s2, .ok) →
     foreachItems fr (fun fr' => runConditional d (inner fr')) (x :: rest) s = (s2, .err e false)) ∧
    (fmtB (setW k s) d.run = .ok true → fmtB (setW k s) d.skip = .ok false →
     inner { fr with whileC := some k } (setW k s) = (s1, .err e false) →
     fmtB s1 d.swallow = .ok false → saveError d (logEscape d s1 e false) e false = (s2, .ok) →
     whileIter cfg fr (fun fr' => runConditional d (inner fr')) max sleep eom (fuel + 1) k s =
       (s2, .err e false)) := by
  constructor
  · intro hrun hskip hi hsw hsave
    have h := (swallow_false_propagates d _ _ s1 s2 e hrun hskip hi hsw hsave).1
    exact foreachItems_cons_nonok fr _ x rest s s2 _ h (by simp)
  · intro hrun hskip hi hsw hsave
    have h := (swallow_false_propagates d _ _ s1 s2 e hrun hskip hi hsw hsave).1
    exact whileIter_nonok cfg fr _ max sleep eom fuel k s s2 _ h (by simp)

/-- `swallow` has no say over anything but errors: normal completion and control-of-flow
    instructions pass whatever `swallow` is. -/
theorem swallow_irrelevant_without_error (d : StepDef) (inner : Body) (s s1 : St) (r : Res)
    (hrun : fmtB s d.run = .ok true) (hskip : fmtB s d.skip = .ok false)
    (hi : inner s = (s1, r)) (hr : r.isErr = false) :
    runConditional d inner s = (s1, r) :=
  runConditional_nonerr d inner s s1 r hrun hskip hi hr

/-! ## `in` arguments are step-scoped -/

/-- **Visible to everything**: `run_step` first puts the `in` arguments into the context
    (`setIn`), and *all* of the step's layers — while, foreach, run/skip/swallow, retry, the
    module body — run from that state (`stepCore` is the whole decorator stack); on normal
    completion the arguments are taken out again (`unsetIn`), on any other outcome the state is
    left as it is. -/
theorem in_visible (d : StepDef) (body : Body) (callee : CofCfg → Body) (fuel : Nat) (s : St) :
    runStepWith d body callee fuel s =
      (match stepCore d body callee fuel (setIn d s) with
       | (s1, .ok) => (unsetIn d s1, .ok)
       | other => other) :=
  runStepWith_eq d body callee fuel s

/-- **A `description` only words the step's notification.** `run_step` formats it once, up front, right
    after the `in` arguments are set (so it sees them): if that formatting fails the step ends with
    that error before any decorator is evaluated; otherwise the step is exactly the decorator stack of
    `in_visible` - the up-front look at `run`/`skip` that chooses between "description" and
    "(skipping): description" decides nothing (its own errors are ignored since c7066aa): whether
    the body runs is decided per iteration by `runConditional` alone. -/
theorem description_only_words_the_notification (d : StepDef) (body : Body) (callee : CofCfg → Body)
    (fuel : Nat) (s : St) :
    runStepDescribed d body callee fuel s =
      (match inFault d with
       | some x => raiseExc s x
       | none =>
         match describe d (setIn d s) with
         | some x => raiseExc (setIn d s) x
         | none => runStepWith d body callee fuel s) := rfl

/-- **An `in` that is no mapping** (`in: ab`, `in: 5`): `set_step_input_context` itself fails - `len()` of
    a number is a TypeError, `dict.update` of a string a ValueError - **before anything else and outside
    every decorator**: whatever `run` / `skip` / `swallow` / `retry` / `foreach` / `while` / `onError` /
    `description` the step declares, whatever its module is, the step ends with that error in the state it
    was entered in, only the exception counter moved: the body did not run, nothing was recorded in
    `runErrors`, nothing swallowed, nothing retried, nothing slept. -/
theorem in_not_a_mapping_escapes (d : StepDef) (body : Body) (callee : CofCfg → Body) (fuel : Nat) (s : St)
    (v : Val) (hb : d.inBad = some v) :
    ∃ x, inFault d = some x ∧ (x.name = "ValueError" ∨ x.name = "TypeError") ∧
      runStepDescribed d body callee fuel s =
        ({ s with nextExc := s.nextExc + 1 }, .err ⟨s.nextExc, x.name, x.msg⟩ false) ∧
      runErrorsOf (runStepDescribed d body callee fuel s).1 = runErrorsOf s ∧
      (runStepDescribed d body callee fuel s).1.trace = s.trace ∧
      (runStepDescribed d body callee fuel s).1.sleeps = s.sleeps ∧
      (runStepDescribed d body callee fuel s).1.ctx = s.ctx := by
  have hx : ∃ x, inFault d = some x ∧ (x.name = "ValueError" ∨ x.name = "TypeError") := by
    unfold inFault; rw [hb]; cases v <;> simp
  obtain ⟨x, hx1, hx2⟩ := hx
  have hrun : runStepDescribed d body callee fuel s =
      ({ s with nextExc := s.nextExc + 1 }, .err ⟨s.nextExc, x.name, x.msg⟩ false) := by
    unfold runStepDescribed; rw [hx1]
    simp only [raiseExc, raiseNew]
    rcases hx2 with h | h <;> simp [h]
  exact ⟨x, hx1, hx2, hrun, by rw [hrun]; rfl, by rw [hrun], by rw [hrun], by rw [hrun]⟩

/-- a well-formed `in` (a mapping, null, or nothing): `set_step_input_context` does not fail. -/
theorem in_mapping_never_faults (d : StepDef) (h : d.inBad = none) : inFault d = none := by
  unfold inFault; rw [h]

/-- what is raised up front does not depend on `run` / `skip` / `swallow` at all. -/
theorem describe_ignores_conditionals (d : StepDef) (r k w : Val) (s : St) :
    describe { d with run := r, skip := k, swallow := w } s = describe d s := rfl

/-- no description, a falsy one, or one that formats: nothing is raised up front. -/
theorem describe_quiet (d : StepDef) (s : St) :
    (d.description = none → describe d s = none) ∧
    (∀ v, d.description = some v → v.truthy = false → describe d s = none) ∧
    (∀ v w, d.description = some v → fmtV s v = .ok w → describe d s = none) := by
  refine ⟨fun h => ?_, fun v h ht => ?_, fun v w h hf => ?_⟩
  · simp [describe, h]
  · simp [describe, h, ht]
  · unfold describe; rw [h]; simp only []; split <;> simp [hf]

/-- **Override**: in that state every `in` key holds the `in` value (the last binding, should a
    key be given twice), whatever the context held under that key before. -/
theorem in_overrides (d : StepDef) (s : St) (pre post : List (String × Val)) (k : String) (v : Val)
    (h : d.inArgs = some (pre ++ (k, v) :: post)) (hlast : k ∉ post.map (·.1)) :
    Ctx.get? (setIn d s).ctx k = some v := by
  rw [setIn_eq, h]
  exact ctx_get_update_last pre post s.ctx k v hlast

/-- every `in` key is present while the step runs. -/
theorem in_all_present (d : StepDef) (s : St) (k : String) (hk : k ∈ inKeys d) :
    ∃ v, (k, v) ∈ d.inArgs.getD [] ∧ Ctx.get? (setIn d s).ctx k = some v := by
  rw [setIn_eq]
  exact ctx_get_update_mem _ s.ctx k hk

/-- Corollary (the decorator expressions see the `in` values, not the outer ones): a step
    `in: {go: false}`, `run: '{go}'` without loops never runs its body, whatever `go` is outside
    — and afterwards `go` is not in the context at all. -/
theorem in_overrides_for_decorators (d : StepDef) (body : Body) (callee : CofCfg → Body) (fuel : Nat) (s : St)
    (hin : d.inArgs = some [("go", .bool false)]) (hr : d.run = .str "{go}")
    (hw : d.while_ = none) (hf : d.foreach = none) :
    runStepWith d body callee fuel s = (unsetIn d (setIn d s), .ok) ∧
    Ctx.get? (runStepWith d body callee fuel s).1.ctx "go" = none := by
  have hg : Ctx.get? (setIn d s).ctx "go" = some (.bool false) :=
    in_overrides d s [] [] "go" (.bool false) hin (by simp)
  have hrun : fmtB (setIn d s) d.run = .ok false := by
    rw [hr]; exact fmtB_key_bool _ _ _ _ parse_go hg
  have hcore : stepCore d body callee fuel (setIn d s) = (setIn d s, .ok) := by
    unfold stepCore foreachLayer foreachOrConditional conditionalLayer
    rw [hw, hf]
    exact runConditional_run_false d _ _ hrun
  have e : runStepWith d body callee fuel s = (unsetIn d (setIn d s), .ok) := by
    rw [runStepWith_eq, hcore]
  refine ⟨e, ?_⟩
  rw [e, unsetIn_eq, hin]
  exact ctx_get_eraseAll_mem _ _ _ (by simp)

/-- **Gone afterwards**: when the step completes normally no `in` key is in the context — for
    every module body, every called group, every combination of decorators and loops, and even
    if the body (re-)created the key itself during the step. -/
theorem in_removed_on_ok (d : StepDef) (body : Body) (callee : CofCfg → Body) (fuel : Nat) (s s' : St)
    (h : runStepWith d body callee fuel s = (s', .ok)) :
    ∀ k, k ∈ inKeys d → Ctx.get? s'.ctx k = none := by
  intro k hk
  rw [runStepWith_eq] at h
  generalize stepCore d body callee fuel (setIn d s) = p at h
  obtain ⟨s1, r⟩ := p
  cases r <;> simp only [] at h <;> injection h with h1 h2 <;> try (cases h2)
  rw [← h1, unsetIn_eq]
  exact ctx_get_eraseAll_mem _ _ _ hk

/-- when the step does *not* complete normally (an error or an instruction leaves it) the state is
    handed on exactly as the layers left it: the arguments are not removed (as in the code, which
    has no `finally` there). -/
theorem in_kept_on_non_ok (d : StepDef) (body : Body) (callee : CofCfg → Body) (fuel : Nat) (s s' : St) (r : Res)
    (h : stepCore d body callee fuel (setIn d s) = (s', r)) (hr : r ≠ .ok) :
    runStepWith d body callee fuel s = (s', r) := by
  rw [runStepWith_eq, h]
  cases r <;> simp_all

/-- **Frame**: putting the arguments in and taking them out changes nothing but the context, and
    in the context nothing but the `in` keys. -/
theorem in_frame (d : StepDef) (s : St) :
    (∀ k, k ∉ inKeys d → Ctx.get? (setIn d s).ctx k = Ctx.get? s.ctx k) ∧
    (∀ k, k ∉ inKeys d → Ctx.get? (unsetIn d s).ctx k = Ctx.get? s.ctx k) ∧
    setIn d s = { s with ctx := (setIn d s).ctx } ∧ unsetIn d s = { s with ctx := (unsetIn d s).ctx } := by
  refine ⟨fun k hk => ?_, fun k hk => ?_, ?_, ?_⟩
  · rw [setIn_eq]; exact ctx_get_update_notin _ _ _ hk
  · rw [unsetIn_eq]; exact ctx_get_eraseAll_notin _ _ _ hk
  · rw [setIn_eq]
  · rw [unsetIn_eq]

/-- a step without `in` leaves the context alone at both ends. -/
theorem no_in_no_change (d : StepDef) (s : St) (h : d.inArgs = none) : setIn d s = s ∧ unsetIn d s = s := by
  unfold setIn unsetIn; rw [h]; exact ⟨rfl, rfl⟩

/-! ## non-vacuity: a concrete pipeline exercising all of it -/

/-- `steps`: (1) a foreach step whose `in` overrides the outer `go`, whose `run` is `'{go}'` and
    whose body (the probe) switches `go` off and re-creates the `in` key `extra` — it runs for the
    first item only; (2) a failing step with `swallow: '{sw}'` where `sw` comes from `in`;
    (3) a plain probe that reports which keys are left. -/
def demoProg : Program := ⟨[{ name := "main", groups := [
  ("steps", .steps [
    { name := some "vprobe",
      inArgs := some [("go", .bool true), ("extra", .int 1),
                      ("p", .dict [(.str "tag", .str "a"),
                                   (.str "set", .dict [(.str "go", .bool false), (.str "extra", .int 2)])])],
      run := .str "{go}", foreach := some (.list [.int 10, .int 20, .int 30]) },
    { name := some "vprobe",
      inArgs := some [("sw", .str "TRUE"), ("p", .dict [(.str "tag", .str "b"), (.str "failRest", .str "ValueError")])],
      swallow := .str "{sw}", lc := some (6, 2) },
    { name := some "vprobe",
      inArgs := some [("p", .dict [(.str "tag", .str "c"), (.str "keys", .list [.str "go", .str "extra", .str "sw"])])] }])] }]⟩

example :
    let r := runRoot 50 demoProg { name := "main" } { ctx := [("go", .bool false)] }
    r.2 = .ok ∧
    -- the body of step 1 ran once (item 10), step 2 once, step 3 once
    r.1.trace.map (fun ev => (ev.tag, ev.i)) = [("a", some (.int 10)), ("b", some (.int 30)), ("c", some (.int 30))] ∧
    -- at step 3 the `in` keys of the earlier steps are gone: even `go`, which existed before, and `extra`,
    -- which the body re-created
    r.1.trace.map (fun ev => ev.keys) = [[], [], [("go", none), ("extra", none), ("sw", none)]] ∧
    -- the swallowed failure is recorded, flagged swallowed, with the step's position
    Ctx.get? r.1.ctx "runErrors" = some (.list [.dict [
      (.str "name", .str "ValueError"), (.str "description", .str "boom b"), (.str "customError", .dict []),
      (.str "line", .int 7), (.str "col", .int 3), (.str "step", .str "vprobe"),
      (.str "exception", .obj 0), (.str "swallowed", .bool true)]]) := by
  decide +kernel

end Pypyr.C04
