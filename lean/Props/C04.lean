/-
  C04 — run/skip/swallow decide execution per iteration; `in` arguments are step-scoped.

  Model: `PypyrModel/Flow/Layers.lean` (`runConditional` = `Step.run_conditional_decorators`,
  `setIn`/`unsetIn` = `set_step_input_context`/`unset_step_input_context`, `runStepWith` =
  `Step.run_step`) and `PypyrModel/Fmt.lean` (`fmtAsBool` = `get_formatted_as_type(.., bool)`).
  Every theorem is for arbitrary step definitions, arbitrary inner bodies (whatever the retry /
  invoke layers and the step module do), arbitrary states, fuel and item lists.
  Property theorems only; helper lemmas live in Props/Lemmas/C04_*.lean.
-/
import Props.Lemmas.C05_Loops
import Props.Lemmas.C07_Save

namespace Pypyr.C04
open Pypyr Pypyr.Flow Pypyr.C05 Pypyr.C07

/-! ## the truth rule -/

/-- pypyr's truth rule, stated outright: a string is true exactly when its
    lower-cased text is `true`, `1` or `1.0`; everything else by Python truthiness. -/
theorem castToBool_spec (v : Val) :
    castToBool v = (match v with
      | .str s => (lowerAscii s == "true" || lowerAscii s == "1" || lowerAscii s == "1.0")
      | w => w.truthy) := by
  cases v <;> simp [castToBool, castStrToBool]

example : castToBool (.str "TRUE") = true ∧ castToBool (.str "yes") = false ∧
    castToBool (.str "1.0") = true ∧ castToBool (.list []) = false ∧ castToBool (.int 2) = true := by
  decide +kernel

/-- How a raw decorator value (`run`, `skip`, `swallow`, `stop`, `errorOnMax`) becomes a bool,
    by kind of the raw value: a special tag (`!sic`, `!py`, `!jsonify`) is evaluated and the
    result judged by Python truthiness; a string is formatted, a bool result is kept as is, any
    other result is judged by the string rule `castToBool` (so a formatted string `'False'` is
    false, `'1'` is true); every other raw value is judged by Python truthiness. -/
theorem fmtAsBool_spec (fuel : Nat) (ctx : Ctx) (v : Val) :
    fmtAsBool fuel ctx v = (match v with
      | .sic _ | .py _ | .jsonify _ => (fmtVal fuel ctx v).map Val.truthy
      | .str _ =>
        match fmtVal fuel ctx v with
        | .error e => .error e
        | .ok (.bool b) => .ok b
        | .ok r => .ok (castToBool r)
      | other => .ok other.truthy) := by
  cases v <;> rfl

/-- `None`, `0`, empty containers are false; literal bools are themselves — no formatting
    involved, whatever the context. -/
theorem fmtAsBool_literals (fuel : Nat) (ctx : Ctx) (b : Bool) (i : Int) :
    fmtAsBool fuel ctx .none = .ok false ∧ fmtAsBool fuel ctx (.bool b) = .ok b ∧
    fmtAsBool fuel ctx (.int i) = .ok (i != 0) ∧ fmtAsBool fuel ctx (.list []) = .ok false ∧
    fmtAsBool fuel ctx (.dict []) = .ok false :=
  ⟨rfl, rfl, rfl, rfl, rfl⟩

example : fmtAsBool 100 [("a", .str "TRUE"), ("n", .int 0)] (.str "{a}") = .ok true ∧
    fmtAsBool 100 [("a", .str "TRUE"), ("n", .int 0)] (.str "{n}") = .ok false ∧
    fmtAsBool 100 [("a", .str "TRUE"), ("n", .int 0)] (.str "yes") = .ok false ∧
    fmtAsBool 100 [] (.sic "false") = .ok true ∧
    fmtAsBool 100 [("n", .int 0)] (.py (.binop .eq (.name "n") (.const (.int 0)))) = .ok true := by
  decide +kernel

/-! ## run and skip decide, at the moment of each execution -/

/-- **The body executes iff `run` evaluates true and `skip` evaluates false**, both evaluated on
    the state `s` in which this execution is about to happen: in that case the layer's result is
    the body's result post-processed by the swallow logic (`swallowWrap`); otherwise the body is
    not applied at all and the state is returned untouched. `skip` only needs a value when `run`
    is true. -/
theorem body_runs_iff (d : StepDef) (inner : Body) (s : St) (r k : Bool)
    (hrun : fmtB s d.run = .ok r) (hskip : r = true → fmtB s d.skip = .ok k) :
    runConditional d inner s = (if r && !k then swallowWrap d (inner s) else (s, .ok)) := by
  rw [runConditional_eq, hrun]
  cases r with
  | false => rfl
  | true =>
    simp only [hskip rfl]
    cases k <;> rfl

/-- … `skip` is not even evaluated when `run` is false: the result is the same whatever the
    step's `skip` is — even an expression that cannot be formatted. -/
theorem skip_not_evaluated_when_run_false (d : StepDef) (inner : Body) (s : St) (anySkip : Val)
    (hrun : fmtB s d.run = .ok false) :
    runConditional { d with skip := anySkip } inner s = (s, .ok) :=
  runConditional_run_false _ inner s hrun

/-- The same as an observable equivalence: for a body that leaves a mark in the trace when it
    executes, the mark is there after the layer iff `run ∧ ¬skip`. -/
theorem body_runs_iff_trace (d : StepDef) (inner : Body) (s : St) (r k : Bool)
    (hrun : fmtB s d.run = .ok r) (hskip : r = true → fmtB s d.skip = .ok k)
    (hmark : (inner s).1.trace ≠ s.trace) :
    (runConditional d inner s).1.trace ≠ s.trace ↔ (r && !k) = true := by
  rw [body_runs_iff d inner s r k hrun hskip]
  by_cases h : (r && !k) = true
  · simp only [h, if_true, swallowWrap_trace, iff_true]; exact hmark
  · simp [h]

/-- an error while evaluating `run` (or `skip`) is raised by the step; the body does not run. -/
theorem run_expression_error_raises (d : StepDef) (inner : Body) (s : St) (x : Exc)
    (hrun : fmtB s d.run = .error x) : runConditional d inner s = raiseExc s x := by
  rw [runConditional_eq, hrun]

/-- **Per iteration**: inside a foreach the decision is taken afresh for every item, on the state
    the previous iterations left with `i` bound to the current item. -/
theorem decision_is_per_iteration (d : StepDef) (fr : Frame) (inner : Frame → Body) (x : Val)
    (rest : List Val) (s : St) :
    foreachItems fr (fun fr' => runConditional d (inner fr')) (x :: rest) s =
      (match runConditional d (inner { fr with forI := some x }) { s with ctx := Ctx.set s.ctx "i" x } with
       | (s1, .ok) => foreachItems fr (fun fr' => runConditional d (inner fr')) rest s1
       | other => other) :=
  foreachItems_cons fr _ x rest s

/-- … and likewise for every iteration of a while loop (`whileCounter` = the iteration number). -/
theorem decision_is_per_while_iteration (d : StepDef) (cfg : WhileCfg) (fr : Frame) (inner : Frame → Body)
    (max : Option Nat) (sleep : Num) (eom : Bool) (fuel k : Nat) (s : St) :
    whileIter cfg fr (fun fr' => runConditional d (inner fr')) max sleep eom (fuel + 1) k s =
      (match runConditional d (inner { fr with whileC := some k })
              { s with ctx := Ctx.set s.ctx "whileCounter" (.int k) } with
       | (s1, .ok) => whileAfter cfg fr (fun fr' => runConditional d (inner fr')) max sleep eom fuel k s1
       | other => other) :=
  whileIter_succ cfg fr _ max sleep eom fuel k s

/-- the mark the demonstration body leaves. -/
def markEvent : Event := { tag := "body", i := none, w := none, r := none, nerr := 0, pipe := "", depth := 0, keys := [] }

/-- a body that records that it ran and switches the flag `go` off. -/
def flipBody : Frame → Body := fun _ s =>
  ({ s with ctx := Ctx.set s.ctx "go" (.bool false), trace := s.trace ++ [markEvent] }, .ok)

theorem parse_go : parsePieces "{go}" = .ok [.field "go" ""] := by decide +kernel

theorem fmtB_false_lit (s : St) : fmtB s (.bool false) = .ok false := rfl

/-- Corollary (decisions change between iterations): a step with `run: '{go}'` whose body switches
    `go` off runs its body for the first item and for none of the others — for every non-empty
    item list, any frame, any state in which `go` is true. -/
theorem decision_changes_between_iterations (d : StepDef) (hr : d.run = .str "{go}") (hk : d.skip = .bool false)
    (fr : Frame) (x : Val) (rest : List Val) (s : St) (hgo : Ctx.get? s.ctx "go" = some (.bool true)) :
    ∃ s', foreachItems fr (fun fr' => runConditional d (flipBody fr')) (x :: rest) s = (s', .ok) ∧
      s'.trace = s.trace ++ [markEvent] ∧ Ctx.get? s'.ctx "go" = some (.bool false) := by
  -- once `go` is false nothing runs any more
  have off : ∀ (items : List Val) (t : St), Ctx.get? t.ctx "go" = some (.bool false) →
      ∃ t', foreachItems fr (fun fr' => runConditional d (flipBody fr')) items t = (t', .ok) ∧
        t'.trace = t.trace ∧ Ctx.get? t'.ctx "go" = some (.bool false) := by
    intro items
    induction items with
    | nil => intro t ht; exact ⟨t, rfl, rfl, ht⟩
    | cons y ys ih =>
      intro t ht
      have hg : Ctx.get? (setI y t).ctx "go" = some (.bool false) := by
        show Ctx.get? (Ctx.set t.ctx "i" y) "go" = _
        rw [ctx_get_set_ne _ _ _ _ (by decide)]; exact ht
      have hrun : fmtB (setI y t) d.run = .ok false := by
        rw [hr]; exact fmtB_key_bool _ _ _ _ parse_go hg
      have h1 : itemOut fr (fun fr' => runConditional d (flipBody fr')) y t = (setI y t, .ok) :=
        runConditional_run_false d (flipBody { fr with forI := some y }) (setI y t) hrun
      rw [foreachItems_cons_of_ok _ _ _ _ _ (by rw [h1]), h1]
      obtain ⟨t', e1, e2, e3⟩ := ih (setI y t) hg
      exact ⟨t', e1, e2, e3⟩
  have hg : Ctx.get? (setI x s).ctx "go" = some (.bool true) := by
    show Ctx.get? (Ctx.set s.ctx "i" x) "go" = _
    rw [ctx_get_set_ne _ _ _ _ (by decide)]; exact hgo
  have hrun : fmtB (setI x s) d.run = .ok true := by
    rw [hr]; exact fmtB_key_bool _ _ _ _ parse_go hg
  have hskip : fmtB (setI x s) d.skip = .ok false := by rw [hk]; rfl
  have h1 : itemOut fr (fun fr' => runConditional d (flipBody fr')) x s =
      ({ (setI x s) with ctx := Ctx.set (setI x s).ctx "go" (.bool false),
                         trace := (setI x s).trace ++ [markEvent] }, .ok) :=
    runConditional_nonerr d (flipBody { fr with forI := some x }) (setI x s) _ .ok hrun hskip rfl rfl
  rw [foreachItems_cons_of_ok _ _ _ _ _ (by rw [h1]), h1]
  obtain ⟨t', e1, e2, e3⟩ := off rest
    { (setI x s) with ctx := Ctx.set (setI x s).ctx "go" (.bool false),
                      trace := (setI x s).trace ++ [markEvent] } (ctx_get_set_self _ _ _)
  exact ⟨t', e1, e2, e3⟩

/-! ## swallow -/

/-- **swallow true**: an error raised by the body is suppressed — `swallow` being evaluated
    *after* the body, on the state `s1` the body left — the failure is recorded once in
    `runErrors` with `swallowed = true`, and the layer completes normally. -/
theorem swallow_true_suppresses (d : StepDef) (inner : Body) (s s1 s2 : St) (e : ExcV)
    (hrun : fmtB s d.run = .ok true) (hskip : fmtB s d.skip = .ok false)
    (hi : inner s = (s1, .err e false))
    (hsw : fmtB s1 d.swallow = .ok true) (hsave : saveError d s1 e true = (s2, .ok)) :
    runConditional d inner s = (s2, .ok) ∧
    ∃ ce, customError d s1 = .ok ce ∧ runErrorsOf s2 = runErrorsOf s1 ++ [entry d e true ce] := by
  constructor
  · rw [body_runs_iff d inner s true false hrun (fun _ => hskip), hi]
    simp [swallowWrap, hsw, hsave]
  · obtain ⟨ce, hc, hs2⟩ := saveError_ok d s1 s2 e true hsave
    exact ⟨ce, hc, by rw [hs2]; exact runErrorsOf_set _ _ _⟩

/-- … so a foreach goes on with the next item from the state after recording, -/
theorem swallow_true_foreach_continues (d : StepDef) (fr : Frame) (inner : Frame → Body) (x : Val)
    (rest : List Val) (s s1 s2 : St) (e : ExcV)
    (hrun : fmtB (setI x s) d.run = .ok true) (hskip : fmtB (setI x s) d.skip = .ok false)
    (hi : inner { fr with forI := some x } (setI x s) = (s1, .err e false))
    (hsw : fmtB s1 d.swallow = .ok true) (hsave : saveError d s1 e true = (s2, .ok)) :
    foreachItems fr (fun fr' => runConditional d (inner fr')) (x :: rest) s =
      foreachItems fr (fun fr' => runConditional d (inner fr')) rest s2 := by
  have h := (swallow_true_suppresses d _ _ s1 s2 e hrun hskip hi hsw hsave).1
  exact foreachItems_cons_ok fr _ x rest s s2 h

/-- … and a while loop goes on to its post-iteration `stop` check and the next iteration. -/
theorem swallow_true_while_continues (d : StepDef) (cfg : WhileCfg) (fr : Frame) (inner : Frame → Body)
    (max : Option Nat) (sleep : Num) (eom : Bool) (fuel k : Nat) (s s1 s2 : St) (e : ExcV)
    (hrun : fmtB (setW k s) d.run = .ok true) (hskip : fmtB (setW k s) d.skip = .ok false)
    (hi : inner { fr with whileC := some k } (setW k s) = (s1, .err e false))
    (hsw : fmtB s1 d.swallow = .ok true) (hsave : saveError d s1 e true = (s2, .ok)) :
    whileIter cfg fr (fun fr' => runConditional d (inner fr')) max sleep eom (fuel + 1) k s =
      whileAfter cfg fr (fun fr' => runConditional d (inner fr')) max sleep eom fuel k s2 := by
  have h := (swallow_true_suppresses d _ _ s1 s2 e hrun hskip hi hsw hsave).1
  have h' : iterOut fr (fun fr' => runConditional d (inner fr')) k s = (s2, .ok) := h
  rw [whileIter_succ_of_ok _ _ _ _ _ _ _ _ _ (by rw [h']), h']

/-- **swallow false**: the error is recorded (with `swallowed = false`) and propagates. -/
theorem swallow_false_propagates (d : StepDef) (inner : Body) (s s1 s2 : St) (e : ExcV)
    (hrun : fmtB s d.run = .ok true) (hskip : fmtB s d.skip = .ok false)
    (hi : inner s = (s1, .err e false))
    (hsw : fmtB s1 d.swallow = .ok false) (hsave : saveError d s1 e false = (s2, .ok)) :
    runConditional d inner s = (s2, .err e false) ∧
    ∃ ce, customError d s1 = .ok ce ∧ runErrorsOf s2 = runErrorsOf s1 ++ [entry d e false ce] := by
  constructor
  · rw [body_runs_iff d inner s true false hrun (fun _ => hskip), hi]
    simp [swallowWrap, hsw, hsave]
  · obtain ⟨ce, hc, hs2⟩ := saveError_ok d s1 s2 e false hsave
    exact ⟨ce, hc, by rw [hs2]; exact runErrorsOf_set _ _ _⟩

/-- … out of a foreach (no further item) and out of a while loop (no `stop` check, no sleep, no
    further iteration). -/
theorem swallow_false_ends_loops (d : StepDef) (cfg : WhileCfg) (fr : Frame) (inner : Frame → Body)
    (max : Option Nat) (sleep : Num) (eom : Bool) (fuel k : Nat) (x : Val) (rest : List Val)
    (s s1 s2 : St) (e : ExcV) :
    (fmtB (setI x s) d.run = .ok true → fmtB (setI x s) d.skip = .ok false →
     inner { fr with forI := some x } (setI x s) = (s1, .err e false) →
     fmtB s1 d.swallow = .ok false → saveError d s1 e false = (s2, .ok) →
     foreachItems fr (fun fr' => runConditional d (inner fr')) (x :: rest) s = (s2, .err e false)) ∧
    (fmtB (setW k s) d.run = .ok true → fmtB (setW k s) d.skip = .ok false →
     inner { fr with whileC := some k } (setW k s) = (s1, .err e false) →
     fmtB s1 d.swallow = .ok false → saveError d s1 e false = (s2, .ok) →
     whileIter cfg fr (fun fr' => runConditional d (inner fr')) max sleep eom (fuel + 1) k s =
       (s2, .err e false)) := by
  constructor
  · intro hrun hskip hi hsw hsave
    have h := (swallow_false_propagates d _ _ s1 s2 e hrun hskip hi hsw hsave).1
    exact foreachItems_cons_nonok fr _ x rest s s2 _ h (by simp)
  · intro hrun hskip hi hsw hsave
    have h := (swallow_false_propagates d _ _ s1 s2 e hrun hskip hi hsw hsave).1
    exact whileIter_nonok cfg fr _ max sleep eom fuel k s s2 _ h (by simp)

/-- `swallow` has no say over anything but errors: normal completion and control-of-flow
    instructions pass whatever `swallow` is. -/
theorem swallow_irrelevant_without_error (d : StepDef) (inner : Body) (s s1 : St) (r : Res)
    (hrun : fmtB s d.run = .ok true) (hskip : fmtB s d.skip = .ok false)
    (hi : inner s = (s1, r)) (hr : r.isErr = false) :
    runConditional d inner s = (s1, r) :=
  runConditional_nonerr d inner s s1 r hrun hskip hi hr

/-! ## `in` arguments are step-scoped -/

/-- **Visible to everything**: `run_step` first puts the `in` arguments into the context
    (`setIn`), and *all* of the step's layers — while, foreach, run/skip/swallow, retry, the
    module body — run from that state (`stepCore` is the whole decorator stack); on normal
    completion the arguments are taken out again (`unsetIn`), on any other outcome the state is
    left as it is. -/
theorem in_visible (d : StepDef) (body : Body) (callee : CofCfg → Body) (fuel : Nat) (s : St) :
    runStepWith d body callee fuel s =
      (match stepCore d body callee fuel (setIn d s) with
       | (s1, .ok) => (unsetIn d s1, .ok)
       | other => other) :=
  runStepWith_eq d body callee fuel s

/-- **A `description` only words the step's notification.** `run_step` formats it once, up front, right
    after the `in` arguments are set (so it sees them): if that formatting fails the step ends with
    that error before any decorator is evaluated; otherwise the step is exactly the decorator stack of
    `in_visible` - the up-front look at `run`/`skip` that chooses between "description" and
    "(skipping): description" decides nothing (its own errors are ignored since c7066aa): whether
    the body runs is decided per iteration by `runConditional` alone. -/
theorem description_only_words_the_notification (d : StepDef) (body : Body) (callee : CofCfg → Body)
    (fuel : Nat) (s : St) :
    runStepDescribed d body callee fuel s =
      (match describe d (setIn d s) with
       | some x => raiseExc (setIn d s) x
       | none => runStepWith d body callee fuel s) := rfl

/-- what is raised up front does not depend on `run` / `skip` / `swallow` at all. -/
theorem describe_ignores_conditionals (d : StepDef) (r k w : Val) (s : St) :
    describe { d with run := r, skip := k, swallow := w } s = describe d s := rfl

/-- no description, a falsy one, or one that formats: nothing is raised up front. -/
theorem describe_quiet (d : StepDef) (s : St) :
    (d.description = none → describe d s = none) ∧
    (∀ v, d.description = some v → v.truthy = false → describe d s = none) ∧
    (∀ v w, d.description = some v → fmtV s v = .ok w → describe d s = none) := by
  refine ⟨fun h => ?_, fun v h ht => ?_, fun v w h hf => ?_⟩
  · simp [describe, h]
  · simp [describe, h, ht]
  · unfold describe; rw [h]; simp only []; split <;> simp [hf]

/-- **Override**: in that state every `in` key holds the `in` value (the last binding, should a
    key be given twice), whatever the context held under that key before. -/
theorem in_overrides (d : StepDef) (s : St) (pre post : List (String × Val)) (k : String) (v : Val)
    (h : d.inArgs = some (pre ++ (k, v) :: post)) (hlast : k ∉ post.map (·.1)) :
    Ctx.get? (setIn d s).ctx k = some v := by
  rw [setIn_eq, h]
  exact ctx_get_update_last pre post s.ctx k v hlast

/-- every `in` key is present while the step runs. -/
theorem in_all_present (d : StepDef) (s : St) (k : String) (hk : k ∈ inKeys d) :
    ∃ v, (k, v) ∈ d.inArgs.getD [] ∧ Ctx.get? (setIn d s).ctx k = some v := by
  rw [setIn_eq]
  exact ctx_get_update_mem _ s.ctx k hk

/-- Corollary (the decorator expressions see the `in` values, not the outer ones): a step
    `in: {go: false}`, `run: '{go}'` without loops never runs its body, whatever `go` is outside
    — and afterwards `go` is not in the context at all. -/
theorem in_overrides_for_decorators (d : StepDef) (body : Body) (callee : CofCfg → Body) (fuel : Nat) (s : St)
    (hin : d.inArgs = some [("go", .bool false)]) (hr : d.run = .str "{go}")
    (hw : d.while_ = none) (hf : d.foreach = none) :
    runStepWith d body callee fuel s = (unsetIn d (setIn d s), .ok) ∧
    Ctx.get? (runStepWith d body callee fuel s).1.ctx "go" = none := by
  have hg : Ctx.get? (setIn d s).ctx "go" = some (.bool false) :=
    in_overrides d s [] [] "go" (.bool false) hin (by simp)
  have hrun : fmtB (setIn d s) d.run = .ok false := by
    rw [hr]; exact fmtB_key_bool _ _ _ _ parse_go hg
  have hcore : stepCore d body callee fuel (setIn d s) = (setIn d s, .ok) := by
    unfold stepCore foreachLayer foreachOrConditional conditionalLayer
    rw [hw, hf]
    exact runConditional_run_false d _ _ hrun
  have e : runStepWith d body callee fuel s = (unsetIn d (setIn d s), .ok) := by
    rw [runStepWith_eq, hcore]
  refine ⟨e, ?_⟩
  rw [e, unsetIn_eq, hin]
  exact ctx_get_eraseAll_mem _ _ _ (by simp)

/-- **Gone afterwards**: when the step completes normally no `in` key is in the context — for
    every module body, every called group, every combination of decorators and loops, and even
    if the body (re-)created the key itself during the step. -/
theorem in_removed_on_ok (d : StepDef) (body : Body) (callee : CofCfg → Body) (fuel : Nat) (s s' : St)
    (h : runStepWith d body callee fuel s = (s', .ok)) :
    ∀ k, k ∈ inKeys d → Ctx.get? s'.ctx k = none := by
  intro k hk
  rw [runStepWith_eq] at h
  generalize stepCore d body callee fuel (setIn d s) = p at h
  obtain ⟨s1, r⟩ := p
  cases r <;> simp only [] at h <;> injection h with h1 h2 <;> try (cases h2)
  rw [← h1, unsetIn_eq]
  exact ctx_get_eraseAll_mem _ _ _ hk

/-- when the step does *not* complete normally (an error or an instruction leaves it) the state is
    handed on exactly as the layers left it: the arguments are not removed (as in the code, which
    has no `finally` there). -/
theorem in_kept_on_non_ok (d : StepDef) (body : Body) (callee : CofCfg → Body) (fuel : Nat) (s s' : St) (r : Res)
    (h : stepCore d body callee fuel (setIn d s) = (s', r)) (hr : r ≠ .ok) :
    runStepWith d body callee fuel s = (s', r) := by
  rw [runStepWith_eq, h]
  cases r <;> simp_all

/-- **Frame**: putting the arguments in and taking them out changes nothing but the context, and
    in the context nothing but the `in` keys. -/
theorem in_frame (d : StepDef) (s : St) :
    (∀ k, k ∉ inKeys d → Ctx.get? (setIn d s).ctx k = Ctx.get? s.ctx k) ∧
    (∀ k, k ∉ inKeys d → Ctx.get? (unsetIn d s).ctx k = Ctx.get? s.ctx k) ∧
    setIn d s = { s with ctx := (setIn d s).ctx } ∧ unsetIn d s = { s with ctx := (unsetIn d s).ctx } := by
  refine ⟨fun k hk => ?_, fun k hk => ?_, ?_, ?_⟩
  · rw [setIn_eq]; exact ctx_get_update_notin _ _ _ hk
  · rw [unsetIn_eq]; exact ctx_get_eraseAll_notin _ _ _ hk
  · rw [setIn_eq]
  · rw [unsetIn_eq]

/-- a step without `in` leaves the context alone at both ends. -/
theorem no_in_no_change (d : StepDef) (s : St) (h : d.inArgs = none) : setIn d s = s ∧ unsetIn d s = s := by
  unfold setIn unsetIn; rw [h]; exact ⟨rfl, rfl⟩

/-! ## non-vacuity: a concrete pipeline exercising all of it -/

/-- `steps`: (1) a foreach step whose `in` overrides the outer `go`, whose `run` is `'{go}'` and
    whose body (the probe) switches `go` off and re-creates the `in` key `extra` — it runs for the
    first item only; (2) a failing step with `swallow: '{sw}'` where `sw` comes from `in`;
    (3) a plain probe that reports which keys are left. -/
def demoProg : Program := ⟨[{ name := "main", groups := [
  ("steps", .steps [
    { name := some "vprobe",
      inArgs := some [("go", .bool true), ("extra", .int 1),
                      ("p", .dict [(.str "tag", .str "a"),
                                   (.str "set", .dict [(.str "go", .bool false), (.str "extra", .int 2)])])],
      run := .str "{go}", foreach := some (.list [.int 10, .int 20, .int 30]) },
    { name := some "vprobe",
      inArgs := some [("sw", .str "TRUE"), ("p", .dict [(.str "tag", .str "b"), (.str "failRest", .str "ValueError")])],
      swallow := .str "{sw}", lc := some (6, 2) },
    { name := some "vprobe",
      inArgs := some [("p", .dict [(.str "tag", .str "c"), (.str "keys", .list [.str "go", .str "extra", .str "sw"])])] }])] }]⟩

example :
    let r := runRoot 50 demoProg { name := "main" } { ctx := [("go", .bool false)] }
    r.2 = .ok ∧
    -- the body of step 1 ran once (item 10), step 2 once, step 3 once
    r.1.trace.map (fun ev => (ev.tag, ev.i)) = [("a", some (.int 10)), ("b", some (.int 30)), ("c", some (.int 30))] ∧
    -- at step 3 the `in` keys of the earlier steps are gone: even `go`, which existed before, and `extra`,
    -- which the body re-created
    r.1.trace.map (fun ev => ev.keys) = [[], [], [("go", none), ("extra", none), ("sw", none)]] ∧
    -- the swallowed failure is recorded, flagged swallowed, with the step's position
    Ctx.get? r.1.ctx "runErrors" = some (.list [.dict [
      (.str "name", .str "ValueError"), (.str "description", .str "boom b"), (.str "customError", .dict []),
      (.str "line", .int 7), (.str "col", .int 3), (.str "step", .str "vprobe"),
      (.str "exception", .obj 0), (.str "swallowed", .bool true)]]) := by
  decide +kernel

end Pypyr.C04
