/-
  C04 — run/skip/swallow decide execution per iteration; `in` is step-scoped.
  Property theorems only; helper lemmas live in Props/Lemmas.
-/
import PypyrModel.Fmt

namespace Pypyr.C04

/-- pypyr's truth rule, stated outright: a string is true exactly when its
    lower-cased text is `true`, `1` or `1.0`; everything else by Python truthiness. -/
theorem castToBool_spec (v : Val) :
    castToBool v = (match v with
      | .str s => (lowerAscii s == "true" || lowerAscii s == "1" || lowerAscii s == "1.0")
      | w => w.truthy) := by
  cases v <;> simp [castToBool, castStrToBool]

example : castToBool (.str "TRUE") = true ∧ castToBool (.str "yes") = false ∧
    castToBool (.str "1.0") = true ∧ castToBool (.list []) = false ∧ castToBool (.int 2) = true := by
  decide +kernel

end Pypyr.C04
