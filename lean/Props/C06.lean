/-
  C06 — retry attempts, error filters and the back-off sleep schedule.

  Model: `PypyrModel/Flow/Layers.lean` (`retryLoop`, `retryIter`, `retryFilters` =
  `RetryDecorator.retry_loop` / `poll.while_until_true` / `exec_iteration`) and
  `PypyrModel/Backoff.lean` (`pypyr.retries`: the six strategies over exact dyadic numbers, the
  deque of `fixed` kept stateful as coded). `St.sleeps` is the virtual clock: one entry per
  `time.sleep`; `St.rnd` the scripted `random.uniform` fractions.

  Everything is for an arbitrary per-attempt behaviour `inner : Frame → Body` (so: for every sequence
  of success / failure / instruction outcomes, depending on the state in any way), every `max`,
  every stopOn / retryOn value, every back-off state, every fuel.

  Vocabulary (Props/Lemmas/C06_Retry.lean, Driver/OpBackoff.lean):
    `attempt fr inner k s`        the body run as attempt `k`: step counter `retryC = k`, `retryCounter = k` in context
    `atMax max k`                 `max` is set and non-zero and `k = max`
    `sleepAfter bo k s1`          `s1` with one sleep of `interval bo k` appended (and the random source advanced)
    `before fr inner bo s i`      (state, back-off callable) before attempt `i+1`, after `i` failed-and-retried attempts
    `Retried cfg fr inner bo s i` attempt `i+1` fails with an error the filters let through
    `schedule bo rs 1 n`          the first `n` intervals `backoff(1) … backoff(n)`, state and random numbers threaded;
                                  the very function the correspondence harness runs against `pypyr.retries`
    `Num.toRat x`                 the rational number `x.n / 2^x.k`; `Num.le a b` is `a.cmp b ≠ .gt`
    `SleepOk fr inner bo s i`     the duration after failed attempt `i+1` is not negative (`time.sleep` accepts it);
                                  from the signs of the configuration alone: `sleep_ok_fixed` / `_linear` / `_exponential` (§7)
-/
import Props.Lemmas.C06_Retry

namespace Pypyr.C06
open Pypyr Pypyr.Flow
open Pypyr.OpBackoff (schedule rndAfter stateAfter)

/-! ## 1. attempts -/

theorem ctx_get_set_self (c : Ctx) (k : String) (v : Val) : Ctx.get? (Ctx.set c k v) k = some v := by
  induction c with
  | nil => simp [Ctx.set, Ctx.get?]
  | cons kv rest ih =>
    obtain ⟨k', v'⟩ := kv
    by_cases h : k' = k
    · simp [Ctx.set, Ctx.get?, h]
    · simp [Ctx.set, Ctx.get?, h, ih]

/-- Attempt `k` runs the body with the step's retry counter `k` and with `retryCounter = k` in the
    context (and nothing else of the state changed). -/
theorem attempt_counter (fr : Frame) (inner : Frame → Body) (k : Nat) (s : St) :
    ∃ s0 : St, attempt fr inner k s = inner { fr with retryC := some k } s0 ∧
      Ctx.get? s0.ctx "retryCounter" = some (.int k) ∧
      s0.sleeps = s.sleeps ∧ s0.rnd = s.rnd ∧ s0.trace = s.trace ∧ s0.stack = s.stack :=
  ⟨{ s with ctx := Ctx.set s.ctx "retryCounter" (.int k) }, rfl, ctx_get_set_self _ _ _, rfl, rfl, rfl, rfl⟩

theorem atMax_iff (max : Option Int) (k : Nat) :
    atMax max k = true ↔ ∃ m, max = some m ∧ m ≠ 0 ∧ (k : Int) = m := by
  cases max with
  | none => simp [atMax]
  | some m =>
    simp only [atMax, Bool.and_eq_true, bne_iff_ne, ne_eq, beq_iff_eq, Option.some.injEq]
    constructor
    · rintro ⟨h1, h2⟩; exact ⟨m, rfl, h1, h2⟩
    · rintro ⟨m', h0, h1, h2⟩; subst h0; exact ⟨h1, h2⟩

/-- `while_until_true` goes on after a failed attempt `k` iff `max` is `None`, 0, or above `k`. -/
theorem goesOn_iff (max : Option Int) (k : Nat) :
    goesOn max k = true ↔ (max = none ∨ max = some 0 ∨ ∃ m, max = some m ∧ (k : Int) < m) := by
  cases max with
  | none => simp [goesOn]
  | some m =>
    simp only [goesOn, Bool.or_eq_true, beq_iff_eq, decide_eq_true_eq, Option.some.injEq, reduceCtorEq, false_or,
      exists_eq_left']

/-- **One attempt of the retry loop**, for every body, every `max` (an int of any sign, or `None`).
    Attempt `k` is run (`attempt`, see `attempt_counter`); then
    1. a result that is not an error (success, or a control-of-flow instruction) is the loop's result,
       in the state of that moment: no sleep, no further attempt;
    2. an error at `k = max` (max set, non-zero) is the loop's result — that very exception object —
       with no sleep after it and without the filters being consulted;
    3. an error for which the filters say stop (name in stopOn, or not in a non-empty retryOn; see
       `filters_spec`) is the loop's result at once, no sleep;
    4. if formatting a filter list fails, that failure is raised instead;
    5. otherwise the back-off callable is called for attempt `k` and, `while_until_true` going on
       (`goesOn`: `max` falsy or above `k`) and the duration not being negative, exactly one sleep of
       `interval bo k` is appended (`sleepAfter`), the callable keeps its new state, attempt `k+1` follows;
    6. a negative duration makes `time.sleep` raise ValueError: nothing slept, no further attempt;
    7. when `while_until_true` does not go on (only possible for a NEGATIVE `max`, see
       `assert_unreachable_for_positive_max`) it breaks with False and `assert is_retry_ok` raises
       AssertionError - the attempt's own error is dropped. -/
theorem retry_attempts (cfg : RetryCfg) (fr : Frame) (inner : Frame → Body) (max : Option Int)
    (fuel k : Nat) (bo : BackoffState) (s : St) :
    (∀ s1 r, attempt fr inner k s = (s1, r) → r.isErr = false →
      retryIter cfg fr inner max (fuel + 1) k bo s = (s1, r)) ∧
    (∀ s1 e h, attempt fr inner k s = (s1, .err e h) → atMax max k = true →
      retryIter cfg fr inner max (fuel + 1) k bo s = (s1, .err e h)) ∧
    (∀ s1 e h, attempt fr inner k s = (s1, .err e h) → atMax max k = false →
      retryFilters cfg s1 e.name = .ok true →
      retryIter cfg fr inner max (fuel + 1) k bo s = (s1, .err e h)) ∧
    (∀ s1 e h x, attempt fr inner k s = (s1, .err e h) → atMax max k = false →
      retryFilters cfg s1 e.name = .error x →
      retryIter cfg fr inner max (fuel + 1) k bo s = raiseExc s1 x) ∧
    (∀ s1 e h, attempt fr inner k s = (s1, .err e h) → atMax max k = false →
      retryFilters cfg s1 e.name = .ok false → goesOn max k = true → 0 ≤ (interval bo k s1.rnd).1.n →
      retryIter cfg fr inner max (fuel + 1) k bo s =
        retryIter cfg fr inner max fuel (k + 1) (interval bo k s1.rnd).2.1 (sleepAfter bo k s1)) ∧
    (∀ s1 e h, attempt fr inner k s = (s1, .err e h) → atMax max k = false →
      retryFilters cfg s1 e.name = .ok false → goesOn max k = true → (interval bo k s1.rnd).1.n < 0 →
      retryIter cfg fr inner max (fuel + 1) k bo s =
        raiseNew { s1 with rnd := (interval bo k s1.rnd).2.2 } "ValueError" "sleep length must be non-negative") ∧
    (∀ s1 e h, attempt fr inner k s = (s1, .err e h) → atMax max k = false →
      retryFilters cfg s1 e.name = .ok false → goesOn max k = false →
      retryIter cfg fr inner max (fuel + 1) k bo s =
        raiseNew { s1 with rnd := (interval bo k s1.rnd).2.2 } "AssertionError" "") :=
  ⟨fun s1 r hi hr => retryIter_success cfg fr inner max fuel k bo s s1 r hi hr,
   fun s1 e h hi hm => retryIter_last cfg fr inner max fuel k bo s s1 e h hi hm,
   fun s1 e h hi hm hf => retryIter_stop cfg fr inner max fuel k bo s s1 e h hi hm hf,
   fun s1 e h x hi hm hf => retryIter_filter_error cfg fr inner max fuel k bo s s1 e h x hi hm hf,
   fun s1 e h hi hm hf hg hn => retryIter_again cfg fr inner max fuel k bo s s1 e h hi hm hf hg hn,
   fun s1 e h hi hm hf hg hn => retryIter_negative_sleep cfg fr inner max fuel k bo s s1 e h hi hm hf hg hn,
   fun s1 e h hi hm hf hg => retryIter_assert cfg fr inner max fuel k bo s s1 e h hi hm hf hg⟩

/-- **"this will never be false"** (the comment above `assert is_retry_ok`) is true for every `max ≥ 1`, for
    `max = 0` and for `max = None`: an attempt `k ≤ max` that is not the `max`-th is below `max`, so the poll
    loop goes on. The assert can only fail for a negative `max`: -/
theorem assert_unreachable_for_positive_max (m : Int) (k : Nat) (hm : 0 ≤ m) (hk : m = 0 ∨ (k : Int) ≤ m)
    (hnot : atMax (some m) k = false) : goesOn (some m) k = true := by
  by_cases h0 : m = 0
  · simp [goesOn, h0]
  · rcases hk with hk | hk
    · exact absurd hk h0
    · have hne : (k : Int) ≠ m := by
        intro he; simp [atMax, h0, he] at hnot
      simp [goesOn]; right; omega

/-- **A negative `max`** (`retry: {max: -1}`, or an expression / numeric string that formats to one): exactly ONE
    attempt. If it fails with an error the filters let through, the back-off callable is still called
    once (a `fixed` list loses its first entry, a jitter strategy draws its random number), nothing is
    slept, `while_until_true` breaks and the AssertionError of `assert is_retry_ok` replaces the
    attempt's error (it is what the step then records). -/
theorem retry_negative_max (cfg : RetryCfg) (fr : Frame) (inner : Frame → Body) (m : Int) (hm : m < 0)
    (fuel : Nat) (bo : BackoffState) (s s1 : St) (e : ExcV) (h : Bool)
    (hi : attempt fr inner 1 s = (s1, .err e h)) (hf : retryFilters cfg s1 e.name = .ok false) :
    retryIter cfg fr inner (some m) (fuel + 1) 1 bo s =
      raiseNew { s1 with rnd := (interval bo 1 s1.rnd).2.2 } "AssertionError" "" ∧
    (retryIter cfg fr inner (some m) (fuel + 1) 1 bo s).1.sleeps = s1.sleeps := by
  have hnot : atMax (some m) 1 = false := by
    simp only [atMax, Bool.and_eq_false_imp, beq_eq_false_iff_ne]; intro _; omega
  have hgo : goesOn (some m) 1 = false := by
    simp only [goesOn, Bool.or_eq_false_iff, beq_eq_false_iff_ne, decide_eq_false_iff_not]; constructor <;> omega
  have := retryIter_assert cfg fr inner (some m) fuel 1 bo s s1 e h hi hnot hf hgo
  exact ⟨this, by rw [this]; rfl⟩

/-- the sleep after a failed attempt is exactly one entry, the strategy's value for that attempt number. -/
theorem sleepAfter_appends_one (bo : BackoffState) (k : Nat) (s1 : St) :
    (sleepAfter bo k s1).sleeps = s1.sleeps ++ [numToVal (interval bo k s1.rnd).1] ∧
    (sleepAfter bo k s1).ctx = s1.ctx := ⟨rfl, rfl⟩

private theorem belowMax_of_le (max : Option Int) (n : Nat) (hmax : ∀ m, max = some m → m ≠ 0 → (n : Int) + 1 ≤ m) :
    ∀ i, i < n → belowMax max (i + 1) := by
  intro i hi m hm h0
  have := hmax m hm h0
  push_cast; omega

/-- **Closed form, success at attempt `n+1`.** If the attempts `1..n` fail and are retried (each sleep having
    a non-negative duration: `SleepOk`, see `sleep_ok_of_nonneg_schedule`) and attempt `n+1 ≤ max` ends
    without error (result `r`: success or an instruction), the loop's result is `r` in the state that
    attempt left; for a body that does not touch the clock itself, exactly the `n` sleeps
    `[interval 1, …, interval n]` of the back-off schedule were made — one after each failed attempt,
    none after the successful one — and the random source is where `n` back-off calls leave it. -/
theorem retry_attempts_until_success (cfg : RetryCfg) (fr : Frame) (inner : Frame → Body) (max : Option Int)
    (bo : BackoffState) (s s' : St) (r : Res) (n fuel : Nat)
    (hfail : ∀ i, i < n → Retried cfg fr inner bo s i)
    (hsl : ∀ i, i < n → SleepOk fr inner bo s i)
    (hmax : ∀ m, max = some m → m ≠ 0 → (n : Int) + 1 ≤ m)
    (hlast : attempt fr inner (n + 1) (before fr inner bo s n).1 = (s', r)) (hr : r.isErr = false) :
    retryIter cfg fr inner max (fuel + 1 + n) 1 bo s = (s', r) ∧
    (KeepsClock inner →
      s'.sleeps = s.sleeps ++ (schedule bo s.rnd 1 n).map numToVal ∧
      (schedule bo s.rnd 1 n).length = n ∧ s'.rnd = rndAfter bo s.rnd 1 n) := by
  constructor
  · rw [retryIter_prefix cfg fr inner max bo s n hfail (belowMax_of_le max n hmax) hsl (fuel + 1)]
    exact retryIter_success cfg fr inner max fuel (n + 1) _ _ s' r hlast hr
  · intro hk
    obtain ⟨b1, b2, _⟩ := before_clock fr inner hk bo s n
    obtain ⟨k1, k2⟩ := attempt_keeps fr inner hk (n + 1) (before fr inner bo s n).1
    rw [hlast] at k1 k2
    exact ⟨k1.trans b1, schedule_length _ _ _ _, k2.trans b2⟩

/-- **Closed form, all `max = n+1` attempts fail.** The loop's result is the error of the LAST attempt
    (the same exception object, `handled` flag included), the filters are not consulted for it, and
    exactly `n = max − 1` sleeps were made: never one after the last attempt. -/
theorem retry_attempts_exhausted (cfg : RetryCfg) (fr : Frame) (inner : Frame → Body)
    (bo : BackoffState) (s s' : St) (e : ExcV) (h : Bool) (n fuel : Nat)
    (hfail : ∀ i, i < n → Retried cfg fr inner bo s i)
    (hsl : ∀ i, i < n → SleepOk fr inner bo s i)
    (hlast : attempt fr inner (n + 1) (before fr inner bo s n).1 = (s', .err e h)) :
    retryIter cfg fr inner (some ((n + 1 : Nat) : Int)) (fuel + 1 + n) 1 bo s = (s', .err e h) ∧
    (KeepsClock inner →
      s'.sleeps = s.sleeps ++ (schedule bo s.rnd 1 n).map numToVal ∧
      (schedule bo s.rnd 1 n).length = n ∧ s'.rnd = rndAfter bo s.rnd 1 n) := by
  constructor
  · rw [retryIter_prefix cfg fr inner (some ((n + 1 : Nat) : Int)) bo s n hfail
      (fun i hi => belowMax_lt (n + 1) (i + 1) (by omega)) hsl (fuel + 1)]
    exact retryIter_last cfg fr inner _ fuel (n + 1) _ _ s' e h hlast (atMax_self (n + 1) (by omega))
  · intro hk
    obtain ⟨b1, b2, _⟩ := before_clock fr inner hk bo s n
    obtain ⟨k1, k2⟩ := attempt_keeps fr inner hk (n + 1) (before fr inner bo s n).1
    rw [hlast] at k1 k2
    exact ⟨k1.trans b1, schedule_length _ _ _ _, k2.trans b2⟩

/-- **Closed form, a filter stops the loop at attempt `n+1`** (before `max`): that error propagates at
    once — no sleep after it, no attempt `n+2`. -/
theorem retry_attempts_stopped (cfg : RetryCfg) (fr : Frame) (inner : Frame → Body) (max : Option Int)
    (bo : BackoffState) (s s' : St) (e : ExcV) (h : Bool) (n fuel : Nat)
    (hfail : ∀ i, i < n → Retried cfg fr inner bo s i)
    (hsl : ∀ i, i < n → SleepOk fr inner bo s i)
    (hmax : ∀ m, max = some m → m ≠ 0 → (n : Int) + 1 < m)
    (hlast : attempt fr inner (n + 1) (before fr inner bo s n).1 = (s', .err e h))
    (hstop : retryFilters cfg s' e.name = .ok true) :
    retryIter cfg fr inner max (fuel + 1 + n) 1 bo s = (s', .err e h) ∧
    (KeepsClock inner →
      s'.sleeps = s.sleeps ++ (schedule bo s.rnd 1 n).map numToVal ∧
      (schedule bo s.rnd 1 n).length = n) := by
  have hm' := belowMax_of_le max (n + 1) (fun m h1 h2 => by have := hmax m h1 h2; push_cast; omega)
  constructor
  · rw [retryIter_prefix cfg fr inner max bo s n hfail (fun i hi => hm' i (by omega)) hsl (fuel + 1)]
    exact retryIter_stop cfg fr inner max fuel (n + 1) _ _ s' e h hlast
      (belowMax_atMax _ _ (hm' n (by omega))) hstop
  · intro hk
    obtain ⟨b1, _, _⟩ := before_clock fr inner hk bo s n
    obtain ⟨k1, _⟩ := attempt_keeps fr inner hk (n + 1) (before fr inner bo s n).1
    rw [hlast] at k1
    exact ⟨k1.trans b1, schedule_length _ _ _ _⟩

/-- **Every bounded run has one of these shapes**: with `max = m ≥ 1` (and fuel for `m` attempts, and a
    back-off schedule without negative durations) the loop makes some number `j+1 ≤ m` of attempts with
    counters `1..j+1`; the first `j` fail and are retried (each followed by its one sleep, `before_clock`),
    and the loop ends with attempt `j+1` as `finishAt` says: its own result, unless it is an error below
    `max` whose filter lists fail to format. There is no attempt `m+1`, whatever the body does, and
    `assert is_retry_ok` never fails. -/
theorem retry_run_shape (cfg : RetryCfg) (fr : Frame) (inner : Frame → Body) (m : Nat) (hm : m ≠ 0)
    (bo : BackoffState) (s : St) (fuel : Nat) (hfuel : m ≤ fuel)
    (hsl : ∀ i, i + 1 < m → SleepOk fr inner bo s i) :
    ∃ j, j < m ∧ (∀ i, i < j → Retried cfg fr inner bo s i) ∧
      retryIter cfg fr inner (some (m : Int)) fuel 1 bo s =
        finishAt cfg (some (m : Int)) (j + 1) (attempt fr inner (j + 1) (before fr inner bo s j).1) := by
  obtain ⟨j, _, h2, h3, h4⟩ := retry_run_shape_aux cfg fr inner m bo s fuel hfuel hsl (m - 1) 0 (by omega)
    (fun i hi => absurd hi (Nat.not_lt_zero i))
  exact ⟨j, h2, h3, h4⟩

/-- what `finishAt` is when there is no bound (`max` = `None` or 0: no attempt is "the `max`-th"): the
    attempt's own result, unless it is an error whose filter lists fail to format. -/
theorem finishAt_unbounded (cfg : RetryCfg) (max : Option Int) (hmax : max = none ∨ max = some 0) (k : Nat)
    (s' : St) (r : Res) :
    (r.isErr = false → finishAt cfg max k (s', r) = (s', r)) ∧
    (∀ e h, r = .err e h → retryFilters cfg s' e.name = .ok true → finishAt cfg max k (s', r) = (s', r)) ∧
    (∀ e h x, r = .err e h → retryFilters cfg s' e.name = .error x →
      finishAt cfg max k (s', r) = raiseExc s' x) := by
  have hmx : atMax max k = false := belowMax_atMax _ _ (belowMax_unbounded max hmax k)
  refine ⟨fun hr => ?_, fun e h he hf => ?_, fun e h x he hf => ?_⟩
  · cases r <;> simp_all [finishAt, Res.isErr]
  · subst he; simp [finishAt, hmx, hf]
  · subst he; simp [finishAt, hmx, hf]

/-- **Unbounded retry (`max` = `None` or 0), the loop ends at attempt `n+1`** — for every `n`, fuel permitting.
    If the attempts `1..n` fail and are retried (`Retried`; their sleeps accepted: `SleepOk`) and attempt `n+1`
    is NOT failed-and-retried — it ends without error (success or an instruction), or with an error the
    filters stop, or with one whose filter lists fail to format — then the loop ends with that attempt as
    `finishAt` says (`finishAt_unbounded`: its own result, resp. the formatting error); there is no
    attempt `n+2`, no sleep after attempt `n+1`, and for a body that leaves the clock alone exactly the
    `n` sleeps of the schedule were made. There is no "last attempt" and `assert is_retry_ok` cannot fail.
    (Hypotheses satisfied on a concrete body: the `example`s of §7.) -/
theorem retry_unbounded_until (cfg : RetryCfg) (fr : Frame) (inner : Frame → Body) (max : Option Int)
    (hmax : max = none ∨ max = some 0) (bo : BackoffState) (s : St) (n fuel : Nat)
    (hfail : ∀ i, i < n → Retried cfg fr inner bo s i)
    (hsl : ∀ i, i < n → SleepOk fr inner bo s i)
    (hend : ¬ Retried cfg fr inner bo s n) :
    retryIter cfg fr inner max (fuel + 1 + n) 1 bo s =
      finishAt cfg max (n + 1) (attempt fr inner (n + 1) (before fr inner bo s n).1) ∧
    (KeepsClock inner →
      (attempt fr inner (n + 1) (before fr inner bo s n).1).1.sleeps =
        s.sleeps ++ (schedule bo s.rnd 1 n).map numToVal ∧
      (schedule bo s.rnd 1 n).length = n) := by
  constructor
  · rw [retryIter_prefix cfg fr inner max bo s n hfail (fun i _ => belowMax_unbounded max hmax (i + 1)) hsl
      (fuel + 1)]
    exact retryIter_finish cfg fr inner max fuel (n + 1) _ _
      (fun e h he _ => not_retried_finish cfg fr inner bo s n hend e h he)
  · intro hk
    obtain ⟨b1, _, _⟩ := before_clock fr inner hk bo s n
    obtain ⟨k1, _⟩ := attempt_keeps fr inner hk (n + 1) (before fr inner bo s n).1
    exact ⟨k1.trans b1, schedule_length _ _ _ _⟩

/-- **Every unbounded run has one of these two shapes** (`max` = `None` or 0; the model's loop is
    fuel-indexed, the code's `while True` is not): for every fuel, with all sleeps accepted,
    * EITHER all of the attempts `1..fuel` fail and are retried, and the fuel runs out standing before
      attempt `fuel+1` (in the state those `fuel` attempts and `fuel` sleeps left: `before … fuel`),
    * OR there is a first attempt `j+1 ≤ fuel` that is not failed-and-retried; the attempts `1..j` before it
      are `Retried`, and the loop ends with attempt `j+1` as `finishAt` says (`finishAt_unbounded`).
    So an unbounded loop never ends by itself on an error the filters let through.
    (Both branches occur on a concrete body: the `example`s of §7.) -/
theorem retry_unbounded_shape (cfg : RetryCfg) (fr : Frame) (inner : Frame → Body) (max : Option Int)
    (hmax : max = none ∨ max = some 0) (bo : BackoffState) (s : St) (fuel : Nat)
    (hsl : ∀ i, i < fuel → SleepOk fr inner bo s i) :
    ((∀ i, i < fuel → Retried cfg fr inner bo s i) ∧
      retryIter cfg fr inner max fuel 1 bo s = ((before fr inner bo s fuel).1, .outOfFuel)) ∨
    (∃ j, j < fuel ∧ (∀ i, i < j → Retried cfg fr inner bo s i) ∧ ¬ Retried cfg fr inner bo s j ∧
      retryIter cfg fr inner max fuel 1 bo s =
        finishAt cfg max (j + 1) (attempt fr inner (j + 1) (before fr inner bo s j).1)) := by
  rcases retried_prefix_or_first cfg fr inner bo s fuel with hall | ⟨j, hj, h1, h2⟩
  · refine Or.inl ⟨hall, ?_⟩
    have := retryIter_prefix cfg fr inner max bo s fuel hall
      (fun i _ => belowMax_unbounded max hmax (i + 1)) hsl 0
    rw [Nat.zero_add] at this
    rw [this, retryIter_no_fuel]
  · refine Or.inr ⟨j, hj, h1, h2, ?_⟩
    obtain ⟨f', hf'⟩ : ∃ f', fuel = f' + 1 + j := ⟨fuel - j - 1, by omega⟩
    rw [hf']
    exact (retry_unbounded_until cfg fr inner max hmax bo s j f' h1 (fun i hi => hsl i (by omega)) h2).1

/-- `SleepOk` from the configuration alone: for a body that leaves clock and random source alone, the
    duration after failed attempt `i+1` is the `i+1`-th interval of the schedule; if every interval of the
    schedule is non-negative, every sleep is accepted. -/
theorem sleep_ok_of_nonneg_schedule (fr : Frame) (inner : Frame → Body) (hk : KeepsClock inner)
    (bo : BackoffState) (s : St)
    (hnn : ∀ i, 0 ≤ (interval (stateAfter bo s.rnd 1 i) (i + 1) (rndAfter bo s.rnd 1 i)).1.n) :
    ∀ i, SleepOk fr inner bo s i := by
  intro i
  unfold SleepOk
  rw [chainInterval_eq fr inner hk bo s i]
  exact hnn i

/-- the clock after `n` failed-and-retried attempts (used by the closed forms above). -/
theorem retried_attempts_sleep_schedule (fr : Frame) (inner : Frame → Body) (hk : KeepsClock inner)
    (bo : BackoffState) (s : St) (n : Nat) :
    (before fr inner bo s n).1.sleeps = s.sleeps ++ (schedule bo s.rnd 1 n).map numToVal ∧
    (before fr inner bo s n).1.rnd = rndAfter bo s.rnd 1 n ∧
    (before fr inner bo s n).2 = stateAfter bo s.rnd 1 n :=
  before_clock fr inner hk bo s n

/-- `retry_loop` itself: once the decorator's values are evaluated (each against the context in which
    `retryCounter` was just set to 0), the back-off name resolves to one of the six built-in strategies
    (`lookupBackoff`) and its constructor succeeds (`buildBackoff … = .good bo`; see `constructors`), the
    loop starts at attempt 1 with that callable and with `max` the formatted int, of whatever sign. -/
theorem retry_loop_starts (cfg : RetryCfg) (fr : Frame) (inner : Frame → Body) (fuel : Nat) (s : St)
    (sleepV nameV jrcV argsV : Val) (kind : BackoffKind) (ms : Option Num) (bo : BackoffState) (max : Option Int)
    (h1 : fmtV { s with ctx := Ctx.set s.ctx "retryCounter" (.int 0) } cfg.sleep = .ok sleepV)
    (h2 : decName cfg { s with ctx := Ctx.set s.ctx "retryCounter" (.int 0) } = .ok nameV)
    (h3 : decMaxSleep cfg { s with ctx := Ctx.set s.ctx "retryCounter" (.int 0) } = .ok ms)
    (h4 : fmtV { s with ctx := Ctx.set s.ctx "retryCounter" (.int 0) } cfg.jrc = .ok jrcV)
    (h5 : decArgs cfg { s with ctx := Ctx.set s.ctx "retryCounter" (.int 0) } = .ok argsV)
    (h6 : lookupBackoff nameV = .kind kind)
    (h7 : buildBackoff kind sleepV ms jrcV argsV = .good bo)
    (h9 : decMax cfg { s with ctx := Ctx.set s.ctx "retryCounter" (.int 0) } = .ok max) :
    retryLoop cfg fr inner fuel s =
      retryIter cfg fr inner max fuel 1 bo { s with ctx := Ctx.set s.ctx "retryCounter" (.int 0) } :=
  retryLoop_decodes cfg fr inner fuel s sleepV nameV jrcV argsV kind ms bo max h1 h2 h3 h4 h5 h6 h7 h9

/-- **What the constructors of `pypyr.retries` build** from the formatted values: the six names resolve to
    their strategy; `fixed` / `jitter` take a number, or a non-empty list of numbers as the deque;
    `linear` / `exponential` (and their jitter variants) take a number, `exponential` its `base` from
    `backoffArgs` (`expBase`, default 2). -/
theorem constructors (ms : Option Num) (jrcV argsV : Val) (jrc : Num) (hj : jrcV.num? = some jrc) :
    (∀ n kind, BackoffKind.ofName? n = some kind → lookupBackoff (.str n) = .kind kind) ∧
    (∀ kind, kind = .fixed ∨ kind = .jitter → ∀ v sl, v.num? = some sl → (∀ xs, v ≠ .list xs) →
      buildBackoff kind v ms jrcV argsV = .good (mkBackoff kind sl none ms jrc ⟨2, 0, false⟩)) ∧
    (∀ kind, kind = .fixed ∨ kind = .jitter → ∀ (x : Val) (xs : List Val) (ns : List Num),
      (x :: xs).filterMap Val.num? = ns → ns.length = (x :: xs).length →
      buildBackoff kind (.list (x :: xs)) ms jrcV argsV =
        .good (mkBackoff kind numZero (some ns) ms jrc ⟨2, 0, false⟩)) ∧
    (∀ kind, kind = .linear ∨ kind = .linearjitter → ∀ v sl, v.num? = some sl →
      buildBackoff kind v ms jrcV argsV = .good (mkBackoff kind sl none ms jrc ⟨2, 0, false⟩)) ∧
    (∀ kind, kind = .exponential ∨ kind = .exponentialjitter → ∀ v sl base, v.num? = some sl →
      expBase argsV = .ok (some base) →
      buildBackoff kind v ms jrcV argsV = .good (mkBackoff kind sl none ms jrc base)) :=
  ⟨lookupBackoff_builtin,
   fun kind hk => (buildBackoff_fixed kind hk ms jrcV argsV jrc hj).1,
   fun kind hk => (buildBackoff_fixed kind hk ms jrcV argsV jrc hj).2.1,
   fun kind hk => (buildBackoff_linear kind hk ms jrcV argsV jrc hj).1,
   fun kind hk v sl base hv hb => buildBackoff_exponential kind hk ms v jrcV argsV jrc sl base hj hv hb⟩

/-- **… and where they fail** (each raised inside `retry_loop`, before `max` is looked at and before the
    first attempt - the step records it like an error of its body): `sleep: []` for `fixed` / `jitter` is an
    IndexError (`self.queue[-1]` on the empty deque); a truthy `backoffArgs` that is no mapping is an
    AttributeError for `exponential` (`kwargs.get`); a list `sleep` for `linear` / `exponential`, or a `base`
    that is no number, builds a callable whose every call goes wrong (`retryFaulty`). -/
theorem constructor_failures (ms : Option Num) (jrcV argsV : Val) (jrc : Num) (hj : jrcV.num? = some jrc) :
    (∀ kind, kind = .fixed ∨ kind = .jitter →
      buildBackoff kind (.list []) ms jrcV argsV = .fail "IndexError" "~deque index out of range") ∧
    (∀ kind, kind = .linear ∨ kind = .linearjitter → ∀ xs,
      buildBackoff kind (.list xs) ms jrcV argsV = .faulty (kind == .linear && maxSleepFalsy ms)) ∧
    (∀ v, expBase (.str v) = (if v = "" then .ok (some ⟨2, 0, false⟩) else .error ("AttributeError", "~object has no attribute 'get'"))) := by
  refine ⟨fun kind hk => (buildBackoff_fixed kind hk ms jrcV argsV jrc hj).2.2,
    fun kind hk => (buildBackoff_linear kind hk ms jrcV argsV jrc hj).2, ?_⟩
  intro v
  by_cases hv : v = ""
  · subst hv; simp [expBase, Val.truthy]
  · simp [expBase, Val.truthy, hv]

/-- **A back-off callable whose every call goes wrong**: the body runs once; a success, an instruction,
    the error of the `max`-th attempt (`max = 1`) and an error the filters stop end the loop as usual;
    the first error that would be retried ends it with TypeError - or, when the call itself returns
    (a list) and `while_until_true` breaks before sleeping (negative `max`), with the AssertionError. -/
theorem retry_faulty_backoff (cfg : RetryCfg) (fr : Frame) (inner : Frame → Body) (max : Option Int) (y : Bool)
    (s : St) :
    (∀ s1 r, attempt fr inner 1 s = (s1, r) → r.isErr = false → retryFaulty cfg fr inner max y s = (s1, r)) ∧
    (∀ s1 e h, attempt fr inner 1 s = (s1, .err e h) → atMax max 1 = true →
      retryFaulty cfg fr inner max y s = (s1, .err e h)) ∧
    (∀ s1 e h, attempt fr inner 1 s = (s1, .err e h) → atMax max 1 = false →
      retryFilters cfg s1 e.name = .ok true → retryFaulty cfg fr inner max y s = (s1, .err e h)) ∧
    (∀ s1 e h, attempt fr inner 1 s = (s1, .err e h) → atMax max 1 = false →
      retryFilters cfg s1 e.name = .ok false →
      retryFaulty cfg fr inner max y s =
        (if y && !goesOn max 1 then raiseNew s1 "AssertionError" ""
         else raiseNew s1 "TypeError" "~the back-off interval is not a number")) := by
  unfold attempt
  refine ⟨?_, ?_, ?_, ?_⟩
  · intro s1 r hi hr
    have hi' : inner { fr with retryC := some 1 } { s with ctx := Ctx.set s.ctx "retryCounter" (.int 1) } = (s1, r) := hi
    unfold retryFaulty; simp only [hi']
    cases r <;> simp_all [Res.isErr]
  · intro s1 e h hi hm
    have hi' : inner { fr with retryC := some 1 } { s with ctx := Ctx.set s.ctx "retryCounter" (.int 1) } =
        (s1, .err e h) := hi
    unfold retryFaulty
    cases max <;> simp only [atMax] at hm <;> simp only [hi']
    · cases hm
    · have hm' : ((_ : Int) != 0 && (1 : Int) == _) = true := hm
      simp only [hm', if_true]
  · intro s1 e h hi hm hf
    have hi' : inner { fr with retryC := some 1 } { s with ctx := Ctx.set s.ctx "retryCounter" (.int 1) } =
        (s1, .err e h) := hi
    unfold retryFaulty
    cases max <;> simp only [atMax] at hm <;> simp only [hi']
    · simp only [hf, Bool.false_eq_true, if_false]
    · have hm' : ((_ : Int) != 0 && (1 : Int) == _) = false := hm
      simp only [hm', hf, Bool.false_eq_true, if_false]
  · intro s1 e h hi hm hf
    have hi' : inner { fr with retryC := some 1 } { s with ctx := Ctx.set s.ctx "retryCounter" (.int 1) } =
        (s1, .err e h) := hi
    unfold retryFaulty
    cases max <;> simp only [atMax] at hm <;> simp only [hi']
    · simp only [hf, goesOn, Bool.false_eq_true, if_false]
      rfl
    · have hm' : ((_ : Int) != 0 && (1 : Int) == _) = false := hm
      simp only [hm', hf, goesOn, Bool.false_eq_true, if_false]
      rfl

/-- no `backoffArgs` (or one without `base`) ⇒ base 2; `backoffArgs: {base: b}` ⇒ `b`. -/
theorem default_base :
    (∀ cfg s, cfg.backoffArgs = none → decArgs cfg s = .ok .none) ∧ decBase .none = ⟨2, 0, false⟩ ∧
    decBase (.dict []) = ⟨2, 0, false⟩ ∧
    (∀ b x, b.num? = some x → decBase (.dict [(.str "base", b)]) = x) ∧
    expBase .none = .ok (some (decBase .none)) ∧ expBase (.dict []) = .ok (some (decBase (.dict []))) ∧
    (∀ b x, b.num? = some x → expBase (.dict [(.str "base", b)]) = .ok (some (decBase (.dict [(.str "base", b)])))) ∧
    OpBackoff.defaultBase = ⟨2, 0, false⟩ :=
  ⟨fun cfg s h => by simp [decArgs, h], rfl, rfl, decBase_given, expBase_eq_decBase.1, expBase_eq_decBase.2.1,
   expBase_eq_decBase.2.2, rfl⟩

/-- **The default strategy is the one configured when the loop STARTS.** A retry without `backoff` (or with
    a falsy one) takes the name from the state it starts in (`St.defaultBackoff` = `config.default_backoff`,
    whatever a config file or the API made of it after pypyr's modules were loaded); a truthy `backoff` is
    formatted and the default is not looked at; writing the retry counter (the one thing `retry_loop` does
    before) does not touch the configuration. -/
theorem default_backoff_read_at_loop_start :
    (∀ (cfg : RetryCfg) (s : St), cfg.backoff = none → decName cfg s = .ok (.str s.defaultBackoff)) ∧
    (∀ (cfg : RetryCfg) (s : St) (b : Val), cfg.backoff = some b → b.truthy = false →
      decName cfg s = .ok (.str s.defaultBackoff)) ∧
    (∀ (cfg : RetryCfg) (s : St) (b : Val), cfg.backoff = some b → b.truthy = true → decName cfg s = fmtV s b) ∧
    (∀ (s : St) (k : String) (v : Val), ({ s with ctx := Ctx.set s.ctx k v } : St).defaultBackoff = s.defaultBackoff) := by
  refine ⟨?_, ?_, ?_, fun _ _ _ => rfl⟩
  · intro cfg s h; unfold decName; rw [h]
  · intro cfg s b h hb; unfold decName; rw [h]; simp [hb]
  · intro cfg s b h hb; unfold decName; rw [h]; simp [hb]

/-- `float(text)` for `sleepMax` that arrives as text: integer and binary-fraction decimal texts are that number,
    surrounding blanks do not matter; a text that is no number is the ValueError of `float()`; a decimal that
    a double can only round (`'0.1'`), an exponent, `inf` / `nan` leave the modelled domain (never compared). -/
example :
    floatOfText "5" = .ok ⟨5, 0, true⟩ ∧ floatOfText "7.5" = .ok ⟨15, 1, true⟩ ∧ floatOfText " 4 " = .ok ⟨4, 0, true⟩ ∧
    floatOfText "-0.25" = .ok ⟨-1, 2, true⟩ ∧ floatOfText "2.0" = .ok ⟨4, 1, true⟩ ∧ floatOfText "+3" = .ok ⟨3, 0, true⟩ ∧
    floatOfText ".5" = .ok ⟨1, 1, true⟩ ∧
    (floatOfText "x").toOption = none ∧ (floatOfText "").toOption = none ∧
    (match floatOfText "x" with | .error e => e.name | .ok _ => "") = "ValueError" ∧
    (match floatOfText "0.1" with | .error e => e.name | .ok _ => "") = "OutOfDomain" ∧
    (match floatOfText "1e3" with | .error e => e.name | .ok _ => "") = "OutOfDomain" ∧
    (match floatOfText "-inf" with | .error e => e.name | .ok _ => "") = "OutOfDomain" ∧
    (match floatOfText "nan" with | .error e => e.name | .ok _ => "") = "OutOfDomain" := by
  decide +kernel

/-! ## 2. filters -/

/-- **Decision table of stopOn / retryOn** (`filtersSpec`, `listVerdict`): a list that is absent or a falsy
    raw value is ignored; otherwise it is formatted against the state of the failure; stopOn containing
    the name ⇒ propagate (retryOn not even formatted); else a consulted retryOn not containing the name
    ⇒ propagate; else retry. -/
theorem filters_spec (cfg : RetryCfg) (s : St) (n : String) :
    retryFilters cfg s n = filtersSpec cfg s n := retryFilters_eq_spec cfg s n

/-- stopOn contains the name ⇒ propagate, whatever retryOn is. -/
theorem filters_stopOn_hit (cfg : RetryCfg) (s : St) (n : String) (so l : Val)
    (h1 : cfg.stopOn = some so) (h2 : so.truthy = true) (h3 : fmtV s so = .ok l) (h4 : nameIn n l = .ok true) :
    retryFilters cfg s n = .ok true := by
  rw [filters_spec]; simp [filtersSpec, listVerdict, h1, h2, h3, h4, Except.map]

/-- stopOn does not stop (ignored, or does not contain the name), retryOn is consulted and does not contain
    the name ⇒ propagate. -/
theorem filters_retryOn_miss (cfg : RetryCfg) (s : St) (n : String) (ro l : Val)
    (hs : listVerdict s cfg.stopOn n = .ok none ∨ listVerdict s cfg.stopOn n = .ok (some false))
    (h1 : cfg.retryOn = some ro) (h2 : ro.truthy = true) (h3 : fmtV s ro = .ok l) (h4 : nameIn n l = .ok false) :
    retryFilters cfg s n = .ok true := by
  rw [filters_spec]
  have hr : listVerdict s cfg.retryOn n = .ok (some false) := by
    simp [listVerdict, h1, h2, h3, h4, Except.map]
  rcases hs with hs | hs <;> simp [filtersSpec, hs, hr]

/-- neither list stops ⇒ retry. -/
theorem filters_retry (cfg : RetryCfg) (s : St) (n : String)
    (hs : listVerdict s cfg.stopOn n = .ok none ∨ listVerdict s cfg.stopOn n = .ok (some false))
    (hr : listVerdict s cfg.retryOn n = .ok none ∨ listVerdict s cfg.retryOn n = .ok (some true)) :
    retryFilters cfg s n = .ok false := by
  rw [filters_spec]
  rcases hs with hs | hs <;> rcases hr with hr | hr <;> simp [filtersSpec, hs, hr]

/-- an absent or falsy list is not consulted (and not formatted). -/
theorem filters_list_ignored (s : St) (n : String) (o : Option Val)
    (h : o = none ∨ ∃ v, o = some v ∧ v.truthy = false) : listVerdict s o n = .ok none := by
  rcases h with h | ⟨v, h, hv⟩
  · simp [listVerdict, h]
  · simp [listVerdict, h, hv]

/-- a consulted list: formatted now, then membership of the name. -/
theorem filters_list_consulted (s : St) (n : String) (v l : Val) (hv : v.truthy = true)
    (hf : fmtV s v = .ok l) : listVerdict s (some v) n = (nameIn n l).map some := by
  simp [listVerdict, hv, hf]

/-- membership in a list of names is list membership of the name. -/
theorem filters_name_membership (n : String) (names : List String) :
    nameIn n (.list (names.map Val.str)) = .ok (names.contains n) := nameIn_names n names

/-- the filters read the context of the moment of the failure and nothing else of the state. -/
theorem filters_use_current_context (cfg : RetryCfg) (s s' : St) (n : String) (h : s.ctx = s'.ctx) :
    retryFilters cfg s n = retryFilters cfg s' n := retryFilters_ctx cfg s s' n h

/-! ## 3. back-off strategies -/

/-- **fixed / jitter with a list**: called with `n = 1, 2, 3, …` (the state threaded, `afterCalls`), call
    `i+1` returns the capped `l[min i (len−1)]` — the last entry repeats for ever. (`listEntry l i` is
    `l.getD (min i (l.length − 1)) 0`; `l = x :: xs` is non-empty.) -/
theorem fixed_list_closed_form (kind : BackoffKind) (s x : Num) (xs : List Num) (ms : Option Num) (jrc base : Num)
    (hk : kind = .fixed ∨ kind = .jitter) (i : Nat) :
    (baseInterval (afterCalls (mkBackoff kind s (some (x :: xs)) ms jrc base) i) (i + 1)).1 =
      capSleep ms ((x :: xs).getD (min i ((x :: xs).length - 1)) numZero) ∧
    afterCalls (mkBackoff kind s (some (x :: xs)) ms jrc base) i =
      { mkBackoff kind s (some (x :: xs)) ms jrc base with queue := (x :: xs).drop i } :=
  ⟨fixed_list_nth kind s x xs ms jrc base hk i, afterCalls_list kind s x xs ms jrc base hk i⟩

/-- the entry is really the `i`-th while `i < len`, and the last one from then on. -/
theorem fixed_list_entry (x : Num) (xs : List Num) (i : Nat) :
    (∀ h : i < (x :: xs).length, listEntry (x :: xs) i = (x :: xs)[i]) ∧
    ((x :: xs).length ≤ i → listEntry (x :: xs) i = (x :: xs).getLast (List.cons_ne_nil x xs)) := by
  refine ⟨fun h => listEntry_lt _ _ h, fun h => ?_⟩
  rw [listEntry_ge x xs i h]
  induction xs generalizing x with
  | nil => rfl
  | cons y ys ih => rw [lastOf, List.getLast_cons (List.cons_ne_nil y ys)]; exact ih y (by simp only [List.length_cons] at h ⊢; omega)

/-- **fixed / jitter with a number**: every call returns the capped number. -/
theorem fixed_scalar_closed_form (kind : BackoffKind) (s : Num) (ms : Option Num) (jrc base : Num)
    (hk : kind = .fixed ∨ kind = .jitter) (i n : Nat) :
    (baseInterval (afterCalls (mkBackoff kind s none ms jrc base) i) n).1 = capSleep ms s :=
  fixed_scalar_nth kind s ms jrc base hk i n

/-- **linear**: `cap (n · sleep)`, as a `Num` and as a rational; the callable has no state. -/
theorem linear_spec (b : BackoffState) (n : Nat) (hk : b.kind = .linear ∨ b.kind = .linearjitter) :
    baseInterval b n = (capSleep b.maxSleep ((Num.ofNat n).mul b.sleep), b) ∧
    (baseInterval b n).1.toRat = capQ (b.maxSleep.map Num.toRat) (n * b.sleep.toRat) := by
  rw [baseInterval_linear b n hk]
  refine ⟨rfl, ?_⟩
  rw [capSleep_toRat, Num.toRat_mul, Num.toRat_ofNat]

/-- **exponential**: `cap (baseⁿ · sleep)`; `base` is what `retry_loop_starts` decodes (default 2). -/
theorem exponential_spec (b : BackoffState) (n : Nat) (hk : b.kind = .exponential ∨ b.kind = .exponentialjitter) :
    baseInterval b n = (capSleep b.maxSleep ((b.base.pow n).mul b.sleep), b) ∧
    (baseInterval b n).1.toRat = capQ (b.maxSleep.map Num.toRat) (b.base.toRat ^ n * b.sleep.toRat) := by
  rw [baseInterval_exponential b n hk]
  refine ⟨rfl, ?_⟩
  rw [capSleep_toRat, Num.toRat_mul, Num.toRat_pow]

/-- `mkBackoff` keeps the arguments it is given (so the specs above are about the configured values). -/
theorem mkBackoff_fields (kind : BackoffKind) (s : Num) (ms : Option Num) (jrc base : Num) :
    (mkBackoff kind s none ms jrc base).kind = kind ∧ (mkBackoff kind s none ms jrc base).sleep = s ∧
    (mkBackoff kind s none ms jrc base).maxSleep = ms ∧ (mkBackoff kind s none ms jrc base).jrc = jrc ∧
    (mkBackoff kind s none ms jrc base).base = base := by
  rw [mkBackoff_scalar]; exact ⟨rfl, rfl, rfl, rfl, rfl⟩

/-- **cap**: no `sleepMax`, or `sleepMax = 0` ⇒ the duration itself; else the smaller of the two. -/
theorem cap_spec (d : Num) :
    capSleep none d = d ∧
    (∀ m : Num, m.isZero = true → capSleep (some m) d = d) ∧
    (∀ m : Num, m.isZero = false → capSleep (some m) d = Num.min d m) ∧
    (∀ m : Option Num, (capSleep m d).toRat = capQ (m.map Num.toRat) d.toRat) ∧
    (∀ m : Option Num, (capSleep m d).le d) := by
  refine ⟨rfl, fun m h => by simp [capSleep, h], fun m h => by simp [capSleep, h],
    fun m => capSleep_toRat m d, fun m => ?_⟩
  rw [Num.le_iff, capSleep_toRat]; exact capQ_le _ _

/-- `Num.min` is the numeric minimum w.r.t. `Num.cmp`: one of its arguments, not above either, and above
    every common lower bound; its value is the minimum of the values. -/
theorem min_spec (a b : Num) :
    (Num.min a b = a ∨ Num.min a b = b) ∧ (Num.min a b).cmp a ≠ .gt ∧ (Num.min a b).cmp b ≠ .gt ∧
    (∀ c : Num, c.cmp a ≠ .gt → c.cmp b ≠ .gt → c.cmp (Num.min a b) ≠ .gt) ∧
    (Num.min a b).toRat = Min.min a.toRat b.toRat :=
  ⟨(Num.min_is_minimum a b).1, (Num.min_is_minimum a b).2.1, (Num.min_is_minimum a b).2.2.1,
   (Num.min_is_minimum a b).2.2.2, Num.toRat_min a b⟩

/-- `Num.cmp` is the order of the rational values, and the arithmetic of `Num` is that of the values. -/
theorem num_semantics (a b : Num) :
    (a.cmp b = .lt ↔ a.toRat < b.toRat) ∧ (a.cmp b = .eq ↔ a.toRat = b.toRat) ∧
    (a.cmp b = .gt ↔ b.toRat < a.toRat) ∧
    (a.add b).toRat = a.toRat + b.toRat ∧ (a.sub b).toRat = a.toRat - b.toRat ∧
    (a.mul b).toRat = a.toRat * b.toRat :=
  ⟨Num.cmp_lt_iff a b, Num.cmp_eq_iff a b, Num.cmp_gt_iff a b, Num.toRat_add a b, Num.toRat_sub a b,
   Num.toRat_mul a b⟩

/-! ## 4. jitter -/

/-- **Jitter bounds** on the model's own comparisons: for `0 ≤ jrc ≤ 1`, `0 ≤ d`, `0 ≤ r ≤ 1`
    (`Num.le x y` is `x.cmp y ≠ .gt`): `jrc·d ≤ randomize jrc d r ≤ d`. -/
theorem jitter_bounds (jrc d r : Num)
    (hj0 : numZero.le jrc) (hj1 : jrc.le (Num.ofNat 1)) (hd : numZero.le d)
    (hr0 : numZero.le r) (hr1 : r.le (Num.ofNat 1)) :
    (jrc.mul d).le (randomize jrc d r) ∧ (randomize jrc d r).le d := by
  rw [Num.le_iff, Num.toRat_zero] at hj0 hd hr0
  rw [Num.le_iff, Num.toRat_ofNat] at hj1 hr1
  have _ := hj0
  have hb := randomize_bounds_rat jrc d r (by exact_mod_cast hj1) hd hr0 (by exact_mod_cast hr1)
  refine ⟨(Num.le_iff _ _).mpr ?_, (Num.le_iff _ _).mpr hb.2⟩
  rw [Num.toRat_mul]; exact hb.1

/-- **Jitter bounds without any sign condition**: for ALL `jrc`, `d` (of any sign and size) and every
    fraction `0 ≤ r ≤ 1`, the jittered duration lies between `jrc·d` and `d`, whichever is the smaller:
    `min (jrc·d) d ≤ randomize jrc d r ≤ max (jrc·d) d`. This complements `jitter_bounds` (which assumes
    `0 ≤ jrc ≤ 1`, `0 ≤ d` and then gives the order of the ends): it covers `jrc > 1` (the jitter then
    lies ABOVE `d`, in `[d, jrc·d]`), a negative `jrc` (`jrc·d ≤ … ≤ d` for `d ≥ 0`, possibly negative) and a
    negative `d` (ends swapped). `r = 0` and `r = 1` give the two ends (`jitter_value`). -/
theorem jitter_between_ends (jrc d r : Num) (hr0 : 0 ≤ r.toRat) (hr1 : r.toRat ≤ 1) :
    min (jrc.toRat * d.toRat) d.toRat ≤ (randomize jrc d r).toRat ∧
    (randomize jrc d r).toRat ≤ max (jrc.toRat * d.toRat) d.toRat :=
  randomize_between_ends jrc d r hr0 hr1

/-- … on the model's own comparison: `randomize jrc d r` is neither below both of `jrc·d`, `d` nor above both. -/
theorem jitter_between_ends_le (jrc d r : Num) (hr0 : numZero.le r) (hr1 : r.le (Num.ofNat 1)) :
    ((jrc.mul d).le (randomize jrc d r) ∨ d.le (randomize jrc d r)) ∧
    ((randomize jrc d r).le (jrc.mul d) ∨ (randomize jrc d r).le d) := by
  rw [Num.le_iff, Num.toRat_zero] at hr0
  rw [Num.le_iff, Num.toRat_ofNat] at hr1
  obtain ⟨h1, h2⟩ := jitter_between_ends jrc d r hr0 (by exact_mod_cast hr1)
  simp only [Num.le_iff, Num.toRat_mul]
  exact ⟨min_le_iff.mp h1, le_max_iff.mp h2⟩

/-- the hypotheses are satisfiable outside the domain of `jitter_bounds`: `jrc = 3/2 > 1`, `d = 2`, `r = 1/2`
    gives `5/2 ∈ [2, 3]` (above `d`); `jrc = −1/2`, `d = 2`, `r = 1/4` gives `−1/4 ∈ [−1, 2]`;
    `jrc = 1/2`, `d = −2`, `r = 1/4` gives `−5/4 ∈ [−2, −1]`. -/
example :
    (0 : ℚ) ≤ Num.toRat ⟨1, 1, true⟩ ∧ Num.toRat ⟨1, 1, true⟩ ≤ 1 ∧
    randomize ⟨3, 1, true⟩ ⟨2, 0, false⟩ ⟨1, 1, true⟩ = ⟨10, 2, true⟩ ∧
    randomize ⟨-1, 1, true⟩ ⟨2, 0, false⟩ ⟨1, 2, true⟩ = ⟨-2, 3, true⟩ ∧
    randomize ⟨1, 1, true⟩ ⟨-2, 0, false⟩ ⟨1, 2, true⟩ = ⟨-10, 3, true⟩ := by
  refine ⟨?_, ?_, ?_, ?_, ?_⟩
  · rw [Num.toRat_nonneg_iff]; decide
  · rw [Num.toRat_le_one_iff]; decide
  all_goals decide +kernel

/-- the same in rationals, with the value spelled out: `jrc·d + (d − jrc·d)·r`. -/
theorem jitter_value (jrc d r : Num) :
    (randomize jrc d r).toRat = d.toRat * jrc.toRat + (d.toRat - d.toRat * jrc.toRat) * r.toRat :=
  randomize_toRat jrc d r

/-- **Jitter is applied to the capped duration**: for the three jitter strategies the interval is
    `randomize jrc d r` with `d` the un-jittered, already capped duration of the same attempt and `r`
    the next random number — so with the bounds above it lies in `[jrc·d, d]` for that `d`. -/
theorem jitter_applies_to_capped (b : BackoffState) (n : Nat) (r : Num) (rs : List Num)
    (hj : b.kind.isJitter = true) :
    interval b n (r :: rs) = (randomize b.jrc (baseInterval b n).1 r, (baseInterval b n).2, rs) :=
  interval_jitter b n r rs hj

theorem jitter_interval_bounds (b : BackoffState) (n : Nat) (r : Num) (rs : List Num)
    (hj : b.kind.isJitter = true)
    (hj0 : numZero.le b.jrc) (hj1 : b.jrc.le (Num.ofNat 1)) (hd : numZero.le (baseInterval b n).1)
    (hr0 : numZero.le r) (hr1 : r.le (Num.ofNat 1)) :
    (b.jrc.mul (baseInterval b n).1).le (interval b n (r :: rs)).1 ∧
    (interval b n (r :: rs)).1.le (baseInterval b n).1 := by
  rw [jitter_applies_to_capped b n r rs hj]
  exact jitter_bounds b.jrc _ r hj0 hj1 hd hr0 hr1

/-- the un-jittered duration is non-negative when sleep, base and sleepMax are (linear, exponential). -/
theorem duration_nonneg (b : BackoffState) (n : Nat)
    (hk : ¬ (b.kind = .fixed ∨ b.kind = .jitter))
    (hs : numZero.le b.sleep) (hb : numZero.le b.base) (hm : ∀ m, b.maxSleep = some m → numZero.le m) :
    numZero.le (baseInterval b n).1 := by
  rw [Num.le_iff, Num.toRat_zero] at *
  have hcap : ∀ d : ℚ, 0 ≤ d → 0 ≤ capQ (b.maxSleep.map Num.toRat) d := by
    intro d hd
    apply capQ_nonneg _ _ hd
    intro x hx
    cases hms : b.maxSleep with
    | none => simp [hms] at hx
    | some m =>
      simp [hms] at hx
      have := hm m hms
      rw [Num.le_iff, Num.toRat_zero] at this
      rw [← hx]; exact this
  cases hkind : b.kind with
  | fixed => exact absurd (Or.inl hkind) hk
  | jitter => exact absurd (Or.inr hkind) hk
  | linear =>
    rw [(linear_spec b n (Or.inl hkind)).2]
    exact hcap _ (mul_nonneg (by positivity) hs)
  | linearjitter =>
    rw [(linear_spec b n (Or.inr hkind)).2]
    exact hcap _ (mul_nonneg (by positivity) hs)
  | exponential =>
    rw [(exponential_spec b n (Or.inl hkind)).2]
    exact hcap _ (mul_nonneg (pow_nonneg hb n) hs)
  | exponentialjitter =>
    rw [(exponential_spec b n (Or.inr hkind)).2]
    exact hcap _ (mul_nonneg (pow_nonneg hb n) hs)

/-- **No negative duration, `fixed` / `jitter`** — every interval of the whole schedule, i.e. exactly the
    hypothesis `hnn` of `sleep_ok_of_nonneg_schedule`. Conditions (numerators, `Num.toRat_nonneg_iff`):
    the configured sleep is `≥ 0` (the number, or EVERY entry of the list), `sleepMax` - if given - is `≥ 0`
    (needed: the cap takes the minimum, so `sleepMax = −1` turns a sleep of 2 into −1; see the `example`
    below; `sleepMax = 0` means "no cap" and is allowed), and for `jitter`: `0 ≤ jrc` (any size, also
    `> 1`) and every scripted fraction in `[0, 1]` (what `random.uniform` draws; needed when `jrc > 1`:
    `jrc = 2`, `d = 1`, `r = 3` gives −1; when the script is exhausted `interval` uses the fraction 0). -/
theorem duration_nonneg_fixed (kind : BackoffKind) (ms : Option Num) (jrc base : Num) (rs : List Num)
    (hk : kind = .fixed ∨ kind = .jitter)
    (hm : ∀ m, ms = some m → 0 ≤ m.n)
    (hj : kind = .jitter → 0 ≤ jrc.n ∧ ∀ r ∈ rs, 0 ≤ r.toRat ∧ r.toRat ≤ 1) :
    (∀ s : Num, 0 ≤ s.n →
      ∀ i, 0 ≤ (interval (stateAfter (mkBackoff kind s none ms jrc base) rs 1 i) (i + 1)
        (rndAfter (mkBackoff kind s none ms jrc base) rs 1 i)).1.n) ∧
    (∀ (x : Num) (xs : List Num), (∀ y ∈ x :: xs, 0 ≤ y.n) →
      ∀ i, 0 ≤ (interval (stateAfter (mkBackoff kind numZero (some (x :: xs)) ms jrc base) rs 1 i) (i + 1)
        (rndAfter (mkBackoff kind numZero (some (x :: xs)) ms jrc base) rs 1 i)).1.n) :=
  ⟨fun s hs => schedule_n_nonneg_fixed_scalar kind s ms jrc base rs hk hs hm hj,
   fun x xs hl => schedule_n_nonneg_fixed_list kind numZero x xs ms jrc base rs hk hl hm hj⟩

/-- **No negative duration, `linear` / `linearjitter`**: `0 ≤ sleep`, `0 ≤ sleepMax`, jitter as above. -/
theorem duration_nonneg_linear (kind : BackoffKind) (s : Num) (ms : Option Num) (jrc base : Num) (rs : List Num)
    (hk : kind = .linear ∨ kind = .linearjitter)
    (hs : 0 ≤ s.n) (hm : ∀ m, ms = some m → 0 ≤ m.n)
    (hj : kind = .linearjitter → 0 ≤ jrc.n ∧ ∀ r ∈ rs, 0 ≤ r.toRat ∧ r.toRat ≤ 1) :
    ∀ i, 0 ≤ (interval (stateAfter (mkBackoff kind s none ms jrc base) rs 1 i) (i + 1)
      (rndAfter (mkBackoff kind s none ms jrc base) rs 1 i)).1.n :=
  schedule_n_nonneg_linear kind s ms jrc base rs hk hs hm hj

/-- **No negative duration, `exponential` / `exponentialjitter`**: `0 ≤ sleep`, `0 ≤ base`, `0 ≤ sleepMax`,
    jitter as above. -/
theorem duration_nonneg_exponential (kind : BackoffKind) (s : Num) (ms : Option Num) (jrc base : Num)
    (rs : List Num) (hk : kind = .exponential ∨ kind = .exponentialjitter)
    (hs : 0 ≤ s.n) (hb : 0 ≤ base.n) (hm : ∀ m, ms = some m → 0 ≤ m.n)
    (hj : kind = .exponentialjitter → 0 ≤ jrc.n ∧ ∀ r ∈ rs, 0 ≤ r.toRat ∧ r.toRat ≤ 1) :
    ∀ i, 0 ≤ (interval (stateAfter (mkBackoff kind s none ms jrc base) rs 1 i) (i + 1)
      (rndAfter (mkBackoff kind s none ms jrc base) rs 1 i)).1.n :=
  schedule_n_nonneg_exponential kind s ms jrc base rs hk hs hb hm hj

/-- the hypotheses of `duration_nonneg_fixed` hold on a non-trivial configuration (jitter, list `[1, 5/2]`,
    `sleepMax = 2`, `jrc = 3/2 > 1`, fractions `1/4, 1`), and neither the condition on `sleepMax` nor the
    upper bound on the fractions can be dropped. -/
example :
    (∀ m, (some (⟨2, 0, false⟩ : Num)) = some m → 0 ≤ m.n) ∧
    ((BackoffKind.jitter = .jitter) → 0 ≤ (⟨3, 1, true⟩ : Num).n ∧
      ∀ r ∈ [(⟨1, 2, true⟩ : Num), ⟨1, 0, false⟩], 0 ≤ r.toRat ∧ r.toRat ≤ 1) ∧
    (∀ y ∈ [(⟨1, 0, false⟩ : Num), ⟨5, 1, true⟩], 0 ≤ y.n) ∧
    schedule (mkBackoff .jitter numZero (some [⟨1, 0, false⟩, ⟨5, 1, true⟩]) (some ⟨2, 0, false⟩) ⟨3, 1, true⟩
      ⟨2, 0, false⟩) [⟨1, 2, true⟩, ⟨1, 0, false⟩] 1 3 = [⟨11, 3, true⟩, ⟨4, 1, true⟩, ⟨6, 1, true⟩] ∧
    capSleep (some ⟨-1, 0, false⟩) ⟨2, 0, false⟩ = ⟨-1, 0, false⟩ ∧
    randomize ⟨2, 0, false⟩ ⟨1, 0, false⟩ ⟨3, 0, false⟩ = ⟨-1, 0, false⟩ := by
  refine ⟨?_, ?_, ?_, ?_, ?_, ?_⟩
  · intro m hm; injection hm with hm; subst hm; decide
  · intro _
    refine ⟨by decide, ?_⟩
    intro r hr
    rw [Num.toRat_nonneg_iff, Num.toRat_le_one_iff]
    simp only [List.mem_cons, List.not_mem_nil, or_false] at hr
    rcases hr with h | h <;> subst h <;> decide
  · intro y hy
    simp only [List.mem_cons, List.not_mem_nil, or_false] at hy
    rcases hy with h | h <;> subst h <;> decide
  all_goals decide +kernel

/-- **Only the jitter strategies draw random numbers**, exactly one per call; the callable's own state
    never depends on them. -/
theorem interval_consumes_random_only_for_jitter (b : BackoffState) (n : Nat) (rs : List Num) :
    (b.kind.isJitter = false → interval b n rs = ((baseInterval b n).1, (baseInterval b n).2, rs)) ∧
    (b.kind.isJitter = true → (interval b n rs).2.2 = rs.drop 1) ∧
    (interval b n rs).2.1 = (baseInterval b n).2 := by
  refine ⟨interval_nonjitter b n rs, fun h => ?_, interval_state b n rs⟩
  rw [interval_rnd, h]; rfl

/-! ## 5. the whole schedule (what the retry loop sleeps, and what the harness compares) -/

/-- `schedule bo rs 1 n` call by call: call `i+1` on the state the earlier calls left, with the
    `(i+1)`-th random number iff the strategy is a jitter one. -/
theorem schedule_closed_form (b : BackoffState) (rs : List Num) (n : Nat) :
    schedule b rs 1 n =
      (List.range n).map fun i =>
        (interval (afterCalls b i) (i + 1) (if b.kind.isJitter then rs.drop i else rs)).1 :=
  schedule_eq_map b rs n

/-- fixed with a list: `[cap l[0], cap l[1], …, cap l[len−1], cap l[len−1], …]`. -/
theorem schedule_fixed_list (s x : Num) (xs : List Num) (ms : Option Num) (jrc base : Num) (rs : List Num)
    (n : Nat) :
    schedule (mkBackoff .fixed s (some (x :: xs)) ms jrc base) rs 1 n =
      (List.range n).map fun i => capSleep ms (listEntry (x :: xs) i) := by
  rw [schedule_nonjitter _ _ _ (by rw [mkBackoff_list _ _ _ _ _ _ _ (Or.inl rfl)]; rfl)]
  apply List.map_congr_left
  intro i _
  exact fixed_list_nth .fixed s x xs ms jrc base (Or.inl rfl) i

/-- linear: `[cap (1·s), cap (2·s), …]`. -/
theorem schedule_linear (s : Num) (ms : Option Num) (jrc base : Num) (rs : List Num) (n : Nat) :
    schedule (mkBackoff .linear s none ms jrc base) rs 1 n =
      (List.range n).map fun i => capSleep ms ((Num.ofNat (i + 1)).mul s) := by
  rw [schedule_nonjitter _ _ _ (by rw [mkBackoff_scalar]; rfl)]
  apply List.map_congr_left
  intro i _
  rw [afterCalls_nonlist _ _ (by rw [mkBackoff_scalar]; simp), mkBackoff_scalar]
  rfl

/-- exponential: `[cap (b¹·s), cap (b²·s), …]`. -/
theorem schedule_exponential (s : Num) (ms : Option Num) (jrc base : Num) (rs : List Num) (n : Nat) :
    schedule (mkBackoff .exponential s none ms jrc base) rs 1 n =
      (List.range n).map fun i => capSleep ms ((base.pow (i + 1)).mul s) := by
  rw [schedule_nonjitter _ _ _ (by rw [mkBackoff_scalar]; rfl)]
  apply List.map_congr_left
  intro i _
  rw [afterCalls_nonlist _ _ (by rw [mkBackoff_scalar]; simp), mkBackoff_scalar]
  rfl

/-! ## 6. non-vacuity: concrete runs -/

/-- a body that records `(retryCounter in context, the step's own counter)` under `seen` and fails
    with a fresh `ValueError` while the counter is below 3. -/
def demoInner : Frame → Body := fun fr s =>
  let seen := match Ctx.get? s.ctx "seen" with | some (.list xs) => xs | _ => []
  let rc := match Ctx.get? s.ctx "retryCounter" with | some v => v | none => .none
  let s' := { s with ctx := Ctx.set s.ctx "seen" (.list (seen ++ [rc, optInt fr.retryC])) }
  match fr.retryC with
  | some c => if c < 3 then raiseNew s' "ValueError" "boom" else (s', .ok)
  | none => (s', .ok)

theorem demoInner_keepsClock : KeepsClock demoInner := by
  intro fr s
  unfold demoInner
  simp only []
  split
  · split <;> simp [raiseNew]
  · simp

/-- success at the third of at most five attempts, linear back-off of 2 s:
    counters 1, 2, 3 (in the context and on the step), sleeps 2 s and 4 s, none after the success. -/
example :
    let r := retryLoop { max := some (.int 5), sleep := .int 2, backoff := some (.str "linear") } {} demoInner 10 {}
    r.2 = .ok ∧ r.1.sleeps = [.int 2, .int 4] ∧
    Ctx.get? r.1.ctx "seen" = some (.list [.int 1, .int 1, .int 2, .int 2, .int 3, .int 3]) := by
  decide +kernel

/-- `max: 2`: the second attempt's exception object (id 1, the first was id 0) propagates after one sleep. -/
example :
    let r := retryLoop { max := some (.int 2), sleep := .list [.int 7, .int 9] } {} demoInner 10 {}
    r.2 = .err ⟨1, "ValueError", "boom"⟩ false ∧ r.1.sleeps = [.int 7] := by
  decide +kernel

/-- stopOn names the error: it propagates from the first attempt, nothing sleeps. -/
example :
    let r := retryLoop { max := some (.int 5), sleep := .int 2, stopOn := some (.list [.str "KeyError", .str "ValueError"]) }
      {} demoInner 10 {}
    r.2 = .err ⟨0, "ValueError", "boom"⟩ false ∧ r.1.sleeps = [] ∧
    Ctx.get? r.1.ctx "seen" = some (.list [.int 1, .int 1]) := by
  decide +kernel

/-- a non-empty retryOn that does not name the error: likewise; an empty one is ignored. -/
example :
    (retryLoop { max := some (.int 5), sleep := .int 2, retryOn := some (.list [.str "KeyError"]) } {} demoInner 10 {}).2
      = .err ⟨0, "ValueError", "boom"⟩ false ∧
    (retryLoop { max := some (.int 5), sleep := .int 2, retryOn := some (.list []) } {} demoInner 10 {}).2 = .ok ∧
    (retryLoop { max := some (.int 5), sleep := .int 2, retryOn := some (.list [.str "ValueError"]) } {} demoInner 10 {}).2
      = .ok := by
  decide +kernel

/-- exponential with no `backoffArgs`: base 2 — sleeps 2·3, 4·3 capped at 10. -/
example :
    (retryLoop { sleep := .int 3, backoff := some (.str "exponential"), sleepMax := some (.int 10) } {} demoInner 10 {}).1.sleeps
      = [.int 6, .flt 10 0] := by
  decide +kernel

/-- no `backoff` on the step: the strategy is the configured default of the state the loop starts in -
    `linear` here (sleeps 2, 4), `fixed` when nothing was configured (2, 2); a step that names its strategy ignores it. -/
example :
    (retryLoop { max := some (.int 5), sleep := .int 2 } {} demoInner 10 { defaultBackoff := "linear" }).1.sleeps
      = [.int 2, .int 4] ∧
    (retryLoop { max := some (.int 5), sleep := .int 2 } {} demoInner 10 {}).1.sleeps = [.int 2, .int 2] ∧
    (retryLoop { max := some (.int 5), sleep := .int 2, backoff := some (.str "fixed") } {} demoInner 10
      { defaultBackoff := "linear" }).1.sleeps = [.int 2, .int 2] := by
  decide +kernel

/-- a cap that arrives as text: `sleepMax: '7.5'` caps exponential 6, 12 at 6, 7.5 -/
example :
    (retryLoop { sleep := .int 3, backoff := some (.str "exponential"), sleepMax := some (.str "7.5") } {} demoInner 10 {}).1.sleeps
      = [.int 6, .flt 15 1] := by
  decide +kernel

/-- the hypotheses of the closed forms hold for this body: attempts 1 and 2 are `Retried`, attempt 3 succeeds. -/
example : ∀ i, i < 2 → Retried {} {} demoInner (mkBackoff .fixed ⟨1, 0, false⟩ none none numZero ⟨2, 0, false⟩) {} i := by
  intro i hi
  have : i = 0 ∨ i = 1 := by omega
  rcases this with h | h <;> subst h
  · exact ⟨⟨0, "ValueError", "boom"⟩, false, by decide +kernel, by decide +kernel⟩
  · exact ⟨⟨1, "ValueError", "boom"⟩, false, by decide +kernel, by decide +kernel⟩

/-- fixed list `[1, 2, 5/2]` capped at 2: `1, 2, 2, 2, 2`; jitter on linear 3/2 with jrc 1/2 and fractions 1/4, 1:
    15/16 ∈ [3/4, 3/2] and 3 ∈ [3/2, 3]. -/
example :
    schedule (mkBackoff .fixed numZero (some [⟨1, 0, false⟩, ⟨2, 0, false⟩, ⟨5, 1, true⟩]) (some ⟨2, 0, false⟩)
      numZero ⟨2, 0, false⟩) [] 1 5
      = [⟨1, 0, false⟩, ⟨2, 0, false⟩, ⟨2, 0, false⟩, ⟨2, 0, false⟩, ⟨2, 0, false⟩] ∧
    schedule (mkBackoff .linearjitter ⟨3, 1, true⟩ none none ⟨1, 1, true⟩ ⟨2, 0, false⟩)
      [⟨1, 2, true⟩, ⟨1, 0, false⟩] 1 2 = [⟨15, 4, true⟩, ⟨12, 2, true⟩] := by
  decide +kernel

/-- the hypotheses of `jitter_bounds` are satisfiable (jrc = 1/2, d = 3, r = 1/4 → 15/8 ∈ [3/2, 3]). -/
example :
    numZero.le ⟨1, 1, true⟩ ∧ Num.le ⟨1, 1, true⟩ (Num.ofNat 1) ∧ numZero.le ⟨3, 0, false⟩ ∧
    numZero.le ⟨1, 2, true⟩ ∧ Num.le ⟨1, 2, true⟩ (Num.ofNat 1) ∧
    randomize ⟨1, 1, true⟩ ⟨3, 0, false⟩ ⟨1, 2, true⟩ = ⟨15, 3, true⟩ := by
  refine ⟨?_, ?_, ?_, ?_, ?_, ?_⟩ <;> decide +kernel

/-! ## 7. `SleepOk` from the signs of the configuration; the unbounded loop on a concrete body -/

/-- The sign conditions of `duration_nonneg_fixed` on a `fixed` / `jitter` callable `bo` as `retry_loop`
    builds it (`constructors`): `bo` is `mkBackoff kind sl none …` with a number `sl ≥ 0`, or
    `mkBackoff kind 0 (some (x :: xs)) …` with every entry of the list `≥ 0`; `sleepMax`, if given, is `≥ 0`;
    for `jitter`, `0 ≤ jrc` and every scripted fraction of `rnd` lies in `[0, 1]`. -/
def NonnegFixed (kind : BackoffKind) (ms : Option Num) (jrc base : Num) (rnd : List Num) (bo : BackoffState) :
    Prop :=
  (kind = .fixed ∨ kind = .jitter) ∧
  ((∃ sl : Num, bo = mkBackoff kind sl none ms jrc base ∧ 0 ≤ sl.n) ∨
   (∃ (x : Num) (xs : List Num), bo = mkBackoff kind numZero (some (x :: xs)) ms jrc base ∧
      ∀ y ∈ x :: xs, 0 ≤ y.n)) ∧
  (∀ m, ms = some m → 0 ≤ m.n) ∧
  (kind = .jitter → 0 ≤ jrc.n ∧ ∀ r ∈ rnd, 0 ≤ r.toRat ∧ r.toRat ≤ 1)

/-- **`SleepOk` for `fixed` / `jitter` from the configuration alone**: under the sign conditions
    (`NonnegFixed`, with the random script of the start state) and for a body that leaves clock and random
    source alone, EVERY sleep of the chain is accepted - so `retry_run_shape`, `retry_unbounded_shape`,
    `retry_attempts_until_success`, `retry_attempts_exhausted`, `retry_attempts_stopped` apply without a
    separate `SleepOk` hypothesis. -/
theorem sleep_ok_fixed (fr : Frame) (inner : Frame → Body) (hkc : KeepsClock inner)
    (kind : BackoffKind) (ms : Option Num) (jrc base : Num) (bo : BackoffState) (s : St)
    (hnn : NonnegFixed kind ms jrc base s.rnd bo) :
    ∀ i, SleepOk fr inner bo s i := by
  obtain ⟨hk, hbo, hm, hj⟩ := hnn
  apply sleep_ok_of_nonneg_schedule fr inner hkc bo s
  rcases hbo with ⟨sl, rfl, hs⟩ | ⟨x, xs, rfl, hl⟩
  · exact (duration_nonneg_fixed kind ms jrc base s.rnd hk hm hj).1 sl hs
  · exact (duration_nonneg_fixed kind ms jrc base s.rnd hk hm hj).2 x xs hl

/-- … for `linear` / `linearjitter`. -/
theorem sleep_ok_linear (fr : Frame) (inner : Frame → Body) (hkc : KeepsClock inner)
    (kind : BackoffKind) (sl : Num) (ms : Option Num) (jrc base : Num) (s : St)
    (hk : kind = .linear ∨ kind = .linearjitter)
    (hs : 0 ≤ sl.n) (hm : ∀ m, ms = some m → 0 ≤ m.n)
    (hj : kind = .linearjitter → 0 ≤ jrc.n ∧ ∀ r ∈ s.rnd, 0 ≤ r.toRat ∧ r.toRat ≤ 1) :
    ∀ i, SleepOk fr inner (mkBackoff kind sl none ms jrc base) s i :=
  sleep_ok_of_nonneg_schedule fr inner hkc _ s (duration_nonneg_linear kind sl ms jrc base s.rnd hk hs hm hj)

/-- … for `exponential` / `exponentialjitter`. -/
theorem sleep_ok_exponential (fr : Frame) (inner : Frame → Body) (hkc : KeepsClock inner)
    (kind : BackoffKind) (sl : Num) (ms : Option Num) (jrc base : Num) (s : St)
    (hk : kind = .exponential ∨ kind = .exponentialjitter)
    (hs : 0 ≤ sl.n) (hb : 0 ≤ base.n) (hm : ∀ m, ms = some m → 0 ≤ m.n)
    (hj : kind = .exponentialjitter → 0 ≤ jrc.n ∧ ∀ r ∈ s.rnd, 0 ≤ r.toRat ∧ r.toRat ≤ 1) :
    ∀ i, SleepOk fr inner (mkBackoff kind sl none ms jrc base) s i :=
  sleep_ok_of_nonneg_schedule fr inner hkc _ s
    (duration_nonneg_exponential kind sl ms jrc base s.rnd hk hs hb hm hj)

/-- **All `max = n+1` attempts fail, `fixed` / `jitter` back-off with non-negative configuration** - the
    composition of `retry_attempts_exhausted` with `sleep_ok_fixed`: no `SleepOk` hypothesis is left. The
    error of the LAST attempt is the result, and exactly the `n` sleeps `schedule bo s.rnd 1 n` were made. -/
theorem retry_attempts_exhausted_fixed (cfg : RetryCfg) (fr : Frame) (inner : Frame → Body)
    (hkc : KeepsClock inner) (kind : BackoffKind) (ms : Option Num) (jrc base : Num)
    (bo : BackoffState) (s s' : St) (e : ExcV) (h : Bool) (n fuel : Nat)
    (hnn : NonnegFixed kind ms jrc base s.rnd bo)
    (hfail : ∀ i, i < n → Retried cfg fr inner bo s i)
    (hlast : attempt fr inner (n + 1) (before fr inner bo s n).1 = (s', .err e h)) :
    retryIter cfg fr inner (some ((n + 1 : Nat) : Int)) (fuel + 1 + n) 1 bo s = (s', .err e h) ∧
    s'.sleeps = s.sleeps ++ (schedule bo s.rnd 1 n).map numToVal ∧
    (schedule bo s.rnd 1 n).length = n ∧ s'.rnd = rndAfter bo s.rnd 1 n ∧
    (∀ d ∈ schedule bo s.rnd 1 n, 0 ≤ d.n) := by
  have hsl := sleep_ok_fixed fr inner hkc kind ms jrc base bo s hnn
  obtain ⟨h1, h2⟩ := retry_attempts_exhausted cfg fr inner bo s s' e h n fuel hfail (fun i _ => hsl i) hlast
  obtain ⟨h3, h4, h5⟩ := h2 hkc
  refine ⟨h1, h3, h4, h5, ?_⟩
  intro d hd
  rw [schedule_closed_form] at hd
  obtain ⟨i, _, rfl⟩ := List.mem_map.mp hd
  have := hsl i
  unfold SleepOk at this
  rw [chainInterval_eq fr inner hkc bo s i, stateAfter_eq_afterCalls, rndAfter_eq] at this
  exact this

/-- the demo callable: `jitter` on the list `[1, 5/2]`, `sleepMax = 2`, `jrc = 3/2` (above 1). -/
def demoJitter : BackoffState :=
  mkBackoff .jitter numZero (some [⟨1, 0, false⟩, ⟨5, 1, true⟩]) (some ⟨2, 0, false⟩) ⟨3, 1, true⟩ ⟨2, 0, false⟩

/-- the demo start state: scripted fractions `1/4, 1`. -/
def demoStart : St := { rnd := [⟨1, 2, true⟩, ⟨1, 0, false⟩] }

/-- `NonnegFixed` is satisfiable on a jitter configuration with `jrc > 1`, a list, a cap and a script. -/
theorem demo_nonnegFixed :
    NonnegFixed .jitter (some ⟨2, 0, false⟩) ⟨3, 1, true⟩ ⟨2, 0, false⟩ demoStart.rnd demoJitter := by
  refine ⟨Or.inr rfl, Or.inr ⟨_, _, rfl, ?_⟩, ?_, ?_⟩
  · intro y hy
    simp only [List.mem_cons, List.not_mem_nil, or_false] at hy
    rcases hy with h | h <;> subst h <;> decide
  · intro m hm; injection hm with hm; subst hm; decide
  · intro _
    refine ⟨by decide, ?_⟩
    intro r hr
    rw [Num.toRat_nonneg_iff, Num.toRat_le_one_iff]
    simp only [demoStart, List.mem_cons, List.not_mem_nil, or_false] at hr
    rcases hr with h | h <;> subst h <;> decide

theorem demo_retried : ∀ i, i < 2 → Retried {} {} demoInner demoJitter demoStart i := by
  intro i hi
  have : i = 0 ∨ i = 1 := by omega
  rcases this with h | h <;> subst h
  · exact ⟨⟨0, "ValueError", "boom"⟩, false, by decide +kernel, by decide +kernel⟩
  · exact ⟨⟨1, "ValueError", "boom"⟩, false, by decide +kernel, by decide +kernel⟩

/-- `retry_attempts_exhausted_fixed` applies (`max = 2`: attempt 1 is retried, attempt 2 fails): its
    hypotheses hold for `demoInner` with the jitter callable above, and it gives the result. -/
example :
    (retryIter {} {} demoInner (some ((1 + 1 : Nat) : Int)) (0 + 1 + 1) 1 demoJitter demoStart).2 =
      .err ⟨1, "ValueError", "boom"⟩ false ∧
    (retryIter {} {} demoInner (some ((1 + 1 : Nat) : Int)) (0 + 1 + 1) 1 demoJitter demoStart).1.sleeps =
      [.flt 11 3] := by
  have hlast : attempt {} demoInner (1 + 1) (before {} demoInner demoJitter demoStart 1).1 =
      ((attempt {} demoInner (1 + 1) (before {} demoInner demoJitter demoStart 1).1).1,
        .err ⟨1, "ValueError", "boom"⟩ false) :=
    Prod.ext rfl (by decide +kernel)
  obtain ⟨h1, h2, _⟩ := retry_attempts_exhausted_fixed {} {} demoInner demoInner_keepsClock .jitter _ _ _
    demoJitter demoStart _ _ _ 1 0 demo_nonnegFixed (fun i hi => demo_retried i (by omega)) hlast
  rw [h1]
  refine ⟨rfl, ?_⟩
  show (attempt {} demoInner (1 + 1) (before {} demoInner demoJitter demoStart 1).1).1.sleeps = _
  rw [h2]
  decide +kernel

/-- `retry_unbounded_until` / `retry_unbounded_shape` apply (`max` absent): attempts 1 and 2 are `Retried`,
    attempt 3 is not (it succeeds), all sleeps are accepted (`sleep_ok_fixed`); the loop ends with `.ok`
    after the two sleeps `11/8` and `2`. -/
example :
    (∀ i, i < 2 → Retried {} {} demoInner demoJitter demoStart i) ∧
    ¬ Retried {} {} demoInner demoJitter demoStart 2 ∧
    (∀ i, SleepOk {} demoInner demoJitter demoStart i) ∧
    (retryIter {} {} demoInner none (7 + 1 + 2) 1 demoJitter demoStart).2 = .ok ∧
    (retryIter {} {} demoInner none (7 + 1 + 2) 1 demoJitter demoStart).1.sleeps = [.flt 11 3, .flt 2 0] := by
  have hend : ¬ Retried {} {} demoInner demoJitter demoStart 2 := by
    rintro ⟨e, h, he, _⟩
    have h2 : (attempt {} demoInner (2 + 1) (before {} demoInner demoJitter demoStart 2).1).2 = .ok := by
      decide +kernel
    rw [h2] at he; cases he
  have hsl := sleep_ok_fixed {} demoInner demoInner_keepsClock .jitter _ _ _ demoJitter demoStart demo_nonnegFixed
  have hrun := (retry_unbounded_until {} {} demoInner none (Or.inl rfl) demoJitter demoStart 2 7 demo_retried
    (fun i _ => hsl i) hend).1
  refine ⟨demo_retried, hend, hsl, ?_, ?_⟩ <;> rw [hrun] <;> decide +kernel

/-- the out-of-fuel branch of `retry_unbounded_shape` is real: with fuel 2 the two failing attempts use it up. -/
example :
    (∀ i, i < 2 → Retried {} {} demoInner demoJitter demoStart i) ∧
    (retryIter {} {} demoInner (some 0) 2 1 demoJitter demoStart).2 = .outOfFuel := by
  refine ⟨demo_retried, ?_⟩
  decide +kernel

/-! ## 7. a failed attempt is never reported as success (whatever the exception object is) -/

theorem raiseNew_ne_ok (s s' : St) (n m : String) : raiseNew s n m ≠ (s', .ok) := by
  unfold raiseNew; intro h; injection h with _ h2; cases h2

theorem raiseExc_ne_ok (s s' : St) (x : Exc) : raiseExc s x ≠ (s', .ok) := by
  unfold raiseExc; exact raiseNew_ne_ok _ _ _ _

/-- **Success of the retry loop is the success of one of its attempts.** Whenever `poll.while_until_true`
    around `exec_iteration` ends normally, an attempt `k'` (not before the current one) ended normally and the
    loop's final state is that attempt's final state: an attempt that raised - whatever the exception object,
    its class, its truth value, what it was raised from - is never taken for "the step completed"; the only
    ways out of the loop after a failed attempt are that attempt's error, a later attempt, or a fault of the loop
    itself (filters, negative sleep, the assert). For every per-attempt behaviour, `max`, filters, back-off, fuel. -/
theorem retry_ok_only_from_ok_attempt (cfg : RetryCfg) (fr : Frame) (inner : Frame → Body) (max : Option Int)
    (fuel : Nat) : ∀ (k : Nat) (bo : BackoffState) (s s' : St),
    retryIter cfg fr inner max fuel k bo s = (s', .ok) →
    ∃ k' s0, k ≤ k' ∧ inner { fr with retryC := some k' } s0 = (s', .ok) ∧
      Ctx.get? s0.ctx "retryCounter" = some (.int k') := by
  induction fuel with
  | zero => intro k bo s s' h; unfold retryIter at h; injection h with _ h2; cases h2
  | succ n ih =>
    intro k bo s s' h
    unfold retryIter at h
    cases hin : inner { fr with retryC := some k } { s with ctx := Ctx.set s.ctx "retryCounter" (.int k) } with
    | mk s1 r =>
    simp only [hin] at h
    cases r with
    | err e handled =>
      simp only [] at h
      repeat' split at h
      all_goals first
        | exact absurd h (raiseNew_ne_ok _ _ _ _)
        | exact absurd h (raiseExc_ne_ok _ _ _)
        | (simp at h)
        | (obtain ⟨k', s0, hk, hi, hc⟩ := ih _ _ _ _ h; exact ⟨k', s0, by omega, hi, hc⟩)
    | ok =>
      simp only [] at h
      injection h with h1 _
      subst h1
      exact ⟨k, _, Nat.le_refl k, hin, ctx_get_set_self _ _ _⟩
    | _ => simp only [] at h; injection h with _ h2; cases h2

/-- … hence: a body that fails on every attempt never makes the retry loop report success - the error is not
    dropped, the enclosing foreach / while do not carry on (`C05.unswallowed_error_ends_all_loops`). -/
theorem retry_never_ok_when_every_attempt_fails (cfg : RetryCfg) (fr : Frame) (inner : Frame → Body)
    (max : Option Int) (fuel k : Nat) (bo : BackoffState) (s s' : St)
    (hfail : ∀ fr' s0 s1, inner fr' s0 ≠ (s1, .ok)) :
    retryIter cfg fr inner max fuel k bo s ≠ (s', .ok) := by
  intro h
  obtain ⟨k', s0, _, hi, _⟩ := retry_ok_only_from_ok_attempt cfg fr inner max fuel k bo s s' h
  exact hfail _ _ _ hi

/-- non-vacuity: `demoInner` under `max: 5` ends normally - in the state of its third attempt. -/
example : (retryIter {} {} demoInner (some 5) 10 1 (mkBackoff .fixed (Num.ofNat 0) none none (Num.ofNat 0) (Num.ofNat 2)) {}).2 = .ok := by
  decide +kernel

/-- non-vacuity of the second: a body that always raises; four attempts, then its error. -/
example : (retryIter {} {} (fun _ s => raiseNew s "vprobe.FalsyError" "boom") (some 4) 10 1
    (mkBackoff .fixed (Num.ofNat 0) none none (Num.ofNat 0) (Num.ofNat 2)) {}).2 = .err ⟨3, "vprobe.FalsyError", "boom"⟩ false := by
  decide +kernel


end Pypyr.C06
