/-
  C06 — retry attempts, error filters and the back-off sleep schedule.

  Model: `PypyrModel/Flow/Layers.lean` (`retryLoop`, `retryIter`, `retryFilters` =
  `RetryDecorator.retry_loop` / `poll.while_until_true` / `exec_iteration`) and
  `PypyrModel/Backoff.lean` (`pypyr.retries`: the six strategies over exact dyadic numbers, the
  deque of `fixed` kept stateful as coded). `St.sleeps` is the virtual clock: one entry per
  `time.sleep`; `St.rnd` the scripted `random.uniform` fractions.

  Everything is for an arbitrary per-attempt behaviour `inner : Frame → Body` (so: for every sequence
  of success / failure / instruction outcomes, depending on the state in any way), every `max`,
  every stopOn / retryOn value, every back-off state, every fuel.

  Vocabulary (Props/Lemmas/C06_Retry.lean, Driver/OpBackoff.lean):
    `attempt fr inner k s`        the body run as attempt `k`: step counter `retryC = k`, `retryCounter = k` in context
    `atMax max k`                 `max` is set and non-zero and `k = max`
    `sleepAfter bo k s1`          `s1` with one sleep of `interval bo k` appended (and the random source advanced)
    `before fr inner bo s i`      (state, back-off callable) before attempt `i+1`, after `i` failed-and-retried attempts
    `Retried cfg fr inner bo s i` attempt `i+1` fails with an error the filters let through
    `schedule bo rs 1 n`          the first `n` intervals `backoff(1) … backoff(n)`, state and random numbers threaded;
                                  the very function the correspondence harness runs against `pypyr.retries`
    `Num.toRat x`                 the rational number `x.n / 2^x.k`; `Num.le a b` is `a.cmp b ≠ .gt`
-/
import Props.Lemmas.C06_Retry

namespace Pypyr.C06
open Pypyr Pypyr.Flow
open Pypyr.OpBackoff (schedule rndAfter stateAfter)

/-! ## 1. attempts -/

theorem ctx_get_set_self (c : Ctx) (k : String) (v : Val) : Ctx.get? (Ctx.set c k v) k = some v := by
  induction c with
  | nil => simp [Ctx.set, Ctx.get?]
  | cons kv rest ih =>
    obtain ⟨k', v'⟩ := kv
    by_cases h : k' = k
    · simp [Ctx.set, Ctx.get?, h]
    · simp [Ctx.set, Ctx.get?, h, ih]

/-- Attempt `k` runs the body with the step's retry counter `k` and with `retryCounter = k` in the
    context (and nothing else of the state changed). -/
theorem attempt_counter (fr : Frame) (inner : Frame → Body) (k : Nat) (s : St) :
    ∃ s0 : St, attempt fr inner k s = inner { fr with retryC := some k } s0 ∧
      Ctx.get? s0.ctx "retryCounter" = some (.int k) ∧
      s0.sleeps = s.sleeps ∧ s0.rnd = s.rnd ∧ s0.trace = s.trace ∧ s0.stack = s.stack :=
  ⟨{ s with ctx := Ctx.set s.ctx "retryCounter" (.int k) }, rfl, ctx_get_set_self _ _ _, rfl, rfl, rfl, rfl⟩

theorem atMax_iff (max : Option Nat) (k : Nat) :
    atMax max k = true ↔ ∃ m, max = some m ∧ m ≠ 0 ∧ k = m := by
  cases max with
  | none => simp [atMax]
  | some m => simp [atMax]; omega

/-- **One attempt of the retry loop**, for every body. Attempt `k` is run (`attempt`, see
    `attempt_counter`); then
    1. a result that is not an error (success, or a control-of-flow instruction) is the loop's result,
       in the state of that moment: no sleep, no further attempt;
    2. an error at `k = max` (max set, non-zero) is the loop's result — that very exception object —
       with no sleep after it and without the filters being consulted;
    3. an error for which the filters say stop (name in stopOn, or not in a non-empty retryOn; see
       `filters_spec`) is the loop's result at once, no sleep;
    4. if formatting a filter list fails, that failure is raised instead;
    5. otherwise exactly one sleep of `interval bo k` is appended (`sleepAfter`), the back-off callable
       keeps its new state, and attempt `k+1` follows. -/
theorem retry_attempts (cfg : RetryCfg) (fr : Frame) (inner : Frame → Body) (max : Option Nat)
    (fuel k : Nat) (bo : BackoffState) (s : St) :
    (∀ s1 r, attempt fr inner k s = (s1, r) → r.isErr = false →
      retryIter cfg fr inner max (fuel + 1) k bo s = (s1, r)) ∧
    (∀ s1 e h, attempt fr inner k s = (s1, .err e h) → atMax max k = true →
      retryIter cfg fr inner max (fuel + 1) k bo s = (s1, .err e h)) ∧
    (∀ s1 e h, attempt fr inner k s = (s1, .err e h) → atMax max k = false →
      retryFilters cfg s1 e.name = .ok true →
      retryIter cfg fr inner max (fuel + 1) k bo s = (s1, .err e h)) ∧
    (∀ s1 e h x, attempt fr inner k s = (s1, .err e h) → atMax max k = false →
      retryFilters cfg s1 e.name = .error x →
      retryIter cfg fr inner max (fuel + 1) k bo s = raiseExc s1 x) ∧
    (∀ s1 e h, attempt fr inner k s = (s1, .err e h) → atMax max k = false →
      retryFilters cfg s1 e.name = .ok false →
      retryIter cfg fr inner max (fuel + 1) k bo s =
        retryIter cfg fr inner max fuel (k + 1) (interval bo k s1.rnd).2.1 (sleepAfter bo k s1)) :=
  ⟨fun s1 r hi hr => retryIter_success cfg fr inner max fuel k bo s s1 r hi hr,
   fun s1 e h hi hm => retryIter_last cfg fr inner max fuel k bo s s1 e h hi hm,
   fun s1 e h hi hm hf => retryIter_stop cfg fr inner max fuel k bo s s1 e h hi hm hf,
   fun s1 e h x hi hm hf => retryIter_filter_error cfg fr inner max fuel k bo s s1 e h x hi hm hf,
   fun s1 e h hi hm hf => retryIter_again cfg fr inner max fuel k bo s s1 e h hi hm hf⟩

/-- the sleep after a failed attempt is exactly one entry, the strategy's value for that attempt number. -/
theorem sleepAfter_appends_one (bo : BackoffState) (k : Nat) (s1 : St) :
    (sleepAfter bo k s1).sleeps = s1.sleeps ++ [numToVal (interval bo k s1.rnd).1] ∧
    (sleepAfter bo k s1).ctx = s1.ctx := ⟨rfl, rfl⟩

private theorem notAtMax_of_le (max : Option Nat) (n : Nat) (hmax : ∀ m, max = some m → m ≠ 0 → n + 1 ≤ m) :
    ∀ i, i < n → atMax max (i + 1) = false := by
  intro i hi
  cases max with
  | none => rfl
  | some m =>
    by_cases hm : m = 0
    · simp [atMax, hm]
    · exact atMax_lt m (i + 1) (by have := hmax m rfl hm; omega)

/-- **Closed form, success at attempt `n+1`.** If the attempts `1..n` fail and are retried and attempt
    `n+1 ≤ max` ends without error (result `r`: success or an instruction), the loop's result is `r` in
    the state that attempt left; for a body that does not touch the clock itself, exactly the `n` sleeps
    `[interval 1, …, interval n]` of the back-off schedule were made — one after each failed attempt,
    none after the successful one — and the random source is where `n` back-off calls leave it. -/
theorem retry_attempts_until_success (cfg : RetryCfg) (fr : Frame) (inner : Frame → Body) (max : Option Nat)
    (bo : BackoffState) (s s' : St) (r : Res) (n fuel : Nat)
    (hfail : ∀ i, i < n → Retried cfg fr inner bo s i)
    (hmax : ∀ m, max = some m → m ≠ 0 → n + 1 ≤ m)
    (hlast : attempt fr inner (n + 1) (before fr inner bo s n).1 = (s', r)) (hr : r.isErr = false) :
    retryIter cfg fr inner max (fuel + 1 + n) 1 bo s = (s', r) ∧
    (KeepsClock inner →
      s'.sleeps = s.sleeps ++ (schedule bo s.rnd 1 n).map numToVal ∧
      (schedule bo s.rnd 1 n).length = n ∧ s'.rnd = rndAfter bo s.rnd 1 n) := by
  constructor
  · rw [retryIter_prefix cfg fr inner max bo s n hfail (notAtMax_of_le max n hmax) (fuel + 1)]
    exact retryIter_success cfg fr inner max fuel (n + 1) _ _ s' r hlast hr
  · intro hk
    obtain ⟨b1, b2, _⟩ := before_clock fr inner hk bo s n
    obtain ⟨k1, k2⟩ := attempt_keeps fr inner hk (n + 1) (before fr inner bo s n).1
    rw [hlast] at k1 k2
    exact ⟨k1.trans b1, schedule_length _ _ _ _, k2.trans b2⟩

/-- **Closed form, all `max = n+1` attempts fail.** The loop's result is the error of the LAST attempt
    (the same exception object, `handled` flag included), the filters are not consulted for it, and
    exactly `n = max − 1` sleeps were made: never one after the last attempt. -/
theorem retry_attempts_exhausted (cfg : RetryCfg) (fr : Frame) (inner : Frame → Body)
    (bo : BackoffState) (s s' : St) (e : ExcV) (h : Bool) (n fuel : Nat)
    (hfail : ∀ i, i < n → Retried cfg fr inner bo s i)
    (hlast : attempt fr inner (n + 1) (before fr inner bo s n).1 = (s', .err e h)) :
    retryIter cfg fr inner (some (n + 1)) (fuel + 1 + n) 1 bo s = (s', .err e h) ∧
    (KeepsClock inner →
      s'.sleeps = s.sleeps ++ (schedule bo s.rnd 1 n).map numToVal ∧
      (schedule bo s.rnd 1 n).length = n ∧ s'.rnd = rndAfter bo s.rnd 1 n) := by
  constructor
  · rw [retryIter_prefix cfg fr inner (some (n + 1)) bo s n hfail
      (fun i hi => atMax_lt (n + 1) (i + 1) (by omega)) (fuel + 1)]
    exact retryIter_last cfg fr inner _ fuel (n + 1) _ _ s' e h hlast (atMax_self (n + 1) (by omega))
  · intro hk
    obtain ⟨b1, b2, _⟩ := before_clock fr inner hk bo s n
    obtain ⟨k1, k2⟩ := attempt_keeps fr inner hk (n + 1) (before fr inner bo s n).1
    rw [hlast] at k1 k2
    exact ⟨k1.trans b1, schedule_length _ _ _ _, k2.trans b2⟩

/-- **Closed form, a filter stops the loop at attempt `n+1`** (before `max`): that error propagates at
    once — no sleep after it, no attempt `n+2`. -/
theorem retry_attempts_stopped (cfg : RetryCfg) (fr : Frame) (inner : Frame → Body) (max : Option Nat)
    (bo : BackoffState) (s s' : St) (e : ExcV) (h : Bool) (n fuel : Nat)
    (hfail : ∀ i, i < n → Retried cfg fr inner bo s i)
    (hmax : ∀ m, max = some m → m ≠ 0 → n + 1 < m)
    (hlast : attempt fr inner (n + 1) (before fr inner bo s n).1 = (s', .err e h))
    (hstop : retryFilters cfg s' e.name = .ok true) :
    retryIter cfg fr inner max (fuel + 1 + n) 1 bo s = (s', .err e h) ∧
    (KeepsClock inner →
      s'.sleeps = s.sleeps ++ (schedule bo s.rnd 1 n).map numToVal ∧
      (schedule bo s.rnd 1 n).length = n) := by
  have hm' := notAtMax_of_le max (n + 1) (fun m h1 h2 => by have := hmax m h1 h2; omega)
  constructor
  · rw [retryIter_prefix cfg fr inner max bo s n hfail (fun i hi => hm' i (by omega)) (fuel + 1)]
    exact retryIter_stop cfg fr inner max fuel (n + 1) _ _ s' e h hlast (hm' n (by omega)) hstop
  · intro hk
    obtain ⟨b1, _, _⟩ := before_clock fr inner hk bo s n
    obtain ⟨k1, _⟩ := attempt_keeps fr inner hk (n + 1) (before fr inner bo s n).1
    rw [hlast] at k1
    exact ⟨k1.trans b1, schedule_length _ _ _ _⟩

/-- **Every bounded run has one of these shapes**: with `max = m ≠ 0` (and fuel for `m` attempts) the loop
    makes some number `j+1 ≤ m` of attempts with counters `1..j+1`; the first `j` fail and are retried
    (each followed by its one sleep, `before_clock`), and the loop ends with attempt `j+1` as `finishAt`
    says: its own result, unless it is an error below `max` whose filter lists fail to format. There is
    no attempt `m+1`, whatever the body does. -/
theorem retry_run_shape (cfg : RetryCfg) (fr : Frame) (inner : Frame → Body) (m : Nat) (hm : m ≠ 0)
    (bo : BackoffState) (s : St) (fuel : Nat) (hfuel : m ≤ fuel) :
    ∃ j, j < m ∧ (∀ i, i < j → Retried cfg fr inner bo s i) ∧
      retryIter cfg fr inner (some m) fuel 1 bo s =
        finishAt cfg (some m) (j + 1) (attempt fr inner (j + 1) (before fr inner bo s j).1) := by
  obtain ⟨j, _, h2, h3, h4⟩ := retry_run_shape_aux cfg fr inner m bo s fuel hfuel (m - 1) 0 (by omega)
    (fun i hi => absurd hi (Nat.not_lt_zero i))
  exact ⟨j, h2, h3, h4⟩

/-- the clock after `n` failed-and-retried attempts (used by the closed forms above). -/
theorem retried_attempts_sleep_schedule (fr : Frame) (inner : Frame → Body) (hk : KeepsClock inner)
    (bo : BackoffState) (s : St) (n : Nat) :
    (before fr inner bo s n).1.sleeps = s.sleeps ++ (schedule bo s.rnd 1 n).map numToVal ∧
    (before fr inner bo s n).1.rnd = rndAfter bo s.rnd 1 n ∧
    (before fr inner bo s n).2 = stateAfter bo s.rnd 1 n :=
  before_clock fr inner hk bo s n

/-- `retry_loop` itself: once the decorator's values are evaluated (each against the context in which
    `retryCounter` was just set to 0), the loop starts at attempt 1 with the back-off callable built by
    `mkBackoff`; `base` comes from `backoffArgs` and **defaults to 2**. -/
theorem retry_loop_starts (cfg : RetryCfg) (fr : Frame) (inner : Frame → Body) (fuel : Nat) (s : St)
    (sleepV jrcV argsV : Val) (name : String) (kind : BackoffKind) (ms : Option Num)
    (sl : Num) (lst : Option (List Num)) (jrc : Num) (max : Option Nat)
    (h1 : fmtV { s with ctx := Ctx.set s.ctx "retryCounter" (.int 0) } cfg.sleep = .ok sleepV)
    (h2 : decName cfg { s with ctx := Ctx.set s.ctx "retryCounter" (.int 0) } = .ok (.str name))
    (h3 : decMaxSleep cfg { s with ctx := Ctx.set s.ctx "retryCounter" (.int 0) } = .ok ms)
    (h4 : fmtV { s with ctx := Ctx.set s.ctx "retryCounter" (.int 0) } cfg.jrc = .ok jrcV)
    (h5 : decArgs cfg { s with ctx := Ctx.set s.ctx "retryCounter" (.int 0) } = .ok argsV)
    (h6 : BackoffKind.ofName? name = some kind)
    (h7 : decSleep sleepV kind = some (sl, lst)) (h8 : jrcV.num? = some jrc)
    (h9 : decMax cfg { s with ctx := Ctx.set s.ctx "retryCounter" (.int 0) } = .ok max) :
    retryLoop cfg fr inner fuel s =
      retryIter cfg fr inner max fuel 1 (mkBackoff kind sl lst ms jrc (decBase argsV))
        { s with ctx := Ctx.set s.ctx "retryCounter" (.int 0) } :=
  retryLoop_decodes cfg fr inner fuel s sleepV jrcV argsV name kind ms sl lst jrc max h1 h2 h3 h4 h5 h6 h7 h8 h9

/-- no `backoffArgs` (or one without `base`) ⇒ base 2; `backoffArgs: {base: b}` ⇒ `b`. -/
theorem default_base :
    (∀ cfg s, cfg.backoffArgs = none → decArgs cfg s = .ok .none) ∧ decBase .none = ⟨2, 0, false⟩ ∧
    decBase (.dict []) = ⟨2, 0, false⟩ ∧
    (∀ b x, b.num? = some x → decBase (.dict [(.str "base", b)]) = x) ∧
    OpBackoff.defaultBase = ⟨2, 0, false⟩ :=
  ⟨fun cfg s h => by simp [decArgs, h], rfl, rfl, decBase_given, rfl⟩

/-! ## 2. filters -/

/-- **Decision table of stopOn / retryOn** (`filtersSpec`, `listVerdict`): a list that is absent or a falsy
    raw value is ignored; otherwise it is formatted against the state of the failure; stopOn containing
    the name ⇒ propagate (retryOn not even formatted); else a consulted retryOn not containing the name
    ⇒ propagate; else retry. -/
theorem filters_spec (cfg : RetryCfg) (s : St) (n : String) :
    retryFilters cfg s n = filtersSpec cfg s n := retryFilters_eq_spec cfg s n

/-- stopOn contains the name ⇒ propagate, whatever retryOn is. -/
theorem filters_stopOn_hit (cfg : RetryCfg) (s : St) (n : String) (so l : Val)
    (h1 : cfg.stopOn = some so) (h2 : so.truthy = true) (h3 : fmtV s so = .ok l) (h4 : nameIn n l = .ok true) :
    retryFilters cfg s n = .ok true := by
  rw [filters_spec]; simp [filtersSpec, listVerdict, h1, h2, h3, h4, Except.map]

/-- stopOn does not stop (ignored, or does not contain the name), retryOn is consulted and does not contain
    the name ⇒ propagate. -/
theorem filters_retryOn_miss (cfg : RetryCfg) (s : St) (n : String) (ro l : Val)
    (hs : listVerdict s cfg.stopOn n = .ok none ∨ listVerdict s cfg.stopOn n = .ok (some false))
    (h1 : cfg.retryOn = some ro) (h2 : ro.truthy = true) (h3 : fmtV s ro = .ok l) (h4 : nameIn n l = .ok false) :
    retryFilters cfg s n = .ok true := by
  rw [filters_spec]
  have hr : listVerdict s cfg.retryOn n = .ok (some false) := by
    simp [listVerdict, h1, h2, h3, h4, Except.map]
  rcases hs with hs | hs <;> simp [filtersSpec, hs, hr]

/-- neither list stops ⇒ retry. -/
theorem filters_retry (cfg : RetryCfg) (s : St) (n : String)
    (hs : listVerdict s cfg.stopOn n = .ok none ∨ listVerdict s cfg.stopOn n = .ok (some false))
    (hr : listVerdict s cfg.retryOn n = .ok none ∨ listVerdict s cfg.retryOn n = .ok (some true)) :
    retryFilters cfg s n = .ok false := by
  rw [filters_spec]
  rcases hs with hs | hs <;> rcases hr with hr | hr <;> simp [filtersSpec, hs, hr]

/-- an absent or falsy list is not consulted (and not formatted). -/
theorem filters_list_ignored (s : St) (n : String) (o : Option Val)
    (h : o = none ∨ ∃ v, o = some v ∧ v.truthy = false) : listVerdict s o n = .ok none := by
  rcases h with h | ⟨v, h, hv⟩
  · simp [listVerdict, h]
  · simp [listVerdict, h, hv]

/-- a consulted list: formatted now, then membership of the name. -/
theorem filters_list_consulted (s : St) (n : String) (v l : Val) (hv : v.truthy = true)
    (hf : fmtV s v = .ok l) : listVerdict s (some v) n = (nameIn n l).map some := by
  simp [listVerdict, hv, hf]

/-- membership in a list of names is list membership of the name. -/
theorem filters_name_membership (n : String) (names : List String) :
    nameIn n (.list (names.map Val.str)) = .ok (names.contains n) := nameIn_names n names

/-- the filters read the context of the moment of the failure and nothing else of the state. -/
theorem filters_use_current_context (cfg : RetryCfg) (s s' : St) (n : String) (h : s.ctx = s'.ctx) :
    retryFilters cfg s n = retryFilters cfg s' n := retryFilters_ctx cfg s s' n h

/-! ## 3. back-off strategies -/

/-- **fixed / jitter with a list**: called with `n = 1, 2, 3, …` (the state threaded, `afterCalls`), call
    `i+1` returns the capped `l[min i (len−1)]` — the last entry repeats for ever. (`listEntry l i` is
    `l.getD (min i (l.length − 1)) 0`; `l = x :: xs` is non-empty.) -/
theorem fixed_list_closed_form (kind : BackoffKind) (s x : Num) (xs : List Num) (ms : Option Num) (jrc base : Num)
    (hk : kind = .fixed ∨ kind = .jitter) (i : Nat) :
    (baseInterval (afterCalls (mkBackoff kind s (some (x :: xs)) ms jrc base) i) (i + 1)).1 =
      capSleep ms ((x :: xs).getD (min i ((x :: xs).length - 1)) numZero) ∧
    afterCalls (mkBackoff kind s (some (x :: xs)) ms jrc base) i =
      { mkBackoff kind s (some (x :: xs)) ms jrc base with queue := (x :: xs).drop i } :=
  ⟨fixed_list_nth kind s x xs ms jrc base hk i, afterCalls_list kind s x xs ms jrc base hk i⟩

/-- the entry is really the `i`-th while `i < len`, and the last one from then on. -/
theorem fixed_list_entry (x : Num) (xs : List Num) (i : Nat) :
    (∀ h : i < (x :: xs).length, listEntry (x :: xs) i = (x :: xs)[i]) ∧
    ((x :: xs).length ≤ i → listEntry (x :: xs) i = (x :: xs).getLast (List.cons_ne_nil x xs)) := by
  refine ⟨fun h => listEntry_lt _ _ h, fun h => ?_⟩
  rw [listEntry_ge x xs i h]
  induction xs generalizing x with
  | nil => rfl
  | cons y ys ih => rw [lastOf, List.getLast_cons (List.cons_ne_nil y ys)]; exact ih y (by simp only [List.length_cons] at h ⊢; omega)

/-- **fixed / jitter with a number**: every call returns the capped number. -/
theorem fixed_scalar_closed_form (kind : BackoffKind) (s : Num) (ms : Option Num) (jrc base : Num)
    (hk : kind = .fixed ∨ kind = .jitter) (i n : Nat) :
    (baseInterval (afterCalls (mkBackoff kind s none ms jrc base) i) n).1 = capSleep ms s :=
  fixed_scalar_nth kind s ms jrc base hk i n

/-- **linear**: `cap (n · sleep)`, as a `Num` and as a rational; the callable has no state. -/
theorem linear_spec (b : BackoffState) (n : Nat) (hk : b.kind = .linear ∨ b.kind = .linearjitter) :
    baseInterval b n = (capSleep b.maxSleep ((Num.ofNat n).mul b.sleep), b) ∧
    (baseInterval b n).1.toRat = capQ (b.maxSleep.map Num.toRat) (n * b.sleep.toRat) := by
  rw [baseInterval_linear b n hk]
  refine ⟨rfl, ?_⟩
  rw [capSleep_toRat, Num.toRat_mul, Num.toRat_ofNat]

/-- **exponential**: `cap (baseⁿ · sleep)`; `base` is what `retry_loop_starts` decodes (default 2). -/
theorem exponential_spec (b : BackoffState) (n : Nat) (hk : b.kind = .exponential ∨ b.kind = .exponentialjitter) :
    baseInterval b n = (capSleep b.maxSleep ((b.base.pow n).mul b.sleep), b) ∧
    (baseInterval b n).1.toRat = capQ (b.maxSleep.map Num.toRat) (b.base.toRat ^ n * b.sleep.toRat) := by
  rw [baseInterval_exponential b n hk]
  refine ⟨rfl, ?_⟩
  rw [capSleep_toRat, Num.toRat_mul, Num.toRat_pow]

/-- `mkBackoff` keeps the arguments it is given (so the specs above are about the configured values). -/
theorem mkBackoff_fields (kind : BackoffKind) (s : Num) (ms : Option Num) (jrc base : Num) :
    (mkBackoff kind s none ms jrc base).kind = kind ∧ (mkBackoff kind s none ms jrc base).sleep = s ∧
    (mkBackoff kind s none ms jrc base).maxSleep = ms ∧ (mkBackoff kind s none ms jrc base).jrc = jrc ∧
    (mkBackoff kind s none ms jrc base).base = base := by
  rw [mkBackoff_scalar]; exact ⟨rfl, rfl, rfl, rfl, rfl⟩

/-- **cap**: no `sleepMax`, or `sleepMax = 0` ⇒ the duration itself; else the smaller of the two. -/
theorem cap_spec (d : Num) :
    capSleep none d = d ∧
    (∀ m : Num, m.isZero = true → capSleep (some m) d = d) ∧
    (∀ m : Num, m.isZero = false → capSleep (some m) d = Num.min d m) ∧
    (∀ m : Option Num, (capSleep m d).toRat = capQ (m.map Num.toRat) d.toRat) ∧
    (∀ m : Option Num, (capSleep m d).le d) := by
  refine ⟨rfl, fun m h => by simp [capSleep, h], fun m h => by simp [capSleep, h],
    fun m => capSleep_toRat m d, fun m => ?_⟩
  rw [Num.le_iff, capSleep_toRat]; exact capQ_le _ _

/-- `Num.min` is the numeric minimum w.r.t. `Num.cmp`: one of its arguments, not above either, and above
    every common lower bound; its value is the minimum of the values. -/
theorem min_spec (a b : Num) :
    (Num.min a b = a ∨ Num.min a b = b) ∧ (Num.min a b).cmp a ≠ .gt ∧ (Num.min a b).cmp b ≠ .gt ∧
    (∀ c : Num, c.cmp a ≠ .gt → c.cmp b ≠ .gt → c.cmp (Num.min a b) ≠ .gt) ∧
    (Num.min a b).toRat = Min.min a.toRat b.toRat :=
  ⟨(Num.min_is_minimum a b).1, (Num.min_is_minimum a b).2.1, (Num.min_is_minimum a b).2.2.1,
   (Num.min_is_minimum a b).2.2.2, Num.toRat_min a b⟩

/-- `Num.cmp` is the order of the rational values, and the arithmetic of `Num` is that of the values. -/
theorem num_semantics (a b : Num) :
    (a.cmp b = .lt ↔ a.toRat < b.toRat) ∧ (a.cmp b = .eq ↔ a.toRat = b.toRat) ∧
    (a.cmp b = .gt ↔ b.toRat < a.toRat) ∧
    (a.add b).toRat = a.toRat + b.toRat ∧ (a.sub b).toRat = a.toRat - b.toRat ∧
    (a.mul b).toRat = a.toRat * b.toRat :=
  ⟨Num.cmp_lt_iff a b, Num.cmp_eq_iff a b, Num.cmp_gt_iff a b, Num.toRat_add a b, Num.toRat_sub a b,
   Num.toRat_mul a b⟩

/-! ## 4. jitter -/

/-- **Jitter bounds** on the model's own comparisons: for `0 ≤ jrc ≤ 1`, `0 ≤ d`, `0 ≤ r ≤ 1`
    (`Num.le x y` is `x.cmp y ≠ .gt`): `jrc·d ≤ randomize jrc d r ≤ d`. -/
theorem jitter_bounds (jrc d r : Num)
    (hj0 : numZero.le jrc) (hj1 : jrc.le (Num.ofNat 1)) (hd : numZero.le d)
    (hr0 : numZero.le r) (hr1 : r.le (Num.ofNat 1)) :
    (jrc.mul d).le (randomize jrc d r) ∧ (randomize jrc d r).le d := by
  rw [Num.le_iff, Num.toRat_zero] at hj0 hd hr0
  rw [Num.le_iff, Num.toRat_ofNat] at hj1 hr1
  have _ := hj0
  have hb := randomize_bounds_rat jrc d r (by exact_mod_cast hj1) hd hr0 (by exact_mod_cast hr1)
  refine ⟨(Num.le_iff _ _).mpr ?_, (Num.le_iff _ _).mpr hb.2⟩
  rw [Num.toRat_mul]; exact hb.1

/-- the same in rationals, with the value spelled out: `jrc·d + (d − jrc·d)·r`. -/
theorem jitter_value (jrc d r : Num) :
    (randomize jrc d r).toRat = d.toRat * jrc.toRat + (d.toRat - d.toRat * jrc.toRat) * r.toRat :=
  randomize_toRat jrc d r

/-- **Jitter is applied to the capped duration**: for the three jitter strategies the interval is
    `randomize jrc d r` with `d` the un-jittered, already capped duration of the same attempt and `r`
    the next random number — so with the bounds above it lies in `[jrc·d, d]` for that `d`. -/
theorem jitter_applies_to_capped (b : BackoffState) (n : Nat) (r : Num) (rs : List Num)
    (hj : b.kind.isJitter = true) :
    interval b n (r :: rs) = (randomize b.jrc (baseInterval b n).1 r, (baseInterval b n).2, rs) :=
  interval_jitter b n r rs hj

theorem jitter_interval_bounds (b : BackoffState) (n : Nat) (r : Num) (rs : List Num)
    (hj : b.kind.isJitter = true)
    (hj0 : numZero.le b.jrc) (hj1 : b.jrc.le (Num.ofNat 1)) (hd : numZero.le (baseInterval b n).1)
    (hr0 : numZero.le r) (hr1 : r.le (Num.ofNat 1)) :
    (b.jrc.mul (baseInterval b n).1).le (interval b n (r :: rs)).1 ∧
    (interval b n (r :: rs)).1.le (baseInterval b n).1 := by
  rw [jitter_applies_to_capped b n r rs hj]
  exact jitter_bounds b.jrc _ r hj0 hj1 hd hr0 hr1

/-- the un-jittered duration is non-negative when sleep, base and sleepMax are (linear, exponential). -/
theorem duration_nonneg (b : BackoffState) (n : Nat)
    (hk : ¬ (b.kind = .fixed ∨ b.kind = .jitter))
    (hs : numZero.le b.sleep) (hb : numZero.le b.base) (hm : ∀ m, b.maxSleep = some m → numZero.le m) :
    numZero.le (baseInterval b n).1 := by
  rw [Num.le_iff, Num.toRat_zero] at *
  have hcap : ∀ d : ℚ, 0 ≤ d → 0 ≤ capQ (b.maxSleep.map Num.toRat) d := by
    intro d hd
    apply capQ_nonneg _ _ hd
    intro x hx
    cases hms : b.maxSleep with
    | none => simp [hms] at hx
    | some m =>
      simp [hms] at hx
      have := hm m hms
      rw [Num.le_iff, Num.toRat_zero] at this
      rw [← hx]; exact this
  cases hkind : b.kind with
  | fixed => exact absurd (Or.inl hkind) hk
  | jitter => exact absurd (Or.inr hkind) hk
  | linear =>
    rw [(linear_spec b n (Or.inl hkind)).2]
    exact hcap _ (mul_nonneg (by positivity) hs)
  | linearjitter =>
    rw [(linear_spec b n (Or.inr hkind)).2]
    exact hcap _ (mul_nonneg (by positivity) hs)
  | exponential =>
    rw [(exponential_spec b n (Or.inl hkind)).2]
    exact hcap _ (mul_nonneg (pow_nonneg hb n) hs)
  | exponentialjitter =>
    rw [(exponential_spec b n (Or.inr hkind)).2]
    exact hcap _ (mul_nonneg (pow_nonneg hb n) hs)

/-- **Only the jitter strategies draw random numbers**, exactly one per call; the callable's own state
    never depends on them. -/
theorem interval_consumes_random_only_for_jitter (b : BackoffState) (n : Nat) (rs : List Num) :
    (b.kind.isJitter = false → interval b n rs = ((baseInterval b n).1, (baseInterval b n).2, rs)) ∧
    (b.kind.isJitter = true → (interval b n rs).2.2 = rs.drop 1) ∧
    (interval b n rs).2.1 = (baseInterval b n).2 := by
  refine ⟨interval_nonjitter b n rs, fun h => ?_, interval_state b n rs⟩
  rw [interval_rnd, h]; rfl

/-! ## 5. the whole schedule (what the retry loop sleeps, and what the harness compares) -/

/-- `schedule bo rs 1 n` call by call: call `i+1` on the state the earlier calls left, with the
    `(i+1)`-th random number iff the strategy is a jitter one. -/
theorem schedule_closed_form (b : BackoffState) (rs : List Num) (n : Nat) :
    schedule b rs 1 n =
      (List.range n).map fun i =>
        (interval (afterCalls b i) (i + 1) (if b.kind.isJitter then rs.drop i else rs)).1 :=
  schedule_eq_map b rs n

/-- fixed with a list: `[cap l[0], cap l[1], …, cap l[len−1], cap l[len−1], …]`. -/
theorem schedule_fixed_list (s x : Num) (xs : List Num) (ms : Option Num) (jrc base : Num) (rs : List Num)
    (n : Nat) :
    schedule (mkBackoff .fixed s (some (x :: xs)) ms jrc base) rs 1 n =
      (List.range n).map fun i => capSleep ms (listEntry (x :: xs) i) := by
  rw [schedule_nonjitter _ _ _ (by rw [mkBackoff_list _ _ _ _ _ _ _ (Or.inl rfl)]; rfl)]
  apply List.map_congr_left
  intro i _
  exact fixed_list_nth .fixed s x xs ms jrc base (Or.inl rfl) i

/-- linear: `[cap (1·s), cap (2·s), …]`. -/
theorem schedule_linear (s : Num) (ms : Option Num) (jrc base : Num) (rs : List Num) (n : Nat) :
    schedule (mkBackoff .linear s none ms jrc base) rs 1 n =
      (List.range n).map fun i => capSleep ms ((Num.ofNat (i + 1)).mul s) := by
  rw [schedule_nonjitter _ _ _ (by rw [mkBackoff_scalar]; rfl)]
  apply List.map_congr_left
  intro i _
  rw [afterCalls_nonlist _ _ (by rw [mkBackoff_scalar]; simp), mkBackoff_scalar]
  rfl

/-- exponential: `[cap (b¹·s), cap (b²·s), …]`. -/
theorem schedule_exponential (s : Num) (ms : Option Num) (jrc base : Num) (rs : List Num) (n : Nat) :
    schedule (mkBackoff .exponential s none ms jrc base) rs 1 n =
      (List.range n).map fun i => capSleep ms ((base.pow (i + 1)).mul s) := by
  rw [schedule_nonjitter _ _ _ (by rw [mkBackoff_scalar]; rfl)]
  apply List.map_congr_left
  intro i _
  rw [afterCalls_nonlist _ _ (by rw [mkBackoff_scalar]; simp), mkBackoff_scalar]
  rfl

/-! ## 6. non-vacuity: concrete runs -/

/-- a body that records `(retryCounter in context, the step's own counter)` under `seen` and fails
    with a fresh `ValueError` while the counter is below 3. -/
def demoInner : Frame → Body := fun fr s =>
  let seen := match Ctx.get? s.ctx "seen" with | some (.list xs) => xs | _ => []
  let rc := match Ctx.get? s.ctx "retryCounter" with | some v => v | none => .none
  let s' := { s with ctx := Ctx.set s.ctx "seen" (.list (seen ++ [rc, optInt fr.retryC])) }
  match fr.retryC with
  | some c => if c < 3 then raiseNew s' "ValueError" "boom" else (s', .ok)
  | none => (s', .ok)

theorem demoInner_keepsClock : KeepsClock demoInner := by
  intro fr s
  unfold demoInner
  simp only []
  split
  · split <;> simp [raiseNew]
  · simp

/-- success at the third of at most five attempts, linear back-off of 2 s:
    counters 1, 2, 3 (in the context and on the step), sleeps 2 s and 4 s, none after the success. -/
example :
    let r := retryLoop { max := some (.int 5), sleep := .int 2, backoff := some (.str "linear") } {} demoInner 10 {}
    r.2 = .ok ∧ r.1.sleeps = [.int 2, .int 4] ∧
    Ctx.get? r.1.ctx "seen" = some (.list [.int 1, .int 1, .int 2, .int 2, .int 3, .int 3]) := by
  decide +kernel

/-- `max: 2`: the second attempt's exception object (id 1, the first was id 0) propagates after one sleep. -/
example :
    let r := retryLoop { max := some (.int 2), sleep := .list [.int 7, .int 9] } {} demoInner 10 {}
    r.2 = .err ⟨1, "ValueError", "boom"⟩ false ∧ r.1.sleeps = [.int 7] := by
  decide +kernel

/-- stopOn names the error: it propagates from the first attempt, nothing sleeps. -/
example :
    let r := retryLoop { max := some (.int 5), sleep := .int 2, stopOn := some (.list [.str "KeyError", .str "ValueError"]) }
      {} demoInner 10 {}
    r.2 = .err ⟨0, "ValueError", "boom"⟩ false ∧ r.1.sleeps = [] ∧
    Ctx.get? r.1.ctx "seen" = some (.list [.int 1, .int 1]) := by
  decide +kernel

/-- a non-empty retryOn that does not name the error: likewise; an empty one is ignored. -/
example :
    (retryLoop { max := some (.int 5), sleep := .int 2, retryOn := some (.list [.str "KeyError"]) } {} demoInner 10 {}).2
      = .err ⟨0, "ValueError", "boom"⟩ false ∧
    (retryLoop { max := some (.int 5), sleep := .int 2, retryOn := some (.list []) } {} demoInner 10 {}).2 = .ok ∧
    (retryLoop { max := some (.int 5), sleep := .int 2, retryOn := some (.list [.str "ValueError"]) } {} demoInner 10 {}).2
      = .ok := by
  decide +kernel

/-- exponential with no `backoffArgs`: base 2 — sleeps 2·3, 4·3 capped at 10. -/
example :
    (retryLoop { sleep := .int 3, backoff := some (.str "exponential"), sleepMax := some (.int 10) } {} demoInner 10 {}).1.sleeps
      = [.int 6, .flt 10 0] := by
  decide +kernel

/-- the hypotheses of the closed forms hold for this body: attempts 1 and 2 are `Retried`, attempt 3 succeeds. -/
example : ∀ i, i < 2 → Retried {} {} demoInner (mkBackoff .fixed ⟨1, 0, false⟩ none none numZero ⟨2, 0, false⟩) {} i := by
  intro i hi
  have : i = 0 ∨ i = 1 := by omega
  rcases this with h | h <;> subst h
  · exact ⟨⟨0, "ValueError", "boom"⟩, false, by decide +kernel, by decide +kernel⟩
  · exact ⟨⟨1, "ValueError", "boom"⟩, false, by decide +kernel, by decide +kernel⟩

/-- fixed list `[1, 2, 5/2]` capped at 2: `1, 2, 2, 2, 2`; jitter on linear 3/2 with jrc 1/2 and fractions 1/4, 1:
    15/16 ∈ [3/4, 3/2] and 3 ∈ [3/2, 3]. -/
example :
    schedule (mkBackoff .fixed numZero (some [⟨1, 0, false⟩, ⟨2, 0, false⟩, ⟨5, 1, true⟩]) (some ⟨2, 0, false⟩)
      numZero ⟨2, 0, false⟩) [] 1 5
      = [⟨1, 0, false⟩, ⟨2, 0, false⟩, ⟨2, 0, false⟩, ⟨2, 0, false⟩, ⟨2, 0, false⟩] ∧
    schedule (mkBackoff .linearjitter ⟨3, 1, true⟩ none none ⟨1, 1, true⟩ ⟨2, 0, false⟩)
      [⟨1, 2, true⟩, ⟨1, 0, false⟩] 1 2 = [⟨15, 4, true⟩, ⟨12, 2, true⟩] := by
  decide +kernel

/-- the hypotheses of `jitter_bounds` are satisfiable (jrc = 1/2, d = 3, r = 1/4 → 15/8 ∈ [3/2, 3]). -/
example :
    numZero.le ⟨1, 1, true⟩ ∧ Num.le ⟨1, 1, true⟩ (Num.ofNat 1) ∧ numZero.le ⟨3, 0, false⟩ ∧
    numZero.le ⟨1, 2, true⟩ ∧ Num.le ⟨1, 2, true⟩ (Num.ofNat 1) ∧
    randomize ⟨1, 1, true⟩ ⟨3, 0, false⟩ ⟨1, 2, true⟩ = ⟨15, 3, true⟩ := by
  refine ⟨?_, ?_, ?_, ?_, ?_, ?_⟩ <;> decide +kernel

end Pypyr.C06
